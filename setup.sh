#!/bin/bash
# Build the framework from files on disk only (offline).
set -e
cd "$(dirname "$0")"
mkdir -p build evidence
(cd lean && lake build Depccg driver)
if [ -f harness/build_native.py ]; then /venv/bin/python harness/build_native.py; fi
echo setup-ok
