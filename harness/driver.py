"""Run the compiled Lean driver on a batch of protocol lines."""
import os
import subprocess

VERIF = os.path.dirname(os.path.dirname(os.path.abspath(__file__)))
DRIVER = os.environ.get('VERIF_DRIVER') or os.path.join(VERIF, 'lean', '.lake', 'build', 'bin', 'driver')


class DriverError(Exception):
    pass


def run_lines(lines, timeout=600):
    """lines: list[str] without newlines; returns list[str] of equal length."""
    if not lines:
        return []
    for l in lines:
        assert '\n' not in l
    data = ('\n'.join(lines) + '\n').encode('utf-8')
    p = subprocess.run([DRIVER], input=data, stdout=subprocess.PIPE, stderr=subprocess.PIPE,
                       timeout=timeout)
    if p.returncode != 0:
        raise DriverError(f'driver exit {p.returncode}: {p.stderr.decode()[:500]}')
    out = p.stdout.decode('utf-8').split('\n')
    if out and out[-1] == '':
        out.pop()
    if len(out) != len(lines):
        raise DriverError(f'driver answered {len(out)} lines for {len(lines)} requests')
    return out
