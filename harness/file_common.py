"""File-level reading (C08 C20): what depccg prints for a whole batch (`to_string`: one `ID=…` line and one
tree line per tree) or a plain file of bank lines is written to disk and read by the real file readers
(`read_auto`, `read_ptb`, `read_ccgbank`), next to the model readers of lean/Depccg/Read/File.lean
(theorems `auto_file_roundtrip`, `ptb_file_roundtrip`, `ja_file_roundtrip`).

Oracle, from the properties: the file yields exactly one result per printed tree, in order, the n-best
trees of a sentence under that sentence's `ID` line, each with the words that were written."""
import os
import tempfile

import render_common as R
import tree_common as T
import wire
from wire import enc_str
from depccg import lang as dlang
from depccg.utils import denormalize, normalize

# characters that end a line for `str.splitlines()` but not for a text file read line by line
ODD_BREAKS = ['a\x0bb', 'x\x0c', '\x1cq', 'p\x1dq', 'u\x1ev', 'n\x85m', 'l\u2028s', 'p\u2029s']


def enc_results(rs):
    return 'ok ' + str(len(rs)) + ''.join(' || ' + enc_str(r.name) + ' ' + T.enc_read(r.tree, r.tokens)[3:] for r in rs)


def spoil(rng, batch, p):
    """put one of the odd line-break characters into some words"""
    for sent in batch:
        for st in sent:
            for leaf in st.tree.leaves:
                if rng.random() < p:
                    leaf.token['word'] = rng.choice(ODD_BREAKS)


def file_suite(ctx, fmt, count, lang_of=lambda i: 'en'):
    """-> cases for compare_with_model"""
    from depccg.tools.reader import read_auto, read_ptb
    from depccg.tools.ja.reader import read_ccgbank
    from depccg.printer.ja import ja_of
    from depccg.tools.ja.reader import combinators as ja_symbols

    def nodes(t):
        if not t.is_leaf:
            yield t
            for c in t.children:
                yield from nodes(c)
    rng = ctx.rng
    cases = []
    tmpdir = tempfile.mkdtemp(prefix='verif_file_')
    path = os.path.join(tmpdir, 'f.txt')
    n_ok = 0
    try:
        for i in range(count):
            lang = lang_of(i)
            batch = R.make_batch(rng, lang, n_sent=rng.randint(1, 3), licensed_only=(i % 3 != 2), awkward=rng.choice([0.0, 0.2]),
                                 unispace=rng.choice([0.0, 0.2]))
            if fmt == 'ja':
                for sent in batch:
                    for st in sent:
                        for leaf in st.tree.leaves:
                            if any(c in leaf.token['word'] for c in '/{} '):
                                leaf.token['word'] = 'x'
            if i % 4 == 1:
                spoil(rng, batch, 0.3)
            flat = [(si + 1, st) for si, sent in enumerate(batch) for st in sent]
            # the domain of the file theorems: `TextProps.PlainWord` values (non-empty, no blank / tab / CR / LF / backslash)
            domain = all(v != '' and not any(ch in ' \t\n\r\\' for ch in v) for _, st in flat for tok in st.tree.tokens for v in tok.values())
            dlang.set_global_language_to(lang)
            try:
                if fmt == 'ja':
                    text = '\n'.join(ja_of(st.tree) for _, st in flat) + ('\n' if i % 2 else '')
                else:
                    text = R.render(R.clone_batch(batch), fmt, lang) + '\n'
                    if i % 5 == 2:
                        # two runs appended to one file (`>> out`): every `print_` ends its text with an empty line
                        batch2 = R.make_batch(rng, lang, n_sent=rng.randint(1, 2), licensed_only=True, awkward=0.0)
                        text = text + R.render(R.clone_batch(batch2), fmt, lang) + '\n'
                        flat = flat + [(si + 1, st) for si, sent in enumerate(batch2) for st in sent]
                    if i % 7 == 3:
                        # a file without its ID lines (hand-made / other tools)
                        text = '\n'.join(l for l in text.split('\n') if not l.startswith('ID')) + '\n'
            except Exception:
                continue
            finally:
                dlang.set_global_language_to('en')
            with open(path, 'w', encoding='utf-8', newline='\n') as f:
                f.write(text)
            reader = {'auto': read_auto, 'ptb': read_ptb, 'ja': read_ccgbank}[fmt]
            dlang.set_global_language_to(lang)
            try:
                rs = list(reader(path))
                got = enc_results(rs)
            except (UnboundLocalError, NameError):
                rs, got = None, 'err RuntimeError'          # `name` referenced before any ID line
            except Exception as e:
                rs, got = None, 'err ' + wire.err_name(e)
            finally:
                dlang.set_global_language_to('en')
            ctx.evaluations += 1
            desc = {'format': fmt, 'lang': lang, 'text': text[:1500]}
            op = {'auto': f'read_auto_file {lang}', 'ptb': f'read_ptb_file {lang}', 'ja': 'read_ja_file'}[fmt]
            cases.append((op.split(' ')[0], f'{op} {enc_str(text)}', got, desc))
            has_ids = text.startswith('ID')
            if not domain or (fmt == 'auto' and not has_ids):
                continue
            if fmt == 'ja' and any(n.op_symbol not in ja_symbols for _, st in flat for n in nodes(st.tree)):
                continue       # the bank reader has a fixed set of rule symbols (OTHER is not one of them)
            if fmt == 'ptb' and any(w.startswith('(') or w.endswith(')') for _, st in flat for w in
                                    (denormalize(tok['word']) for tok in st.tree.tokens)):
                continue       # known finding D12
            # ---- oracle ---------------------------------------------------------------------------------
            if rs is None:
                ctx.fail(f'a {fmt} file written by depccg cannot be read back ({got})', desc, fingerprint=['file-read', fmt])
                continue
            if len(rs) != len(flat):
                ctx.fail(f'a {fmt} file with {len(flat)} trees reads back as {len(rs)} results', desc, fingerprint=['file-count', fmt])
                continue
            bad = None
            for k, ((sno, st), r) in enumerate(zip(flat, rs)):
                # AUTO / PTB write the escaped spelling of bracket tokens, the Japanese bank format the plain one
                want_words = [denormalize(tok['word']) if fmt != 'ja' else normalize(tok['word']) for tok in st.tree.tokens]
                got_words = [tok.get('word', tok.get('surf')) for tok in r.tokens]
                if got_words != want_words:
                    bad = f'result {k}: words {got_words} for written words {want_words}'
                    break
                if fmt != 'ja' and has_ids and not r.name.startswith(f'ID={sno},'):
                    bad = f'result {k} is named {r.name!r}, it belongs to sentence {sno}'
                    break
            if bad:
                ctx.fail(f'{fmt} file: ' + bad, desc, fingerprint=['file-roundtrip', fmt])
            else:
                n_ok += 1
                ctx.nontrivial_add(('file', fmt, text[:300]))
    finally:
        if os.path.exists(path):
            os.remove(path)
        os.rmdir(tmpdir)
    ctx.extra[f'files_read_back_{fmt}'] = n_ok
    return cases
