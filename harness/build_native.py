"""Compile harness/shim.cpp against /repo/depccg/parsing.h and translate parsing.pyx.
Rebuilt whenever the sources changed (hash of inputs)."""
import hashlib
import os
import subprocess
import sys

HERE = os.path.dirname(os.path.abspath(__file__))
VERIF = os.path.dirname(HERE)
REPO = os.environ.get('VERIF_REPO', '/repo')
BUILD = os.path.join(VERIF, 'build')


class NativeError(Exception):
    pass


def _hash(paths):
    h = hashlib.sha256()
    for p in paths:
        with open(p, 'rb') as f:
            h.update(f.read())
    return h.hexdigest()


def build_shim(sanitize=False):
    os.makedirs(BUILD, exist_ok=True)
    header = os.path.join(REPO, 'depccg', 'parsing.h')
    src = os.path.join(HERE, 'shim.cpp')
    tag = _hash([header, src])[:16] + ('-asan' if sanitize else '')
    out = os.path.join(BUILD, f'shim-{tag}.so')
    if os.path.exists(out):
        return out
    if sanitize:
        cmd = ['clang++', '-O1', '-g', '-std=c++11', '-shared', '-fPIC', '-fsanitize=address,undefined',
               '-fno-omit-frame-pointer', '-I', os.path.join(REPO, 'depccg'), src, '-o', out + '.tmp']
    else:
        cmd = ['g++', '-O1', '-std=c++11', '-shared', '-fPIC', '-w', '-I', os.path.join(REPO, 'depccg'), src, '-o', out + '.tmp']
    p = subprocess.run(cmd, stdout=subprocess.PIPE, stderr=subprocess.STDOUT)
    if p.returncode != 0:
        raise NativeError('shim does not compile:\n' + p.stdout.decode()[-3000:])
    os.replace(out + '.tmp', out)
    # drop older builds
    for fn in os.listdir(BUILD):
        if fn.startswith('shim-') and fn.endswith('.so') and fn != os.path.basename(out) and ('-asan' in fn) == sanitize:
            try:
                os.remove(os.path.join(BUILD, fn))
            except OSError:
                pass
    return out


def translate_pyx():
    import pyx2py
    src = os.path.join(REPO, 'depccg', 'parsing.pyx')
    out = os.path.join(BUILD, '_parsing_gen.py')
    text = pyx2py.translate(open(src, encoding='utf-8').read())
    os.makedirs(BUILD, exist_ok=True)
    with open(out + '.tmp', 'w', encoding='utf-8') as f:
        f.write(text)
    os.replace(out + '.tmp', out)
    return out


if __name__ == '__main__':
    sys.path.insert(0, HERE)
    print(build_shim())
    print(translate_pyx())
