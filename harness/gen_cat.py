"""Category generators (DESIGN.md §3.5): exhaustive small universes over both feature
systems, shipped inventories, random large, pattern instantiation with perturbation."""
import itertools
from depccg.cat import Category, Atom, Functor, UnaryFeature, TernaryFeature
import tables

EN_BASES = ['S', 'NP', 'N', 'PP', ',', 'conj']
EN_FEATS = [None, 'X', 'nb', 'dcl', 'b']
SLASHES = ['/', '\\', '|']
PUNCT_BASES = [',', '.', ';', ':', 'LRB', 'RRB', 'conj', '*START*', '*END*']


def en_atoms(bases=EN_BASES, feats=EN_FEATS):
    out = []
    for b in bases:
        for f in feats:
            if b in (',', 'conj') and f is not None:
                continue
            out.append(Atom(b, UnaryFeature(f)))
    return out


def ja_feats(small=False):
    out = []
    mods = ['nm', 'adn', 'X1'] if small else ['nm', 'adn', 'adv', 'X1']
    forms = ['base', 'X2']
    fins = ['f', 'X3'] if small else ['f', 't', 'X3']
    for m in mods:
        for fo in forms:
            for fi in fins:
                out.append(TernaryFeature(('mod', m), ('form', fo), ('fin', fi)))
    cases = ['ga', 'X1'] if small else ['ga', 'o', 'nc', 'X1']
    for c in cases:
        for m in (['nm', 'X2'] if small else ['nm', 'adv', 'X2']):
            for fi in ['f', 'X3']:
                out.append(TernaryFeature(('case', c), ('mod', m), ('fin', fi)))
    return out


def ja_feats_odd():
    """three-part features outside the treebank's key order: permuted pairs, repeated keys
    (values the constructor and the text reader accept like any other)"""
    import itertools
    out = []
    for f in ja_feats(small=True)[::3]:
        kvs = [f.kv1, f.kv2, f.kv3]
        for perm in itertools.permutations(kvs):
            out.append(TernaryFeature(*perm))
        out.append(TernaryFeature(kvs[0], kvs[0], kvs[2]))
        out.append(TernaryFeature(kvs[0], kvs[2], kvs[2]))
        out.append(TernaryFeature(kvs[2], kvs[0], kvs[0]))
    return out


def ja_atoms(small=False):
    out = []
    for f in ja_feats(small):
        base = 'S' if f.kv1[0] == 'mod' else 'NP'
        out.append(Atom(base, f))
    return out


def universe(atoms, max_atoms, slashes=SLASHES):
    """all categories with at most `max_atoms` atoms"""
    by_size = {1: list(atoms)}
    for n in range(2, max_atoms + 1):
        cur = []
        for k in range(1, n):
            for l in by_size[k]:
                for r in by_size[n - k]:
                    for s in slashes:
                        cur.append(Functor(l, s, r))
        by_size[n] = cur
    out = []
    for n in range(1, max_atoms + 1):
        out += by_size[n]
    return out


def random_cat(rng, atoms, max_depth=3, slashes=SLASHES, p_atom=0.35):
    if max_depth == 0 or rng.random() < p_atom:
        return rng.choice(atoms)
    return Functor(random_cat(rng, atoms, max_depth - 1, slashes, p_atom), rng.choice(slashes),
                   random_cat(rng, atoms, max_depth - 1, slashes, p_atom))


_parsed = {}


def shipped(lang):
    if lang not in _parsed:
        _parsed[lang] = [Category.parse(s) for s in tables.shipped_strings(lang)]
    return _parsed[lang]


def inventory(variant):
    return [Category.parse(s) for s in tables.load(tables.VARIANTS[variant]['targets'])]


def subcats(c):
    yield c
    if c.is_functor:
        yield from subcats(c.left)
        yield from subcats(c.right)


def atoms_of(c):
    if c.is_functor:
        return atoms_of(c.left) + atoms_of(c.right)
    return [c]


def size(c):
    return len(atoms_of(c))


def map_atoms(c, fn):
    """rebuild c with fn applied to each atom, left to right, fn(index, atom)"""
    counter = [0]

    def rec(x):
        if x.is_functor:
            l = rec(x.left)
            r = rec(x.right)
            return Functor(l, x.slash, r)
        i = counter[0]
        counter[0] += 1
        return fn(i, x)
    return rec(c)


def perturb(rng, c, feats, slashes=SLASHES):
    """change one feature or one slash of c"""
    n = size(c)
    kind = rng.random()
    if kind < 0.7 or not c.is_functor:
        k = rng.randrange(n)
        f = rng.choice(feats)
        # punctuation atoms never carry a feature (their text could not be read back)
        return map_atoms(c, lambda i, a: Atom(a.base, f) if (i == k and a.base not in PUNCT_BASES) else a)
    # flip one slash
    nodes = []

    def count(x):
        if x.is_functor:
            nodes.append(x)
            count(x.left)
            count(x.right)
    count(c)
    target = rng.randrange(len(nodes))
    idx = [0]

    def rec(x):
        if not x.is_functor:
            return x
        me = idx[0]
        idx[0] += 1
        l = rec(x.left)
        r = rec(x.right)
        s = x.slash
        if me == target:
            s = rng.choice([t for t in slashes if t != s])
        return Functor(l, s, r)
    return rec(c)


def instantiate(rng, pattern, binding, pool, slashes=('/', '\\')):
    """instantiate a rule pattern (Category with single-letter atoms as variables): each
    variable gets a category from `binding` (filled on demand from pool); '|' becomes a
    random concrete slash"""
    def rec(p):
        if p.is_functor:
            s = p.slash
            if s == '|':
                s = rng.choice(slashes)
            return Functor(rec(p.left), s, rec(p.right))
        if p.base not in binding:
            binding[p.base] = rng.choice(pool)
        return binding[p.base]
    return rec(pattern)


SPECIAL_EN = ['NP[conj]', 'S[dcl]\\NP[conj]', 'N[conj]', 'N[conj]/N[conj]', '(S\\NP)/NP[conj]', 'S[em]\\S[em]', 'conj', ',', '.',
              'LRB', 'NP[nb]/N', 'S[X]/(S[X]\\NP)', '(S[X]\\NP)\\((S[X]\\NP)/NP)', 'S|NP', 'N[num]', 'S[dcl]\\S[conj]']

_tree_cats = {}


def tree_cats(lang):
    """categories for arbitrary trees: the inventory plus spellings that sit on known edges
    (a final `[conj]` feature, punctuation atoms, `|`, variables)"""
    if lang not in _tree_cats:
        cats = list(inventory(lang))
        if lang == 'en':
            cats += [Category.parse(s) for s in SPECIAL_EN] * 6
        _tree_cats[lang] = cats
    return _tree_cats[lang]


_deep = {}


def deep_pool(lang, rng, n=400):
    """bindings for pattern variables that are themselves complex: inventory categories with at least
    three atoms (incl. functors whose argument is a functor in non-final position) and random ones"""
    if lang not in _deep:
        inv = [c for c in inventory(lang) if 3 <= size(c) <= 7]
        _deep[lang] = inv
    base = _deep[lang]
    atoms = en_atoms() if lang == 'en' else ja_atoms()
    extra = [random_cat(rng, atoms, 3, slashes=['/', '\\'], p_atom=0.3) for _ in range(n // 2)]
    return rng.sample(base, min(len(base), n // 2)) + [c for c in extra if size(c) >= 3]
