"""The command line itself: depccg.argparse.parse_args + depccg.__main__.main run in-process on generated
score matrices. Only the neural supertagger is replaced (it is not installed here): `load_model` hands
out a tagger that returns the scores of the generated problem, and `allennlp.common.params.Params` is a
reader of the jsonnet subset the shipped config files use. Everything else is the real code: option
parsing and defaults (argparse.py), option plumbing (__main__.py), config loading (allennlp/utils.py
read_params: seen rules, unary rules), annotate_XX / Token.of_piped, depccg.parsing.run, print_.

Oracles (written from C16 / C10 / C11): the printed AUTO records are decoded by the independent reader
of harness/decoders.py; every leaf category must be an admitted supertag under the options GIVEN ON THE
COMMAND LINE, a sentence has at most --nbest records, a sentence longer than --max-length is the failure
placeholder. Differential: the same options passed to depccg.parsing.run directly must give the same text.
"""
import contextlib
import functools
import io
import os
import sys
import tempfile

import numpy

import decoders as D
import glue_checks
import glue_common as G
import grammar_common
import native
import search_common as S
import tables
from depccg.cat import Category
from depccg.types import ScoringResult, Token

_main = {}


class FakeParams(object):
    """`allennlp.common.params.Params` for the shipped config files: `from_file(path)` + `pop(key)`"""

    def __init__(self, d):
        self.d = d

    @classmethod
    def from_file(cls, path):
        name = os.path.basename(str(path))
        variant = {'config_en.jsonnet': 'en', 'config_ja.jsonnet': 'ja', 'config_rebank.jsonnet': 'en_rebank'}[name]
        v = tables.VARIANTS[variant]
        return cls({'unary_rules': tables.load(v['unary']), 'seen_rules': tables.load(v['seen']),
                    'cat_dict': tables.load(v['cat_dict']) if v['cat_dict'] else {}, 'targets': tables.load(v['targets'])})

    def pop(self, key):
        return self.d.pop(key)


class FakeConfig(object):
    def __init__(self, config):
        self.config = config
        self.semantic_templates = None


class FakeTagger(object):
    def __init__(self, scores, categories):
        self.scores = scores
        self.categories = categories
        self.seen_words = None

    def predict_doc(self, words):
        self.seen_words = words
        return list(self.scores), list(self.categories)


def main_module():
    if not _main:
        native.setup()
        import depccg.allennlp.utils as U
        U.Params = FakeParams
        import depccg.__main__ as M
        import depccg.argparse as A
        _main.update(M=M, A=A)
    return _main['M'], _main['A']


def run_cli(lang, flags, lines, tagger):
    """-> (stdout text or None, exception or None)"""
    M, A = main_module()
    tmp = tempfile.NamedTemporaryFile('w', suffix='.txt', delete=False, encoding='utf-8')
    tmp.write('\n'.join(lines) + '\n')
    tmp.close()
    cfg = os.path.join(tables.MODELS, 'config_en.jsonnet' if lang == 'en' else 'config_ja.jsonnet')
    old_load, old_argv = M.load_model, sys.argv
    M.load_model = lambda model, gpu: (tagger, FakeConfig(cfg))
    sys.argv = ['depccg', lang, '--input', tmp.name, '--silent'] + list(flags)
    out = io.StringIO()
    try:
        with contextlib.redirect_stdout(out), contextlib.redirect_stderr(io.StringIO()):
            A.parse_args(M.main)
        return out.getvalue(), None
    except SystemExit as e:
        return None, e
    except Exception as e:
        return None, e
    finally:
        M.load_model, sys.argv = old_load, old_argv
        os.unlink(tmp.name)
        from depccg import lang as dlang
        dlang.set_global_language_to('en')


def cli_case(rng, lang, fmt=None, many=False, focus=None, long_mix=False):
    """a document over the real grammar of `lang`, beam / n-best / length options, the flags for them;
    long_mix: --max-length is the length of the shortest sentence, so that over-long sentences stand next to
    ordinary ones in one document"""
    m = rng.randint(21, 24) if many else (rng.randint(2, 4) if long_mix else rng.randint(1, 3))
    base, sents, cats, root_cats, _bf, _uf = glue_checks.full_stack_problem(rng, lang, m)
    forced_len = None
    if long_mix:
        lens = [p.n for p, _ in sents]
        if len(set(lens)) > 1:
            forced_len = min(lens)
    opts = dict(nbest=rng.choice([1, 1, 2, 3]), pruning=rng.choice([1, 2, 3, 50, 0, len(cats)]), penalty=rng.choice([0, 6, 13]),
                use_beta=rng.random() < 0.5, beta=rng.choice([0.5, 0.1, 0.001, 1.0, 2.0]), max_length=rng.choice([250, 250, 3]),
                procs=rng.randint(1, 3), max_step=3000)
    if forced_len is not None:
        opts['max_length'] = forced_len
    if focus == 'nbest':
        # more parses asked for than tags admitted per word: the n-best list is limited by the derivations only
        opts.update(nbest=rng.choice([3, 4, 5, 8]), pruning=rng.choice([2, 2, 3]), use_beta=False,
                    max_length=250 if forced_len is None else forced_len)
    groups = [['--nbest', str(opts['nbest'])], ['--pruning-size', str(opts['pruning'])], ['--unary-penalty', repr(opts['penalty'] / S.SCALE)],
              ['--beta', repr(opts['beta'])], ['--max-length', str(opts['max_length'])], ['--max-step', str(opts['max_step'])],
              ['--num-processes', str(opts['procs'])], ['--root-cats', '|'.join(str(c) for c in root_cats)], ['--format', fmt or 'auto']]
    if not opts['use_beta']:
        groups.append(['--disable-beta'])
    if lang == 'ja':
        groups.append(['--pre-tokenized'])
    rng.shuffle(groups)         # options may come in any order
    flags = [x for g in groups for x in g]
    for p, _ in sents:
        p.nbest, p.pruning, p.penalty, p.use_beta, p.beta, p.max_step = (opts['nbest'], opts['pruning'], opts['penalty'],
                                                                            opts['use_beta'], opts['beta'], opts['max_step'])
    if len(sents) >= 2 and rng.random() < 0.35:
        # the same sentence twice, scored differently (a tagger sees different contexts): every occurrence is
        # parsed from its own matrices
        src, _ = sents[0]
        dup = S.Problem.from_json(src.to_json())
        dup.tags = [rng.sample(row, len(row)) for row in src.tags]
        dup.deps = [rng.sample(row, len(row)) for row in src.deps]
        sents[1] = (dup, sents[0][1])
    piped = lang == 'en' and rng.random() < 0.3
    odd = ['-LRB-', '-RRB-', '(', ')', '-LSB-', '[', 'a<b', '&', "it's", 'naïve', '彼', 'ID=4711', '2,000', '-', '--']
    lines, doc = [], []
    same_words = {}
    for si, (p, toks) in enumerate(sents):
        key = id(toks)
        if key in same_words:
            words = same_words[key]
        else:
            words = [(rng.choice(odd) if rng.random() < 0.15 else f'w{si}x{i}') for i in range(p.n)]
            same_words[key] = words
        if piped:
            lines.append(' '.join(f'{w}|NN|O' for w in words))
            doc.append([Token.of_piped(f'{w}|NN|O') for w in words])
        else:
            lines.append(' '.join(words))
            doc.append([Token.of_word(w) for w in words])
    if piped:
        flags += ['--input-format', 'POSandNERtagged']
    scores = [G.scoring(p) for p, _ in sents]
    return dict(lang=lang, sents=sents, cats=cats, roots=root_cats, opts=opts, flags=flags, lines=lines, doc=doc, scores=scores,
                fmt=fmt or 'auto', piped=piped)


def api_text(case):
    """the same options given to depccg.parsing.run directly, rendered by to_string"""
    from depccg.grammar import en, ja
    from depccg.printer import to_string
    from depccg import lang as dlang
    lang, o = case['lang'], case['opts']
    mod = en if lang == 'en' else ja
    bfun = functools.partial(mod.apply_binary_rules, seen_rules=grammar_common.seen_set(lang))
    ufun = functools.partial(mod.apply_unary_rules, unary_rules=grammar_common.unary_table(lang))
    dlang.set_global_language_to(lang)
    try:
        res = native.setup()['parsing'].run(case['doc'], [ScoringResult(s.tag_scores.copy(), s.dep_scores.copy()) for s in case['scores']],
                                            list(case['cats']), list(case['roots']), bfun, ufun,
                                            unary_penalty=o['penalty'] / S.SCALE, nbest=o['nbest'], pruning_size=o['pruning'], beta=o['beta'],
                                            use_beta=o['use_beta'], max_length=o['max_length'], max_step=o['max_step'], processes=o['procs'])
        return to_string(res, format=case['fmt']) + '\n'
    finally:
        dlang.set_global_language_to('en')


MODEL_FORMATS = ('auto', 'auto_extended', 'conll', 'ptb', 'deriv', 'ja', 'prolog', 'json', 'html', 'xml', 'jigg_xml')


def model_line(case):
    """the protocol line that makes the Lean model of the whole program (Cli.mainText: tokens from the
    input lines, root categories from --root-cats, tagger categories parsed, parsing.run with chunking,
    print_) produce the text"""
    from wire import enc_str
    o, lang = case['opts'], case['lang']
    parts = ['cli', lang, 'ship_' + lang, 'ship_' + lang, (case['fmt'] if case['fmt'] not in ('prolog', 'jigg_xml') else case['fmt'] + '_' + lang),
             '1' if case['piped'] else '0',
             enc_str('|'.join(str(c) for c in case['roots'])), str(o['penalty']), str(o['pruning']), str(o['nbest']), str(o['max_step']),
             str(o['max_length']), str(o['procs']), str(len(case['lines']))] + [enc_str(l) for l in case['lines']]
    parts += [str(len(case['cats']))] + [enc_str(str(c)) for c in case['cats']]
    parts.append(str(len(case['sents'])))
    for p, _ in case['sents']:
        parts.append(str(p.n))
        for row in p.tags:
            parts += [str(v) for v in row]
        for row in p.deps:
            parts += [str(v) for v in row]
        if p.use_beta:
            parts.append('1')
            for row in S.passes_table(p):
                parts += [str(v) for v in row]
        else:
            parts.append('0')
    return ' '.join(parts)


def esc(word):
    """independent statement of the escaped spelling of the AUTO / PTB formats"""
    table = {'(': '-LRB-', ')': '-RRB-', '{': '-LCB-', '}': '-RCB-', '[': '-LSB-', ']': '-RSB-'}
    if word in table:
        return table[word]
    return word.replace('>', '-RAB-').replace('<', '-LAB-')


def oracle_auto(case, text):
    """None or a reason, from the printed AUTO records alone"""
    o = case['opts']
    recs = D.split_records(text)
    by_sent = {}
    for n, body in recs:
        by_sent.setdefault(n, []).append(body)
    if sorted(by_sent) != list(range(1, len(case['sents']) + 1)):
        return f'records are numbered {sorted(by_sent)} for {len(case["sents"])} sentences'
    # the scores of the headers, per sentence
    import re
    scores_of = {}
    for line in text.split('\n'):
        m = re.match(r'^ID=(\d+), log probability=(\S+)$', line)
        if m:
            scores_of.setdefault(int(m.group(1)) - 1, []).append(float(m.group(2)))
    seen_bodies = {si: [] for si in range(len(case['sents']))}
    ids = {}
    for j, c in enumerate(case['cats']):
        ids.setdefault(str(c), j)
    for si, (p, _) in enumerate(case['sents']):
        bodies = by_sent[si + 1]
        sc = scores_of.get(si, [])
        if len(sc) != len(bodies):
            return f'sentence {si + 1}: {len(sc)} header lines for {len(bodies)} trees'
        if any(a < b for a, b in zip(sc, sc[1:])):
            return f'sentence {si + 1}: the records are not in non-increasing score order: {sc}'
        # (two different derivations may print the same AUTO line: the format does not carry rule labels)
        if len(bodies) > max(o['nbest'], 1):
            return f'sentence {si + 1}: {len(bodies)} records for --nbest {o["nbest"]}'
        admitted = S.admitted_tags(p)
        for body in bodies:
            tree = D.read_auto(body)
            leaves = []

            def walk(t):
                if t[0] == 'L':
                    leaves.append(t)
                else:
                    for k in t[-1]:
                        walk(k)
            walk(tree)
            failed = sc[len(seen_bodies[si])] == float('-inf')      # the failure placeholder is the record with score -inf
            seen_bodies[si].append(body)
            if p.n > o['max_length'] and not failed:
                return f'sentence {si + 1} has {p.n} words, more than --max-length {o["max_length"]}, but was parsed'
            if failed:
                continue
            if len(leaves) != p.n:
                return f'sentence {si + 1}: {len(leaves)} leaves for {p.n} words'
            if [l[2] for l in leaves] != [esc(t['word']) for t in case['doc'][si]]:
                return (f'sentence {si + 1}: the leaves carry the words {[l[2] for l in leaves]}, the input line has '
                        f'{[t["word"] for t in case["doc"][si]]} (escaped spelling expected)')
            if tree[1] not in [str(c) for c in case['roots']]:
                return f'sentence {si + 1}: root category {tree[1]} is not one of --root-cats'
            # C09: the printed score is the model score of the printed tree (heads from the printed head flags)
            counter = [0]

            def rescore(t):
                if t[0] == 'L':
                    i = counter[0]
                    counter[0] += 1
                    return p.tags[i][ids[t[1]]], i
                kids = t[-1]
                if len(kids) == 1:
                    s0, h0 = rescore(kids[0])
                    return s0 - p.penalty, h0
                (sl, hl), (sr, hr) = rescore(kids[0]), rescore(kids[1])
                head, child = (hl, hr) if t[3] else (hr, hl)
                return sl + sr + p.deps[child][head + 1], head
            try:
                s0, h0 = rescore(tree)
                want = (s0 + p.deps[h0][0]) / S.SCALE
                got = sc[len(seen_bodies[si]) - 1]
                if abs(got - want) > 1e-6:
                    return (f'sentence {si + 1}: the header says log probability={got}, the printed tree scores {want} under the scores '
                            f'and --unary-penalty given')
            except KeyError:
                pass
            for i, leaf in enumerate(leaves):
                ok = any(str(case['cats'][j]) == leaf[1] for j in admitted[i])
                if not ok:
                    return (f'sentence {si + 1}: word {i} carries {leaf[1]}, which is outside the beam given on the command line '
                            f'(--pruning-size {o["pruning"]}, ' + (f'--beta {o["beta"]}' if o['use_beta'] else '--disable-beta') + ')')
    return None


def cli_suite(ctx, count, formats=None, focus=None):
    rng = ctx.rng
    if not glue_checks.ensure_native(ctx):
        return
    ran = 0
    model_cases = []
    for k in range(count):
        lang = 'ja' if k % 4 == 3 else 'en'
        import render_common
        offered = [f for f in (formats or []) if f in render_common.offered(lang)]
        fmt = rng.choice(offered) if offered and k % 2 else 'auto'
        case = cli_case(rng, lang, fmt, many=(k % 10 == 7), focus=(focus if k % 2 == 0 else None), long_mix=(k % 6 == 5))
        desc = dict(lang=lang, flags=case['flags'], lines=case['lines'][:4], categories=[str(c) for c in case['cats']],
                    sentences=[p.to_json() for p, _ in case['sents'][:3]])
        tagger = FakeTagger(case['scores'], [str(c) for c in case['cats']])
        text, exc = run_cli(lang, case['flags'], case['lines'], tagger)
        ctx.evaluations += 1
        if exc is not None:
            ctx.fail(f'the command line raised {type(exc).__name__}: {exc}', desc, fingerprint=['cli-raise', type(exc).__name__])
            continue
        if tagger.seen_words != [[t['word'] for t in sent] for sent in case['doc']]:
            ctx.fail('the supertagger was not given the words of the input lines', desc, fingerprint=['cli-words'])
            continue
        ran += 1
        if case['fmt'] in MODEL_FORMATS:
            from wire import enc_str
            model_cases.append(('cli', model_line(case), 'ok ' + enc_str(text), desc))
        try:
            want = api_text(case)
        except Exception as e:
            ctx.fail(f'depccg.parsing.run raised {type(e).__name__}: {e}', desc, fingerprint=['cli-api-raise'])
            continue
        ctx.traces += 1
        if fmt == 'auto':
            try:
                why = oracle_auto(case, text)
            except D.DecodeError as e:
                why = f'the printed AUTO text cannot be decoded: {e}'
            if why:
                ctx.fail(why, desc, fingerprint=['cli-oracle', why.split(':')[-1][:30]])
        if fmt == 'deriv':
            # the deriv format shows the words as they are: they must be the words of the input lines
            try:
                why = None
                for n, body in D.split_records(text):
                    leaves = []

                    def walk(t):
                        if t[0] == 'L':
                            leaves.append(t[2])
                        else:
                            for k in t[-1]:
                                walk(k)
                    walk(D.read_deriv(body))
                    want_w = [t['word'] for t in case['doc'][n - 1]]
                    if leaves != want_w and leaves != ['FAILED']:
                        why = f'sentence {n}: the printed derivation has the words {leaves}, the input line has {want_w}'
                        break
                if why:
                    ctx.fail(why, desc, fingerprint=['cli-oracle', 'deriv-words'])
            except (D.DecodeError, IndexError):
                pass
        if fmt in ('auto', 'auto_extended', 'ptb', 'deriv', 'ja') and text != want:
            # C10 (count): depccg.parsing.run with the same --nbest finds that many derivations
            def counts(t):
                c = {}
                for n, _ in D.split_records(t):
                    c[n] = c.get(n, 0) + 1
                return c
            ca, cb = counts(text), counts(want)
            for n in sorted(cb):
                if ca.get(n, 0) < cb[n] <= max(case['opts']['nbest'], 1):
                    ctx.fail(f'sentence {n}: {ca.get(n, 0)} parses are printed for --nbest {case["opts"]["nbest"]}, but the sentence has at least '
                             f'{cb[n]} derivations (depccg.parsing.run returns them for the same options)', desc,
                             fingerprint=['cli-oracle', 'nbest-count'])
                    break
        if text != want:
            i = 0
            while i < min(len(text), len(want)) and text[i] == want[i]:
                i += 1
            ctx.disagree('cli', desc, want[max(0, i - 60):i + 200], text[max(0, i - 60):i + 200],
                         note='command line output differs from depccg.parsing.run + to_string called with the option values of the command line')
        elif 'FAILED' not in text or len(case['sents']) > 1:
            ctx.nontrivial_add(('cli', k))
    ctx.extra['cli_runs'] = ctx.extra.get('cli_runs', 0) + ran
    # the Lean model of the whole program against the real stdout, character by character
    if model_cases and not (ctx.lean is not None and not ctx.lean.driver_ok):
        from driver import run_lines
        # the grammar tables of the model program come from the raw strings of the configuration through the Lean
        # model of read_params (Config.lean), called as main() calls it: read_params(config, args) — `args` lands in
        # the position of disable_category_dictionary, seen rules stay enabled
        setup = [set_config_line('ship_' + lang, lang, True, False) for lang in ('en', 'ja')]
        outs_all = run_lines(setup + [c[1] for c in model_cases])
        for lang, o in zip(('en', 'ja'), outs_all):
            if o != 'ok':
                ctx.disagree('set_config', {'lang': lang}, o, 'ok', note='the Lean model of read_params rejects the shipped configuration')
        outs = outs_all[len(setup):]
        for (op, line, impl_out, desc), m in zip(model_cases, outs):
            ctx.traces += 1
            if m != impl_out:
                ctx.disagree(op, desc, m, impl_out, line=line[:3000])
        ctx.extra['cli_model_compared'] = ctx.extra.get('cli_model_compared', 0) + len(model_cases)


# ---- `read_params` (depccg/allennlp/utils.py): the rule functions and the dictionary the program uses --------------

class DictParams(object):
    """`Params` over an in-memory config"""
    configs = {}

    def __init__(self, d):
        self.d = d

    @classmethod
    def from_file(cls, path):
        import copy
        return cls(copy.deepcopy(cls.configs[str(path)]))

    def pop(self, key):
        return self.d.pop(key)


def call_read_params(lang, config, **kw):
    """the real read_params on an in-memory config -> (binary, unary, category_dict, roots)"""
    native.setup()
    import depccg.allennlp.utils as U
    from depccg import lang as dlang
    old = U.Params
    U.Params = DictParams
    DictParams.configs['mem'] = config
    dlang.set_global_language_to(lang)
    try:
        return U.read_params('mem', **kw)
    finally:
        U.Params = old
        dlang.set_global_language_to('en')


def synthetic_config(rng, lang):
    """a small config in which strings recur between its parts (a seen-rule category spelled like a unary
    target or a dictionary entry), as they do in hand-written configs"""
    v = tables.VARIANTS[lang]
    unary = [list(p) for p in tables.load(v['unary'])]
    seen_all = [list(p) for p in tables.load(v['seen'])]
    seen = rng.sample(seen_all, min(len(seen_all), 60))
    targets = list(tables.load(v['targets']))
    strings = [s for p in unary for s in p]
    if lang == 'en':
        seen += [['S[X]/(S[X]\\NP)', 'S[dcl]\\NP'], ['NP[nb]/N', 'N'], ['(S[X]\\NP)\\(S[X]\\NP)', 'S[dcl]\\NP'], ['NP', 'S[X]\\NP']]
        cat_dict = {'the': ['NP[nb]/N', 'NP[nb]/N'], 'a': ['NP[nb]/N'], 'runs': ['S[dcl]\\NP'], 'x': [rng.choice(targets) for _ in range(3)]}
    else:
        cat_dict = {}
    # pairs made of strings that already occur elsewhere in the file
    for _ in range(6):
        seen.append([rng.choice(strings), rng.choice(strings)])
    rng.shuffle(seen)
    return {'unary_rules': unary, 'seen_rules': seen, 'cat_dict': cat_dict, 'targets': targets}


def read_params_suite(ctx, count, want_dict=False):
    """C14 / C17 for what the program actually uses: the functions and the dictionary handed out by
    read_params must be the configured ones — a pair passes the seen gate iff its [X]/[nb]-erased form
    is a configured pair (erased the same way), the unary function returns the configured targets, the
    dictionary restricts the same words every time it is used"""
    from depccg.grammar import en, ja
    rng = ctx.rng
    n_pairs = 0
    for k in range(count):
        lang = 'ja' if k % 3 == 2 else 'en'
        mod = en if lang == 'en' else ja
        config = synthetic_config(rng, lang)
        desc = {'lang': lang, 'seen_rules': config['seen_rules'][:80], 'cat_dict': config['cat_dict'], 'unary_rules': len(config['unary_rules'])}
        try:
            binary, unary, cat_dict, _ = call_read_params(lang, config)
        except Exception as e:
            ctx.fail(f'read_params raised {type(e).__name__}: {e}', desc, fingerprint=['read-params-raise'])
            continue
        ctx.evaluations += 1
        own = {(Category.parse(a).clear_features('X', 'nb'), Category.parse(b).clear_features('X', 'nb')) for a, b in config['seen_rules']}
        probes = [(Category.parse(a), Category.parse(b)) for a, b in config['seen_rules']]
        probes += [(x.clear_features('X', 'nb'), y.clear_features('X', 'nb')) for x, y in probes[:40]]
        bad = None
        for x, y in probes:
            n_pairs += 1
            got = binary(x, y)
            free = mod.apply_binary_rules(x, y)
            key = (x.clear_features('X', 'nb'), y.clear_features('X', 'nb')) if lang == 'en' else (x, y)
            inside = key in own if lang == 'en' else (x, y) in {(Category.parse(a), Category.parse(b)) for a, b in config['seen_rules']} or key in own
            if lang == 'en' and inside and got != free:
                bad = (f'the pair ({x}, {y}) is configured as a seen rule (after erasing [X] and [nb]) but the rule function of the '
                       f'program returns {[str(r.cat) for r in got]} instead of the unrestricted result {[str(r.cat) for r in free]}')
                break
            if got != free and got != []:
                bad = f'the rule function of the program returns for ({x}, {y}) neither the unrestricted result nor nothing'
                break
        if bad:
            ctx.fail(bad, desc, fingerprint=['read-params-seen', lang])
            continue
        table = {}
        for a, b in config['unary_rules']:
            table.setdefault(Category.parse(a), []).append(Category.parse(b))
        for x, targets in list(table.items())[:30]:
            got = [r.cat for r in unary(x)]
            if got != targets:
                ctx.fail(f'the unary function of the program returns {[str(c) for c in got]} for {x}, configured: {[str(c) for c in targets]}',
                         desc, fingerprint=['read-params-unary', lang])
                break
        if want_dict and lang == 'en' and cat_dict is not None:
            # the dictionary object is used for every batch of a run
            cats = [Category.parse(s) for s in config['targets']]
            words = [w for w in config['cat_dict']][:3] + ['zzz']
            import numpy
            from depccg.types import Token, ScoringResult
            parsing = native.setup()['parsing']
            for batch in range(3):
                doc = [[Token.of_word(w) for w in words]]
                tag = numpy.zeros((len(words), len(cats)), dtype=numpy.float32)
                dep = numpy.zeros((len(words), len(words) + 1), dtype=numpy.float32)
                try:
                    _, (res,) = parsing.apply_category_filters(doc, [ScoringResult(tag, dep)], cats, cat_dict)
                except Exception as e:
                    ctx.fail(f'apply_category_filters raised {type(e).__name__} with the dictionary of read_params (batch {batch + 1})', desc,
                             fingerprint=['read-params-dict', 'raise'])
                    break
                ctx.evaluations += 1
                why = None
                for i, w in enumerate(words):
                    listed = {Category.parse(s) for s in config['cat_dict'].get(w, [])}
                    for j, c in enumerate(cats):
                        keep = (w not in config['cat_dict']) or (c in listed)
                        if (res.tag_scores[i, j] == 0.0) != keep:
                            why = (f'batch {batch + 1}: word {w!r}, category {c}: score {res.tag_scores[i, j]}, the dictionary '
                                   f'{"lists" if c in listed else "does not list"} it')
                            break
                    if why:
                        break
                if why:
                    ctx.fail('the dictionary handed out by read_params does not restrict exactly the listed words: ' + why, desc,
                             fingerprint=['read-params-dict', f'batch{batch + 1}'])
                    break
        ctx.nontrivial_add(('read_params', k))
    ctx.extra['read_params_pairs'] = n_pairs


def numfmt_suite(ctx, count):
    """the three spellings of a score the program prints — `'{:.8f}'` (ID lines), `'{:.5e}'` (html), `repr`
    (json) — of the real CPython against `Cli.fmt8`, `Cli.fmt5e`, `Print.jsonFloat`, for scores `k/64` over
    many magnitudes, including the exact ties of the six-significant-digit rounding (half to even)"""
    from wire import enc_str
    rng = ctx.rng
    cases = []
    ks = [0, 1, -1, 63, 64, -96, 640016, 640048, 63999968, -6399999, 64 * 1234565, 64 * 1234575, 64 * 999999 + 32]
    while len(ks) < count:
        mag = rng.choice([10, 10**3, 10**5, 10**7, 10**9, 10**12, 10**15])
        k = rng.randint(-mag, mag)
        if rng.random() < 0.3:
            # near a tie of the 6-digit rounding: d.ddddd5 at some decimal position, where that is a multiple of 1/64
            k = rng.choice([-1, 1]) * (rng.randint(100000, 999999) * 10 + 5) * 64 * 10 ** rng.randint(0, 3) // rng.choice([1, 10, 100])
        ks.append(k)
    for k in ks:
        if abs(k) >= 2 ** 53 or abs(k) / 64 >= 1e16:
            continue
        x = k / 64
        assert x * 64 == k
        ctx.evaluations += 1
        ctx.nontrivial_add(('numfmt', k))
        if abs(k) * 15625 < 10 ** 15:
            # at most 15 significant digits: `repr` (the shortest text that reads back) is the exact expansion
            got = 'ok ' + ' '.join(enc_str(s) for s in ('{:.8f}'.format(x), '{:.5e}'.format(x), repr(x)))
            cases.append(('numfmt', f'numfmt {k}', got, {'k': k, 'x': repr(x)}))
        else:
            got = 'ok ' + ' '.join(enc_str(s) for s in ('{:.8f}'.format(x), '{:.5e}'.format(x)))
            cases.append(('numfmt', f'numfmt_fe {k}', got, {'k': k, 'x': repr(x)}))
    return cases


def read_params_model_cases(ctx, count):
    """the real `read_params` on in-memory configs next to its Lean model (Config.lean, op `read_params`): the
    unary table in insertion order, the seen-rule set, the root categories and the dictionary are read off
    the objects the program would parse with (`functools.partial` keywords); configs with repeated keys,
    repeated pairs, an empty seen list, strings that do not parse, both disable flags"""
    import wire
    from wire import enc_str, enc_cat
    rng = ctx.rng
    cases = []
    broken = ['NP[', '(S\\NP', 'S[dcl]]', '', 'a b', '((', 'S/', 'NP)']
    for k in range(count):
        lang = 'ja' if k % 3 == 2 else 'en'
        config = synthetic_config(rng, lang)
        if k % 4 == 1:
            config['seen_rules'] = []
        if k % 4 == 2:
            config['seen_rules'] = config['seen_rules'][:5] * 2
            config['unary_rules'] = config['unary_rules'] + config['unary_rules'][:3]
        if k % 5 == 3:
            # one string that is not a category, somewhere
            part = rng.choice(['unary_rules', 'seen_rules', 'targets', 'cat_dict'])
            bad = rng.choice(broken)
            if part == 'targets':
                config['targets'] = list(config['targets'])
                config['targets'][rng.randrange(len(config['targets']))] = bad
            elif part == 'cat_dict':
                config['cat_dict'] = dict(config['cat_dict'], zz=['NP', bad])
            else:
                lst = [list(p) for p in config[part]]
                if lst:
                    lst[rng.randrange(len(lst))][rng.randrange(2)] = bad
                config[part] = lst
        dd, ds = rng.random() < 0.25, rng.random() < 0.25
        desc = {'lang': lang, 'disable_dict': dd, 'disable_seen': ds, 'seen_rules': config['seen_rules'][:30],
                'unary_rules': config['unary_rules'][:30], 'targets': config['targets'][:10], 'cat_dict': config['cat_dict']}
        try:
            binary, unary, cat_dict, roots = call_read_params(lang, config, disable_category_dictionary=dd, disable_seen_rules=ds)
            table = unary.keywords['unary_rules']
            seen = binary.keywords['seen_rules']
            got = 'ok T ' + str(len(table)) + ''.join(
                ' ; ' + enc_cat(key) + ' -> ' + str(len(vs)) + ''.join(' , ' + enc_cat(v) for v in vs) for key, vs in table.items())
            if seen is None:
                got += ' | S none'
            else:
                items = sorted({enc_cat(a) + ' , ' + enc_cat(b) for a, b in seen})
                got += ' | S some ' + str(len(items)) + ''.join(' ; ' + i for i in items)
            got += ' | R ' + str(len(roots)) + ''.join(' ; ' + enc_cat(c) for c in roots)
            if cat_dict is None:
                got += ' | D none'
            else:
                got += ' | D some ' + str(len(cat_dict)) + ''.join(
                    ' ; ' + enc_str(w) + ' ' + str(len(cs)) + ''.join(' , ' + enc_cat(c) for c in cs) for w, cs in cat_dict.items())
        except wire.Garbage:
            continue
        except Exception as e:
            got = 'err ' + wire.err_name(e)
        ctx.evaluations += 1
        ctx.nontrivial_add(('read_params', k, lang, dd, ds, len(config['seen_rules'])))
        line = (f'read_params {int(dd)} {int(ds)} {len(config["unary_rules"])} ' + ' '.join(enc_str(a) + ' ' + enc_str(b) for a, b in config['unary_rules'])
                + f' {len(config["seen_rules"])} ' + ' '.join(enc_str(a) + ' ' + enc_str(b) for a, b in config['seen_rules'])
                + f' {len(config["targets"])} ' + ' '.join(enc_str(t) for t in config['targets'])
                + f' {len(config["cat_dict"])} ' + ' '.join(enc_str(w) + f' {len(cs)} ' + ' '.join(enc_str(c) for c in cs) for w, cs in config['cat_dict'].items()))
        line = ' '.join(line.split())
        cases.append(('read_params', line, got, desc))
    return cases


def set_config_line(name, lang, dd, ds):
    """the shipped configuration of a language as raw strings for the driver's `set_config`"""
    from wire import enc_str
    v = tables.VARIANTS[lang]
    unary = [list(p) for p in tables.load(v['unary'])]
    seen = [list(p) for p in tables.load(v['seen'])]
    targets = list(tables.load(v['targets']))
    line = (f'set_config {name} {int(dd)} {int(ds)} {len(unary)} ' + ' '.join(enc_str(a) + ' ' + enc_str(b) for a, b in unary)
            + f' {len(seen)} ' + ' '.join(enc_str(a) + ' ' + enc_str(b) for a, b in seen)
            + f' {len(targets)} ' + ' '.join(enc_str(t) for t in targets) + ' 0')
    return ' '.join(line.split())
