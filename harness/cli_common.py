"""The command line itself: depccg.argparse.parse_args + depccg.__main__.main run in-process on generated
score matrices. Only the neural supertagger is replaced (it is not installed here): `load_model` hands
out a tagger that returns the scores of the generated problem, and `allennlp.common.params.Params` is a
reader of the jsonnet subset the shipped config files use. Everything else is the real code: option
parsing and defaults (argparse.py), option plumbing (__main__.py), config loading (allennlp/utils.py
read_params: seen rules, unary rules), annotate_XX / Token.of_piped, depccg.parsing.run, print_.

Oracles (written from C16 / C10 / C11): the printed AUTO records are decoded by the independent reader
of harness/decoders.py; every leaf category must be an admitted supertag under the options GIVEN ON THE
COMMAND LINE, a sentence has at most --nbest records, a sentence longer than --max-length is the failure
placeholder. Differential: the same options passed to depccg.parsing.run directly must give the same text.
"""
import contextlib
import functools
import io
import os
import sys
import tempfile

import numpy

import decoders as D
import glue_checks
import glue_common as G
import grammar_common
import native
import search_common as S
import tables
from depccg.cat import Category
from depccg.types import ScoringResult, Token

_main = {}


class FakeParams(object):
    """`allennlp.common.params.Params` for the shipped config files: `from_file(path)` + `pop(key)`"""

    def __init__(self, d):
        self.d = d

    @classmethod
    def from_file(cls, path):
        name = os.path.basename(str(path))
        variant = {'config_en.jsonnet': 'en', 'config_ja.jsonnet': 'ja', 'config_rebank.jsonnet': 'en_rebank'}[name]
        v = tables.VARIANTS[variant]
        return cls({'unary_rules': tables.load(v['unary']), 'seen_rules': tables.load(v['seen']),
                    'cat_dict': tables.load(v['cat_dict']) if v['cat_dict'] else {}, 'targets': tables.load(v['targets'])})

    def pop(self, key):
        return self.d.pop(key)


class FakeConfig(object):
    def __init__(self, config):
        self.config = config
        self.semantic_templates = None


class FakeTagger(object):
    def __init__(self, scores, categories):
        self.scores = scores
        self.categories = categories
        self.seen_words = None

    def predict_doc(self, words):
        self.seen_words = words
        return list(self.scores), list(self.categories)


def main_module():
    if not _main:
        native.setup()
        import depccg.allennlp.utils as U
        U.Params = FakeParams
        import depccg.__main__ as M
        import depccg.argparse as A
        _main.update(M=M, A=A)
    return _main['M'], _main['A']


def run_cli(lang, flags, lines, tagger):
    """-> (stdout text or None, exception or None)"""
    M, A = main_module()
    tmp = tempfile.NamedTemporaryFile('w', suffix='.txt', delete=False, encoding='utf-8')
    tmp.write('\n'.join(lines) + '\n')
    tmp.close()
    cfg = os.path.join(tables.MODELS, 'config_en.jsonnet' if lang == 'en' else 'config_ja.jsonnet')
    old_load, old_argv = M.load_model, sys.argv
    M.load_model = lambda model, gpu: (tagger, FakeConfig(cfg))
    sys.argv = ['depccg', lang, '--input', tmp.name, '--silent'] + list(flags)
    out = io.StringIO()
    try:
        with contextlib.redirect_stdout(out), contextlib.redirect_stderr(io.StringIO()):
            A.parse_args(M.main)
        return out.getvalue(), None
    except SystemExit as e:
        return None, e
    except Exception as e:
        return None, e
    finally:
        M.load_model, sys.argv = old_load, old_argv
        os.unlink(tmp.name)
        from depccg import lang as dlang
        dlang.set_global_language_to('en')


def cli_case(rng, lang, fmt=None, many=False):
    """a document over the real grammar of `lang`, beam / n-best / length options, the flags for them"""
    m = rng.randint(21, 24) if many else rng.randint(1, 3)
    base, sents, cats, root_cats, _bf, _uf = glue_checks.full_stack_problem(rng, lang, m)
    opts = dict(nbest=rng.choice([1, 1, 2, 3]), pruning=rng.choice([1, 2, 3, 50, 0, len(cats)]), penalty=rng.choice([0, 6, 13]),
                use_beta=rng.random() < 0.5, beta=rng.choice([0.5, 0.1, 0.001, 1.0, 2.0]), max_length=rng.choice([250, 250, 3]),
                procs=rng.randint(1, 3), max_step=3000)
    flags = ['--nbest', str(opts['nbest']), '--pruning-size', str(opts['pruning']), '--unary-penalty', repr(opts['penalty'] / S.SCALE),
             '--beta', repr(opts['beta']), '--max-length', str(opts['max_length']), '--max-step', str(opts['max_step']),
             '--num-processes', str(opts['procs']), '--root-cats', '|'.join(str(c) for c in root_cats), '--format', fmt or 'auto']
    if not opts['use_beta']:
        flags.append('--disable-beta')
    if lang == 'ja':
        flags.append('--pre-tokenized')
    for p, _ in sents:
        p.nbest, p.pruning, p.penalty, p.use_beta, p.beta, p.max_step = (opts['nbest'], opts['pruning'], opts['penalty'],
                                                                            opts['use_beta'], opts['beta'], opts['max_step'])
    piped = lang == 'en' and rng.random() < 0.3
    lines, doc = [], []
    for si, (p, toks) in enumerate(sents):
        words = [f'w{si}x{i}' for i in range(p.n)]
        if piped:
            lines.append(' '.join(f'{w}|NN|O' for w in words))
            doc.append([Token.of_piped(f'{w}|NN|O') for w in words])
        else:
            lines.append(' '.join(words))
            doc.append([Token.of_word(w) for w in words])
    if piped:
        flags += ['--input-format', 'POSandNERtagged']
    scores = [G.scoring(p) for p, _ in sents]
    return dict(lang=lang, sents=sents, cats=cats, roots=root_cats, opts=opts, flags=flags, lines=lines, doc=doc, scores=scores,
                fmt=fmt or 'auto', piped=piped)


def api_text(case):
    """the same options given to depccg.parsing.run directly, rendered by to_string"""
    from depccg.grammar import en, ja
    from depccg.printer import to_string
    from depccg import lang as dlang
    lang, o = case['lang'], case['opts']
    mod = en if lang == 'en' else ja
    bfun = functools.partial(mod.apply_binary_rules, seen_rules=grammar_common.seen_set(lang))
    ufun = functools.partial(mod.apply_unary_rules, unary_rules=grammar_common.unary_table(lang))
    dlang.set_global_language_to(lang)
    try:
        res = native.setup()['parsing'].run(case['doc'], [ScoringResult(s.tag_scores.copy(), s.dep_scores.copy()) for s in case['scores']],
                                            list(case['cats']), list(case['roots']), bfun, ufun,
                                            unary_penalty=o['penalty'] / S.SCALE, nbest=o['nbest'], pruning_size=o['pruning'], beta=o['beta'],
                                            use_beta=o['use_beta'], max_length=o['max_length'], max_step=o['max_step'], processes=o['procs'])
        return to_string(res, format=case['fmt']) + '\n'
    finally:
        dlang.set_global_language_to('en')


MODEL_FORMATS = ('auto', 'auto_extended', 'conll', 'ptb', 'deriv', 'ja')


def model_line(case):
    """the protocol line that makes the Lean model of the whole program (Cli.mainText: tokens from the
    input lines, root categories from --root-cats, tagger categories parsed, parsing.run with chunking,
    print_) produce the text"""
    from wire import enc_str
    o, lang = case['opts'], case['lang']
    parts = ['cli', lang, 'ship_' + lang, 'ship_' + lang, case['fmt'], '1' if case['piped'] else '0',
             enc_str('|'.join(str(c) for c in case['roots'])), str(o['penalty']), str(o['pruning']), str(o['nbest']), str(o['max_step']),
             str(o['max_length']), str(o['procs']), str(len(case['lines']))] + [enc_str(l) for l in case['lines']]
    parts += [str(len(case['cats']))] + [enc_str(str(c)) for c in case['cats']]
    parts.append(str(len(case['sents'])))
    for p, _ in case['sents']:
        parts.append(str(p.n))
        for row in p.tags:
            parts += [str(v) for v in row]
        for row in p.deps:
            parts += [str(v) for v in row]
        if p.use_beta:
            parts.append('1')
            for row in S.passes_table(p):
                parts += [str(v) for v in row]
        else:
            parts.append('0')
    return ' '.join(parts)


def oracle_auto(case, text):
    """None or a reason, from the printed AUTO records alone"""
    o = case['opts']
    recs = D.split_records(text)
    by_sent = {}
    for n, body in recs:
        by_sent.setdefault(n, []).append(body)
    if sorted(by_sent) != list(range(1, len(case['sents']) + 1)):
        return f'records are numbered {sorted(by_sent)} for {len(case["sents"])} sentences'
    # the scores of the headers, per sentence
    import re
    scores_of = {}
    for line in text.split('\n'):
        m = re.match(r'^ID=(\d+), log probability=(\S+)$', line)
        if m:
            scores_of.setdefault(int(m.group(1)) - 1, []).append(float(m.group(2)))
    seen_bodies = {si: [] for si in range(len(case['sents']))}
    ids = {}
    for j, c in enumerate(case['cats']):
        ids.setdefault(str(c), j)
    for si, (p, _) in enumerate(case['sents']):
        bodies = by_sent[si + 1]
        sc = scores_of.get(si, [])
        if len(sc) != len(bodies):
            return f'sentence {si + 1}: {len(sc)} header lines for {len(bodies)} trees'
        if any(a < b for a, b in zip(sc, sc[1:])):
            return f'sentence {si + 1}: the records are not in non-increasing score order: {sc}'
        # (two different derivations may print the same AUTO line: the format does not carry rule labels)
        if len(bodies) > max(o['nbest'], 1):
            return f'sentence {si + 1}: {len(bodies)} records for --nbest {o["nbest"]}'
        admitted = S.admitted_tags(p)
        for body in bodies:
            tree = D.read_auto(body)
            leaves = []

            def walk(t):
                if t[0] == 'L':
                    leaves.append(t)
                else:
                    for k in t[-1]:
                        walk(k)
            walk(tree)
            failed = sc[len(seen_bodies[si])] == float('-inf')      # the failure placeholder is the record with score -inf
            seen_bodies[si].append(body)
            if p.n > o['max_length'] and not failed:
                return f'sentence {si + 1} has {p.n} words, more than --max-length {o["max_length"]}, but was parsed'
            if failed:
                continue
            if len(leaves) != p.n:
                return f'sentence {si + 1}: {len(leaves)} leaves for {p.n} words'
            if [l[2] for l in leaves] != [t['word'] for t in case['doc'][si]]:
                return f'sentence {si + 1}: the leaves carry the words {[l[2] for l in leaves]}, the input line has {[t["word"] for t in case["doc"][si]]}'
            if tree[1] not in [str(c) for c in case['roots']]:
                return f'sentence {si + 1}: root category {tree[1]} is not one of --root-cats'
            # C09: the printed score is the model score of the printed tree (heads from the printed head flags)
            counter = [0]

            def rescore(t):
                if t[0] == 'L':
                    i = counter[0]
                    counter[0] += 1
                    return p.tags[i][ids[t[1]]], i
                kids = t[-1]
                if len(kids) == 1:
                    s0, h0 = rescore(kids[0])
                    return s0 - p.penalty, h0
                (sl, hl), (sr, hr) = rescore(kids[0]), rescore(kids[1])
                head, child = (hl, hr) if t[3] else (hr, hl)
                return sl + sr + p.deps[child][head + 1], head
            try:
                s0, h0 = rescore(tree)
                want = (s0 + p.deps[h0][0]) / S.SCALE
                got = sc[len(seen_bodies[si]) - 1]
                if abs(got - want) > 1e-6:
                    return (f'sentence {si + 1}: the header says log probability={got}, the printed tree scores {want} under the scores '
                            f'and --unary-penalty given')
            except KeyError:
                pass
            for i, leaf in enumerate(leaves):
                ok = any(str(case['cats'][j]) == leaf[1] for j in admitted[i])
                if not ok:
                    return (f'sentence {si + 1}: word {i} carries {leaf[1]}, which is outside the beam given on the command line '
                            f'(--pruning-size {o["pruning"]}, ' + (f'--beta {o["beta"]}' if o['use_beta'] else '--disable-beta') + ')')
    return None


def cli_suite(ctx, count, formats=None):
    rng = ctx.rng
    if not glue_checks.ensure_native(ctx):
        return
    ran = 0
    model_cases = []
    for k in range(count):
        lang = 'ja' if k % 4 == 3 else 'en'
        import render_common
        offered = [f for f in (formats or []) if f in render_common.offered(lang)]
        fmt = rng.choice(offered) if offered and k % 2 else 'auto'
        case = cli_case(rng, lang, fmt, many=(k % 10 == 7))
        desc = dict(lang=lang, flags=case['flags'], lines=case['lines'][:4], categories=[str(c) for c in case['cats']],
                    sentences=[p.to_json() for p, _ in case['sents'][:3]])
        tagger = FakeTagger(case['scores'], [str(c) for c in case['cats']])
        text, exc = run_cli(lang, case['flags'], case['lines'], tagger)
        ctx.evaluations += 1
        if exc is not None:
            ctx.fail(f'the command line raised {type(exc).__name__}: {exc}', desc, fingerprint=['cli-raise', type(exc).__name__])
            continue
        if tagger.seen_words != [[t['word'] for t in sent] for sent in case['doc']]:
            ctx.fail('the supertagger was not given the words of the input lines', desc, fingerprint=['cli-words'])
            continue
        ran += 1
        if case['fmt'] in MODEL_FORMATS:
            from wire import enc_str
            model_cases.append(('cli', model_line(case), 'ok ' + enc_str(text), desc))
        try:
            want = api_text(case)
        except Exception as e:
            ctx.fail(f'depccg.parsing.run raised {type(e).__name__}: {e}', desc, fingerprint=['cli-api-raise'])
            continue
        ctx.traces += 1
        if fmt == 'auto':
            try:
                why = oracle_auto(case, text)
            except D.DecodeError as e:
                why = f'the printed AUTO text cannot be decoded: {e}'
            if why:
                ctx.fail(why, desc, fingerprint=['cli-oracle', why.split(':')[-1][:30]])
        if text != want:
            i = 0
            while i < min(len(text), len(want)) and text[i] == want[i]:
                i += 1
            ctx.disagree('cli', desc, want[max(0, i - 60):i + 200], text[max(0, i - 60):i + 200],
                         note='command line output differs from depccg.parsing.run + to_string called with the option values of the command line')
        elif 'FAILED' not in text or len(case['sents']) > 1:
            ctx.nontrivial_add(('cli', k))
    ctx.extra['cli_runs'] = ctx.extra.get('cli_runs', 0) + ran
    # the Lean model of the whole program against the real stdout, character by character
    if model_cases and not (ctx.lean is not None and not ctx.lean.driver_ok):
        from driver import run_lines
        setup = []
        for lang in ('en', 'ja'):
            setup.append(grammar_common.set_seen_line('ship_' + lang, sorted(grammar_common.seen_set(lang), key=lambda p: (str(p[0]), str(p[1])))))
            setup.append(grammar_common.set_unary_line('ship_' + lang, grammar_common.unary_table(lang)))
        outs = run_lines(setup + [c[1] for c in model_cases])[len(setup):]
        for (op, line, impl_out, desc), m in zip(model_cases, outs):
            ctx.traces += 1
            if m != impl_out:
                ctx.disagree(op, desc, m, impl_out, line=line[:3000])
        ctx.extra['cli_model_compared'] = ctx.extra.get('cli_model_compared', 0) + len(model_cases)
