"""Shared machinery of every check: Lean build + axiom audit, correspondence runs,
verdicts, evidence files, known findings, replay files."""
import fcntl
import hashlib
import json
import os
import random
import re
import subprocess
import sys
import time

VERIF = os.path.dirname(os.path.dirname(os.path.abspath(__file__)))
REPO = os.environ.get('VERIF_REPO', '/repo')
LEAN_DIR = os.path.join(VERIF, 'lean')
BUILD = os.path.join(VERIF, 'build')
REPLAY_DIR = os.path.join(BUILD, 'replay')
# evidence describes /repo; a run against another tree (VERIF_REPO=<copy>, used to try seeded changes) keeps its
# record under build/ so that the committed evidence is never overwritten by it
EVIDENCE_DIR = os.path.join(VERIF, 'evidence') if REPO == '/repo' else os.path.join(VERIF, 'build', 'evidence_other_tree')
ALLOWED_AXIOMS = {'propext', 'Classical.choice', 'Quot.sound'}
FORBIDDEN = re.compile(
    r'\b(sorry|admit|native_decide|bv_decide|implemented_by|unsafe)\b|^\s*axiom\s|maxHeartbeats\s+0\b',
    re.M)

TRUSTED_BASE = [
    'Lean 4.33.0 kernel (and leanchecker in the thorough tier)',
    'axioms allowed: propext, Classical.choice, Quot.sound (audited with #print axioms each run)',
    'the statements in lean/Depccg/Props/*.lean as a reading of properties.jsonl',
    'the correspondence harness (harness/*.py, generators, canonicalisation) and the compiled driver',
    'CPython 3.12 / g++ executing the real implementation',
]


class Infra(Exception):
    """infrastructure failure: exit 2, never a VIOLATION"""


def sh(cmd, cwd=None, timeout=3600, env=None):
    p = subprocess.run(cmd, cwd=cwd, shell=isinstance(cmd, str), stdout=subprocess.PIPE,
                       stderr=subprocess.STDOUT, timeout=timeout, env=env)
    return p.returncode, p.stdout.decode('utf-8', 'replace')


class _Lock(object):
    def __init__(self, name):
        os.makedirs(BUILD, exist_ok=True)
        self.path = os.path.join(BUILD, name + '.lock')

    def __enter__(self):
        self.f = open(self.path, 'w')
        fcntl.flock(self.f, fcntl.LOCK_EX)
        return self

    def __exit__(self, *a):
        fcntl.flock(self.f, fcntl.LOCK_UN)
        self.f.close()


def write_if_changed(path, text):
    try:
        if open(path).read() == text:
            return False
    except OSError:
        pass
    os.makedirs(os.path.dirname(path), exist_ok=True)
    tmp = path + '.tmp%d' % os.getpid()
    with open(tmp, 'w') as f:
        f.write(text)
    os.replace(tmp, path)
    return True


# --------------------------------------------------------------------------------------
# Lean side
# --------------------------------------------------------------------------------------

def strip_comments(src):
    # remove /- ... -/ (nested) and -- ... comments
    out = []
    i, depth, n = 0, 0, len(src)
    while i < n:
        if src.startswith('/-', i):
            depth += 1
            i += 2
        elif depth and src.startswith('-/', i):
            depth -= 1
            i += 2
        elif depth:
            i += 1
        elif src.startswith('--', i):
            j = src.find('\n', i)
            i = n if j < 0 else j
        else:
            out.append(src[i])
            i += 1
    return ''.join(out)


def grep_forbidden():
    """sorry/admit/axiom/native_decide/... anywhere in the Lean sources (comments discarded)."""
    hits = []
    for root, _, files in os.walk(LEAN_DIR):
        if '.lake' in root:
            continue
        for fn in files:
            if fn.endswith('.lean'):
                p = os.path.join(root, fn)
                src = strip_comments(open(p).read())
                for m in FORBIDDEN.finditer(src):
                    hits.append(f'{os.path.relpath(p, LEAN_DIR)}: {m.group(0).strip()}')
    return hits


def lake_build(targets, timeout=3000):
    with _Lock('lake'):
        rc, out = sh(['lake', 'build'] + list(targets), cwd=LEAN_DIR, timeout=timeout)
    return rc, out


def first_lean_error(out):
    """(file, line, message) of the first error in lake output"""
    m = re.search(r'error: ([\w/\.]+\.lean):(\d+):(\d+): (.*)', out)
    if not m:
        return None
    return m.group(1), int(m.group(2)), m.group(4)


def enclosing_decl(path, line):
    try:
        lines = open(os.path.join(LEAN_DIR, path)).read().split('\n')
    except OSError:
        return None
    for i in range(min(line, len(lines)) - 1, -1, -1):
        m = re.match(r'\s*(?:private\s+|protected\s+)?(?:theorem|lemma|def|example|instance)\s+([\w\.\']+)?', lines[i])
        if m:
            return m.group(1) or 'example'
    return None


def obligations_of(pid):
    reg = json.load(open(os.path.join(LEAN_DIR, 'obligations.json')))
    ob = reg.get(pid, {'module': f'Depccg.Props.{pid}', 'theorems': [], 'open': []})
    if ob.get('dynamic') == 'generated':
        # one theorem per generated table module (their number follows the data files)
        gen = os.path.join(LEAN_DIR, 'Depccg', 'Generated')
        names = sorted(fn[:-5] for fn in os.listdir(gen) if fn.startswith('Shipped') and fn.endswith('.lean'))
        ob = dict(ob)
        ob['theorems'] = list(ob['theorems']) + [f'Depccg.Generated.{n}.all_ok' for n in names] \
            + ['Depccg.Generated.CatDict.within_targets']
    return ob


def audit_axioms(pid, theorems, module):
    """#print axioms on every registered theorem; returns {theorem: [axioms]} or raises"""
    os.makedirs(BUILD, exist_ok=True)
    path = os.path.join(BUILD, f'Audit_{pid}.lean')
    extra = obligations_of(pid).get('imports', [])
    src = f'import {module}\n' + ''.join(f'import {m}\n' for m in extra) + ''.join(f'#print axioms {t}\n' for t in theorems)
    with open(path, 'w') as f:
        f.write(src)
    with _Lock('lake'):
        rc, out = sh(['lake', 'env', 'lean', path], cwd=LEAN_DIR, timeout=1200)
    res = {}
    # output: "'name' depends on axioms: [a, b]" or "'name' does not depend on any axioms"
    for m in re.finditer(r"'([^']+)' (does not depend on any axioms|depends on axioms: \[([^\]]*)\])", out):
        name = m.group(1)
        axs = [a.strip() for a in (m.group(3) or '').replace('\n', ' ').split(',') if a.strip()]
        res[name] = axs
    return rc, out, res


class LeanStatus(object):
    def __init__(self):
        self.ok = True
        self.obligations = 0
        self.discharged = 0
        self.broken = []        # list of dicts {theorem, module, message}
        self.open = []
        self.partial = []
        self.axioms = {}
        self.checker_cmd = ''
        self.driver_ok = True
        self.driver_msg = ''


def check_lean(pid, thorough=False, need_driver=True):
    """Builds the driver and the property's theorem module, audits axioms."""
    st = LeanStatus()
    ob = obligations_of(pid)
    module = ob.get('module', f'Depccg.Props.{pid}')
    theorems = ob.get('theorems', [])
    st.open = ob.get('open', [])
    st.partial = ob.get('partial', [])
    st.obligations = len(theorems) + len(st.open)
    st.checker_cmd = (f'cd lean && lake build {module} && lake env lean ../build/Audit_{pid}.lean'
                      + (f' && lake env leanchecker {module}' if thorough else ''))
    if need_driver:
        rc, out = lake_build(['driver'])
        if rc != 0:
            st.driver_ok = False
            st.driver_msg = out[-3000:]
    rc, out = lake_build([module] + list(ob.get('imports', [])))
    if rc != 0:
        st.ok = False
        err = first_lean_error(out)
        thm = None
        if err:
            thm = enclosing_decl(err[0], err[1])
        st.broken.append({'module': module, 'theorem': thm or '(unknown)',
                          'message': (err[2] if err else out[-1500:]),
                          'location': f'{err[0]}:{err[1]}' if err else None})
        return st
    hits = grep_forbidden()
    if hits:
        st.ok = False
        st.broken.append({'module': module, 'theorem': '(source audit)',
                          'message': 'forbidden construct: ' + '; '.join(hits[:5])})
        return st
    if theorems:
        rc, out, res = audit_axioms(pid, theorems, module)
        st.axioms = res
        for t in theorems:
            if t not in res:
                st.ok = False
                st.broken.append({'module': module, 'theorem': t,
                                  'message': 'theorem missing from the module: ' + out[-500:]})
            elif not set(res[t]) <= ALLOWED_AXIOMS:
                st.ok = False
                st.broken.append({'module': module, 'theorem': t,
                                  'message': f'depends on axioms {res[t]}'})
            else:
                st.discharged += 1
    if thorough and st.ok:
        with _Lock('lake'):
            rc, out = sh(['lake', 'env', 'leanchecker', module], cwd=LEAN_DIR, timeout=3000)
        if rc != 0:
            st.ok = False
            st.broken.append({'module': module, 'theorem': '(leanchecker)', 'message': out[-1500:]})
    return st


# --------------------------------------------------------------------------------------
# Check context
# --------------------------------------------------------------------------------------

class Ctx(object):
    def __init__(self, pid, tier, seed, level='proof'):
        self.pid = pid
        self.tier = tier
        self.thorough = tier == 'thorough'
        self.seed = seed
        self.level = level
        self.rng = random.Random(seed * 1000003 + int(hashlib.md5(pid.encode()).hexdigest()[:6], 16))
        self.t0 = time.time()
        self.evaluations = 0
        self.nontrivial = set()
        self.samples = []
        self.rule = ''
        self.traces = 0                 # implementation runs compared with the model
        self.disagreements = []         # model != implementation
        self.failures = []              # the real code violates the property (oracle)
        self.known_hits = []
        self.assumptions = []
        self.extra = {}
        self.lean = None
        self.notes = []
        self.known = [k for k in load_known() if k.get('property') == pid and k.get('status') == 'known']

    def budget(self, quick, thorough):
        return thorough if self.thorough else quick

    def nontrivial_add(self, key):
        self.nontrivial.add(key if isinstance(key, (str, int, tuple)) else repr(key))

    def sample(self, obj, cap=6):
        if len(self.samples) < cap:
            self.samples.append(obj)

    def fail(self, what, case, fingerprint=None, **more):
        """the real implementation violates the property on `case`"""
        rec = {'what': what, 'input': case, 'fingerprint': fingerprint}
        rec.update(more)
        for k in self.known:
            if known_matches(k, rec):
                if k not in self.known_hits:
                    self.known_hits.append(k)
                return
        self.failures.append(rec)

    def disagree(self, op, case, model_out, impl_out, **more):
        rec = {'op': op, 'input': case, 'model_output': model_out, 'impl_output': impl_out}
        rec.update(more)
        self.disagreements.append(rec)


def load_known():
    try:
        return json.load(open(os.path.join(VERIF, 'known_findings.json')))
    except OSError:
        return []


def known_matches(k, rec):
    fp = k.get('fingerprint')
    if fp is None:
        return False
    return rec.get('fingerprint') == fp


def write_replay(ctx, kind, payload):
    os.makedirs(REPLAY_DIR, exist_ok=True)
    n = len(os.listdir(REPLAY_DIR))
    path = os.path.join(REPLAY_DIR, f'{ctx.pid}-{ctx.seed}-{kind}-{n}.json')
    rec = {'property': ctx.pid, 'kind': kind, 'seed': ctx.seed, 'tier': ctx.tier}
    rec.update(payload)
    with open(path, 'w') as f:
        json.dump(rec, f, indent=1, default=str)
    return path


def write_evidence(ctx, violations):
    os.makedirs(EVIDENCE_DIR, exist_ok=True)
    lean = ctx.lean
    cov = {
        'evaluations': ctx.evaluations,
        'distinct_nontrivial': len(ctx.nontrivial),
        'rule': ctx.rule,
        'samples': ctx.samples or ['(none)'],
        'traces_validated_against_impl': ctx.traces,
        'obligations': lean.obligations if lean else 0,
        'discharged': lean.discharged if lean else 0,
        'checker_cmd': lean.checker_cmd if lean else '',
        'trusted_base': TRUSTED_BASE + ctx.assumptions,
        'open_obligations': lean.open if lean else [],
        'partial_aspects_not_carried_by_a_theorem': lean.partial if lean else [],
        'axioms': {k: v for k, v in (lean.axioms.items() if lean else [])},
        'model_impl_disagreements': len(ctx.disagreements),
        'known_findings_hit': [k.get('what') for k in ctx.known_hits],
    }
    cov.update(ctx.extra)
    ev = {
        'property_id': ctx.pid,
        'tier': ctx.tier,
        'seed': ctx.seed,
        'level': ctx.level,
        'coverage': cov,
        'assumptions': ctx.assumptions,
        'wall_s': round(time.time() - ctx.t0, 2),
        'violations': violations,
    }
    path = os.path.join(EVIDENCE_DIR, f'{ctx.pid}.json')
    with open(path, 'w') as f:
        json.dump(ev, f, indent=1, default=str)
    return path


def _kinds(failures):
    out = {}
    for f in failures:
        fp = f.get('fingerprint') or ['?']
        k = ' '.join(str(x) for x in fp[:6])[:110]
        out[k] = out.get(k, 0) + 1
    return out


def conclude(ctx, enlarged_search=None):
    """Apply the verdict rules of DESIGN.md §2.1 and exit.

    enlarged_search: callable run when a theorem or the correspondence is broken and no
    failing input is known yet; it may call ctx.fail."""
    lean = ctx.lean
    broken_lean = lean is not None and (not lean.ok or not lean.driver_ok)
    if (broken_lean or ctx.disagreements) and not ctx.failures and enlarged_search is not None:
        try:
            enlarged_search()
        except Infra:
            raise
    lines = []
    violations = 0
    for k in ctx.known_hits:
        lines.append(f"KNOWN-FINDING: property={ctx.pid} {k.get('what')}")
    if ctx.failures:
        violations = len(ctx.failures)
        f0 = ctx.failures[0]
        path = write_replay(ctx, 'failing-input', {
            'what': f0['what'], 'input': f0['input'], 'detail': {k: v for k, v in f0.items() if k not in ('what', 'input')},
            'more_failures': [f['what'] for f in ctx.failures[1:20]],
            'failure_kinds': _kinds(ctx.failures),
            'broken_theorems': lean.broken if lean else [],
            'disagreements': ctx.disagreements[:5],
        })
        lines.append(f'VIOLATION property={ctx.pid} replay={path}')
    elif broken_lean:
        violations = 1
        what = lean.broken[0] if lean.broken else {'theorem': '(driver build)', 'message': lean.driver_msg}
        path = write_replay(ctx, 'broken-theorem', {'theorem': what, 'all_broken': lean.broken,
                                                    'driver_ok': lean.driver_ok,
                                                    'disagreements': ctx.disagreements[:10],
                                                    'oracle_verdict': 'no failing input found on the implementation'})
        lines.append(f'VIOLATION property={ctx.pid} replay={path} no-failing-input-found')
    elif ctx.disagreements:
        violations = 1
        d0 = ctx.disagreements[0]
        path = write_replay(ctx, 'broken-correspondence', {
            'op': d0['op'], 'input': d0['input'], 'model_output': d0['model_output'],
            'impl_output': d0['impl_output'], 'count': len(ctx.disagreements),
            'more': ctx.disagreements[1:10],
            'oracle_verdict': 'no failing input found on the implementation'})
        lines.append(f'VIOLATION property={ctx.pid} replay={path} no-failing-input-found')
    write_evidence(ctx, violations)
    for l in lines:
        print(l)
    summary = (f'[{ctx.pid}] tier={ctx.tier} seed={ctx.seed} evaluations={ctx.evaluations} '
               f'nontrivial={len(ctx.nontrivial)} traces={ctx.traces} '
               f'obligations={lean.discharged if lean else 0}/{lean.obligations if lean else 0} '
               f'disagreements={len(ctx.disagreements)} failures={len(ctx.failures)} '
               f'known={len(ctx.known_hits)} wall={time.time() - ctx.t0:.1f}s')
    print(summary)
    sys.stdout.flush()
    sys.exit(1 if violations else 0)


def compare_with_model(ctx, cases, chunk=200000):
    """cases: list of (op, line, impl_out, case_repr). Sends the lines to the driver and
    records disagreements.  An `Unsupported` model answer is not compared."""
    from driver import run_lines, DriverError
    if ctx.lean is not None and not ctx.lean.driver_ok:
        return 0
    skipped = 0
    state = {}       # the driver is stateful (set_seen / set_unary ...): every chunk starts a new
                     # process, so the last state-setting line of each kind is replayed first
    for i in range(0, len(cases), chunk):
        part = cases[i:i + chunk]
        pre = list(state.values())
        try:
            outs = run_lines(pre + [c[1] for c in part])[len(pre):]
        except (DriverError, OSError, subprocess.TimeoutExpired) as e:
            raise Infra(f'driver failed: {e}')
        for c in part:
            if c[1].startswith('set_'):
                state[c[1].split(' ', 2)[0] + ' ' + (c[1].split(' ', 2) + [''])[1]] = c[1]
        for (op, line, impl_out, case), m in zip(part, outs):
            if m == 'err Unsupported' or impl_out == 'err Unsupported':
                skipped += 1
                continue
            ctx.traces += 1
            if m != impl_out:
                ctx.disagree(op, case, m, impl_out, line=line)
    return skipped
