"""Glue-level harness: the real depccg.parsing.run -> translated parsing.pyx -> real C++ search,
with real Category / Token / Tree objects; expected trees derived from the Lean search model."""
import json

import numpy

import native
import search_common as S
from depccg.cat import Category, Atom
from depccg.types import Token, CombinatorResult, ScoringResult
from depccg.tree import Tree, ScoredTree

INV = None


class TableGrammar(object):
    """binary / unary rule functions over Category objects backed by id tables; every result of
    one pair carries its own label and symbol (picklable: plain data + module-level class)"""

    def __init__(self, cats, bin_table, un_table):
        self.cats = cats
        self.bin = {k: list(v) for k, v in bin_table.items()}
        self.un = {k: list(v) for k, v in un_table.items()}
        self.ids = {c: i for i, c in enumerate(cats)}

    def binary(self, x, y):
        key = (self.ids.get(x), self.ids.get(y))
        return [CombinatorResult(cat=self.cats[c], op_string=f'b{key[0]}_{key[1]}_{i}', op_symbol=f'<B{i}>', head_is_left=bool(h))
                for i, (c, h) in enumerate(self.bin.get(key, []))]

    def unary(self, x):
        k = self.ids.get(x)
        return [CombinatorResult(cat=self.cats[c], op_string=f'u{k}_{i}', op_symbol=f'<U{i}>', head_is_left=True)
                for i, c in enumerate(self.un.get(k, []))]


def category_pool(K, rng):
    """K distinct Category objects; ids 0..K-1"""
    global INV
    if INV is None:
        import gen_cat
        INV = gen_cat.inventory('en')
    if rng.random() < 0.5:
        return [Atom(f'C{i}') for i in range(K)]
    return rng.sample(INV, K)


def problem_K(p):
    ks = [p.T] + [r + 1 for r in p.roots]
    for (x, y), rs in p.bin.items():
        ks += [x + 1, y + 1] + [c + 1 for c, _ in rs]
    for x, cs in p.un.items():
        ks += [x + 1] + [c + 1 for c in cs]
    return max(ks)


def scoring(p):
    tag = numpy.ascontiguousarray(numpy.array(p.tags, dtype=numpy.float32).reshape(p.n, p.T) / numpy.float32(S.SCALE))
    dep = numpy.ascontiguousarray(numpy.array(p.deps, dtype=numpy.float32).reshape(p.n, p.n + 1) / numpy.float32(S.SCALE))
    return ScoringResult(tag, dep)


def tokens_for(p, rng=None, tag=''):
    return [Token.of_word(f'w{tag}{i}') for i in range(p.n)]


def tree_sig(t):
    """a real Tree as nested tuples with everything the properties speak about"""
    if t.is_leaf:
        return ('L', dict(t.token).get('word'), str(t.cat), t.op_string, t.op_symbol)
    if t.is_unary:
        return ('U', str(t.cat), t.op_string, t.op_symbol, bool(t.head_is_left), tree_sig(t.children[0]))
    return ('B', str(t.cat), t.op_string, t.op_symbol, bool(t.head_is_left), tree_sig(t.children[0]), tree_sig(t.children[1]))


def expected_tree(p, cats, gram, words, d):
    """the tree the glue must build for the model derivation d (ids, rule ids)"""
    if d[0] == 'L':
        return ('L', words[d[1]], str(cats[d[2]]), 'lex', '<lex>')
    if d[0] == 'U':
        child = expected_tree(p, cats, gram, words, d[3])
        cc = S.tree_cat(d[3])
        r = gram.unary(cats[cc])[d[2]]
        return ('U', str(cats[d[1]]), r.op_string, r.op_symbol, True, child)
    l = expected_tree(p, cats, gram, words, d[4])
    r_ = expected_tree(p, cats, gram, words, d[5])
    res = gram.binary(cats[S.tree_cat(d[4])], cats[S.tree_cat(d[5])])[d[2]]
    return ('B', str(cats[d[1]]), res.op_string, res.op_symbol, bool(res.head_is_left), l, r_)


def parse_deriv(tokens):
    """inverse of S.enc_deriv on a token list"""
    pos = [0]

    def rec():
        t = tokens[pos[0]]
        pos[0] += 1
        if t == 'L':
            a, b = int(tokens[pos[0]]), int(tokens[pos[0] + 1])
            pos[0] += 2
            return ('L', a, b)
        if t == 'U':
            c, r = int(tokens[pos[0]]), int(tokens[pos[0] + 1])
            pos[0] += 2
            return ('U', c, r, rec())
        c, r, h = int(tokens[pos[0]]), int(tokens[pos[0] + 1]), int(tokens[pos[0] + 2])
        pos[0] += 3
        l = rec()
        rr = rec()
        return ('B', c, r, h, l, rr)
    return rec()


def model_results(mline):
    """[(score, deriv)] from a driver answer"""
    m = S.parse_model_output(mline)
    out = []
    for q in m['results']:
        parts = q.split(' ')
        out.append((int(parts[1]), parse_deriv(parts[2:])))
    return m, out


def run_real(p, cats, gram, doc, scores, **kw):
    """depccg.parsing.run on a batch; returns list of per-sentence [(score_int or None, tree_sig)]"""
    st = native.setup()
    args = dict(unary_penalty=p.penalty / S.SCALE, beta=p.beta, use_beta=p.use_beta, pruning_size=p.pruning,
                nbest=p.nbest, max_step=p.max_step)
    args.update(kw)
    res = st['parsing'].run(doc, scores, cats[:p.T], [cats[r] for r in p.roots], gram.binary, gram.unary, **args)
    return res


def canon_results(res):
    out = []
    for trees in res:
        cur = []
        for tree, score in trees:
            if score == -float('inf'):
                cur.append(('FAILED', tree_sig(tree)))
            else:
                cur.append((S.to_int(score), tree_sig(tree)))
        out.append(cur)
    return out
