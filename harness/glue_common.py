"""Glue-level harness: the real depccg.parsing.run -> translated parsing.pyx -> real C++ search,
with real Category / Token / Tree objects; expected trees derived from the Lean search model."""
import json

import numpy

import native
import search_common as S
from depccg.cat import Category, Atom
from depccg.types import Token, CombinatorResult, ScoringResult
from depccg.tree import Tree, ScoredTree

INV = None


class TableGrammar(object):
    """binary / unary rule functions over Category objects backed by id tables; every result of
    one pair carries its own label and symbol (picklable: plain data + module-level class)"""

    def __init__(self, cats, bin_table, un_table, plain_labels=False):
        # plain_labels: the label of a result does not depend on its position in the list, so that a rule function
        # may return the very same result twice (as a grammar with two routes to one analysis does)
        self.plain_labels = plain_labels
        self.cats = cats
        self.bin = {k: list(v) for k, v in bin_table.items()}
        self.un = {k: list(v) for k, v in un_table.items()}
        self.ids = {c: i for i, c in enumerate(cats)}

    def binary(self, x, y):
        key = (self.ids.get(x), self.ids.get(y))
        return [CombinatorResult(cat=self.cats[c], op_string=(f'b{key[0]}_{key[1]}' if self.plain_labels else f'b{key[0]}_{key[1]}_{i}'),
                                 op_symbol=('<B>' if self.plain_labels else f'<B{i}>'), head_is_left=bool(h))
                for i, (c, h) in enumerate(self.bin.get(key, []))]

    def unary(self, x):
        k = self.ids.get(x)
        return [CombinatorResult(cat=self.cats[c], op_string=(f'u{k}' if self.plain_labels else f'u{k}_{i}'),
                                 op_symbol=('<U>' if self.plain_labels else f'<U{i}>'), head_is_left=True)
                for i, c in enumerate(self.un.get(k, []))]


def category_pool(K, rng):
    """K distinct Category objects; ids 0..K-1"""
    global INV
    if INV is None:
        import gen_cat
        INV = gen_cat.inventory('en')
    if rng.random() < 0.5:
        return [Atom(f'C{i}') for i in range(K)]
    return rng.sample(INV, K)


def problem_K(p):
    ks = [p.T] + [r + 1 for r in p.roots]
    for (x, y), rs in p.bin.items():
        ks += [x + 1, y + 1] + [c + 1 for c, _ in rs]
    for x, cs in p.un.items():
        ks += [x + 1] + [c + 1 for c in cs]
    return max(ks)


def scoring(p):
    tag = numpy.ascontiguousarray(numpy.array(p.tags, dtype=numpy.float32).reshape(p.n, p.T) / numpy.float32(S.SCALE))
    dep = numpy.ascontiguousarray(numpy.array(p.deps, dtype=numpy.float32).reshape(p.n, p.n + 1) / numpy.float32(S.SCALE))
    return ScoringResult(tag, dep)


def tokens_for(p, rng=None, tag=''):
    return [Token.of_word(f'w{tag}{i}') for i in range(p.n)]


def tree_sig(t):
    """a real Tree as nested tuples with everything the properties speak about"""
    if t.is_leaf:
        return ('L', dict(t.token).get('word'), str(t.cat), t.op_string, t.op_symbol)
    if t.is_unary:
        return ('U', str(t.cat), t.op_string, t.op_symbol, bool(t.head_is_left), tree_sig(t.children[0]))
    return ('B', str(t.cat), t.op_string, t.op_symbol, bool(t.head_is_left), tree_sig(t.children[0]), tree_sig(t.children[1]))


def expected_tree(p, cats, gram, words, d):
    """the tree the glue must build for the model derivation d (ids, rule ids)"""
    if d[0] == 'L':
        return ('L', words[d[1]], str(cats[d[2]]), 'lex', '<lex>')
    if d[0] == 'U':
        child = expected_tree(p, cats, gram, words, d[3])
        cc = S.tree_cat(d[3])
        r = gram.unary(cats[cc])[d[2]]
        return ('U', str(cats[d[1]]), r.op_string, r.op_symbol, True, child)
    l = expected_tree(p, cats, gram, words, d[4])
    r_ = expected_tree(p, cats, gram, words, d[5])
    res = gram.binary(cats[S.tree_cat(d[4])], cats[S.tree_cat(d[5])])[d[2]]
    return ('B', str(cats[d[1]]), res.op_string, res.op_symbol, bool(res.head_is_left), l, r_)


def parse_deriv(tokens):
    """inverse of S.enc_deriv on a token list"""
    pos = [0]

    def rec():
        t = tokens[pos[0]]
        pos[0] += 1
        if t == 'L':
            a, b = int(tokens[pos[0]]), int(tokens[pos[0] + 1])
            pos[0] += 2
            return ('L', a, b)
        if t == 'U':
            c, r = int(tokens[pos[0]]), int(tokens[pos[0] + 1])
            pos[0] += 2
            return ('U', c, r, rec())
        c, r, h = int(tokens[pos[0]]), int(tokens[pos[0] + 1]), int(tokens[pos[0] + 2])
        pos[0] += 3
        l = rec()
        rr = rec()
        return ('B', c, r, h, l, rr)
    return rec()


def model_results(mline):
    """[(score, deriv)] from a driver answer"""
    m = S.parse_model_output(mline)
    out = []
    for q in m['results']:
        parts = q.split(' ')
        out.append((int(parts[1]), parse_deriv(parts[2:])))
    return m, out


def run_real(p, cats, gram, doc, scores, **kw):
    """depccg.parsing.run on a batch; returns list of per-sentence [(score_int or None, tree_sig)]"""
    st = native.setup()
    funcs = kw.pop('funcs', None)
    cat_list = kw.pop('cat_list', None)      # a caller-owned list object (must come back untouched)
    root_list = kw.pop('root_list', None)
    args = dict(unary_penalty=p.penalty / S.SCALE, beta=p.beta, use_beta=p.use_beta, pruning_size=p.pruning,
                nbest=p.nbest, max_step=p.max_step)
    args.update(kw)
    bfun, ufun = funcs if funcs else (gram.binary, gram.unary)
    res = st['parsing'].run(doc, scores, cats[:p.T] if cat_list is None else cat_list,
                            [cats[r] for r in p.roots] if root_list is None else root_list, bfun, ufun, **args)
    return res


def canon_results(res):
    out = []
    for trees in res:
        cur = []
        for tree, score in trees:
            if score == -float('inf'):
                cur.append(('FAILED', tree_sig(tree)))
            else:
                cur.append((S.to_int(score), tree_sig(tree)))
        out.append(cur)
    return out


def retrieve_line(p, cats, gram, toks, d):
    """protocol line for the model of retrieve_tree: category table, cache rows (as the glue fills
    them from the grammar functions), tokens, derivation"""
    import tree_common as T
    from wire import enc_cat, enc_str
    K = len(cats)
    parts = ['retrieve', str(K)] + [enc_cat(c) for c in cats]
    ids = {c: i for i, c in enumerate(cats)}
    rows = []
    for (x, y) in p.bin:
        rs = gram.binary(cats[x], cats[y])
        rows.append(f'{x} {y} {len(rs)} ' + ' '.join(f'{ids[r.cat]} {1 if r.head_is_left else 0} {enc_str(r.op_string)} {enc_str(r.op_symbol)}' for r in rs))
    parts.append(str(len(rows)))
    parts += rows
    urows = []
    for x in p.un:
        rs = gram.unary(cats[x])
        urows.append(f'{x} {len(rs)} ' + ' '.join(f'{ids[r.cat]} 1 {enc_str(r.op_string)} {enc_str(r.op_symbol)}' for r in rs))
    parts.append(str(len(urows)))
    parts += urows
    parts.append(str(len(toks)))
    parts += [T.enc_tok(t) for t in toks]
    parts.append(S.enc_deriv(d))
    return ' '.join(' '.join(parts).split())


class ResultTableGrammar(object):
    """the real rule functions tabulated on a finite set of categories (results kept as returned)"""

    def __init__(self, cats, bin_results, un_results):
        self.cats = cats
        self.ids = {c: i for i, c in enumerate(cats)}
        self.binr = bin_results       # (x_id, y_id) -> [CombinatorResult]
        self.unr = un_results         # x_id -> [CombinatorResult]

    def binary(self, x, y):
        return list(self.binr.get((self.ids.get(x), self.ids.get(y)), []))

    def unary(self, x):
        return list(self.unr.get(self.ids.get(x), []))


def real_grammar_problem(rng, lang, max_cats=70):
    """a small sentence over the real grammar: lexical categories from a licensed derivation plus
    distractors; the real rule functions tabulated on the closure of everything buildable"""
    from depccg.grammar import en, ja
    import functools
    import grammar_common
    import tree_common as T
    mod = en if lang == 'en' else ja
    unary_tbl = grammar_common.unary_table(lang)
    bfun = mod.apply_binary_rules
    ufun = functools.partial(mod.apply_unary_rules, unary_rules=unary_tbl)
    gold = T.licensed_tree(rng, lang, rng.randint(0, 2), dict(awkward=0.0))
    gold_leaves = [l.cat for l in gold.leaves]
    n = len(gold_leaves)
    if n > 4:
        return None
    pairs = T.lexicon(lang)
    lex = []
    for c in gold_leaves:
        if c not in lex:
            lex.append(c)
    for _ in range(rng.randint(1, 3)):
        c = rng.choice(rng.choice(pairs))
        if c not in lex:
            lex.append(c)
    cats = list(lex)
    ids = {c: i for i, c in enumerate(cats)}

    def cid(c):
        if c not in ids:
            ids[c] = len(cats)
            cats.append(c)
        return ids[c]
    binr, unr = {}, {}

    def close_unary(level):
        frontier = list(level)
        depth = 0
        while frontier and depth < 3:
            nxt = []
            for x in frontier:
                if x in unr:
                    continue
                rs = ufun(cats[x])
                unr[x] = rs
                for r in rs:
                    k = cid(r.cat)
                    if k not in level:
                        level.add(k)
                        nxt.append(k)
            frontier = nxt
            depth += 1
        return level
    by_len = {1: close_unary(set(range(len(lex))))}
    for length in range(2, n + 1):
        cur = set()
        for a in range(1, length):
            for x in by_len[a]:
                for y in by_len[length - a]:
                    if (x, y) not in binr:
                        binr[(x, y)] = bfun(cats[x], cats[y])
                    for r in binr[(x, y)]:
                        cur.add(cid(r.cat))
            if len(cats) > max_cats:
                return None
        by_len[length] = close_unary(cur) if length < n else cur
    for x in list(unr):
        if not unr[x]:
            del unr[x]
    for k in list(binr):
        if not binr[k]:
            del binr[k]
    p = S.Problem()
    p.n, p.T = n, len(lex)
    lo = -rng.choice([300, 1500])
    p.tags = [[rng.randint(lo, 0) for _ in range(p.T)] for _ in range(n)]
    for i, c in enumerate(gold_leaves):
        p.tags[i][ids[c]] = rng.randint(-40, 0)
    p.deps = [[rng.randint(lo, 0) for _ in range(n + 1)] for _ in range(n)]
    top = [k for k in by_len[n]]
    if not top:
        return None
    p.roots = sorted(set(rng.sample(top, min(len(top), rng.randint(1, 3))) + ([ids[gold.cat]] if gold.cat in ids else [])))
    p.penalty = rng.choice([0, 6, 13])
    p.nbest = rng.choice([1, 1, 1, 2, 3])
    p.bin = {k: [(ids[r.cat], bool(r.head_is_left)) for r in v] for k, v in binr.items()}
    p.un = {k: [ids[r.cat] for r in v] for k, v in unr.items()}
    heads = {h for v in p.bin.values() for _, h in v}
    p.head_uniform = len(heads) <= 1
    gram = ResultTableGrammar(cats, binr, unr)
    toks = [Token.of_word(f'w{i}') for i in range(n)]
    return p, cats, gram, toks, (bfun, ufun)
