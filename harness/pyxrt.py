"""Runtime for the translated Cython glue (harness/pyx2py.py): the C++ objects the .pyx file
manipulates, backed by the shim (harness/shim.cpp) through ctypes."""
import ctypes
import os
import sys

import numpy

HERE = os.path.dirname(os.path.abspath(__file__))
UINT_MAX = 0xFFFFFFFF

_lib = None
_pop_trace = None      # list collecting popped items when tracing is on
_keepalive = []


class cell_item(ctypes.Structure):
    pass


_DEFAULT_FIELDS = [
    ('fin', ctypes.c_bool),
    ('cat', ctypes.c_uint),
    ('left', ctypes.POINTER(cell_item)),
    ('right', ctypes.POINTER(cell_item)),
    ('in_score', ctypes.c_float),
    ('out_score', ctypes.c_float),
    ('start_of_span', ctypes.c_uint),
    ('span_length', ctypes.c_uint),
    ('head_id', ctypes.c_uint),
    ('rule_id', ctypes.c_uint),
]

_C_TYPES = {
    'bool': ctypes.c_bool, 'char': ctypes.c_char, 'unsigned char': ctypes.c_ubyte, 'signed char': ctypes.c_byte,
    'short': ctypes.c_short, 'unsigned short': ctypes.c_ushort, 'int': ctypes.c_int, 'unsigned': ctypes.c_uint,
    'unsigned int': ctypes.c_uint, 'long': ctypes.c_long, 'unsigned long': ctypes.c_ulong, 'size_t': ctypes.c_size_t,
    'float': ctypes.c_float, 'double': ctypes.c_double, 'category_id': ctypes.c_uint,
    'uint8_t': ctypes.c_uint8, 'uint16_t': ctypes.c_uint16, 'uint32_t': ctypes.c_uint32, 'uint64_t': ctypes.c_uint64,
    'int8_t': ctypes.c_int8, 'int16_t': ctypes.c_int16, 'int32_t': ctypes.c_int32, 'int64_t': ctypes.c_int64,
}


def fields_from_header(path):
    """the data members of `struct cell_item` as parsing.h declares them, in order (the glue reads items by member
    name, so the mirror follows whatever layout the header has); None when the declaration is not understood"""
    import re
    try:
        text = open(path, encoding='utf-8').read()
    except OSError:
        return None
    text = re.sub(r'//[^\n]*', '', text)
    text = re.sub(r'/\*.*?\*/', '', text, flags=re.S)
    m = re.search(r'struct\s+cell_item\s*\{', text)
    if not m:
        return None
    depth, i, stmt, fields = 1, m.end(), '', []
    while i < len(text) and depth > 0:
        ch = text[i]
        if ch == '{':
            depth += 1
            stmt = ''
        elif ch == '}':
            depth -= 1
            stmt = ''
        elif depth == 1:
            if ch == ';':
                decl = ' '.join(stmt.split())
                stmt = ''
                if decl and '(' not in decl and not decl.startswith(('using ', 'typedef ', 'static ', 'friend ')):
                    mm = re.match(r'^(?:const\s+)?(.+?)\s*(\*?)\s*(\w+)(?:\s*:\s*\d+)?$', decl)
                    if not mm or ':' in decl:
                        return None               # bit fields / unknown syntax: keep the default mirror
                    ty, star, name = mm.group(1).strip(), mm.group(2), mm.group(3)
                    if star:
                        if ty.replace('const ', '') not in ('cell_item', 'struct cell_item'):
                            return None
                        fields.append((name, ctypes.POINTER(cell_item)))
                    elif ty in _C_TYPES:
                        fields.append((name, _C_TYPES[ty]))
                    else:
                        return None
            else:
                stmt += ch
        i += 1
    names = {n for n, _ in fields}
    if not {n for n, _ in _DEFAULT_FIELDS} <= names:
        return None
    return fields


def define_layout(header=None):
    if hasattr(cell_item, '_fields_'):
        return
    fields = fields_from_header(header) if header else None
    cell_item._fields_ = fields or _DEFAULT_FIELDS


SCAFFOLD_T = ctypes.CFUNCTYPE(ctypes.c_int, ctypes.c_void_p, ctypes.c_uint, ctypes.c_uint, ctypes.c_void_p)
FINALIZER_T = ctypes.CFUNCTYPE(ctypes.c_uint, ctypes.POINTER(cell_item), ctypes.POINTER(ctypes.c_uint),
                               ctypes.c_void_p, ctypes.c_void_p)
POPHOOK_T = ctypes.CFUNCTYPE(None, ctypes.POINTER(cell_item))


def load(path):
    """load the shim; called by the harness before the translated module is used"""
    global _lib
    lib = ctypes.CDLL(path)
    define_layout(os.path.join(os.environ.get('VERIF_REPO', '/repo'), 'depccg', 'parsing.h'))
    lib.vp_sizeof_item.restype = ctypes.c_uint
    if lib.vp_sizeof_item() != ctypes.sizeof(cell_item):
        raise RuntimeError('cell_item layout differs between parsing.h and pyxrt: %d vs %d'
                           % (lib.vp_sizeof_item(), ctypes.sizeof(cell_item)))
    lib.vp_cache_new.restype = ctypes.c_void_p
    lib.vp_cache_free.argtypes = [ctypes.c_void_p]
    lib.vp_cache_size.argtypes = [ctypes.c_void_p]
    lib.vp_cache_size.restype = ctypes.c_uint
    lib.vp_cache_get.argtypes = [ctypes.c_void_p, ctypes.c_uint, ctypes.c_uint, ctypes.c_uint,
                                 ctypes.POINTER(ctypes.c_uint), ctypes.POINTER(ctypes.c_uint),
                                 ctypes.POINTER(ctypes.c_int), ctypes.POINTER(ctypes.c_char_p),
                                 ctypes.POINTER(ctypes.c_char_p)]
    lib.vp_cache_get.restype = ctypes.c_int
    lib.vp_results_push.argtypes = [ctypes.c_void_p, ctypes.c_uint, ctypes.c_uint, ctypes.c_int,
                                    ctypes.c_char_p, ctypes.c_char_p]
    lib.vp_results_push.restype = None
    lib.vp_item_score.argtypes = [ctypes.POINTER(cell_item)]
    lib.vp_item_score.restype = ctypes.c_float
    lib.vp_set_pop_hook.argtypes = [ctypes.c_void_p]
    lib.vp_set_pop_hook.restype = None
    lib.vp_error.restype = ctypes.c_char_p
    lib.vp_parse_sentence.argtypes = [
        ctypes.c_void_p, ctypes.c_void_p, ctypes.c_uint, ctypes.POINTER(ctypes.c_uint), ctypes.c_uint,
        ctypes.c_void_p, ctypes.c_void_p, FINALIZER_T, SCAFFOLD_T, ctypes.c_void_p, ctypes.c_void_p,
        ctypes.c_uint, ctypes.c_float, ctypes.c_float, ctypes.c_int, ctypes.c_uint, ctypes.c_uint, ctypes.c_uint]
    lib.vp_parse_sentence.restype = ctypes.c_int
    _lib = lib
    return lib


def lib():
    if _lib is None:
        raise RuntimeError('pyxrt.load(shim) has not been called')
    return _lib


# ---- pop tracing (the repository hook) --------------------------------------------------------

def _on_pop(ptr):
    it = ptr.contents
    _pop_trace.append((bool(it.fin), float(it.in_score), float(it.out_score), int(it.start_of_span),
                       int(it.span_length), int(it.cat), int(it.head_id), int(it.rule_id)))


_pop_cb = POPHOOK_T(_on_pop)


def trace_pops(on):
    """start/stop recording every item taken from the agenda; returns the list when starting"""
    global _pop_trace
    if on:
        _pop_trace = []
        lib().vp_set_pop_hook(ctypes.cast(_pop_cb, ctypes.c_void_p))
        return _pop_trace
    lib().vp_set_pop_hook(None)
    _pop_trace = None
    return None


# ---- objects the .pyx manipulates ----------------------------------------------------------------

def expect_type(value, typ, name):
    if value is not None and not isinstance(value, typ):
        raise TypeError(f"Argument '{name}' has incorrect type (expected {typ.__name__}, got {type(value).__name__})")


class combinator_result(object):
    __slots__ = ('cat_id', 'rule_id', 'head_is_left', 'op_string', 'op_symbol')

    def __init__(self):
        self.cat_id = 0
        self.rule_id = 0
        self.head_is_left = False
        self.op_string = b''
        self.op_symbol = b''


class pair_unsigned(object):
    def __init__(self):
        self._first = 0
        self._second = 0

    @property
    def first(self):
        return self._first

    @first.setter
    def first(self, v):
        self._first = int(v) % (UINT_MAX + 1)

    @property
    def second(self):
        return self._second

    @second.setter
    def second(self, v):
        self._second = int(v) % (UINT_MAX + 1)


class unordered_set_unsigned(object):
    def __init__(self):
        self.items = []

    def insert(self, v):
        v = int(v)
        if v < 0 or v > UINT_MAX:
            raise OverflowError('value too large to convert to unsigned int')
        if v not in self.items:
            self.items.append(v)


class config(object):
    pass


class _CacheRow(object):
    def __init__(self, cache, key):
        self.cache = cache
        self.key = key

    def __getitem__(self, index):
        cat_id, rule_id = ctypes.c_uint(), ctypes.c_uint()
        head = ctypes.c_int()
        s1, s2 = ctypes.c_char_p(), ctypes.c_char_p()
        rc = lib().vp_cache_get(self.cache.ptr, self.key.first, self.key.second, int(index) % (UINT_MAX + 1),
                                ctypes.byref(cat_id), ctypes.byref(rule_id), ctypes.byref(head),
                                ctypes.byref(s1), ctypes.byref(s2))
        if rc == 1:
            raise KeyError('cache has no entry for this pair of categories (undefined behaviour in C++)')
        if rc == 2:
            raise IndexError('rule index out of range for this cache entry (undefined behaviour in C++)')
        r = combinator_result()
        r.cat_id, r.rule_id, r.head_is_left = cat_id.value, rule_id.value, bool(head.value)
        r.op_string, r.op_symbol = s1.value, s2.value
        return r


class _CacheDeref(object):
    def __init__(self, cache):
        self.cache = cache

    def __getitem__(self, key):
        return _CacheRow(self.cache, key)


class cache_type(object):
    """std::unordered_map<pair<unsigned,unsigned>, vector<combinator_result>> owned by Python"""

    def __init__(self, ptr=None):
        self.owned = ptr is None
        self.ptr = lib().vp_cache_new() if ptr is None else ptr

    def __getitem__(self, zero):
        # `cache[0]` : dereference of the pointer handed to the finalizer
        return _CacheDeref(self)

    def size(self):
        return lib().vp_cache_size(self.ptr)

    def __del__(self):
        if self.owned and self.ptr and _lib is not None:
            _lib.vp_cache_free(self.ptr)
            self.ptr = None


class _ResultsVec(object):
    def __init__(self, ptr):
        self.ptr = ptr

    def push_back(self, r):
        def u(v):
            v = int(v)
            if v < 0 or v > UINT_MAX:
                raise OverflowError('value too large to convert to unsigned int')
            return v
        os_, sy_ = r.op_string, r.op_symbol
        if not isinstance(os_, bytes) or not isinstance(sy_, bytes):
            raise TypeError('expected bytes')
        lib().vp_results_push(self.ptr, u(r.cat_id), u(r.rule_id), 1 if r.head_is_left else 0, os_, sy_)


class Item(object):
    """a `cell_item *` as the .pyx sees it"""
    __slots__ = ('p',)

    def __init__(self, p):
        self.p = p

    @property
    def fin(self):
        return bool(self.p.contents.fin)

    @property
    def cat(self):
        return int(self.p.contents.cat)

    @property
    def rule_id(self):
        return int(self.p.contents.rule_id)

    @property
    def head_id(self):
        return int(self.p.contents.head_id)

    @property
    def left(self):
        q = self.p.contents.left
        return Item(q) if q else None

    @property
    def right(self):
        q = self.p.contents.right
        return Item(q) if q else None

    def score(self):
        return float(lib().vp_item_score(self.p))


def addr(x):
    """`<size_t>p` : the address a pointer holds (0 for NULL)"""
    import ctypes
    if x is None:
        return 0
    p = x.p if isinstance(x, Item) else x
    return ctypes.cast(p, ctypes.c_void_p).value or 0


class _UIntPtr(object):
    def __init__(self, p):
        self.p = p

    def __getitem__(self, i):
        return int(self.p[i])

    def __setitem__(self, i, v):
        self.p[i] = int(v) % (UINT_MAX + 1)


class _FloatPtr(object):
    def __init__(self, arr):
        self.arr = arr          # keeps the buffer alive
        self.addr = arr.ctypes.data


def float_ptr(arr):
    """`<float*>arr.data` for a `np.ndarray[float, ndim=2, mode='c']` typed buffer"""
    if not isinstance(arr, numpy.ndarray):
        raise TypeError('Argument has incorrect type (expected numpy.ndarray, got %s)' % type(arr).__name__)
    if arr.ndim != 2:
        raise ValueError('Buffer has wrong number of dimensions (expected 2, got %d)' % arr.ndim)
    if arr.dtype != numpy.float32:
        raise ValueError("Buffer dtype mismatch, expected 'float' but got '%s'" % arr.dtype)
    if not arr.flags['C_CONTIGUOUS']:
        raise ValueError('ndarray is not C-contiguous')
    return _FloatPtr(arr)


class CppException(RuntimeError):
    pass


finalizer_errors = []


def parse_sentence(tag, dep, length, roots, bin_cb, un_cb, finalizer, scaffold, fin_args, cache, cfg):
    state = {'exc': None}

    def _scaffold(which, x, y, resptr):
        cb = bin_cb if which == 1 else un_cb
        try:
            return int(scaffold(cb, x, y, _ResultsVec(resptr)))
        except BaseException as e:      # `except -1`
            state['exc'] = e
            return -1

    def _finalizer(itemp, tokp, cachep, argsp):
        # `noexcept`: an exception is reported and ignored, the function returns 0
        try:
            return int(finalizer(Item(itemp), _UIntPtr(tokp), cache_type(cachep), fin_args)) % (UINT_MAX + 1)
        except BaseException as e:
            finalizer_errors.append(e)
            return 0

    sc = SCAFFOLD_T(_scaffold)
    fi = FINALIZER_T(_finalizer)
    n = len(roots.items)
    arr = (ctypes.c_uint * max(n, 1))(*roots.items)
    length = int(length)
    if length < 0 or length > UINT_MAX:
        raise OverflowError("can't convert negative value to unsigned int")
    status = lib().vp_parse_sentence(
        tag.addr, dep.addr, length, arr, n, 1, 2, fi, sc, None, cache.ptr,
        int(cfg.num_tags), float(cfg.unary_penalty), float(cfg.beta), 1 if cfg.use_beta else 0,
        int(cfg.pruning_size), int(cfg.nbest), int(cfg.max_step))
    # `&c_config`: the struct is shared with the C++ side, read back whatever it wrote
    nt, pr, nb, ms, ub = ctypes.c_uint(), ctypes.c_uint(), ctypes.c_uint(), ctypes.c_uint(), ctypes.c_int()
    up, be = ctypes.c_float(), ctypes.c_float()
    lib().vp_cfg_get(ctypes.byref(nt), ctypes.byref(up), ctypes.byref(be), ctypes.byref(ub), ctypes.byref(pr),
                     ctypes.byref(nb), ctypes.byref(ms))
    cfg.num_tags, cfg.unary_penalty, cfg.beta, cfg.use_beta = nt.value, up.value, be.value, bool(ub.value)
    cfg.pruning_size, cfg.nbest, cfg.max_step = pr.value, nb.value, ms.value
    if status == -1:
        if state['exc'] is not None:
            raise state['exc']          # Cython keeps the pending Python exception
        raise CppException(lib().vp_error().decode('utf-8', 'replace'))
    return status
