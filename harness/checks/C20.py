"""C20 PTB and Japanese-bank text written by depccg reads back to the same tree.

model ops: ptb ja read_ptb read_ja    (lean/Depccg/Print/Text.lean, Read/Text.lean)
theorems : lean/Depccg/Props/C20.lean
oracle   : independent S-expression / brace readers written from the formats
"""
from depccg.printer.ptb import ptb_of
from depccg.printer.ja import ja_of
from depccg.tools.reader import _parse_ptb
from depccg.tools.ja.reader import _JaCCGLineReader
from depccg import lang as dlang
import common
import tree_common as T
import gen_cat
import wire
from wire import enc_str

PID = 'C20'


def esc(word):
    table = {'(': '-LRB-', ')': '-RRB-', '{': '-LCB-', '}': '-RCB-', '[': '-LSB-', ']': '-RSB-'}
    if word in table:
        return table[word]
    return word.replace('>', '-RAB-').replace('<', '-LAB-')


def shape(t, word_of, with_sym):
    if t.is_leaf:
        return ('L', str(t.cat), word_of(t))
    kids = tuple(shape(c, word_of, with_sym) for c in t.children)
    return ('N', str(t.cat), t.op_symbol if with_sym else None) + kids


def ja_annotate(rng, line):
    """add the bank's dependency annotations `{I1}` and `_suffix` to leaf categories"""
    out = []
    i = 0
    parts = line.split(' ')
    for j, p in enumerate(parts):
        if p.startswith('{') and j + 1 < len(parts) and '/' in parts[j + 1] and parts[j + 1].endswith('}') is not None \
                and not any(p[1:] == c for c in ('SSEQ', '>', '<', '>B', '<B1', '<B2', '<B3', '<B4', '>Bx1', '>Bx2', '>Bx3',
                                                  'ADNext', 'ADNint', 'ADV0', 'ADV1', 'ADV2')) and parts[j + 1].count('/') == 3:
            k = rng.random()
            if k < 0.4:
                p = p + '_' + rng.choice(['none', 'I1', 'mod'])
            elif k < 0.6:
                p = p.replace(']', ']{I1}', 1)
            elif k < 0.85:
                # one marker per atom, as the bank writes functor categories: S[..]{I1}\NP[..]{I2}
                pieces = p.split(']')
                p = ''.join(piece + (']{I%d}' % (n + 1)) for n, piece in enumerate(pieces[:-1])) + pieces[-1]
        out.append(p)
    return ' '.join(out)


def ptb_word_known(word):
    """the recorded finding: PTB has no escaping for parentheses inside words"""
    return (word.startswith('(') or word.endswith(')')) and word not in ('(', ')')


def run(ctx):
    rng = ctx.rng
    ctx.lean = common.check_lean(PID, ctx.thorough)
    ctx.rule = ('trees: grammar-licensed English derivations and arbitrary trees printed with ptb_of and read back with '
                '_parse_ptb; Japanese derivations / arbitrary trees printed with ja_of and read back with _JaCCGLineReader, '
                'with and without the bank annotations `{I1}` / `_suffix` annotations on leaf categories; awkward tokens (brackets, '
                'angle brackets, quotes, non-ASCII; for Japanese without / { }); truncated PTB lines must be rejected. '
                'non-trivial = distinct lines of trees with >= 2 leaves read back successfully')
    cats = {'en': gen_cat.tree_cats('en'), 'ja': gen_cat.tree_cats('ja')}
    # the Japanese bank format names its rules by the bank's symbols; the reader's own table (read
    # from the imported module, not from its source) says which ones it knows
    from depccg.tools.ja.reader import combinators as ja_bank_symbols
    ja_labels = {'binary': [l for l in T.JA_LABELS['binary'] if l[1] in ja_bank_symbols],
                 'unary': [l for l in T.JA_LABELS['unary'] if l[1] in ja_bank_symbols]}
    ctx.extra['ja_bank_symbols'] = sorted(ja_bank_symbols)
    cases = []
    n = ctx.budget(1200, 10000)
    for i in range(n):
        lang = 'ja' if i % 2 else 'en'
        kw = dict(awkward=rng.choice([0.0, 0.3, 0.7]), unispace=rng.choice([0.0, 0.0, 0.2]))
        if i % 3 == 0:
            t = T.arbitrary_tree(rng, lang, rng.randint(1, 6), cats[lang], T.EN_LABELS if lang == 'en' else ja_labels, kw)
        else:
            t = T.licensed_tree(rng, lang, rng.randint(0, 4), kw)
        enc = T.enc_tree(t)
        words = [tok.get('word', '') for tok in t.tokens]
        desc = {'lang': lang, 'words': words}
        if lang == 'en':
            try:
                line = ptb_of(t)
            except Exception as e:
                ctx.fail(f'ptb_of raised {type(e).__name__}', desc, fingerprint=['ptb-print-raise'])
                continue
            cases.append(('ptb', 'ptb ' + enc, 'ok ' + enc_str(line), desc))
            ctx.evaluations += 1
            desc['line'] = line
            try:
                rt, rtoks = _parse_ptb(line)
                got = T.enc_read(rt, rtoks)
            except RecursionError:
                raise
            except Exception as e:
                rt, got = None, 'err ' + wire.err_name(e)
            cases.append(('read_ptb', 'read_ptb en ' + enc_str(line), got, desc))
            in_domain = all(T.token_ok_strict(tok) for tok in t.tokens)
            if in_domain:
                known = any(ptb_word_known(w) for w in words)
                want = shape(t, lambda l: esc(l.token['word']), False)
                if rt is None or shape(rt, lambda l: l.token.get('word'), False) != want:
                    ctx.fail('PTB line printed by depccg does not read back to the same categories / shape / words'
                             + (f' ({got})' if rt is None else ''), desc,
                             fingerprint=['ptb-paren-word'] if known else ['ptb-roundtrip', got.split(' ')[1] if rt is None else 'tree'])
                elif len(words) >= 2:
                    ctx.nontrivial_add(line)
                # an incomplete line is rejected with an error
                if not known:
                    parts = line.split(' ')
                    if len(parts) > 2:
                        cut = ' '.join(parts[:rng.randint(2, len(parts) - 1)])
                        try:
                            r2, _ = _parse_ptb(cut)
                            ctx.fail('an incomplete PTB line was read as a (partial) tree instead of being rejected', dict(desc, cut=cut),
                                     fingerprint=['ptb-incomplete'])
                        except Exception:
                            pass
                        ctx.evaluations += 1
        else:
            ok_ja = all(T.token_ok_strict(tok) and not any(c in tok.get('word', '') for c in '/{}') for tok in t.tokens) \
                and all(not any(c in v for c in '/{} ') for tok in t.tokens for v in tok.values())
            try:
                line = ja_of(t)
            except Exception as e:
                ctx.fail(f'ja_of raised {type(e).__name__}', desc, fingerprint=['ja-print-raise'])
                continue
            cases.append(('ja', 'ja ' + enc, 'ok ' + enc_str(line), desc))
            ctx.evaluations += 1
            for annotated in (False, True):
                l2 = ja_annotate(rng, line) if annotated else line
                d2 = dict(desc, line=l2)
                try:
                    rt, rtoks = _JaCCGLineReader(l2).parse()
                    got = T.enc_read(rt, rtoks)
                except RecursionError:
                    raise
                except Exception as e:
                    rt, got = None, 'err ' + wire.err_name(e)
                cases.append(('read_ja', 'read_ja ' + enc_str(l2), got, d2))
                if not ok_ja:
                    continue
                from depccg.utils import normalize
                want = shape(t, lambda l: normalize(l.token['word']), True)
                if rt is None:
                    ctx.fail(f'Japanese-bank line printed by depccg cannot be read back ({got})', d2,
                             fingerprint=['ja-read-raise', got.split(' ')[1]])
                elif shape(rt, lambda l: l.token.get('word'), True) != want:
                    a, b = shape(rt, lambda l: l.token.get('word'), True), want
                    what = 'rule symbols' if shape(rt, lambda l: l.token.get('word'), False) == shape(t, lambda l: normalize(l.token['word']), False) else 'categories / shape / words'
                    ctx.fail(f'Japanese-bank line reads back with different {what}' + (' (annotated line)' if annotated else ''), d2,
                             fingerprint=['ja-roundtrip', what])
                elif len(words) >= 2:
                    ctx.nontrivial_add(l2)
    ctx.sample({'ptb': 'see lines in replay files'})
    import file_common
    cases += file_common.file_suite(ctx, 'ptb', ctx.budget(250, 2500))
    cases += file_common.file_suite(ctx, 'ja', ctx.budget(200, 2000), lang_of=lambda i: 'ja')
    ctx.extra['skipped_unsupported'] = common.compare_with_model(ctx, cases)
    common.conclude(ctx)


def replay(ctx, path):
    import json
    print(json.dumps(json.load(open(path)), indent=1)[:4000])
    run(ctx)
