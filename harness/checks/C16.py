"""C16 The supertag beam is honoured.

search level: the real C++ parse_sentence through the shim vs lean/Depccg/Search.lean (op `search`),
oracles from harness/search_common.py.  Further levels are added by `extra(ctx)` below.
"""
import common
import search_checks

PID = 'C16'
ORACLES = {'beam'}
GENS = [dict(max_n=4, beam=True), dict(max_n=3, beam=True, multi=True)]


def extra(ctx):
    # the beam options travel through depccg.parsing.run and the glue: filter on, off, tiny pruning sizes
    import glue_checks
    glue_checks.single_suite(ctx, {'valid', 'optimal'}, [dict(max_n=4, beam=True), dict(max_n=4), dict(max_n=3, beam=True, multi=True)],
                             ctx.budget(450, 4500))
    glue_checks.option_sequence_scenario(ctx, ctx.budget(2, 12))
    # ... and from the command line: argparse.py -> __main__.py -> read_params -> parsing.run -> print_
    import cli_common
    cli_common.cli_suite(ctx, ctx.budget(40, 400))


def run(ctx):
    ctx.lean = common.check_lean(PID, ctx.thorough)
    ctx.rule = ('random search problems (1..5 tokens, lexical + derived category ids, integer-scaled exact scores, '
                'random binary/unary rule tables, root sets, penalties, beam settings, n-best sizes) run through the real '
                'C++ parse_sentence (shim + pop hook) and through the Lean model; oracles: ' + ', '.join(sorted(ORACLES))
                + '. non-trivial = distinct problems with at least one root derivation / returned tree')
    search_checks.suite(ctx, PID, ORACLES, GENS, ctx.budget(1200, 12000), max_n_enum=5)
    extra(ctx)
    common.conclude(ctx)


def replay(ctx, path):
    import json
    print(json.dumps(json.load(open(path)), indent=1)[:4000])
    run(ctx)
