"""C12 Rule labels and head directions on trees are those the grammar assigned.

search level: the real C++ parse_sentence through the shim vs lean/Depccg/Search.lean (op `search`),
oracles from harness/search_common.py.  Further levels are added by `extra(ctx)` below.
"""
import common
import search_checks

PID = 'C12'
ORACLES = {'ruleids'}
GENS = [dict(max_n=4, multi=True), dict(max_n=4, multi=True, mixed_heads=True, nbest_max=4)]


def reader_labels(ctx):
    """(b) trees produced by the treebank readers: a binary node whose category the active grammar
    derives from its children carries that rule's label; only underivable nodes are unknown"""
    import os
    import tempfile
    import tree_common as T
    import gen_cat
    from depccg.printer.auto import auto_of
    from depccg.tools.reader import read_auto
    from depccg.grammar import en, ja
    from depccg import lang as dlang
    rng = ctx.rng
    tmpdir = tempfile.mkdtemp(prefix='verif_c12_')
    path = os.path.join(tmpdir, 'one.auto')
    seen = {'labelled': 0, 'unk': 0}
    try:
        for i in range(ctx.budget(500, 5000)):
            lang = 'ja' if i % 3 == 2 else 'en'
            mod = en if lang == 'en' else ja
            if i % 5 == 4:
                t = T.arbitrary_tree(rng, lang, rng.randint(2, 5), gen_cat.tree_cats(lang),
                                     T.EN_LABELS if lang == 'en' else T.JA_LABELS, dict(awkward=0.1))
            else:
                t = T.licensed_tree(rng, lang, rng.randint(0, 4), dict(awkward=0.1))
            line = auto_of(t)
            with open(path, 'w', encoding='utf-8') as f:
                f.write('ID=1\n' + line + '\n')
            dlang.set_global_language_to(lang)
            try:
                rt = list(read_auto(path))[0].tree
            except Exception as e:
                ctx.fail(f'read_auto raised {type(e).__name__} on a printed line', {'line': line}, fingerprint=['reader-raise'])
                continue
            finally:
                dlang.set_global_language_to('en')
            ctx.evaluations += 1

            def walk(n):
                if n.is_leaf:
                    return
                if not n.is_unary:
                    l, r = n.children
                    rs = [x for x in mod.apply_binary_rules(l.cat, r.cat) if x.cat == n.cat]
                    labs = {(x.op_string, x.op_symbol) for x in rs}
                    if rs:
                        seen['labelled'] += 1
                        ctx.nontrivial_add(('reader', str(l.cat), str(r.cat), str(n.cat)))
                        if (n.op_string, n.op_symbol) not in labs:
                            ctx.fail(f'read-back node {n.cat} <- ({l.cat}, {r.cat}) is labelled {n.op_string}/{n.op_symbol}; '
                                     f'the grammar derives it by {sorted(labs)}', {'line': line, 'lang': lang},
                                     fingerprint=['reader-label', lang])
                    else:
                        seen['unk'] += 1
                        if (n.op_string, n.op_symbol) != ('unk', '<unk>'):
                            ctx.fail(f'underivable read-back node {n.cat} is labelled {n.op_string}', {'line': line, 'lang': lang},
                                     fingerprint=['reader-unk', lang])
                for c in n.children:
                    walk(c)
            walk(rt)
    finally:
        if os.path.exists(path):
            os.remove(path)
        os.rmdir(tmpdir)
    ctx.extra['reader_nodes'] = seen
    special_pairs(ctx)
    other_readers(ctx)
    cross_language(ctx)


def special_pairs(ctx):
    """every result the English grammar has for a punctuation / conjunction category next to a common
    category (either order), as a two-leaf tree through auto_of and read_auto: readers must not take short
    cuts around the grammar for such nodes"""
    import os
    import tempfile
    from depccg.cat import Category
    from depccg.tree import Tree
    from depccg.types import Token
    from depccg.printer.auto import auto_of
    from depccg.tools.reader import read_auto
    from depccg.grammar import en
    from depccg import lang as dlang
    marks = [',', '.', ';', ':', 'conj', 'LRB', 'RRB', 'LQU', 'RQU']
    commons = ['NP', 'N', 'NP\\NP', 'S[dcl]', 'S[dcl]\\NP', 'S[ng]\\NP', 'S[pss]\\NP', 'S[b]\\NP', 'PP', '(S\\NP)\\(S\\NP)', 'NP[nb]', 'N/N',
               'S[em]', 'S/S', 'NP/NP', '(NP\\NP)/NP', 'S[adj]\\NP', 'NP[conj]', 'S[dcl][conj]'[:0] or 'S[q]']
    tmpdir = tempfile.mkdtemp(prefix='verif_c12s_')
    path = os.path.join(tmpdir, 's.auto')
    n = 0
    try:
        for a in marks:
            for b in commons:
                for x, y in ((Category.parse(a), Category.parse(b)), (Category.parse(b), Category.parse(a))):
                    rs = en.apply_binary_rules(x, y)
                    for r in rs:
                        t = Tree.make_binary(r.cat, Tree.make_terminal(Token.of_word('u'), x), Tree.make_terminal(Token.of_word('v'), y),
                                             r.op_string, r.op_symbol, r.head_is_left)
                        with open(path, 'w', encoding='utf-8') as f:
                            f.write('ID=1\n' + auto_of(t) + '\n')
                        dlang.set_global_language_to('en')
                        try:
                            rt = list(read_auto(path))[0].tree
                        except Exception as e:
                            ctx.fail(f'read_auto raised {type(e).__name__} on a printed two-leaf tree', {'line': auto_of(t)},
                                     fingerprint=['reader-raise', 'special'])
                            continue
                        finally:
                            dlang.set_global_language_to('en')
                        ctx.evaluations += 1
                        n += 1
                        labs = {(q.op_string, q.op_symbol) for q in rs if q.cat == r.cat}
                        if (rt.op_string, rt.op_symbol) not in labs:
                            ctx.fail(f'read-back node {r.cat} <- ({x}, {y}) is labelled {rt.op_string}/{rt.op_symbol}; the grammar derives it '
                                     f'by {sorted(labs)}', {'line': auto_of(t)}, fingerprint=['reader-label', 'special'])
    finally:
        if os.path.exists(path):
            os.remove(path)
        os.rmdir(tmpdir)
    ctx.extra['special_pair_nodes'] = n


def other_readers(ctx):
    """the readers of the formats that *carry* rule labels (C&C XML `type`, Jigg XML `rule`) and of
    PTB: the label of a derivable binary node comes from the active grammar, whatever the file says
    (files written under another grammar, by other tools, or with stale / unknown labels)"""
    import os
    import tempfile
    from lxml import etree
    import tree_common as T
    import gen_cat
    from depccg.tree import Tree, ScoredTree
    from depccg.printer.xml import xml_of
    from depccg.printer.jigg_xml import to_jigg_xml
    from depccg.printer.ptb import ptb_of
    from depccg.tools.reader import read_xml, read_jigg_xml, read_ptb
    from depccg.grammar import en, ja
    from depccg import lang as dlang
    rng = ctx.rng
    tmpdir = tempfile.mkdtemp(prefix='verif_c12r_')
    path = os.path.join(tmpdir, 'one.txt')
    stats = {}
    foreign = [('unk', '<unk>'), ('fa', '>'), ('ba', '<'), ('bx', '<Bx'), ('conj', '<Φ>'), ('other', 'SSEQ'), ('x-rule', '?'), ('lp', '<lp>')]

    def relabel(n, p):
        if n.is_leaf:
            return Tree(n.cat, list(n.children), n.op_string, n.op_symbol)
        kids = [relabel(c, p) for c in n.children]
        s, y = (n.op_string, n.op_symbol) if rng.random() > p else rng.choice(foreign)
        return Tree(n.cat, kids, s, y, n.head_is_left)
    try:
        for i in range(ctx.budget(400, 4000)):
            fmt = ('xml', 'jigg', 'ptb', 'nltk')[i % 4]
            lang = 'ja' if (fmt in ('jigg', 'nltk') and i % 3 == 0) else 'en'
            mod = en if lang == 'en' else ja
            if i % 5 == 4:
                t = T.arbitrary_tree(rng, lang, rng.randint(2, 5), gen_cat.tree_cats(lang),
                                     T.EN_LABELS if lang == 'en' else T.JA_LABELS, dict(awkward=0.0, attrs=0.6))
            else:
                t = T.licensed_tree(rng, lang, rng.randint(1, 4), dict(awkward=0.0, attrs=0.6))
            t = relabel(t, rng.choice([0.0, 0.5, 1.0]))
            desc = {'format': fmt, 'lang': lang, 'tree': T.enc_tree(t)[:2000]}
            dlang.set_global_language_to(lang)
            try:
                if fmt == 'nltk':
                    # Tree.nltk_tree() / Tree.of_nltk_tree (depccg/tree.py) over a minimal stand-in for nltk.tree.Tree
                    import sys as _sys
                    import nltk.tree as _nt

                    class FakeNltkTree(list):
                        def __init__(self, label, children):
                            super().__init__(children)
                            self._label = label

                        def label(self):
                            return self._label
                    _nt.Tree = FakeNltkTree
                    rt = Tree.of_nltk_tree(T.clone(t).nltk_tree())
                    if [str(l.cat) for l in rt.leaves] != [str(l.cat) for l in t.leaves] or [l.word for l in rt.leaves] != [l.word for l in t.leaves]:
                        raise ValueError('leaves differ after the nltk round trip')
                elif fmt == 'ptb':
                    text = ptb_of(t) + '\n'
                else:
                    root = xml_of([[ScoredTree(T.clone(t), -1.0)]]) if fmt == 'xml' else \
                        to_jigg_xml([[ScoredTree(T.clone(t), -1.0)]], use_symbol=(lang == 'ja'))
                    text = etree.tostring(root, encoding='utf-8', pretty_print=True).decode('utf-8')
                with open(path, 'w', encoding='utf-8') as f:
                    f.write(text)
                if fmt != 'nltk':
                    reader = {'xml': read_xml, 'jigg': read_jigg_xml, 'ptb': read_ptb}[fmt]
                    rt = list(reader(path))[0].tree
            except Exception as e:
                ctx.fail(f'{fmt}: writing / reading raised {type(e).__name__}: {e}', desc, fingerprint=['reader-raise', fmt])
                continue
            finally:
                dlang.set_global_language_to('en')
            ctx.evaluations += 1

            def walk(n):
                if n.is_leaf:
                    return None
                if not n.is_unary:
                    l, r = n.children
                    rs = [x for x in mod.apply_binary_rules(l.cat, r.cat) if x.cat == n.cat]
                    if rs:
                        stats[fmt] = stats.get(fmt, 0) + 1
                        ctx.nontrivial_add(('reader', fmt, str(l.cat), str(r.cat), str(n.cat)))
                        labs = {(x.op_string, x.op_symbol) for x in rs}
                        if (n.op_string, n.op_symbol) not in labs:
                            return (f'{fmt}: read-back node {n.cat} <- ({l.cat}, {r.cat}) is labelled {n.op_string}/{n.op_symbol}; '
                                    f'the active ({lang}) grammar derives it by {sorted(labs)}')
                        if fmt == 'ptb' and bool(n.head_is_left) not in {bool(x.head_is_left) for x in rs}:
                            return f'{fmt}: read-back node {n.cat} has head_is_left={n.head_is_left}, the grammar says otherwise'
                    elif (n.op_string, n.op_symbol) != ('unk', '<unk>'):
                        return f'{fmt}: underivable read-back node {n.cat} is labelled {n.op_string}/{n.op_symbol}'
                for c in n.children:
                    why = walk(c)
                    if why:
                        return why
                return None
            why = walk(rt)
            if why:
                ctx.fail(why, desc, fingerprint=['reader-label', fmt, lang])
    finally:
        if os.path.exists(path):
            os.remove(path)
        os.rmdir(tmpdir)
    ctx.extra['reader_nodes_by_format'] = stats


def cross_language(ctx):
    """the same featureless derivations read under the English grammar, then the Japanese one, then
    English again, in this one process: labels and (for formats without a head field) head directions
    must be those of the grammar that is active at the time"""
    import os
    import tempfile
    from depccg.cat import Category
    from depccg.tree import Tree
    from depccg.types import Token
    from depccg.printer.ptb import ptb_of
    from depccg.tools.reader import read_ptb
    from depccg.grammar import en, ja
    from depccg import lang as dlang
    rng = ctx.rng
    texts = ['S', 'NP', 'N', 'S\\NP', 'S/S', 'S\\S', 'NP/N', '(S\\NP)/NP', 'NP\\NP', '(S\\NP)\\(S\\NP)', 'S/NP', 'PP', 'PP/NP']
    pool = [Category.parse(t) for t in texts]
    tmpdir = tempfile.mkdtemp(prefix='verif_c12x_')
    path = os.path.join(tmpdir, 'x.ptb')
    try:
        for _ in range(ctx.budget(150, 1500)):
            # a two-level tree whose nodes are derivable under at least one of the grammars
            x, y = rng.choice(pool), rng.choice(pool)
            res = en.apply_binary_rules(x, y) + ja.apply_binary_rules(x, y)
            if not res:
                continue
            parent = rng.choice(res).cat
            t = Tree.make_binary(parent, Tree.make_terminal(Token.of_word('a'), x), Tree.make_terminal(Token.of_word('b'), y), 'fa', '>')
            with open(path, 'w') as f:
                f.write(ptb_of(t) + '\n')
            for lang in rng.choice([['en', 'ja', 'en'], ['ja', 'en', 'ja']]):
                mod = en if lang == 'en' else ja
                dlang.set_global_language_to(lang)
                try:
                    rt = list(read_ptb(path))[0].tree
                except Exception as e:
                    ctx.fail(f'read_ptb raised {type(e).__name__} under language {lang}', {'line': ptb_of(t)}, fingerprint=['xlang-raise', lang])
                    continue
                finally:
                    dlang.set_global_language_to('en')
                ctx.evaluations += 1
                rs = [r for r in mod.apply_binary_rules(x, y) if r.cat == parent]
                want = {(r.op_string, r.op_symbol, bool(r.head_is_left)) for r in rs} or {('unk', '<unk>', True)}
                got = (rt.op_string, rt.op_symbol, bool(rt.head_is_left))
                ctx.nontrivial_add(('xlang', str(x), str(y), str(parent), lang))
                if got not in want:
                    ctx.fail(f'node {parent} <- ({x}, {y}) read under the {lang} grammar carries {got}; that grammar assigns {sorted(want)}',
                             {'line': ptb_of(t), 'lang': lang}, fingerprint=['xlang-label', lang])
    finally:
        if os.path.exists(path):
            os.remove(path)
        os.rmdir(tmpdir)


def extra(ctx):
    import glue_checks
    reader_labels(ctx)
    glue_checks.single_suite(ctx, {'labels'}, [dict(max_n=4, multi=True), dict(max_n=4, multi=True, mixed_heads=True, nbest_max=3), dict(max_n=3, multi=True, identity=True)], ctx.budget(600, 6000))
    glue_checks.real_grammar_suite(ctx, {'labels'}, ctx.budget(100, 1000))


def run(ctx):
    ctx.lean = common.check_lean(PID, ctx.thorough)
    ctx.rule = ('random search problems (1..5 tokens, lexical + derived category ids, integer-scaled exact scores, '
                'random binary/unary rule tables, root sets, penalties, beam settings, n-best sizes) run through the real '
                'C++ parse_sentence (shim + pop hook) and through the Lean model; oracles: ' + ', '.join(sorted(ORACLES))
                + '. non-trivial = distinct problems with at least one root derivation / returned tree')
    search_checks.suite(ctx, PID, ORACLES, GENS, ctx.budget(1200, 12000), max_n_enum=5)
    extra(ctx)
    import cli_common
    cli_common.cli_suite(ctx, ctx.budget(12, 120), formats=['auto_extended', 'xml', 'jigg_xml', 'json'])      # the same through the command line itself
    common.conclude(ctx)


def replay(ctx, path):
    import json
    print(json.dumps(json.load(open(path)), indent=1)[:4000])
    run(ctx)
