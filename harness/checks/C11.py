"""C11 Batch results align with inputs and do not depend on batch history.

model ops: chunks runbatch typecheck    (lean/Depccg/Glue.lean) + search (per sentence)
theorems : lean/Depccg/Props/C11.lean
oracle   : the same sentences parsed alone, in one call, permuted, in subsets, and chunked over a
           real multiprocessing.Pool must give identical results; shape mismatches are rejected
           before any grammar callback; a zero-length sentence runs in a subprocess
"""
import json
import os
import subprocess
import sys

import numpy

import common
import glue_checks
import glue_common as G
import native
import search_common as S
from depccg.types import Token, ScoringResult, CombinatorResult

PID = 'C11'
HERE = os.path.dirname(os.path.dirname(os.path.dirname(os.path.abspath(__file__))))


def make_batch(rng, m):
    """m sentences sharing categories, grammar, roots and configuration"""
    base = S.random_problem(rng, max_n=4, multi=rng.random() < 0.5, mixed_heads=rng.random() < 0.3,
                            nbest_max=rng.choice([1, 1, 3]))
    if rng.random() < 0.5:
        symmetrise(base)
    base.max_step = 200000          # a safety net for the check itself, far above what these sentences need
    K = G.problem_K(base)
    cats = G.category_pool(K, rng)
    gram = G.TableGrammar(cats, base.bin, base.un)
    sents = []
    for j in range(m):
        p = S.Problem.from_json(base.to_json())
        p.n = rng.randint(1, 5)
        lo = -rng.choice([200, 2000])
        p.tags = [[rng.randint(lo, 0) for _ in range(p.T)] for _ in range(p.n)]
        p.deps = [[rng.randint(lo, 0) for _ in range(p.n + 1)] for _ in range(p.n)]
        sents.append(p)
    return base, cats, gram, sents


def flip_scenario(rng):
    """two alternative derived categories X, Y of one pair, Y also derivable from another pair in
    another sentence: the order in which X and Y enter the category table depends on the batch
    history, and both lead to equally scored, different trees"""
    p = S.Problem()
    p.T = 5
    X, Y, R = 5, 6, 7
    h = rng.random() < 0.5
    p.bin = {(0, 1): [(X, h), (Y, h)], (2, 3): [(Y, h)], (X, 4): [(R, h)], (Y, 4): [(R, h)]}
    if rng.random() < 0.5:
        p.bin[(0, 1)] = [(Y, h), (X, h)]
    if rng.random() < 0.5:
        p.bin[(4, 4)] = [(4, h)]
    p.un = {}
    p.roots = [R]
    p.penalty = 6
    p.nbest = rng.choice([1, 1, 2])
    p.head_uniform = True
    K = 8
    cats = G.category_pool(K, rng)
    gram = G.TableGrammar(cats, p.bin, p.un)
    sents = []
    for lex in ([2, 3, 4], [0, 1, 4], [2, 3], [0, 1, 4], [2, 3, 4]):
        q = S.Problem.from_json(p.to_json())
        q.n = len(lex)
        q.tags = [[(-10 if c == lex[i] else -rng.randint(900, 2000)) for c in range(q.T)] for i in range(q.n)]
        q.deps = [[-rng.randint(10, 500) for _ in range(q.n + 1)] for _ in range(q.n)]
        sents.append(q)
    rng.shuffle(sents)
    return p, cats, gram, sents


def symmetrise(p):
    """make alternative results of one category pair interchangeable downstream: exact score ties
    between different derived categories that lead to different, equally scored trees (the situation
    in which any dependence on category numbering shows)"""
    for key in list(p.bin):
        rs = p.bin[key]
        if len(rs) < 2:
            continue
        h = rs[0][1]
        rs = [(c, h) for c, _ in rs]
        p.bin[key] = rs
        first = rs[0][0]
        for c, _ in rs[1:]:
            if c == first:
                continue
            for (x, y), out in list(p.bin.items()):
                if x == first and (c, y) not in p.bin:
                    p.bin[(c, y)] = list(out)
                if y == first and (x, c) not in p.bin:
                    p.bin[(x, c)] = list(out)
            if first in p.roots and c not in p.roots:
                p.roots.append(c)
            if first in p.un and c not in p.un:
                # keep the unary table acyclic (targets have larger ids than their source)
                ts = [t for t in p.un[first] if t > c]
                if ts:
                    p.un[c] = ts


class CountingGrammar(object):
    def __init__(self, gram):
        self.gram = gram
        self.calls = 0

    def binary(self, x, y):
        self.calls += 1
        return self.gram.binary(x, y)

    def unary(self, x):
        self.calls += 1
        return self.gram.unary(x)


class SparseGrammar(object):
    """L R -> P, P R -> P, nothing else; counts the distinct questions it is asked"""

    def __init__(self, L, R, P):
        self.L, self.R, self.P = L, R, P
        self.asked = 0

    def binary(self, x, y):
        self.asked += 1
        if y == self.R and (x == self.L or x == self.P):
            return [CombinatorResult(cat=self.P, op_string='fa', op_symbol='>', head_is_left=True)]
        return []

    def unary(self, x):
        self.asked += 1
        return []


def cache_pressure_scenario(ctx, target=300000):
    """one long call: sentences that each have exactly one parse but many admitted junk tags, asked for
    2 parses so that the search runs dry and asks the rule functions about every pair of adjacent
    admitted tags; together the sentences ask about more than `target` distinct pairs (a call of the
    size of a chunk of a few thousand real sentences). Every sentence must come back exactly as when
    parsed alone, however large the rule cache has grown."""
    from depccg.cat import Atom
    rng = ctx.rng
    parsing = native.setup()['parsing']
    K, n, adm = 1500, 6, 48
    cats = [Atom(f'J{i}') for i in range(K)] + [Atom('L'), Atom('R')]
    L, R, P = cats[K], cats[K + 1], Atom('P')
    gram = SparseGrammar(L, R, P)
    T = len(cats)
    per = (n - 1) * (adm + 1) ** 2 * 9 // 10        # some pairs repeat between sentences
    m = target // per + 2
    doc, scores = [], []
    for si in range(m):
        tag = numpy.full((n, T), -4000.0, dtype=numpy.float32)
        for i in range(n):
            for j in rng.sample(range(K), adm):
                tag[i, j] = -float(rng.randint(64, 640)) / 64
            tag[i, K if i == 0 else K + 1] = -float(rng.randint(0, 32)) / 64
        dep = numpy.array([[-float(rng.randint(0, 640)) / 64 for _ in range(n + 1)] for _ in range(n)], dtype=numpy.float32)
        doc.append([Token.of_word(f'w{si}_{i}') for i in range(n)])
        scores.append(ScoringResult(numpy.ascontiguousarray(tag), numpy.ascontiguousarray(dep)))
    kw = dict(unary_penalty=0.1, beta=0.0, use_beta=False, pruning_size=adm + 1, nbest=2, max_step=10000000, processes=1,
              max_chunk_size=100000)
    desc = {'scenario': 'cache pressure', 'sentences': m, 'categories': T, 'admitted_per_token': adm + 1}
    try:
        res = parsing.run(doc, scores, list(cats), [P], gram.binary, gram.unary, **kw)
    except Exception as e:
        ctx.fail(f'a long call ({m} sentences, {gram.asked} distinct rule questions) raised {type(e).__name__}: {e}', desc,
                 fingerprint=['cache-pressure'])
        return
    ctx.evaluations += m
    ctx.extra['cache_pressure'] = {'sentences': m, 'distinct_rule_questions': gram.asked}
    if gram.asked < target:
        ctx.notes.append(f'cache pressure scenario asked only {gram.asked} questions')
    big = G.canon_results(res)
    probe = sorted(set([0, m // 2, m - 3, m - 2, m - 1]))
    for si in range(m):
        if len(big[si]) != 1 or big[si][0][0] == 'FAILED':
            ctx.fail(f'sentence {si} of a long call ({gram.asked} distinct rule questions so far in total) came back as '
                     f'{"the failure placeholder" if big[si][0][0] == "FAILED" else str(len(big[si])) + " trees"}; alone it has exactly one parse',
                     dict(desc, sentence=si), fingerprint=['cache-pressure'])
            return
    for si in probe:
        solo = G.canon_results(parsing.run([doc[si]], [scores[si]], list(cats), [P], gram.binary, gram.unary, **kw))
        if solo[0] != big[si]:
            ctx.fail(f'sentence {si} of a long call differs from the same sentence parsed alone', dict(desc, sentence=si,
                     alone=str(solo[0])[:600], in_call=str(big[si])[:600]), fingerprint=['cache-pressure'])
            return
    ctx.nontrivial_add(('cache-pressure', m))


def run(ctx):
    from driver import run_lines
    rng = ctx.rng
    ctx.lean = common.check_lean(PID, ctx.thorough)
    ctx.rule = ('batches of 2..7 sentences sharing categories / grammar / configuration (synthetic tables over atoms or '
                'inventory categories, 1-best and n-best), each parsed alone, in one call, permuted, as a subset, and '
                'with max_chunk_size 1..3 x processes 1..4 over a real multiprocessing.Pool; mixtures with over-long, '
                'unparseable and step-starved sentences; every kind of shape mismatch; chunk arithmetic against the model '
                'for all (len<=40, chunks<=8). non-trivial = distinct batches with at least one parsed sentence')
    if not glue_checks.ensure_native(ctx):
        common.conclude(ctx)
    parsing = native.setup()['parsing']
    cases = []
    # ---- chunk arithmetic, exhaustively for small arguments -------------------------------------
    for ln in range(0, ctx.budget(25, 41)):
        for k in range(-1, 9):
            lst = list(range(ln))
            try:
                got = 'ok ' + ' | '.join(' '.join(str(i) for i in c) for c in parsing._chunks(lst, k))
            except Exception as e:
                got = 'err ' + type(e).__name__
            cases.append(('chunks', f'chunks {ln} {max(k, 0)}', got, [ln, k]))
            ctx.evaluations += 1
            if got.startswith('ok'):
                flat = [int(x) for c in got[3:].split(' | ') for x in c.split(' ') if x]
                if flat != lst:
                    ctx.fail('_chunks loses, duplicates or reorders elements', [ln, k], fingerprint=['chunks', ln, k])
    # ---- batches ---------------------------------------------------------------------------------
    nb = ctx.budget(40, 400)
    pool_runs = 0
    for b in range(nb):
        m = rng.randint(2, 7)
        if b % 4 == 1:
            base, cats, gram, sents = flip_scenario(rng)
            m = len(sents)
        else:
            base, cats, gram, sents = make_batch(rng, m)
        max_length = rng.choice([250, 250, 3])
        if rng.random() < 0.3:
            for p in sents:
                p.max_step = rng.choice([3, 8, 20])
        docs = [G.tokens_for(p, tag=f'{b}_{j}_') for j, p in enumerate(sents)]
        scores = [G.scoring(p) for p in sents]
        desc = {'base': base.to_json(), 'sentences': [{'n': p.n, 'tags': p.tags, 'deps': p.deps} for p in sents],
                'categories': [str(c) for c in cats], 'max_length': max_length, 'max_step': sents[0].max_step}
        kw = dict(max_length=max_length)

        def call(doc, sc, **more):
            a = dict(kw)
            a.update(more)
            return G.canon_results(G.run_real(sents[0], cats, gram, doc, sc, **a))
        try:
            solo = [call([d], [s], processes=1, max_chunk_size=20)[0] for d, s in zip(docs, scores)]
        except Exception as e:
            ctx.fail(f'parsing a single sentence raised {type(e).__name__}: {e}', desc, fingerprint=['solo-raise'])
            continue
        ctx.evaluations += 1
        if any(r and r[0][0] != 'FAILED' for r in solo):
            ctx.nontrivial_add(json.dumps(desc, sort_keys=True)[:2000])
        # failure placeholders are local and exact
        for j, (p, r) in enumerate(zip(sents, solo)):
            if p.n > max_length:
                if not (len(r) == 1 and r[0][0] == 'FAILED'):
                    ctx.fail('a too long sentence did not yield exactly its failure placeholder', desc, fingerprint=['too-long'])
        variants = []
        variants.append(('one call', list(range(m)), dict(processes=1, max_chunk_size=20)))
        perm = list(range(m))
        rng.shuffle(perm)
        variants.append(('permuted', perm, dict(processes=1, max_chunk_size=20)))
        sub = sorted(rng.sample(range(m), rng.randint(1, m)))
        variants.append(('subset', sub, dict(processes=1, max_chunk_size=20)))
        variants.append(('repeated', [0] + list(range(m)) + [0], dict(processes=1, max_chunk_size=20)))
        if pool_runs < ctx.budget(12, 80):
            pool_runs += 1
            variants.append(('chunked', list(range(m)), dict(processes=rng.randint(1, 4), max_chunk_size=rng.randint(1, 3))))
        for name, order, more in variants:
            try:
                got = call([docs[i] for i in order], [scores[i] for i in order], **more)
            except Exception as e:
                ctx.fail(f'batch variant "{name}" raised {type(e).__name__}: {e}', dict(desc, variant=name, order=order, args=more),
                         fingerprint=['batch-raise', name])
                continue
            ctx.evaluations += 1
            if len(got) != len(order):
                ctx.fail(f'batch variant "{name}": {len(got)} result lists for {len(order)} sentences',
                         dict(desc, variant=name, order=order, args=more), fingerprint=['align', name])
                continue
            for pos, i in enumerate(order):
                if got[pos] != solo[i]:
                    ctx.fail(f'batch variant "{name}": result of sentence {i} (position {pos}) differs from parsing it alone',
                             dict(desc, variant=name, order=order, args=more, alone=solo[i][:2], in_batch=got[pos][:2]),
                             fingerprint=['history', name])
                    break
        # a sequence of calls sharing the caller's own argument objects: nothing the caller passed may
        # be changed by a call, and a later call answers as if it were the first
        cat_list = list(cats[:base.T])
        root_list = [cats[r] for r in base.roots]
        snap = (list(cat_list), list(root_list), [[dict(t) for t in d] for d in docs],
                [(s.tag_scores.copy(), s.dep_scores.copy()) for s in scores])
        order = list(range(m))
        rng.shuffle(order)
        try:
            for i in order:
                got = call([docs[i]], [scores[i]], processes=1, max_chunk_size=20, cat_list=cat_list, root_list=root_list)
                ctx.evaluations += 1
                now = (list(cat_list), list(root_list), [[dict(t) for t in d] for d in docs])
                if now != snap[:3] or any((a.tag_scores != b[0]).any() or (a.dep_scores != b[1]).any() for a, b in zip(scores, snap[3])):
                    what = ('category list' if now[0] != snap[0] else 'root list' if now[1] != snap[1] else
                            'tokens' if now[2] != snap[2] else 'score matrices')
                    ctx.fail(f'a call of run changed its caller\'s {what} ({len(snap[0])} -> {len(cat_list)} categories): '
                             f'the category table must live for one call', dict(desc, order=order, at=i),
                             fingerprint=['caller-arguments', what])
                    break
                if got[0] != solo[i]:
                    ctx.fail(f'sentence {i} parsed after earlier calls (same argument objects) differs from parsing it alone',
                             dict(desc, order=order, at=i, alone=solo[i][:2], later=got[0][:2]), fingerprint=['history', 'calls'])
                    break
        except Exception as e:
            ctx.fail(f'a later call with the same argument objects raised {type(e).__name__}: {e}', dict(desc, order=order),
                     fingerprint=['history', 'calls-raise'])
        # the model's batch driver on the same shapes
        cases.append(('runbatch', f'runbatch {m} 2 3', 'ok ' + ' '.join(str(i) for i in range(m)), [m, 2, 3]))
    # ---- shape mismatches are rejected before any parsing -----------------------------------------
    for _ in range(ctx.budget(60, 400)):
        base, cats, gram, sents = make_batch(rng, rng.randint(1, 3))
        docs = [G.tokens_for(p) for p in sents]
        scores = [G.scoring(p) for p in sents]
        kind = rng.choice(['tag-cols', 'tag-rows', 'dep-cols', 'dep-rows', 'count', 'categories'])
        j = rng.randrange(len(sents))
        p = sents[j]
        cat_list = cats[:base.T]
        if kind == 'tag-cols':
            scores[j] = ScoringResult(numpy.zeros((p.n, base.T + 1), dtype=numpy.float32), scores[j].dep_scores)
        elif kind == 'tag-rows':
            scores[j] = ScoringResult(numpy.zeros((p.n + 1, base.T), dtype=numpy.float32), scores[j].dep_scores)
        elif kind == 'dep-cols':
            scores[j] = ScoringResult(scores[j].tag_scores, numpy.zeros((p.n, p.n + 2), dtype=numpy.float32))
        elif kind == 'dep-rows':
            scores[j] = ScoringResult(scores[j].tag_scores, numpy.zeros((p.n + 1, p.n + 1), dtype=numpy.float32))
        elif kind == 'count':
            scores = scores + [scores[0]]
        else:
            cat_list = cat_list + [cats[-1]] if len(cats) > base.T else cat_list[:-1] or cat_list + [cats[0]]
        cg = CountingGrammar(gram)
        desc = {'kind': kind, 'sentence': j, 'n': [q.n for q in sents], 'T': base.T}
        ctx.evaluations += 1
        try:
            parsing.run(docs, scores, cat_list, [cats[r] for r in base.roots], cg.binary, cg.unary, processes=1)
            ctx.fail(f'inputs with a shape mismatch ({kind}) were not rejected', desc, fingerprint=['shape', kind])
        except RuntimeError:
            if cg.calls:
                ctx.fail(f'shape mismatch ({kind}) was rejected only after parsing had started ({cg.calls} grammar calls)', desc,
                         fingerprint=['shape-late', kind])
        except Exception as e:
            ctx.fail(f'shape mismatch ({kind}) raised {type(e).__name__} instead of being rejected cleanly', desc,
                     fingerprint=['shape-exc', kind])
        shapes = []
        for q, sc in zip(sents, scores):
            shapes += [q.n, sc.tag_scores.shape[0], sc.tag_scores.shape[1], sc.dep_scores.shape[0], sc.dep_scores.shape[1]]
        cases.append(('typecheck', f'typecheck {len(cat_list)} {len(docs)} {len(scores)} ' + ' '.join(str(x) for x in shapes),
                      'err RuntimeError', desc))
    # ---- a zero-length sentence in a batch (subprocess: it must not take the process down) --------
    code = ('import sys; sys.path.insert(0, %r); import stubs; stubs.install(); import native; st = native.setup();\n'
            'import numpy, random, glue_common as G, search_common as S\n'
            'rng = random.Random(3); p = S.random_problem(rng, max_n=3); K = G.problem_K(p); cats = G.category_pool(K, rng)\n'
            'gram = G.TableGrammar(cats, p.bin, p.un)\n'
            'e = S.Problem.from_json(p.to_json()); e.n = 0; e.tags = []; e.deps = []\n'
            'sc0 = G.ScoringResult(numpy.zeros((0, p.T), dtype=numpy.float32), numpy.zeros((0, 1), dtype=numpy.float32))\n'
            'res = G.run_real(p, cats, gram, [G.tokens_for(p), [], G.tokens_for(p)], [G.scoring(p), sc0, G.scoring(p)], processes=1)\n'
            'alone = G.run_real(p, cats, gram, [G.tokens_for(p)], [G.scoring(p)], processes=1)\n'
            'c = G.canon_results(res); a = G.canon_results(alone)\n'
            'print("RESULT", len(c), c[1][0][0] if len(c) > 1 and c[1] else None, c[0] == a[0], c[2] == a[0])\n') % os.path.join(HERE, 'harness')
    try:
        pr = subprocess.run([sys.executable, '-c', code], stdout=subprocess.PIPE, stderr=subprocess.PIPE, timeout=120,
                            env=dict(os.environ, DEPCCG_VERIF='1'))
        out = pr.stdout.decode()
        ctx.evaluations += 1
        ok = pr.returncode == 0 and 'RESULT 3 FAILED True True' in out
        if not ok:
            ctx.fail(f'a zero-length sentence inside a batch does not simply yield its failure placeholder '
                     f'(exit status {pr.returncode}, output {out.strip()[-200:]!r})', {'batch': ['sentence', 'EMPTY', 'sentence']},
                     fingerprint=['zero-length'])
    except subprocess.TimeoutExpired:
        ctx.fail('a zero-length sentence inside a batch makes the parser hang', {'batch': ['sentence', 'EMPTY', 'sentence']},
                 fingerprint=['zero-length'])
    ctx.extra['pool_runs'] = pool_runs
    cache_pressure_scenario(ctx)
    import cli_common
    cli_common.cli_suite(ctx, ctx.budget(20, 200))      # --num-processes, documents longer than max_chunk_size
    glue_checks.full_stack_suite(ctx, ctx.budget(60, 600), batch=True)
    glue_checks.lazy_suite(ctx, ctx.budget(80, 800), batch=True)
    ctx.sample({'batch_sizes': 'sentences 2..7', 'variants': ['one call', 'permuted', 'subset', 'repeated', 'chunked']})
    ctx.extra['skipped_unsupported'] = common.compare_with_model(ctx, cases)
    common.conclude(ctx)


def replay(ctx, path):
    print(json.dumps(json.load(open(path)), indent=1)[:4000])
    run(ctx)
