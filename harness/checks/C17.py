"""C17 The category dictionary restricts exactly the listed words.

model op : filter    (lean/Depccg/Glue.lean)
theorems : lean/Depccg/Props/C17.lean + lean/Depccg/Generated/*.lean (re-emitted from /repo every run)
oracle   : elementwise recomputation on the real numpy arrays; the shipped files loaded with the real reader
"""
import copy

import numpy

from depccg.cat import Category
from depccg.types import Token, ScoringResult
import common
import gen_cat
import gen_tables
import native
import tables
import wire
from wire import enc_cat, enc_str

PID = 'C17'
BIG = -10 ** 9


def run(ctx):
    rng = ctx.rng
    # ---- regenerate the tables from /repo, then build the theorems over them -------------------------
    try:
        info = gen_tables.emit()
    except Exception as e:
        info = {'error': f'{type(e).__name__}: {e}'}
    ctx.lean = common.check_lean(PID, ctx.thorough)
    ctx.extra['generated'] = {k: v for k, v in info.items() if k != 'residual'}
    ctx.rule = ('(a) every category string of the shipped targets / seen_rules / unary_rules / cat_dict files of en, en_rebank, '
                'ja is re-emitted as a Lean literal and checked by kernel evaluation of the model reader (well-formed) and '
                'the dictionary categories against the English inventory; the same files are loaded with the real '
                'Category.parse. (b) random documents, score matrices, category lists and dictionaries over them: '
                'apply_category_filters on real numpy arrays vs the model and vs an elementwise recomputation. '
                'non-trivial = distinct (document, dictionary) cases in which some score was replaced')
    try:
        parsing = native.setup()['parsing']
    except Exception as e:
        ctx.disagree('native', 'depccg.parsing import', 'model available', f'implementation not importable: {e}')
        common.conclude(ctx)
    # ---- (a) shipped files with the real reader ---------------------------------------------------------
    for name in ('targets.en', 'targets.en_rebank', 'targets.ja'):
        for s in tables.load(name):
            ctx.evaluations += 1
            try:
                Category.parse(s)
            except Exception as e:
                ctx.fail(f'shipped category string of {name} does not parse: {s!r} ({type(e).__name__})', [name, s],
                         fingerprint=['shipped', name, s])
    for name in ('seen_rules.en', 'seen_rules.en_rebank', 'seen_rules.ja', 'unary_rules.en', 'unary_rules.ja'):
        for a, b in tables.load(name):
            for s in (a, b):
                ctx.evaluations += 1
                try:
                    Category.parse(s)
                except Exception as e:
                    ctx.fail(f'shipped category string of {name} does not parse: {s!r}', [name, s], fingerprint=['shipped', name, s])
    en_targets = [Category.parse(s) for s in tables.load('targets.en')]
    tset = set(en_targets)
    cat_dict = tables.load('cat_dict.en')
    for w, cs in cat_dict.items():
        for s in cs:
            ctx.evaluations += 1
            try:
                if Category.parse(s) not in tset:
                    ctx.fail(f'dictionary category {s!r} of word {w!r} is not in the English inventory', [w, s],
                             fingerprint=['dict-outside', s])
            except Exception:
                ctx.fail(f'dictionary category {s!r} of word {w!r} does not parse', [w, s], fingerprint=['dict-parse', s])
    # the real operation with the full shipped dictionary on a small document
    words = rng.sample(sorted(cat_dict), 6) + ['zzz-unknown']
    doc = [[Token.of_word(w) for w in words]]
    tag = numpy.zeros((len(words), len(en_targets)), dtype=numpy.float32)
    dep = numpy.zeros((len(words), len(words) + 1), dtype=numpy.float32)
    try:
        parsing.apply_category_filters(doc, [ScoringResult(tag, dep)], en_targets,
                                       {w: [Category.parse(c) for c in cs] for w, cs in cat_dict.items()})
        ctx.evaluations += 1
    except Exception as e:
        ctx.fail(f'apply_category_filters is not applicable to the shipped dictionary and inventory: {type(e).__name__}: {e}',
                 ['shipped cat_dict.en x targets.en'], fingerprint=['shipped-applicable'])
    # ---- (b) random cases --------------------------------------------------------------------------------
    inv = gen_cat.inventory('en')
    cases = []
    # spellings that differ only by case / accents / surrounding blanks are different words
    vocab = ['the', 'cat', 'sat', 'on', 'mat', '(', ',', 'Mr.', 'naïve', '彼', 'a b', '', 'The', 'Cat', 'THE', 'mr.', 'naive', 'the ', 'Sat']
    for k in range(ctx.budget(400, 4000)):
        T = rng.randint(1, 8)
        cats = rng.sample(inv, T)
        nd = rng.randint(0, 4)
        dwords = rng.sample(vocab, nd)
        dic = {w: [rng.choice(cats) for _ in range(rng.randint(0, T))] for w in dwords}
        bad = rng.random() < 0.08 and len(dic) > 0
        if bad:
            w = rng.choice(list(dic))
            dic[w] = dic[w] + [rng.choice([c for c in inv if c not in cats])]
        def one_call(cats, dic, bad, note=None):
            nsent = rng.randint(1, 3)
            long_one = (k % 40 == 17)      # a very long sentence (the operation has no length limit of its own)
            doc, scores = [], []
            for si_ in range(nsent):
                n = rng.randint(1, 5) if not (long_one and si_ == 0) else rng.choice([251, 260, 300])
                doc.append([Token.of_word(rng.choice(vocab)) for _ in range(n)])
                tag = numpy.array([[rng.randint(-50, 0) for _ in range(T)] for _ in range(n)], dtype=numpy.float32)
                # score matrices as callers hold them: fresh arrays, column slices / strided views of wider arrays,
                # column-major arrays (a transposed batch) — all are float32 matrices of the right shape
                layout = rng.choice(['c', 'c', 'slice', 'stride', 'fortran'])
                if layout == 'slice':
                    wide = numpy.full((n, T + 3), 7.0, dtype=numpy.float32)
                    wide[:, 2:2 + T] = tag
                    tag = wide[:, 2:2 + T]
                elif layout == 'stride':
                    wide = numpy.full((n, 2 * T), 7.0, dtype=numpy.float32)
                    wide[:, ::2] = tag
                    tag = wide[:, ::2]
                elif layout == 'fortran':
                    tag = numpy.asfortranarray(tag)
                scores.append(ScoringResult(tag,
                                            numpy.array([[rng.randint(-50, 0) for _ in range(n + 1)] for _ in range(n)], dtype=numpy.float32)))
            before_tag = [s.tag_scores.copy() for s in scores]
            before_dep = [s.dep_scores.copy() for s in scores]
            before_words = [[t.word for t in sent] for sent in doc]
            line = (f'filter {T} ' + ' '.join(enc_cat(c) for c in cats) + f' {T} {BIG} {len(dic)} '
                    + ' '.join(f'{enc_str(w)} {len(cs)} ' + ' '.join(enc_cat(c) for c in cs) if cs else f'{enc_str(w)} 0' for w, cs in dic.items())
                    + (' ' if dic else '') + f'{nsent} '
                    + ' '.join(f'{len(sent)} ' + ' '.join(enc_str(t.word) for t in sent) + f' {len(sent)} '
                               + ' '.join(' '.join(str(int(v)) for v in row) for row in bt) for sent, bt in zip(doc, before_tag)))
            line = ' '.join(line.split())
            desc = {'note': note, 'categories': [str(c) for c in cats], 'dict': {w: [str(c) for c in cs] for w, cs in dic.items()},
                    'words': before_words, 'tag_scores': [b.tolist() for b in before_tag]}
            ctx.evaluations += 1
            try:
                d2, s2 = parsing.apply_category_filters(doc, scores, cats, dic, large_negative_value=float(BIG))
                out = 'ok ' + ' ; '.join(' | '.join(' '.join(str(int(v)) for v in row) for row in s.tag_scores) for s in s2)
            except Exception as e:
                d2 = None
                out = 'err ' + wire.err_name(e)
            cases.append(('filter', line, out, desc))
            if d2 is None:
                if not bad:
                    ctx.fail(f'apply_category_filters raised {out} although every dictionary category is in the category list', desc,
                             fingerprint=['filter-raise'])
                return
            if bad:
                ctx.fail('a dictionary category outside the category list was silently accepted', desc, fingerprint=['filter-accept'])
                return
            changed = False
            for si, (sent, bt, bd) in enumerate(zip(doc, before_tag, before_dep)):
                at = s2[si].tag_scores
                if [t.word for t in d2[si]] != before_words[si] or at.shape != bt.shape:
                    ctx.fail('token order / shapes changed', desc, fingerprint=['filter-shape'])
                    break
                if not numpy.array_equal(s2[si].dep_scores, bd):
                    ctx.fail('dependency scores were touched', desc, fingerprint=['filter-dep'])
                for i, tok in enumerate(sent):
                    for c in range(T):
                        if tok.word in dic and cats[c] not in dic[tok.word]:
                            want = BIG
                            changed = True
                        else:
                            want = bt[i, c]
                        if at[i, c] != want:
                            ctx.fail(f'score of token {i} ({tok.word!r}) category {cats[c]} is {at[i, c]}, expected {want}', desc,
                                     fingerprint=['filter-value'])
            if changed:
                ctx.nontrivial_add(line)
        one_call(cats, dic, bad)
        if not bad and dic and rng.random() < 0.4:
            # the same dictionary OBJECT passed again in this process (a user filtering several documents,
            # possibly against a re-ordered inventory or after editing the dictionary in place): every
            # call must be decided by its own arguments
            for _ in range(rng.randint(1, 3)):
                kind = rng.choice(['again', 'reordered', 'edited', 'edited'])
                if kind == 'reordered':
                    cats = list(cats)
                    rng.shuffle(cats)
                elif kind == 'edited':
                    w = rng.choice(list(dic))
                    how = rng.random()
                    if how < 0.4:
                        dic[w] = [rng.choice(cats) for _ in range(rng.randint(0, T))]
                    elif how < 0.7:
                        dic[w].append(rng.choice(cats))
                    else:
                        nw = rng.choice(vocab)
                        dic[nw] = [rng.choice(cats) for _ in range(rng.randint(0, T))]
                one_call(cats, dic, False, note='same dictionary object, ' + kind)
    ctx.sample({'dictionary_entry': ['attended', cat_dict['attended'][:4]]})
    ctx.sample({'generated': ctx.extra['generated']})
    import cli_common
    cases += cli_common.read_params_model_cases(ctx, ctx.budget(18, 180))      # read_params next to its Lean model (Config.lean)
    ctx.extra['skipped_unsupported'] = common.compare_with_model(ctx, cases)

    def enlarged():
        pass
    import cli_common
    cli_common.cli_suite(ctx, ctx.budget(12, 120))      # the same through the command line itself
    cli_common.read_params_suite(ctx, ctx.budget(9, 90), want_dict=True)
    common.conclude(ctx)


def replay(ctx, path):
    import json
    print(json.dumps(json.load(open(path)), indent=1)[:4000])
    run(ctx)
