"""C08 AUTO text written by depccg reads back to the same tree.

model ops: auto conll read_auto    (lean/Depccg/Print/Text.lean, Read/Text.lean)
theorems : lean/Depccg/Props/C08.lean
oracle   : independent AUTO tokenizer/reader written from the format
"""
import os
import tempfile

from depccg.printer.auto import auto_of
from depccg.printer.conll import conll_of
from depccg.tools.reader import read_auto
from depccg import lang as dlang
import common
import tree_common as T
import gen_cat
import wire
from wire import enc_str

PID = 'C08'


def esc(word):
    """independent statement of the escaped spelling"""
    table = {'(': '-LRB-', ')': '-RRB-', '{': '-LCB-', '}': '-RCB-', '[': '-LSB-', ']': '-RSB-'}
    if word in table:
        return table[word]
    return word.replace('>', '-RAB-').replace('<', '-LAB-')


def ref_read_auto(line):
    """independent reader of the AUTO format: returns nested tuples
    ('L', cat, pos, word) / ('T', cat, head_left, [children])"""
    toks = line.split(' ')
    pos = [0]

    def node():
        t = toks[pos[0]]
        if t == '(<L':
            cat, p1, p2, word, last = toks[pos[0] + 1:pos[0] + 6]
            assert last.endswith('>)')
            pos[0] += 6
            return ('L', cat, p1, word)
        assert t == '(<T', t
        cat, head, n = toks[pos[0] + 1:pos[0] + 4]
        assert n.endswith('>')
        pos[0] += 4
        kids = []
        while toks[pos[0]] != ')':
            kids.append(node())
        pos[0] += 1
        assert len(kids) == int(n[:-1])
        return ('T', cat, head == '0', kids)
    r = node()
    assert pos[0] == len(toks)
    return r


def expected(t):
    if t.is_leaf:
        return ('L', str(t.cat), t.token.get('pos', 'POS'), esc(t.token['word']))
    return ('T', str(t.cat), bool(t.head_is_left), [expected(c) for c in t.children])


def of_real(t):
    if t.is_leaf:
        return ('L', str(t.cat), t.token.get('pos'), t.token.get('word'))
    return ('T', str(t.cat), bool(t.head_is_left), [of_real(c) for c in t.children])


def gen_trees(ctx, n):
    rng = ctx.rng
    cats = {'en': gen_cat.tree_cats('en'), 'ja': gen_cat.tree_cats('ja')}
    out = []
    for i in range(n):
        lang = 'ja' if i % 4 == 3 else 'en'
        kw = dict(awkward=rng.choice([0.0, 0.3, 0.8]), unispace=rng.choice([0.0, 0.0, 0.25]))
        if i % 2 == 0:
            t = T.licensed_tree(rng, lang, rng.randint(0, 4), kw)
        else:
            t = T.arbitrary_tree(rng, lang, rng.randint(1, 6), cats[lang], T.EN_LABELS if lang == 'en' else T.JA_LABELS, kw)
        out.append((lang, t))
    return out


def read_one(tmpdir, line, lang):
    path = os.path.join(tmpdir, 'one.auto')
    with open(path, 'w', encoding='utf-8') as f:
        f.write('ID=1\n' + line + '\n')
    dlang.set_global_language_to(lang)
    try:
        res = list(read_auto(path))
    finally:
        dlang.set_global_language_to('en')
    return res


def run(ctx):
    ctx.lean = common.check_lean(PID, ctx.thorough)
    ctx.rule = ('trees: grammar-licensed derivations (real en/ja rule functions over the observed rule instances, real unary '
                'tables) and arbitrary well-formed trees (random shape / categories / labels / head flags) with 1..7 leaves; '
                'tokens from a pool that over-represents brackets, angle brackets, quotes, slashes, &, non-ASCII, -LRB-, '
                'x)[conj], (<L, words with non-ASCII white space (U+00A0, U+3000, U+2003); attributes present/absent. Each tree is printed (auto, conll), the line is read back by '
                'read_auto from a file, printed again. non-trivial = distinct printed lines of trees with >= 2 leaves')
    trees = gen_trees(ctx, ctx.budget(1500, 12000))
    cases = []
    tmpdir = tempfile.mkdtemp(prefix='verif_c08_')
    stats = {'read_ok': 0, 'guarded_out': 0}
    try:
        for lang, t in trees:
            desc = {'lang': lang, 'tree': T.enc_tree(t)[:3000]}
            before = T.deep_state(t)
            try:
                line = auto_of(t)
                conll = conll_of(t)
            except Exception as e:
                ctx.fail(f'printing raised {type(e).__name__}: {e}', desc, fingerprint=['print-raise', type(e).__name__])
                continue
            enc = T.enc_tree(t)
            cases.append(('auto', 'auto ' + enc, 'ok ' + enc_str(line), desc))
            cases.append(('conll', 'conll ' + enc, 'ok ' + enc_str(conll), desc))
            ctx.evaluations += 1
            in_domain = all(T.token_ok_strict(tok) for tok in t.tokens)
            if not in_domain:
                stats['guarded_out'] += 1
            # ---- read back with the real reader -----------------------------------------------
            try:
                res = read_one(tmpdir, line, lang)
                rt, rtoks = res[0].tree, res[0].tokens
                got = enc_read = T.enc_read(rt, rtoks)
            except Exception as e:
                rt = None
                got = 'err ' + wire.err_name(e)
            cases.append(('read_auto', f'read_auto {lang} {enc_str(line.strip())}', got, dict(desc, line=line)))
            if not in_domain:
                continue
            # ---- oracle --------------------------------------------------------------------------
            desc = dict(desc, line=line)
            try:
                ref = ref_read_auto(line)
            except Exception:
                ref = None
            want = expected(t)
            if ref != want:
                ctx.fail('the printed AUTO line does not encode the tree (independent reader)', desc, fingerprint=['auto-print'])
                continue
            if rt is None:
                ctx.fail(f'reading back a printed AUTO line failed: {got}', desc, fingerprint=['auto-read-raise'])
                continue
            stats['read_ok'] += 1
            if of_real(rt) != want:
                ctx.fail('the tree read back differs (categories / shape / head flags / pos / escaped words)', desc,
                         fingerprint=['auto-roundtrip'])
                continue
            if [tok.get('word') for tok in rtoks] != [l[3] for l in _leaves(want)]:
                ctx.fail('the token list returned by the reader differs from the words of the line', desc, fingerprint=['auto-tokens'])
            try:
                again = auto_of(rt)
            except Exception as e:
                again = 'err ' + type(e).__name__
            if again != line:
                ctx.fail('printing the tree read back does not reproduce the line', dict(desc, again=again), fingerprint=['auto-reprint'])
            if all('pos' in tok for tok in t.tokens):
                frags = [l.split('\t')[-1] for l in conll.split('\n')]
                if ' '.join(frags) != line:
                    ctx.fail('the last-column fragments of the conll format do not concatenate to the AUTO line',
                             dict(desc, conll=conll), fingerprint=['conll-fragments'])
            # a tree read from a treebank-style line (its two part-of-speech columns differ): the conll
            # fragments of THAT tree concatenate to ITS AUTO line, and both printers agree with the model
            import re as _re
            bank = _re.sub(r'\(<L (\S+) (\S+) (\S+) ', lambda m: f'(<L {m.group(1)} {m.group(2)} {m.group(3)}-ORIG ', line)
            if bank != line:
                try:
                    bt = read_one(tmpdir, bank, lang)[0].tree
                    b_auto, b_conll = auto_of(bt), conll_of(bt)
                except Exception as e:
                    ctx.fail(f'a treebank-style AUTO line (different tags in the two part-of-speech columns) cannot be read and '
                             f'printed: {type(e).__name__}', dict(desc, bank_line=bank), fingerprint=['bank-line-raise'])
                else:
                    ctx.evaluations += 1
                    benc = T.enc_tree(bt)
                    cases.append(('auto', 'auto ' + benc, 'ok ' + enc_str(b_auto), dict(desc, bank_line=bank)))
                    cases.append(('conll', 'conll ' + benc, 'ok ' + enc_str(b_conll), dict(desc, bank_line=bank)))
                    if ' '.join(l.split('\t')[-1] for l in b_conll.split('\n')) != b_auto:
                        ctx.fail('for a tree read from a treebank-style line the last-column fragments of the conll format do not '
                                 'concatenate to its AUTO line', dict(desc, bank_line=bank, auto=b_auto, conll=b_conll),
                                 fingerprint=['conll-fragments', 'bank'])
            if len(t.tokens) >= 2:
                ctx.nontrivial_add(line)
            if T.deep_state(t) != before:
                ctx.fail('printing changed the tree', desc, fingerprint=['mutated'])
    finally:
        for fn in os.listdir(tmpdir):
            os.remove(os.path.join(tmpdir, fn))
        os.rmdir(tmpdir)
    ctx.extra['stats'] = stats
    ctx.sample({'line': auto_of(trees[0][1])})
    ctx.sample({'line': auto_of(trees[1][1])})
    import file_common
    cases += file_common.file_suite(ctx, 'auto', ctx.budget(250, 2500), lang_of=lambda i: 'ja' if i % 4 == 3 else 'en')
    ctx.extra['skipped_unsupported'] = common.compare_with_model(ctx, cases)
    common.conclude(ctx)


def _leaves(w):
    if w[0] == 'L':
        return [w]
    out = []
    for k in w[3]:
        out += _leaves(k)
    return out


def replay(ctx, path):
    import json
    print(json.dumps(json.load(open(path)), indent=1)[:4000])
    run(ctx)
