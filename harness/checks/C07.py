"""C07 Every output format encodes the same derivation.

model ops: tostring (auto auto_extended conll ptb ja deriv) prolog_en prolog_ja xml jigg json
theorems : lean/Depccg/Props/C07.lean (+ C08, C15, C20 for the formats that have readers)
oracle   : one independent decoder per format (harness/decoders.py), each compared with the
           derivation in the format's own spelling; conll heads recomputed from the head flags
"""
import json
from depccg import lang as dlang

from lxml import etree

from depccg.printer.jigg_xml import _cat_multi_valued
from depccg.utils import normalize
import common
import decoders as D
import render_common as R
import tree_common as T
import xml_common as X
import wire
from wire import enc_str

PID = 'C07'


def esc(word):
    table = {'(': '-LRB-', ')': '-RRB-', '{': '-LCB-', '}': '-RCB-', '[': '-LSB-', ']': '-RSB-'}
    if word in table:
        return table[word]
    return word.replace('>', '-RAB-').replace('<', '-LAB-')


def prolog_cat_en(c):
    if c.is_functor:
        return '(' + prolog_cat_en(c.left) + c.slash + prolog_cat_en(c.right) + ')'
    base = c.base.lower()
    named = {'.': 'period', ',': 'comma', ':': 'colon', ';': 'semicolon'}
    if base in named:
        return named[base]
    f = str(c.feature)
    return base if f == '' else base + ':' + f


def prolog_cat_ja(c):
    if c.is_functor:
        return '(' + prolog_cat_ja(c.left) + c.slash + prolog_cat_ja(c.right) + ')'
    feats = dict(c.feature.items()) if hasattr(c.feature, 'items') else {}
    return c.base.lower() + (':' + feats['case'].lower() if 'case' in feats else '')


EN_OP = {'fa': 'fa', 'ba': 'ba', 'fx': 'fc', 'fc': 'fc', 'bx': 'bxc', 'gfc': 'gfc', 'gbx': 'gbx', 'rp': 'rp', 'lp': 'lp',
         'conj': 'conj', 'conj2': 'conj'}
JA_OP = {'SSEQ': 'sseq', '>': 'fa', '<': 'ba', '>B': 'fc', '<B1': 'bc1', '<B2': 'bc2', '<B3': 'bc3', '<B4': 'bc4', '>Bx1': 'fx1',
         '>Bx2': 'fx2', '>Bx3': 'fx3', 'ADNext': 'adnext', 'ADNint': 'adnint', 'ADV0': 'adv0', 'ADV1': 'adv1', 'ADV2': 'adv2',
         'OTHER': 'other'}


def view(t, cat_sp, word_sp, label=None, heads=False):
    """the derivation in a format's spelling: same nested tuples as the decoders return"""
    if t.is_leaf:
        return ('L', cat_sp(t.cat), word_sp(t.token['word']))
    return ('N', cat_sp(t.cat), label(t) if label else None, bool(t.head_is_left) if (heads and not t.is_unary) else None,
            [view(c, cat_sp, word_sp, label, heads) for c in t.children])


def strip(d, keep_label, keep_head):
    if d[0] == 'L':
        return ('L', d[1], d[2])
    head = d[3] if keep_head and len(d[4]) == 2 else None
    return ('N', d[1], d[2] if keep_label else None, head, [strip(k, keep_label, keep_head) for k in d[4]])


def conll_heads(t):
    """1-based head of every word from the head flags (0 = root), and the word span of each node"""
    heads = {}
    counter = [0]

    def rec(n):
        if n.is_leaf:
            counter[0] += 1
            return counter[0]
        if n.is_unary:
            return rec(n.children[0])
        l = rec(n.children[0])
        r = rec(n.children[1])
        if n.head_is_left:
            heads[r] = l
            return l
        heads[l] = r
        return r
    root = rec(t)
    heads[root] = 0
    return [heads[i] for i in range(1, counter[0] + 1)]


def html_cat_known(cat_text):
    """the recorded finding: characters outside [\\w\\\\/()] and features are dropped by the html format"""
    import re
    return ''.join(''.join(m) for m in re.findall(r'([\w\\/()]+)(\[.+?\])*', cat_text)) != cat_text


# ---- what the Prolog formats carry of a tree, stated independently of the printers (for the Lean reader
#      `Read.decProlog`, theorems prolog_en_decode / prolog_ja_decode, applied to the REAL text) ----------

EN_FUNCTOR = {'fa': 'fa', 'ba': 'ba', 'fx': 'fc', 'fc': 'fc', 'bx': 'bxc', 'gfc': 'gfc', 'gbx': 'gbx', 'rp': 'rp', 'lp': 'lx',
              'conj': 'conj', 'conj2': 'conj'}
JA_FUNCTOR = {'SSEQ': 'sseq', '>': 'fa', '<': 'ba', '>B': 'fc', '<B1': 'bc1', '<B2': 'bc2', '<B3': 'bc3', '<B4': 'bc4', '>Bx1': 'fx1',
              '>Bx2': 'fx2', '>Bx3': 'fx3', 'ADNext': 'adnext', 'ADNint': 'adnint', 'ADV0': 'adv0', 'ADV1': 'adv1', 'ADV2': 'adv2',
              'OTHER': 'other'}


def en_cat(c):
    if c.is_atomic:
        b = c.base.lower()
        named = {'.': 'period', ',': 'comma', ':': 'colon', ';': 'semicolon'}
        if b in named:
            return named[b]
        f = str(c.feature)
        return b if f == '' else f'{b}:{f}'
    return f'({en_cat(c.left)}{c.slash}{en_cat(c.right)})'


def ja_cat(c):
    if c.is_functor:
        return f'({ja_cat(c.left)}{c.slash}{ja_cat(c.right)})'
    items = getattr(c.feature, 'items', None)
    feat = dict(items()) if items is not None else {}
    return c.base.lower() + (':' + feat['case'].lower() if 'case' in feat else '')


def enc_pleaf(cat, fields):
    return f'L {enc_str(cat)} {len(fields)}' + ''.join(' ' + enc_str(f) for f in fields)


def enc_pnode(functor, cat, extra, kids):
    return (f'N {enc_str(functor)} {enc_str(cat)} {len(extra)}' + ''.join(' ' + enc_str(e) for e in extra)
            + f' {len(kids)}' + ''.join(' ' + k for k in kids))


def pview_en(t):
    if t.is_leaf:
        tok = t.token
        return enc_pleaf(en_cat(t.cat), [tok['word'], tok.get('lemma', 'XX'), tok.get('pos', 'XX'), tok.get('chunk', 'XX'),
                                         tok.get('entity', 'XX')])
    if t.is_unary:
        return enc_pnode('lx', en_cat(t.cat), [en_cat(t.children[0].cat)], [pview_en(t.children[0])])
    l, r = t.children
    f = EN_FUNCTOR[t.op_string]
    rc = en_cat(r.cat)
    kids = [pview_en(l), pview_en(r)]
    if t.op_string == 'conj2':
        return enc_pnode(f, en_cat(t.cat), [rc + '\\' + rc], [enc_pnode('conj', rc + '\\' + rc, [rc], kids)])
    if t.op_string == 'conj':
        return enc_pnode(f, en_cat(t.cat), [en_cat(t.cat.left)], kids)
    if t.op_string == 'lp':
        return enc_pnode(f, en_cat(t.cat), [rc], [enc_pnode('lp', rc, [], kids)])
    return enc_pnode(f, en_cat(t.cat), [], kids)


def pview_ja(t):
    if t.is_leaf:
        tok = t.token
        tags = [tok.get(k, '*') for k in ('pos', 'pos1', 'pos2', 'pos3')]
        pos = '*' if all(x == '*' for x in tags) else '/'.join(tags)
        return enc_pleaf(ja_cat(t.cat), [tok.get('surf', tok['word']), tok.get('base', '*'), pos, tok.get('inflectionForm', '*'),
                                         tok.get('inflectionType', '*')])
    return enc_pnode(JA_FUNCTOR[t.op_symbol], ja_cat(t.cat), [], [pview_ja(c) for c in t.children])


def prolog_guard(lang, trees):
    """the hypotheses of the decode theorems, on the real objects"""
    for t in trees:
        for tok in t.tokens:
            vals = ([tok.get('word', ''), tok.get('lemma', 'XX')] if lang == 'en' else
                    [tok.get('surf', tok.get('word', '')), tok.get('base', '*'), tok.get('pos', '*'), tok.get('pos1', '*'), tok.get('pos2', '*'),
                     tok.get('pos3', '*'), tok.get('inflectionForm', '*'), tok.get('inflectionType', '*')])
            raw = [tok.get('pos', 'XX'), tok.get('chunk', 'XX'), tok.get('entity', 'XX')] if lang == 'en' else []
            if any(v.endswith('\\') for v in vals + raw) or any("'" in v for v in raw):
                return False

        def cats(n):
            yield n.cat
            if not n.is_leaf:
                for c in n.children:
                    yield from cats(c)
        for c in cats(t):
            text = en_cat(c) if lang == 'en' else ja_cat(c)
            if any(ch in text[1:-1].replace('(', '').replace(')', '') for ch in ' \n,') or text[:1] in (' ', '\n'):
                return False
    return True


def walk_nodes(t):
    if not t.is_leaf:
        yield t
        for c in t.children:
            yield from walk_nodes(c)


def run(ctx):
    rng = ctx.rng
    ctx.lean = common.check_lean(PID, ctx.thorough)
    ctx.rule = ('batches of 1..3 sentences x 1..3 trees (grammar-licensed en/ja derivations and arbitrary trees), tokens over '
                'printable non-blank text incl. brackets quotes slashes < > & and non-ASCII (restricted per format to what '
                'the format can carry), rendered by the real to_string in every executable format offered for the language; '
                'each output is decoded by an independent reader and compared with the derivation in the format\'s spelling; '
                'records must be numbered by sentence. non-trivial = distinct (batch, format) pairs decoded')
    nb = ctx.budget(150, 1500)
    cases = []
    for i in range(nb):
        lang = 'ja' if i % 3 == 2 else 'en'
        batch = R.make_batch(rng, lang, awkward=rng.choice([0.0, 0.15]), licensed_only=(i % 4 != 3), unispace=rng.choice([0.0, 0.0, 0.2]))
        bare_batch = (i % 5 == 4)       # tokens without lemma / pos / ... as the readers and the failure placeholder make them
        if bare_batch:
            batch = R.make_batch(rng, lang, awkward=0.0, licensed_only=True, bare=0.7, with_failed=0.2)
        for sent in batch:
            for st in sent:
                for tok in st.tree.tokens:
                    if lang == 'en' and not bare_batch:
                        for k in ('lemma', 'pos', 'entity', 'chunk'):
                            tok.setdefault(k, 'XX')
        flat = [(si + 1, st.tree) for si, sent in enumerate(batch) for st in sent]
        words_ok = all(T.token_ok_strict(tok) for _, t in flat for tok in t.tokens)
        enc_batch = X.enc_batch(batch)
        enc_scored = f'{len(batch)} ' + ' '.join(f'{len(sent)} ' + ' '.join(enc_str(f'{st.score:.8f}') + ' ' + T.enc_tree(st.tree) for st in sent)
                                                   for sent in batch)
        for f in R.offered(lang):
            desc = {'lang': lang, 'format': f, 'batch': [[T.enc_tree(st.tree)[:700] for st in sent] for sent in batch]}
            ctx.evaluations += 1
            try:
                out = R.render(R.clone_batch(batch), f, lang)
            except Exception as e:
                # rendering failures are C19's business for licensed trees; arbitrary labels may be unknown to prolog
                out = None
                err = 'err ' + wire.err_name(e)
            # ---- model ----------------------------------------------------------------------------------
            if f in ('auto', 'auto_extended', 'conll', 'ptb', 'ja', 'deriv'):
                cases.append(('tostring', f'tostring {f} {enc_scored}', 'ok ' + enc_str(out) if out is not None else err, desc))
                if out is not None and f == 'deriv':
                    # the whole output through the block reader (theorems block_doc_decode / main_deriv_reads_back): the
                    # block of every record is the text of the real per-tree printer
                    from depccg.printer.deriv import deriv_of
                    try:
                        dlang.set_global_language_to(lang)
                        blocks_ = [deriv_of(T.clone(st.tree)) for sent in batch for st in sent]
                    except Exception:
                        blocks_ = None
                    finally:
                        dlang.set_global_language_to('en')
                    if blocks_ is not None and all(b.endswith('\n') and '\n\n' not in b and not b.startswith('\n') for b in blocks_):
                        want_bd = f'ok {len(flat)}' + ''.join(
                            f' ## {n} {enc_str(f"{st.score:.8f}")} {enc_str(b)}'
                            for (n, _), st, b in zip(flat, [st for sent in batch for st in sent], blocks_))
                        cases.append(('block_doc', 'block_doc ' + enc_str(out + '\n'), want_bd, desc))
                if out is not None and f in ('auto', 'auto_extended', 'ptb', 'ja'):
                    # the whole output through the document reader of the one-line formats (theorems line_doc_decode /
                    # main_line_reads_back): sentence number, score text and the tree's own line, taken from the real
                    # per-tree printer
                    from depccg.printer.auto import auto_of, auto_extended_of
                    from depccg.printer.ptb import ptb_of
                    from depccg.printer.ja import ja_of
                    one = {'auto': auto_of, 'auto_extended': auto_extended_of, 'ptb': ptb_of, 'ja': ja_of}[f]
                    try:
                        dlang.set_global_language_to(lang)
                        lines_ = [one(T.clone(st.tree)) for sent in batch for st in sent]
                    except Exception:
                        lines_ = None
                    finally:
                        dlang.set_global_language_to('en')
                    if lines_ is not None and all('\n' not in l for l in lines_):
                        want_ld = f'ok {len(flat)}' + ''.join(
                            f' ## {n} {enc_str(f"{st.score:.8f}")} {enc_str(l)}'
                            for (n, _), st, l in zip(flat, [st for sent in batch for st in sent], lines_))
                        cases.append(('line_doc', 'line_doc ' + enc_str(out + '\n'), want_ld, desc))
            elif f == 'prolog':
                cases.append(('prolog', f'prolog_{lang} {enc_batch}', 'ok ' + enc_str(out) if out is not None else err, desc))
            elif f == 'json':
                def kscore(x):
                    return 'ninf' if x == -float('inf') else str(int(x * 64))
                if all(st.score == -float('inf') or st.score * 64 == int(st.score * 64) for sent in batch for st in sent):
                    enc_k = f'{len(batch)} ' + ' '.join(f'{len(sent)} ' + ' '.join(kscore(st.score) + ' ' + T.enc_tree(st.tree) for st in sent)
                                                      for sent in batch)
                    # the text of `json.dumps(…, indent=4)` itself, character by character (Print/Json.lean)
                    cases.append(('json_text', f'json_text {enc_k}', 'ok ' + enc_str(out) if out is not None else err, desc))
                    if out is not None:
                        # the reader written in Lean (Read/Json.lean, theorem `json_text_decode`) on the real text,
                        # against CPython's own `json.loads`
                        loaded = json.loads(out)
                        want_read = f'ok {len(loaded)}' + ''.join(
                            f' || {key} {len(entries)}' + ''.join(
                                ' ' + kscore(e['log_prob']) + ' ' + enc_json({k: v for k, v in e.items() if k != 'log_prob'}) for e in entries)
                            for key, entries in loaded.items())
                        cases.append(('json_read', 'json_read ' + enc_str(out), want_read, desc))
            elif f == 'html':
                enc_html = f'{len(batch)} ' + ' '.join(f'{len(sent)} ' + ' '.join(enc_str(f'{st.score:.5e}') + ' ' + T.enc_tree(st.tree) for st in sent)
                                                     for sent in batch)
                cases.append(('html', f'html {enc_html}', 'ok ' + enc_str(out) if out is not None else err, desc))
                if out is not None:
                    for _, t in flat:
                        # the model's own reader applied to the model's text must give back the skeleton the
                        # real regular expression / tree yields
                        cases.append(('html_read', 'html_read ' + T.enc_tree(t), 'ok ' + enc_hskel(t), desc))
            elif f == 'xml':
                if out is not None:
                    cases.append(('xml', 'xml ' + enc_batch, 'ok ' + X.canon(etree.fromstring(out.encode('utf-8'))), desc))
                # the serialised text itself, character by character (Print/XmlText.lean)
                cases.append(('xml_text', 'xml_text ' + enc_batch, 'ok ' + enc_str(out) if out is not None else err, desc))
            elif f == 'jigg_xml':
                if out is not None:
                    cases.append(('jigg', f'jigg {1 if lang == "ja" else 0} {enc_batch}', 'ok ' + X.canon(etree.fromstring(out.encode('utf-8'))), desc))
                if all(st.score == -float('inf') or st.score * 64 == int(st.score * 64) for sent in batch for st in sent):
                    enc_k = f'{len(batch)} ' + ' '.join(f'{len(sent)} ' + ' '.join(
                        ('ninf' if st.score == -float('inf') else str(int(st.score * 64))) + ' ' + T.enc_tree(st.tree) for st in sent) for sent in batch)
                    cases.append(('jigg_text', f'jigg_text {1 if lang == "ja" else 0} {enc_k}', 'ok ' + enc_str(out) if out is not None else err, desc))
            if out is None:
                continue
            if f == 'conll' and all('\t' not in v and '\n' not in v for _, t in flat for tok in t.tokens for v in tok.values()):
                # the Lean reader of the table (theorem conll_decode) applied to the REAL text: ids, words in escaped
                # spelling, lemma / pos with `_` as default, heads from the head flags, leaf categories
                recs_c = D.split_records(out, conll=True)
                if len(recs_c) == len(flat):
                    for (_, body), (_, t) in zip(recs_c, flat):
                        hs = conll_heads(t)
                        rows = ''.join(f' || {i + 1} {enc_str(esc(tok["word"]))} {enc_str(tok.get("lemma", "_"))} {enc_str(tok.get("pos", "_"))} '
                                       f'{enc_str(tok.get("pos", "_"))} {hs[i]} {enc_str(str(leaf.cat))}'
                                       for i, (tok, leaf) in enumerate(zip(t.tokens, t.leaves)))
                        cases.append(('conll_dec', 'conll_dec ' + enc_str(body), f'ok {len(t.tokens)}' + rows, desc))
                    # the whole output through the document reader (theorems conll_doc_decode / main_conll_reads_back):
                    # sentence numbers, score texts and the rows of every record
                    want_doc = f'ok {len(flat)}'
                    for (n, t), st in zip(flat, [st for sent in batch for st in sent]):
                        hs = conll_heads(t)
                        want_doc += f' ## {n} {enc_str(f"{st.score:.8f}")} {len(t.tokens)}' + ''.join(
                            f' || {i + 1} {enc_str(esc(tok["word"]))} {enc_str(tok.get("lemma", "_"))} {enc_str(tok.get("pos", "_"))} '
                            f'{enc_str(tok.get("pos", "_"))} {hs[i]} {enc_str(str(leaf.cat))}'
                            for i, (tok, leaf) in enumerate(zip(t.tokens, t.leaves)))
                    cases.append(('conll_doc', 'conll_doc ' + enc_str(out + '\n'), want_doc, desc))
            if f == 'prolog' and prolog_guard(lang, [t for _, t in flat]):
                try:
                    want_p = f'ok {len(flat)}' + ''.join(f' || {n} ' + (pview_en(t) if lang == 'en' else pview_ja(t)) for n, t in flat)
                    cases.append(('prolog_dec', 'prolog_dec ' + enc_str(out), want_p, desc))
                except KeyError:
                    pass
            if f == 'deriv' and words_ok:
                # the Lean reader of the format (theorem deriv_decode) applied to the REAL text
                def dview(t):
                    if t.is_leaf:
                        return f'L {enc_str(str(t.cat))} {enc_str(t.token["word"])}'
                    if t.is_unary:
                        return f'U {enc_str(str(t.cat))} {enc_str(t.op_symbol)} ' + dview(t.children[0])
                    return f'B {enc_str(str(t.cat))} {enc_str(t.op_symbol)} ' + dview(t.children[0]) + ' ' + dview(t.children[1])
                recs_d = D.split_records(out)
                if len(recs_d) == len(flat):
                    for (_, body), (_, t) in zip(recs_d, flat):
                        if all(not any(ch in (' ', '\n') for ch in (x.op_symbol or '')) and not (x.op_symbol or '').startswith('-')
                               for x in walk_nodes(t)):
                            cases.append(('deriv_dec', 'deriv_dec ' + enc_str(body + '\n'), 'ok ' + dview(t), desc))
            # ---- oracle: decode and compare (only tokens the format can carry) --------------------------
            if f in ('auto', 'auto_extended', 'conll', 'ptb', 'ja', 'deriv') and not words_ok:
                continue
            if f == 'ptb' and any((esc(tok['word']).startswith('(') or esc(tok['word']).endswith(')')) for _, t in flat for tok in t.tokens):
                continue
            if f == 'ja' and any(any(c in normalize(tok['word']) for c in '/{}') or any(c in v for c in '/{} ' for v in tok.values())
                                 for _, t in flat for tok in t.tokens):
                continue
            try:
                if f in ('auto', 'auto_extended'):
                    recs = [(n, D.read_auto(b, extended=(f == 'auto_extended'))) for n, b in D.split_records(out)]
                    want = [(n, view(t, str, esc, (lambda x: x.op_string) if f == 'auto_extended' else None, heads=True)) for n, t in flat]
                    got = [(n, strip(d, f == 'auto_extended', True)) for n, d in recs]
                    # unary nodes print head 0
                elif f == 'conll':
                    recs = D.split_records(out, conll=True)
                    got, want = [], []
                    for (n, b), (n2, t) in zip(recs, flat):
                        rows, tree = D.read_conll(b)
                        # the part-of-speech tag is carried twice, by the POS column and by the tree column
                        leaves_pos = []

                        def leaf_pos(x):
                            if x[0] == 'L':
                                leaves_pos.append(x[3].get('pos'))
                            else:
                                for k in x[-1]:
                                    leaf_pos(k)
                        leaf_pos(tree)
                        got.append((n, strip(tree, False, True), [r['head'] for r in rows], [r['word'] for r in rows],
                                    [r['pos'] for r in rows], leaves_pos))
                        wpos = [tok.get('pos', '_') for tok in t.tokens]
                        want.append((n2, view(t, str, esc, None, heads=True), conll_heads(t), [esc(tok['word']) for tok in t.tokens],
                                     wpos, wpos))
                    if len(recs) != len(flat):
                        got.append('count')
                elif f == 'ptb':
                    got = [(n, strip(D.read_ptb(b), False, False)) for n, b in D.split_records(out)]
                    want = [(n, view(t, str, esc)) for n, t in flat]
                elif f == 'ja':
                    from depccg.tools.ja.reader import combinators as bank
                    syms = set(bank) | {'OTHER'}
                    got = [(n, strip(D.read_ja(b, syms), True, False)) for n, b in D.split_records(out)]
                    want = [(n, view(t, str, normalize, lambda x: x.op_symbol)) for n, t in flat]
                elif f == 'deriv':
                    got = [(n, strip(D.read_deriv(b), True, False)) for n, b in D.split_records(out)]
                    want = [(n, view(t, str, lambda w: w, lambda x: x.op_symbol)) for n, t in flat]
                elif f == 'xml':
                    got = [(n, strip(d, True, False)) for n, _, d in D.read_candc_xml(out)]
                    want = [(n, view(t, str, lambda w: w, lambda x: x.op_string)) for n, t in flat]
                    # span offsets and token attributes carried by the leaves
                    for (xn, _, xd), (_, xt) in zip(D.read_candc_xml(out), flat):
                        for li, (la, ltok) in enumerate(zip(leaf_attrs(xd), xt.tokens)):
                            if any(k in ('start', 'span', 'cat') for k in ltok):
                                continue
                            if la.get('start') != str(li) or la.get('span') != '1':
                                ctx.fail(f'xml: leaf {li} of sentence {xn} carries offsets start={la.get("start")} span={la.get("span")}',
                                         dict(desc, output=out[:1500]), fingerprint=['xml-offsets', lang])
                                break
                            if any(la.get(k) != v for k, v in ltok.items()):
                                ctx.fail(f'xml: leaf {li} of sentence {xn} does not carry its token\'s attributes',
                                         dict(desc, output=out[:1500]), fingerprint=['xml-attrs', lang])
                                break
                elif f == 'jigg_xml':
                    got = [(n, strip(d, True, False)) for n, d in D.read_jigg(out)]
                    lab = (lambda x: x.op_symbol) if lang == 'ja' else (lambda x: x.op_string)
                    want = [(n, view(t, _cat_multi_valued, lambda w: w, lab)) for n, t in flat]
                elif f == 'json':
                    got = [(n, strip(d, True, False)) for n, d in D.read_json(out)]
                    want = [(n, view(t, str, lambda w: w, lambda x: x.op_string)) for n, t in flat]
                    # model: one json op per tree
                    for (n, t), (key, d) in zip(flat, [(k, x) for k in json.loads(out) for x in json.loads(out)[k]]):
                        cases.append(('json', 'json ' + T.enc_tree(t), 'ok ' + enc_json(d), desc))
                elif f == 'prolog':
                    got = [(n, strip(d, True, False)) for n, d in D.read_prolog(out, lang)]
                    if lang == 'en':
                        want = [(n, view(t, prolog_cat_en, lambda w: w, lambda x: 'lx' if x.is_unary else EN_OP.get(x.op_string))) for n, t in flat]
                    else:
                        want = [(n, view(t, prolog_cat_ja, lambda w: w, lambda x: JA_OP.get(x.op_symbol))) for n, t in flat]
                elif f == 'html':
                    got = [(n, strip(d, True, False)) for n, d in D.read_html(out)]
                    want = [(n, view(t, str, lambda w: w, lambda x: x.op_string)) for n, t in flat]
                else:
                    continue
            except Exception as e:
                if not words_ok and f in ('auto', 'auto_extended', 'conll', 'ptb', 'ja', 'deriv'):
                    continue
                ctx.fail(f'output of format {f} cannot be decoded by an independent reader: {type(e).__name__}: {e}',
                         dict(desc, output=out[:1500]), fingerprint=['decode', f, lang, type(e).__name__])
                continue
            if f in ('auto', 'auto_extended', 'conll', 'ptb', 'ja', 'deriv') and not words_ok:
                continue
            if f == 'ptb' and any((esc(tok['word']).startswith('(') or esc(tok['word']).endswith(')')) for _, t in flat for tok in t.tokens):
                continue
            if f == 'ja' and any(any(c in normalize(tok['word']) for c in '/{}') for _, t in flat for tok in t.tokens):
                continue
            if got != want:
                fp = ['differs', f, lang]
                if f == 'html' and any(html_cat_known(str(n.cat)) for _, t in flat for n in all_nodes(t)):
                    fp = ['html-cat-chars']
                if [g[0] for g in got if isinstance(g, tuple)] != [w[0] for w in want]:
                    fp = ['numbering', f]
                ctx.fail(f'format {f} does not encode the derivation: decoded {str(got)[:300]} expected {str(want)[:300]}',
                         dict(desc, output=out[:1500]), fingerprint=fp)
            else:
                ctx.nontrivial_add((i, f))
    # the category segmentation of the html format (model `mathmlCat`) on category texts and edge strings
    import html as htmllib
    import re as _re
    from depccg.printer.html import _mathml_cat
    import gen_cat
    texts = [str(c) for c in gen_cat.tree_cats('en')[:400] + gen_cat.tree_cats('ja')[:300]]
    texts += [',', '.', 'S|NP', 'S[dcl]', '[x]', 'a[b][c]', 'a[]', 'a[]]', ']a[', 'a[b', 'S[a=b,c=d,e=f]\\NP', 'x&y<z>', '', 'a[b]c[d]',
              '[[a]]', 'a[[b]]']
    for t in texts:
        try:
            out = _mathml_cat(t)
            items = _re.findall(r"mathcolor='(Red|Purple)'>(.*?)</mi>", out, _re.S)
            pairs = []
            for colour, text in items:
                if colour == 'Red':
                    pairs.append([htmllib.unescape(text), ''])
                else:
                    pairs[-1][1] = htmllib.unescape(text)
            got = 'ok ' + ' ; '.join(enc_str(a) + ' ' + enc_str(b) for a, b in pairs)
        except Exception as e:
            got = 'err ' + wire.err_name(e)
        cases.append(('mathml_cat', 'mathml_cat ' + enc_str(t), got, t))
        ctx.evaluations += 1
    ctx.sample({'formats_en': R.offered('en'), 'formats_ja': R.offered('ja')})
    cases += control_chars_cases(ctx, ctx.budget(40, 400))
    import cli_common
    cases += cli_common.numfmt_suite(ctx, ctx.budget(300, 3000))      # '{:.8f}', '{:.5e}', repr of the scores
    ctx.extra['skipped_unsupported'] = common.compare_with_model(ctx, cases)
    cli_common.cli_suite(ctx, ctx.budget(24, 240), formats=['auto_extended', 'conll', 'ptb', 'deriv', 'ja', 'json', 'xml', 'prolog', 'html', 'jigg_xml'])      # the same through the command line itself
    common.conclude(ctx)


def enc_hskel(t):
    """the skeleton a reader of the html sees, from the tree itself (category segments by the
    regular expression of the printer's specification)"""
    import re as _re
    segs = _re.findall(r'([^\[\]]+)(\[.+?\])*', str(t.cat))
    se = f'{len(segs)}' + ''.join(' ' + enc_str(a) + ' ' + enc_str(b) for a, b in segs)
    if t.is_leaf:
        return 'L ' + enc_str(t.word) + ' ' + se
    return 'N ' + enc_str(t.op_string) + ' ' + se + f' {len(t.children)}' + ''.join(' ' + enc_hskel(c) for c in t.children)


def leaf_attrs(d):
    """attribute dicts of the leaves of a decoded C&C xml tree, left to right"""
    if d[0] == 'L':
        return [d[3]]
    return [a for k in d[4] for a in leaf_attrs(k)]


def control_chars_cases(ctx, count):
    """model only (outside the property's token domain): words holding control characters, U+FFFE / U+FFFF,
    DEL, line / paragraph separators — `element.set` of lxml refuses some (ValueError for the whole call),
    json escapes all of them"""
    rng = ctx.rng
    pool = ['a\x0bb', 'x\x0c', '\x1cq', 'p\x1dq', 'u\x1ev', 'n\x85m', 'l\u2028s', 'p\u2029s', 'a\x00', '\x08', 'z\x7f', '\ufffe', 'q\uffff',
            'a\tb', 'c\nd', 'e\rf', '\ufffd', '\U0010ffff', 'é\U0001f600', ' ', '"&<>\'']
    cases = []
    for i in range(count):
        lang = 'ja' if i % 3 == 2 else 'en'
        batch = R.make_batch(rng, lang, n_sent=rng.randint(1, 2), licensed_only=True, awkward=0.0)
        for sent in batch:
            for st in sent:
                for tok in st.tree.tokens:
                    if rng.random() < (0.15 if i % 2 else 0.5):
                        tok[rng.choice(['word', 'word', 'lemma', 'pos'])] = rng.choice(pool)
        desc = {'lang': lang, 'batch': [[T.enc_tree(st.tree)[:700] for st in sent] for sent in batch]}
        enc_batch = X.enc_batch(batch)
        enc_k = f'{len(batch)} ' + ' '.join(f'{len(sent)} ' + ' '.join(str(int(st.score * 64)) + ' ' + T.enc_tree(st.tree) for st in sent) for sent in batch)
        for f in ['jigg_xml', 'json'] + (['xml'] if lang == 'en' else []):
            ctx.evaluations += 1
            try:
                out = 'ok ' + enc_str(R.render(R.clone_batch(batch), f, lang))
            except Exception as e:
                out = 'err ' + wire.err_name(e)
                ctx.extra['control_char_renderings_refused'] = ctx.extra.get('control_char_renderings_refused', 0) + 1
            line = {'xml': 'xml_text ' + enc_batch, 'jigg_xml': f'jigg_text {1 if lang == "ja" else 0} {enc_k}', 'json': 'json_text ' + enc_k}[f]
            cases.append((line.split(' ')[0], line, out, dict(desc, format=f)))
            ctx.nontrivial_add(('ctl', f, enc_batch[:300]))
    return cases


def all_nodes(t):
    yield t
    if not t.is_leaf:
        for c in t.children:
            yield from all_nodes(c)


def enc_json(d):
    if 'children' in d:
        return f"N {enc_str(d['type'])} {enc_str(d['cat'])} {len(d['children'])}" + ''.join(' ' + enc_json(k) for k in d['children'])
    items = [(k, v) for k, v in d.items() if k != 'log_prob']
    return f'L {len(items)}' + ''.join(f' {enc_str(k)} {enc_str(v)}' for k, v in items)


def replay(ctx, path):
    print(json.dumps(json.load(open(path)), indent=1)[:4000])
    run(ctx)
