"""C05 Category text and category values round-trip.

model ops: parse print tokenize   (lean/Depccg/Cat.lean)
theorems : lean/Depccg/Props/C05.lean
oracle   : independent printer + recursive-descent reader of well-formed text
"""
from depccg.cat import Category, Atom, Functor, UnaryFeature, TernaryFeature
import common
import gen_cat
import tables
import wire
from wire import enc_cat, enc_str
from oracles import sig, canonical, read_wellformed, Reject

PID = 'C05'


def impl_parse(text):
    try:
        c = Category.parse(text)
    except RecursionError:
        raise
    except Exception as e:
        return None, 'err ' + wire.err_name(e)
    try:
        return c, 'ok ' + enc_cat(c)
    except wire.Garbage:
        return None, 'err Unsupported'


def decorate(rng, c, p=0.35):
    """a well-formed text of c with redundant brackets and blanks"""
    def sp():
        return ' ' * rng.choice([0, 0, 0, 1, 2])

    def wrap(t):
        while rng.random() < p:
            o, cl = rng.choice(['()', '<>'])
            t = o + sp() + t + sp() + cl
        return t

    def operand(x):
        if type(x) is Functor:
            o, cl = rng.choice(['()', '()', '<>'])
            return wrap(o + sp() + expr(x) + sp() + cl)
        f = canonical(x)[len(x.base):]
        if f:
            f = sp() + '[' + sp() + f[1:-1] + sp() + ']'
        return wrap(x.base + f)

    def expr(x):
        if type(x) is Functor:
            return operand(x.left) + sp() + x.slash + sp() + operand(x.right)
        return operand(x)
    t = expr(c)
    if rng.random() < 0.3:
        t = wrap('(' + t + ')')
    return sp() + t + sp()


def flat(rng, pool):
    a, b, c = (rng.choice(pool) for _ in range(3))
    def op(x):
        t = canonical(x)
        return '(' + t + ')' if type(x) is Functor else t
    s1, s2 = rng.choice('/\\|'), rng.choice('/\\|')
    t = op(a) + s1 + op(b) + s2 + op(c)
    k = rng.random()
    if k < 0.4:
        return t
    if k < 0.7:
        return '(' + t + ')' + rng.choice(['', '/NP', '\\(S/NP)'])
    return rng.choice(['NP/', '(S\\NP)/', '']) + '(' + t + ')'


MALFORMED = ['', ' ', '(', ')', '((S)', 'S)', '(S', 'S/', '/S', 'S//NP', 'S/NP/NP', '(S/NP/NP)', 'S[dcl', 'S[dcl]]',
             'S]', '[', 'S[]', 'S[ ]', 'S[a][b]', 'S[a=b,c]', 'S[a=b,c=d,e=f,g=h]', 'S[a=b=c,d=e,f=g]', '<S>', '<S/NP>',
             '(S/NP>', '<S/NP)', '(S>', '()', '(/)', 'S NP', 'S / NP', '( S / NP )', ',[x]', 'conj[a]', 'LRB', '*START*',
             'S[X]/S[X]', 'S|NP', '(S|NP)|NP', 'S\\NP\\NP', '((S\\NP))', '((S\\NP)/NP)/', 'S[dcl]/(', 'S[(]', 'S[/]',
             'a b c', 'S[a b]', ']', 'conj/[', '[/]', 'S[[]', '\tS', 'S\t/NP', 'S[=,]', 'S[=,=,=]', 'S[,=]', 'Σ[φ]/NP', '(((', ')))', '(S/NP)(S/NP)']


def run(ctx):
    rng = ctx.rng
    ctx.lean = common.check_lean(PID, ctx.thorough)
    ctx.rule = ('category values: exhaustive universe of <=3 atoms over both feature systems (sampled in quick) '
                '+ every category string of the shipped model/test files + random depth<=4; for each value its '
                'canonical text and randomly decorated texts (redundant ( ) / < > around operands and expressions, '
                'blanks between tokens); flat texts with two unbracketed slashes at top level and inside brackets; '
                'a malformed stream. non-trivial = distinct texts of functor categories that were accepted, plus '
                'distinct flat texts')
    en_atoms = gen_cat.en_atoms() + [Atom('.'), Atom('LRB'), Atom('Σ', UnaryFeature('φ')), Atom('N', UnaryFeature('num')),
                                      # features spelled like the punctuation categories (CCGbank's X[conj])
                                      Atom('NP', UnaryFeature('conj')), Atom('S', UnaryFeature('LRB')), Atom('N', UnaryFeature('RRB')),
                                      # one-part features that contain a comma or an equals sign, but not both
                                      Atom('S', UnaryFeature('a,b,c')), Atom('NP', UnaryFeature('x,y')), Atom('N', UnaryFeature('k=v')),
                                      Atom('S', UnaryFeature('p,q,r,s')), Atom('PP', UnaryFeature('a=b=c')),
                                      # underscores and braces-free bank-like spellings in atom names and features
                                      Atom('N_sg'), Atom('NP_1'), Atom('X_'), Atom('N_none'), Atom('S', UnaryFeature('a_b')), Atom('_N')]
    ja_atoms = gen_cat.ja_atoms(small=True)
    uni = gen_cat.universe(en_atoms, 2) + gen_cat.universe(ja_atoms, 2)
    uni3 = gen_cat.universe(gen_cat.en_atoms(bases=['S', 'NP', ','], feats=[None, 'X', 'dcl']), 3) \
        + gen_cat.universe(ja_atoms[:6], 3)
    values = list(uni if ctx.thorough else rng.sample(uni, 3000))
    values += uni3 if ctx.thorough else rng.sample(uni3, 3000)
    values += [gen_cat.random_cat(rng, rng.choice([en_atoms, ja_atoms]), 4) for _ in range(ctx.budget(2000, 20000))]
    shipped_txt = tables.shipped_strings('en') + tables.shipped_strings('ja')
    if ctx.thorough:
        cd = tables.load('cat_dict.en')
        extra = set()
        for cats in cd.values():
            extra.update(cats)
        shipped_txt = shipped_txt + sorted(extra - set(shipped_txt))
    cases = []

    def check_text(text, want_sig, what):
        c, out = impl_parse(text)
        cases.append(('parse', 'parse ' + enc_str(text), out, text))
        ctx.evaluations += 1
        if c is None:
            ctx.fail(f'{what}: well-formed text rejected ({out})', text, fingerprint=['parse-reject', text])
            return None
        if sig(c) != want_sig:
            ctx.fail(f'{what}: text read as a different value {canonical(c)!r}', text, fingerprint=['parse-value', text])
        return c

    # 1. print then parse; canonical and decorated texts
    for v in values:
        s = sig(v)
        try:
            printed = str(v)
        except Exception as e:
            ctx.fail(f'str(category) raised {wire.err_name(e)}', canonical(v), fingerprint=['print-raise', canonical(v)])
            continue
        cases.append(('print', 'print ' + enc_cat(v), enc_str(printed), canonical(v)))
        ctx.evaluations += 1
        if printed != canonical(v):
            # the printer may legitimately differ from the canonical spelling only by brackets/blanks
            try:
                ok = read_wellformed(printed) == s
            except Reject:
                ok = False
            if not ok:
                ctx.fail(f'printed text {printed!r} is not a text of the value', canonical(v), fingerprint=['print', canonical(v)])
        c = check_text(printed, s, 'parse(print(c))')
        if c is not None and type(v) is Functor:
            ctx.nontrivial_add(printed)
        for _ in range(ctx.budget(2, 4)):
            t = decorate(rng, v)
            c2 = check_text(t, s, 'redundant brackets/blanks')
            if c2 is not None:
                if type(v) is Functor:
                    ctx.nontrivial_add(t)
                # printing what was read gives the same text up to brackets and blanks
                try:
                    if read_wellformed(str(c2)) != s:
                        ctx.fail('print(parse(text)) denotes another value', t, fingerprint=['reprint', t])
                except Reject:
                    ctx.fail('print(parse(text)) is not well-formed text', t, fingerprint=['reprint', t])
    # 2. shipped strings: reference reader and implementation agree, reprint is a text of the value
    for t in shipped_txt:
        try:
            want = read_wellformed(t)
        except Reject as e:
            ctx.fail(f'shipped category string is not well-formed: {e}', t, fingerprint=['shipped', t])
            continue
        c = check_text(t, want, 'shipped string')
        if c is not None:
            ctx.nontrivial_add(t)
            if read_wellformed(str(c)) != want:
                ctx.fail('print(parse(text)) denotes another value', t, fingerprint=['reprint', t])
    # 3. flat texts must be rejected
    pool = values[:500]
    for _ in range(ctx.budget(3000, 30000)):
        t = flat(rng, pool)
        c, out = impl_parse(t)
        cases.append(('parse', 'parse ' + enc_str(t), out, t))
        ctx.evaluations += 1
        ctx.nontrivial_add(('flat', t))
        if not out.startswith('err ') or out == 'err Unsupported':
            ctx.fail(f'text with two unbracketed slashes at one level was accepted as {out}', t, fingerprint=['flat', t])
    # 4. malformed stream: model and implementation must agree (ok/error kind/value)
    mal = list(MALFORMED)
    alphabet = ['S', 'NP', '(', ')', '<', '>', '/', '\\', '|', '[', ']', ' ', 'dcl', ',', 'conj', 'a=b,c=d,e=f', 'X']
    for _ in range(ctx.budget(5000, 60000)):
        mal.append(''.join(rng.choice(alphabet) for _ in range(rng.randint(1, 9))))
    for t in mal:
        c, out = impl_parse(t)
        cases.append(('parse', 'parse ' + enc_str(t), out, t))
        cases.append(('tokenize', 'tokenize ' + enc_str(t), None, t))
        ctx.evaluations += 1
        # oracle on the malformed stream: whatever the reference reader accepts must be read to that value
        try:
            want = read_wellformed(t)
        except Reject:
            want = None
        if want is not None:
            if c is None or sig(c) != want:
                ctx.fail(f'well-formed text read as {out}', t, fingerprint=['parse-value', t])
    cases = [c for c in cases if c[2] is not None]
    ctx.sample({'value': canonical(values[0]), 'decorated_text': decorate(rng, values[0])})
    ctx.sample({'flat_text': flat(rng, pool)})
    ctx.sample({'shipped': shipped_txt[17]})
    ctx.extra['shipped_strings'] = len(shipped_txt)
    ctx.extra['skipped_unsupported'] = common.compare_with_model(ctx, cases)
    common.conclude(ctx)


def replay(ctx, path):
    import json
    rec = json.load(open(path))
    print(json.dumps(rec, indent=1)[:3000])
    run(ctx)
