"""C03 English combinatory rules are sound.

model ops: en_bin     (lean/Depccg/En.lean)
theorems : lean/Depccg/Props/C03.lean
oracle   : per-label schema checker + completeness probe (grammar_oracles)
"""
from depccg.cat import Category, Atom, Functor, UnaryFeature
from depccg.grammar import en
import common
import gen_cat
import grammar_common as G
import grammar_oracles as O
import tables
import wire
from wire import enc_cat
from oracles import sig, canonical

PID = 'C03'


def erase_nb(s):
    if s[0] == 'F':
        return ('F', erase_nb(s[1]), s[2], erase_nb(s[3]))
    if s[2] == ('U', 'nb'):
        return ('A', s[1], ('U', None))
    return s


def completeness_cases(rng, pool, n):
    """schema instances whose matched parts are identical: (label, x, y, expected result sig)"""
    out = []
    F = lambda l, s, r: Functor(l, s, r)
    for _ in range(n):
        a, b, c, d = (rng.choice(pool) for _ in range(4))
        s3 = rng.choice(['/', '\\'])
        k = rng.randrange(6)
        if k == 0:
            out.append(('fa', F(a, '/', b), b, a))
        elif k == 1:
            out.append(('ba', b, F(a, '\\', b), a))
        elif k == 2:
            out.append(('fc', F(a, '/', b), F(b, '/', c), F(a, '/', c)))
        elif k == 3:
            out.append(('bx', F(b, '/', c), F(a, '\\', b), F(a, '/', c)))
        elif k == 4:
            out.append(('gfc', F(a, '/', b), F(F(b, '/', c), s3, d), F(F(a, '/', c), s3, d)))
        else:
            out.append(('gbx', F(F(b, '/', c), s3, d), F(a, '/', b), F(F(a, '/', c), s3, d)))
    return out


def run(ctx):
    rng = ctx.rng
    ctx.lean = common.check_lean(PID, ctx.thorough)
    ctx.rule = ('ordered pairs of English categories: inventory x inventory for en (425^2) and en_rebank (511^2) (sampled '
                'in quick), shipped seen-rule pairs, observed rule instances of tests/grammar/rules.txt, closure (results '
                'recombined with the inventory), exhaustive universe of <=2-atom categories over atoms {S,NP,N,PP,`,`,conj} x '
                'features {none,X,nb,dcl,b} x slashes {/,\\,|} (sampled), pattern-instantiated and perturbed pairs; plus '
                'schema instances with identical matched parts for the completeness direction. non-trivial = distinct '
                'pairs for which a rule fired')
    atoms = gen_cat.en_atoms() + [Atom('.'), Atom(';'), Atom('LRB'), Atom('RRB'), Atom('LQU'), Atom(':')]
    uni2 = gen_cat.universe(gen_cat.en_atoms(), 2)
    pool = gen_cat.universe(atoms[:16], 2)
    feats = [UnaryFeature(f) for f in gen_cat.EN_FEATS + ['em', 'ng', 'pss']]
    pairs = []
    for v in ('en', 'en_rebank'):
        inv = gen_cat.inventory(v)
        if ctx.thorough:
            pairs += [(a, b) for a in inv for b in inv]
        else:
            pairs += [(rng.choice(inv), rng.choice(inv)) for _ in range(8000)]
        st = tables.load(tables.VARIANTS[v]['seen'])
        pairs += [(Category.parse(a), Category.parse(b)) for a, b in (st if ctx.thorough else rng.sample(st, 1200))]
    inv = gen_cat.inventory('en') + gen_cat.inventory('en_rebank')
    pairs += [(x, y) for x, y, _ in G.rule_triples('en')]
    pairs += [(rng.choice(uni2), rng.choice(uni2)) for _ in range(ctx.budget(6000, 150000))]
    pairs += [(x, y) for _, _, x, y in G.pattern_pairs(rng, G.EN_PATTERNS, pool, feats, ctx.budget(15000, 150000), slashes=('/', '\\', '|'), deep=gen_cat.deep_pool('en', rng))]
    special = [',', ';', 'conj', '.', 'LRB', 'LQU', 'RRB', ':', 'S[dcl]', 'S[em]\\S[em]', 'S[ng]\\NP', 'S[pss]\\NP', 'S[dcl]/S[dcl]',
               'NP\\NP', 'S/(S\\NP)', '(S\\NP)\\((S\\NP)/NP)', 'NP[nb]/N', 'S[em]\\S[em]', 'N', 'NP']
    for a in special:
        for b in special:
            pairs.append((Category.parse(a), Category.parse(b)))
        for _ in range(10):
            pairs.append((Category.parse(a), rng.choice(inv)))
            pairs.append((rng.choice(inv), Category.parse(a)))
    # the rules that are not pattern pairs (conjunction, punctuation, type changing) test their operands
    # against literal categories: every such literal with one feature or one slash changed, on either side
    near = []
    for a in special:
        for _ in range(8):
            near.append(gen_cat.perturb(rng, Category.parse(a), feats, slashes=('/', '\\', '|')))
    for a in special:
        for b in near:
            pairs.append((Category.parse(a), b))
            pairs.append((b, Category.parse(a)))
    extra = []
    for x, y in pairs[:3000]:
        try:
            for r in en.apply_binary_rules(x, y):
                extra.append((r.cat, rng.choice(inv)))
                extra.append((rng.choice(inv), r.cat))
        except Exception:
            pass
    pairs += extra[:ctx.budget(4000, 40000)]
    cases = []
    labels = {}
    for x, y in pairs:
        desc = [canonical(x), canonical(y)]
        rs, out = G.call_rules(en.apply_binary_rules, x, y)
        cases.append(('en_bin', f'en_bin - {enc_cat(x)} {enc_cat(y)}', out, desc))
        ctx.evaluations += 1
        if rs is None:
            ctx.fail(f'rule application raised ({out})', desc, fingerprint=['raise'] + desc)
            continue
        sx, sy = erase_nb(sig(x)), erase_nb(sig(y))
        if rs:
            ctx.nontrivial_add((desc[0], desc[1]))
        infeats = set(O.s_feats(sx) + O.s_feats(sy)) | {('U', None)}
        for r in rs:
            key = f'{r.op_string} {r.op_symbol}'
            labels[key] = labels.get(key, 0) + 1
            if not r.head_is_left:
                ctx.fail(f'{key}: head is not the left child', desc, fingerprint=['head', key] + desc)
            why = O.en_justified(r.op_string, r.op_symbol, sig(r.cat), sx, sy)
            if why:
                ctx.fail(f'result {r.cat} labelled {key} is not justified by its schema: {why}', desc,
                         fingerprint=['schema', key, why] + desc)
            if r.op_symbol != '<*>':
                for f in O.s_feats(sig(r.cat)):
                    if f not in infeats:
                        ctx.fail(f'{key}: feature {f} of the result does not come from the inputs', desc,
                                 fingerprint=['feature-origin', key] + desc)
    # completeness: premises with identical matched parts always yield the result
    comp = completeness_cases(rng, pool, ctx.budget(6000, 60000))
    ncomp = 0
    for label, x, y, want in comp:
        desc = [label, canonical(x), canonical(y)]
        sx, sy = erase_nb(sig(x)), erase_nb(sig(y))
        wants = erase_nb(sig(want))
        # the guards of the property: bx/gbx never compose over a bare N or NP
        if label in ('bx', 'gbx'):
            b = sy[3]
            if O.bare_n_np(b):
                continue
        rs, out = G.call_rules(en.apply_binary_rules, x, y)
        cases.append(('en_bin', f'en_bin - {enc_cat(x)} {enc_cat(y)}', out, desc))
        ctx.evaluations += 1
        ncomp += 1
        if rs is None:
            ctx.fail(f'rule application raised ({out})', desc, fingerprint=['raise'] + desc)
            continue
        if not any(r.op_string == label and sig(r.cat) == wants for r in rs):
            ctx.fail(f'schema {label} with identical matched parts did not yield {O.s_str(wants)}', desc,
                     fingerprint=['complete', label] + desc[1:])
    ctx.extra['labels_fired'] = labels
    ctx.extra['completeness_probes'] = ncomp
    ctx.sample({'pair': [canonical(pairs[0][0]), canonical(pairs[0][1])]})
    ctx.sample({'completeness': [comp[0][0], canonical(comp[0][1]), canonical(comp[0][2]), canonical(comp[0][3])]})
    # the same pairs on categories that live for one call only
    rec = [(c[3][0], c[3][1], c[2], sig(x), sig(y)) for (x, y), c in zip(pairs, cases)
           if c[0] == 'en_bin' and isinstance(c[3], list) and len(c[3]) == 2 and c[2].startswith('ok')]
    fired = [r for r in rec if r[2] != 'ok 0']
    sample = rng.sample(fired, min(len(fired), 500)) + rng.sample(rec, min(len(rec), 300))
    ctx.extra['short_lived_calls'] = G.short_lived_suite(ctx, en.apply_binary_rules, sample, ctx.budget(4, 12))
    ctx.extra['skipped_unsupported'] = common.compare_with_model(ctx, cases)
    common.conclude(ctx)


def replay(ctx, path):
    import json
    print(json.dumps(json.load(open(path)), indent=1)[:3000])
    run(ctx)
