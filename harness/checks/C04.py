"""C04 Japanese combinatory rules are sound.

model ops: ja_bin ja_un     (lean/Depccg/Ja.lean)
theorems : lean/Depccg/Props/C04.lean
oracle   : per-symbol schema checker + unary label by shape (grammar_oracles)
"""
from depccg.cat import Category, Atom, Functor, TernaryFeature, UnaryFeature
from depccg.grammar import ja
import common
import gen_cat
import grammar_common as G
import grammar_oracles as O
import tables
import wire
from wire import enc_cat
from oracles import sig, canonical

PID = 'C04'


def run(ctx):
    rng = ctx.rng
    ctx.lean = common.check_lean(PID, ctx.thorough)
    ctx.rule = ('ordered pairs of Japanese categories: inventory x inventory (415^2, sampled in quick), the shipped '
                'seen-rule pairs, the observed rule instances of tests/grammar/rules.ja.txt, results recombined with the '
                'inventory (closure), pattern-instantiated and perturbed pairs over an exhaustive universe of <=2-atom '
                'categories with three-part features incl. variables; unary: the 15 shipped left-hand sides + synthetic '
                'ones of every shape (S, S\\NP, (S\\NP)\\NP, deeper, NP-rooted) x mod in {adn, adv, nm}. non-trivial = '
                'distinct pairs for which a rule fired, distinct unary inputs with a label')
    inv = gen_cat.inventory('ja')
    atoms = gen_cat.ja_atoms()
    pool = gen_cat.universe(atoms[:14], 2)
    feats = [a.feature for a in atoms]
    # independent of ja.py: the categories the command line offers as roots of a Japanese tree
    roots = {sig(Category.parse(c)) for c in tables.ja_sentence_categories()}
    pairs = []
    n = ctx.budget(12000, 172225)
    if ctx.thorough:
        pairs += [(a, b) for a in inv for b in inv]
    else:
        pairs += [(rng.choice(inv), rng.choice(inv)) for _ in range(n)]
    seen_txt = tables.load('seen_rules.ja')
    pairs += [(Category.parse(a), Category.parse(b)) for a, b in (seen_txt if ctx.thorough else rng.sample(seen_txt, 800))]
    pairs += [(x, y) for x, y, _ in G.rule_triples('ja')]
    pairs += [(x, y) for _, _, x, y in G.pattern_pairs(rng, G.JA_PATTERNS, pool, feats, ctx.budget(15000, 100000), deep=gen_cat.deep_pool('ja', rng))]
    rootcats = list(ja._possible_root_categories)
    pairs += [(rng.choice(rootcats), rng.choice(rootcats)) for _ in range(200)]
    pairs += [(rng.choice(rootcats), rng.choice(inv)) for _ in range(200)]
    extra = []
    for x, y in pairs[:3000]:
        try:
            for r in ja.apply_binary_rules(x, y):
                extra.append((r.cat, rng.choice(inv)))
                extra.append((rng.choice(inv), r.cat))
        except Exception:
            pass
    pairs += extra[:ctx.budget(4000, 40000)]
    # malformed stream: featureless atoms (outside the quantifier; model and code must still agree)
    mal = [(Category.parse('S/NP'), Category.parse('NP')), (Category.parse('NP'), rng.choice(inv)),
           (rng.choice(inv), Category.parse('S\\NP')), (Category.parse('S[mod=nm,form=base,fin=f]/NP'), Category.parse('NP[case=ga,mod=nm,fin=f]'))]
    cases = []
    symbols = {}
    for x, y in pairs + mal:
        desc = [canonical(x), canonical(y)]
        rs, out = G.call_rules(ja.apply_binary_rules, x, y)
        cases.append(('ja_bin', f'ja_bin - {enc_cat(x)} {enc_cat(y)}', out, desc))
        ctx.evaluations += 1
        sx, sy = sig(x), sig(y)
        if O.mixed_systems(sx, sy) or any(f[0] == 'U' for f in O.s_feats(sx) + O.s_feats(sy)):
            continue
        if rs is None:
            ctx.fail(f'rule application raised ({out})', desc, fingerprint=['raise'] + desc)
            continue
        if rs:
            ctx.nontrivial_add((desc[0], desc[1]))
        for r in rs:
            symbols[r.op_symbol] = symbols.get(r.op_symbol, 0) + 1
            if r.head_is_left:
                ctx.fail(f'{r.op_symbol}: head is not the right child', desc, fingerprint=['head', r.op_symbol] + desc)
            why = O.ja_justified(r.op_string, r.op_symbol, sig(r.cat), sx, sy, roots)
            if why:
                ctx.fail(f'result {r.cat} labelled {r.op_symbol} is not justified by its schema: {why}', desc,
                         fingerprint=['schema', r.op_symbol, why] + desc)
            infeats = set(O.s_feats(sx) + O.s_feats(sy))
            for f in O.s_feats(sig(r.cat)):
                if f not in infeats:
                    ctx.fail(f'{r.op_symbol}: feature {f} of the result does not come from the inputs', desc,
                             fingerprint=['feature-origin', r.op_symbol] + desc)
    # ---- unary steps ------------------------------------------------------------------------------
    table = G.unary_table('ja')
    lhs = list(table.keys())
    syn = {}
    S = lambda m: Atom('S', TernaryFeature(('mod', m), ('form', rng.choice(['base', 'cont', 'attr'])), ('fin', 'f')))
    NPs = [Atom('NP', TernaryFeature(('case', c), ('mod', 'nm'), ('fin', 'f'))) for c in ('ga', 'o', 'ni')]
    NPm = lambda m: Atom('NP', TernaryFeature(('case', 'nc'), ('mod', m), ('fin', 'f')))
    for m in ('adn', 'adv', 'nm'):
        for depth in range(0, 4):
            for sl in ('\\', '/'):
                c = S(m)
                for _ in range(depth):
                    c = Functor(c, sl, rng.choice(NPs))
                syn[c] = [rng.choice(inv), rng.choice(inv)]
        syn[NPm(m)] = [rng.choice(inv)]
        syn[Functor(NPm(m), '\\', NPs[0])] = [rng.choice(inv)]
        syn[Functor(S(m), '\\', S('nm'))] = [rng.choice(inv)]
        syn[Functor(Functor(S(m), '\\', NPs[0]), '/', NPs[1])] = [rng.choice(inv)]
    setup = [('setup', G.set_unary_line('ship', table), 'ok', 'ship'), ('setup', G.set_unary_line('syn', syn), 'ok', 'syn')]
    labels = {}
    for name, tbl in (('ship', table), ('syn', syn)):
        for x in tbl:
            desc = [name, canonical(x)]
            rs, out = G.call_rules(ja.apply_unary_rules, x, tbl)
            cases.append(('ja_un', f'ja_un {name} {enc_cat(x)}', out, desc))
            ctx.evaluations += 1
            if rs is None:
                ctx.fail(f'unary rules raised ({out})', desc, fingerprint=['unary-raise'] + desc)
                continue
            want = O.ja_unary_label(sig(x))
            for r in rs:
                labels[r.op_symbol] = labels.get(r.op_symbol, 0) + 1
                ctx.nontrivial_add(('unary', desc[1]))
                if r.op_symbol != want or r.op_string != want:
                    ctx.fail(f'unary step from {x} is labelled {r.op_symbol}; its shape prescribes {want}', desc,
                             fingerprint=['unary-label', desc[1]])
    ctx.extra['symbols_fired'] = symbols
    ctx.extra['unary_labels_seen'] = labels
    ctx.sample({'pair': [canonical(pairs[0][0]), canonical(pairs[0][1])]})
    ctx.sample({'unary_input': canonical(lhs[0])})
    # the same pairs on categories that live for one call only
    rec = [(c[3][0], c[3][1], c[2], sig(x), sig(y)) for (x, y), c in zip(pairs + mal, cases)
           if c[0] == 'ja_bin' and isinstance(c[3], list) and len(c[3]) == 2 and c[2].startswith('ok')]
    fired = [r for r in rec if r[2] != 'ok 0']
    sample = rng.sample(fired, min(len(fired), 500)) + rng.sample(rec, min(len(rec), 300))
    ctx.extra['short_lived_calls'] = G.short_lived_suite(ctx, ja.apply_binary_rules, sample, ctx.budget(4, 12))
    ctx.extra['skipped_unsupported'] = common.compare_with_model(ctx, setup + cases)
    common.conclude(ctx)


def replay(ctx, path):
    import json
    print(json.dumps(json.load(open(path)), indent=1)[:3000])
    run(ctx)
