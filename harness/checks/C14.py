"""C14 Rule application is a pure, total, reproducible function; filters only remove.

model ops: en_bin ja_bin en_un ja_un (with and without seen sets)   (lean/Depccg/En.lean, Ja.lean)
theorems : lean/Depccg/Props/C14.lean
oracle   : purity snapshots, double evaluation, fresh interpreters under different PYTHONHASHSEED and a
           multiprocessing worker, independent seen-gate / nb / unary-table recomputation
"""
import json
import multiprocessing
import os
import subprocess
import sys

from depccg.cat import Category, Atom, Functor, UnaryFeature, TernaryFeature
from depccg.grammar import en, ja
import common
import gen_cat
import grammar_common as G
import grammar_oracles as O
import wire
from wire import enc_cat
from oracles import sig, canonical

PID = 'C14'
HERE = os.path.dirname(os.path.dirname(os.path.dirname(os.path.abspath(__file__))))


def erase_sig(s, names):
    if s[0] == 'F':
        return ('F', erase_sig(s[1], names), s[2], erase_sig(s[3], names))
    f = s[2]
    if f[0] == 'U' and f[1] in names:
        return ('A', s[1], ('U', None))
    return s


def digest(rs):
    return ' ; '.join(f'{r.cat} {r.op_string} {r.op_symbol} {int(r.head_is_left)}' for r in rs)


def _pool_eval(case):
    lang, x, y = case
    mod = en if lang == 'en' else ja
    try:
        return 'ok ' + digest(mod.apply_binary_rules(Category.parse(x), Category.parse(y)))
    except Exception as e:
        return 'err ' + type(e).__name__


def conflict_family(rng, n):
    """several occurrences of the feature variable X that get bound to different values"""
    out = []
    fs = ['dcl', 'b', 'ng', 'pss', 'to', 'adj']
    for _ in range(n):
        f, g = rng.sample(fs, 2)
        k = rng.randrange(6)
        if k == 0:
            out.append((f'S[X]/(S[X]\\NP[X])', f'S[{f}]\\NP[{g}]'))
        elif k == 1:
            out.append((f'(S[X]\\NP[X])/(S[X]\\NP[X])', f'S[{f}]\\NP[{g}]'))
        elif k == 2:
            out.append((f'S[{f}]\\NP[{g}]', f'S[X]\\(S[X]\\NP[X])'))
        elif k == 3:
            out.append((f'(S[X]/NP[X])/(N[X]/PP[X])', f'(N[{f}]/PP[{g}])/NP'))
        elif k == 4:
            out.append((f'NP[X]/(N[X]/PP[X])', f'(N[{f}]/PP[{g}])/NP[X]'))
        else:
            out.append((f'(N[{f}]/PP[{g}])/NP', f'S[X]\\((N[X]/PP[X])/NP)'))
    return out


def run(ctx):
    rng = ctx.rng
    ctx.lean = common.check_lean(PID, ctx.thorough)
    ctx.rule = ('ordered pairs of categories: shipped inventories (en, en_rebank, ja), pairs listed in the shipped '
                'seen-rule files, rule closure samples, pattern-instantiated/perturbed pairs, every ordered pair of atomic inventory categories, and a conflict family '
                'where several occurrences of X are bound to different values; each evaluated with seen=None, the '
                'shipped seen sets and random seen sets, twice in-process, in a Pool worker and in fresh interpreters '
                'with different PYTHONHASHSEED; unary tables: shipped + synthetic multi-target. non-trivial = distinct '
                'pairs for which some rule fired')
    en_atoms, ja_atoms = gen_cat.en_atoms(), gen_cat.ja_atoms()
    pairs = {'en': [], 'ja': []}
    inv = {'en': gen_cat.inventory('en') + gen_cat.inventory('en_rebank'), 'ja': gen_cat.inventory('ja')}
    n = ctx.budget(6000, 80000)
    for lang in ('en', 'ja'):
        seen_txt = tables.load(tables.VARIANTS[lang]['seen'])
        for a, b in rng.sample(seen_txt, min(len(seen_txt), n // 3)):
            pairs[lang].append((Category.parse(a), Category.parse(b)))
        for _ in range(n // 3):
            pairs[lang].append((rng.choice(inv[lang]), rng.choice(inv[lang])))
        for x, y, _ in G.rule_triples(lang)[:n // 6]:
            pairs[lang].append((x, y))
        atoms = en_atoms if lang == 'en' else ja_atoms
        pool = gen_cat.universe(atoms[:12], 2)
        feats = [a.feature for a in atoms]
        pats = G.EN_PATTERNS if lang == 'en' else G.JA_PATTERNS
        pairs[lang] += [(x, y) for _, _, x, y in G.pattern_pairs(rng, pats, pool, feats, n // 2, deep=gen_cat.deep_pool(lang, rng))]
    for a, b in conflict_family(rng, ctx.budget(300, 3000)):
        pairs['en'].append((Category.parse(a), Category.parse(b)))
    # atomic square: every ordered pair of atomic inventory categories, the diagonal included — pairs such as
    # (LRB, LRB) or (',', ',') where two combinators derive the very same category next to a different one
    for lang in ('en', 'ja'):
        atomic = sorted({canonical(c) for c in inv[lang] if c.is_atomic})
        pairs[lang] += [(Category.parse(a), Category.parse(b)) for a in atomic for b in atomic]
    # closure: results of rule application recombined
    for lang, mod in (('en', en), ('ja', ja)):
        extra = []
        for x, y in pairs[lang][:2000]:
            try:
                for r in mod.apply_binary_rules(x, y):
                    extra.append((r.cat, rng.choice(inv[lang])))
                    extra.append((rng.choice(inv[lang]), r.cat))
            except Exception:
                pass
        pairs[lang] += extra[:n // 3]

    shipped_seen = {'en': G.seen_set('en'), 'ja': G.seen_set('ja')}
    shipped_seen_sig = {k: {(sig(a), sig(b)) for a, b in v} for k, v in shipped_seen.items()}
    cases = []
    setup_lines = []
    # the model gets the shipped seen sets once (as protocol state)
    for lang in ('en', 'ja'):
        setup_lines.append(('setup', G.set_seen_line('ship_' + lang, sorted(shipped_seen[lang], key=lambda p: (str(p[0]), str(p[1])))), 'ok', lang))
    text_cases = []
    fired = 0
    for lang, mod in (('en', en), ('ja', ja)):
        for x, y in pairs[lang]:
            sx, sy = sig(x), sig(y)
            desc = [lang, canonical(x), canonical(y)]
            rs, out = G.call_rules(mod.apply_binary_rules, x, y)
            cases.append((lang + '_bin', f'{lang}_bin - {enc_cat(x)} {enc_cat(y)}', out, desc))
            ctx.evaluations += 1
            if sig(x) != sx or sig(y) != sy:
                ctx.fail('rule application changed its arguments', desc, fingerprint=['mutate'] + desc)
            if rs is None:
                ctx.fail(f'rule application raised on well-formed categories ({out})', desc, fingerprint=['raise'] + desc)
                continue
            # the returned list is the caller's: callers (depccg's own label guesser among them) append to it
            rs.append(rs[0] if rs else None)
            rs.pop()
            if len(desc[1]) % 3 == 0:
                rs.append('caller-owned')
            rs2, out2 = G.call_rules(mod.apply_binary_rules, x, y)
            if rs and rs[-1] == 'caller-owned':
                rs.pop()
            if out2 != out:
                ctx.fail('two calls with the same arguments gave different lists', desc, fingerprint=['twice'] + desc)
            if rs:
                fired += 1
                ctx.nontrivial_add((lang, desc[1], desc[2]))
            text_cases.append(([lang, desc[1], desc[2]], 'ok ' + digest(rs)))
            # seen gate with the shipped set
            rs3, out3 = G.call_rules(mod.apply_binary_rules, x, y, seen_rules=shipped_seen[lang])
            if rs3 is not None and len(desc[2]) % 4 == 0:
                # what guess_combinator_by_triplet does with the list of a restricted rule function
                from depccg.grammar import guess_combinator_by_triplet
                import functools
                try:
                    guess_combinator_by_triplet(functools.partial(mod.apply_binary_rules, seen_rules=shipped_seen[lang]), x, x, y)
                except Exception:
                    pass
                rs3.append('caller-owned')
            cases.append((lang + '_bin', f'{lang}_bin ship_{lang} {enc_cat(x)} {enc_cat(y)}', out3, desc + ['shipped seen']))
            ctx.evaluations += 1
            key = (erase_sig(sx, ('X', 'nb')), erase_sig(sy, ('X', 'nb'))) if lang == 'en' else (sx, sy)
            want = out if key in shipped_seen_sig[lang] else 'ok 0'
            if out3 != want:
                ctx.fail('with a seen-rule set the result is neither the unrestricted result (pair in the set) nor empty '
                         '(pair not in the set)', desc, fingerprint=['seen'] + desc)
            if lang == 'en':
                # nb marks are irrelevant
                xs, ys = wire.dec_cat(enc_cat(x)), wire.dec_cat(enc_cat(y))
                xn = gen_cat.map_atoms(xs, lambda i, a: Atom(a.base) if str(a.feature) == 'nb' else a)
                yn = gen_cat.map_atoms(ys, lambda i, a: Atom(a.base) if str(a.feature) == 'nb' else a)
                k = rng.randrange(4)
                xm = gen_cat.map_atoms(xs, lambda i, a: Atom(a.base, UnaryFeature('nb')) if str(a.feature) == '' and (i + k) % 2 == 0 and a.base[0].isalpha() else a)
                for xa, ya in ((xn, yn), (xm, y)):
                    _, o4 = G.call_rules(mod.apply_binary_rules, xa, ya)
                    ctx.evaluations += 1
                    if o4 != out:
                        ctx.fail("English result depends on 'nb' marks", desc + [canonical(xa), canonical(ya)],
                                 fingerprint=['nb'] + desc)
    # random seen sets
    for lang, mod in (('en', en), ('ja', ja)):
        sample = rng.sample(pairs[lang], min(len(pairs[lang]), 400))
        chosen = sample[:200]
        if lang == 'en':
            S = {(a.clear_features('X', 'nb'), b.clear_features('X', 'nb')) for a, b in chosen}
        else:
            S = set(chosen)
        Ssig = {(sig(a), sig(b)) for a, b in S}
        setup_lines.append(('setup', G.set_seen_line('rnd_' + lang, sorted(S, key=lambda p: (str(p[0]), str(p[1])))), 'ok', lang))
        for x, y in sample:
            desc = [lang, canonical(x), canonical(y), 'random seen set']
            _, free = G.call_rules(mod.apply_binary_rules, x, y)
            _, gated = G.call_rules(mod.apply_binary_rules, x, y, seen_rules=S)
            cases.append((lang + '_bin', f'{lang}_bin rnd_{lang} {enc_cat(x)} {enc_cat(y)}', gated, desc))
            ctx.evaluations += 1
            key = (erase_sig(sig(x), ('X', 'nb')), erase_sig(sig(y), ('X', 'nb'))) if lang == 'en' else (sig(x), sig(y))
            if gated != (free if key in Ssig else 'ok 0'):
                ctx.fail('seen-rule gate: result is neither unrestricted nor empty as the set prescribes', desc, fingerprint=['seen'] + desc)

    # a seen-rule set given as it is written (pairs still carrying [nb] / [X]): membership is asked of the
    # ERASED pair, so an un-erased member lets nothing through unless its erased form is a member too
    marked = [(a, b) for a, b in pairs['en'] if any(m in str(a) + str(b) for m in ('[nb]', '[X]'))]
    raw = rng.sample(marked, min(len(marked), 150)) + [(Category.parse('NP[nb]/N'), Category.parse('N')),
                                                       (Category.parse('S[X]/(S[X]\\NP)'), Category.parse('S[dcl]\\NP'))]
    S = set(raw)
    Ssig = {(sig(a), sig(b)) for a, b in S}
    setup_lines.append(('setup', G.set_seen_line('raw_en', sorted(S, key=lambda p: (str(p[0]), str(p[1])))), 'ok', 'en'))
    probes = raw + [(a.clear_features('nb'), b.clear_features('nb')) for a, b in raw[:60]] + rng.sample(pairs['en'], min(len(pairs['en']), 100))
    n_marked_hits = 0
    for x, y in probes:
        desc = ['en', canonical(x), canonical(y), 'seen set with un-erased members']
        _, free = G.call_rules(en.apply_binary_rules, x, y)
        _, gated = G.call_rules(en.apply_binary_rules, x, y, seen_rules=S)
        cases.append(('en_bin', f'en_bin raw_en {enc_cat(x)} {enc_cat(y)}', gated, desc))
        ctx.evaluations += 1
        key = (erase_sig(sig(x), ('X', 'nb')), erase_sig(sig(y), ('X', 'nb')))
        n_marked_hits += (free != 'ok 0' and key not in Ssig)
        if gated != (free if key in Ssig else 'ok 0'):
            ctx.fail('seen-rule gate: the pair with [X] / [nb] erased is ' + ('' if key in Ssig else 'not ') + 'in the set, but the result is '
                     + ('not the unrestricted one' if key in Ssig else 'not empty'), desc, fingerprint=['seen-raw'] + desc)
    ctx.extra['raw_seen_pairs_that_would_fire_but_are_gated'] = n_marked_hits

    # an empty seen-rule collection is a filter too: nothing is in it, so nothing may fire
    setup_lines.append(('setup', G.set_seen_line('empty', []), 'ok', 'empty'))
    for lang, mod in (('en', en), ('ja', ja)):
        for x, y in rng.sample(pairs[lang], min(len(pairs[lang]), 300)):
            for empty in (set(), frozenset()):
                _, gated = G.call_rules(mod.apply_binary_rules, x, y, seen_rules=empty)
                ctx.evaluations += 1
                if gated != 'ok 0':
                    ctx.fail('with an empty seen-rule set a rule fired (the pair is not in the set)', [lang, canonical(x), canonical(y)],
                             fingerprint=['seen-empty', lang])
            cases.append((lang + '_bin', f'{lang}_bin empty {enc_cat(x)} {enc_cat(y)}', gated, [lang, canonical(x), canonical(y), 'empty seen set']))
    # ---- unary rules --------------------------------------------------------------------------
    for lang, mod in (('en', en), ('ja', ja)):
        tbls = {'ship': G.unary_table(lang)}
        syn = {}
        # Japanese unary steps are defined on categories whose result atom carries a feature triple
        lhs_pool = [c for c in inv[lang] if lang == 'en' or hasattr(c.arg(0).feature, 'items')]
        for _ in range(30):
            k = rng.choice(lhs_pool)
            syn.setdefault(k, [])
            for _ in range(rng.randint(1, 3)):
                syn[k].append(rng.choice(inv[lang]))
        if lang == 'en':
            syn[Category.parse('NP')] = [Category.parse('S[X]/(S[X]\\NP)'), Category.parse('N'), Category.parse('S/(S\\NP)')]
            syn[Category.parse('PP')] = [Category.parse('(S\\NP)\\((S\\NP)/PP)')]
        tbls['syn'] = syn
        for name, tbl in tbls.items():
            setup_lines.append(('setup', G.set_unary_line(f'{name}_{lang}', tbl), 'ok', lang))
            tsig = {sig(k): [sig(v) for v in vs] for k, vs in tbl.items()}
            probes = list(tbl.keys()) + rng.sample(lhs_pool, 150) + [gen_cat.perturb(rng, k, [a.feature for a in (en_atoms if lang == 'en' else ja_atoms)]) for k in tbl.keys()]
            import collections
            dd = collections.defaultdict(list, tbl)
            for x in probes:
                desc = [lang, name, canonical(x)]
                sx = sig(x)
                rs, out = G.call_rules(mod.apply_unary_rules, x, tbl)
                cases.append((lang + '_un', f'{lang}_un {name}_{lang} {enc_cat(x)}', out, desc))
                ctx.evaluations += 1
                if rs is None:
                    ctx.fail(f'unary rules raised ({out})', desc, fingerprint=['unary-raise'] + desc)
                    continue
                if [(sig(r.cat) if hasattr(r, 'cat') else repr(r)) for r in rs] != tsig.get(sx, []):
                    ctx.fail('unary rules did not return exactly the configured targets in order', desc, fingerprint=['unary'] + desc)
                if rs:
                    ctx.nontrivial_add(('unary', lang, name, desc[2]))
                if sig(x) != sx or {sig(k): [sig(v) for v in vs] for k, vs in tbl.items()} != tsig:
                    ctx.fail('unary rules changed their arguments', desc, fingerprint=['unary-mut'] + desc)
                # the table as depccg's own loader builds it (a defaultdict): same answer, table untouched
                rs2, out2 = G.call_rules(mod.apply_unary_rules, x, dd)
                ctx.evaluations += 1
                if out2 != out:
                    ctx.fail(f'unary rules answer differently for a defaultdict table ({out2[:80]} vs {out[:80]})', desc,
                             fingerprint=['unary-defaultdict'] + desc)
                if len(dd) != len(tbl):
                    ctx.fail(f'looking up a category without unary rules changed the table argument ({len(tbl)} -> {len(dd)} entries)',
                             desc, fingerprint=['unary-mut-table'] + desc[:2])
                    dd = collections.defaultdict(list, tbl)

    # ---- other processes / hash seeds ------------------------------------------------------------
    seeds = list(range(ctx.budget(6, 48)))
    sub = text_cases if len(text_cases) <= ctx.budget(4000, 40000) else rng.sample(text_cases, ctx.budget(4000, 40000))
    # always keep the conflict family
    sub += [t for t in text_cases if '[X]' in t[0][1] and '[X]' in t[0][1][t[0][1].find('[X]') + 3:]][:2000]
    # ... and the atomic square (both sides without a slash)
    sub += [t for t in text_cases if not any(ch in t[0][1] + t[0][2] for ch in '/\\|')][:3000]
    payload = json.dumps([t[0] for t in sub])
    env = dict(os.environ)
    procs = []
    for sd in seeds:
        e = dict(env)
        e['PYTHONHASHSEED'] = str(sd)
        procs.append((sd, subprocess.Popen([sys.executable, os.path.join(HERE, 'harness', 'rules_worker.py')], stdin=subprocess.PIPE,
                                           stdout=subprocess.PIPE, stderr=subprocess.PIPE, env=e)))
        if len(procs) >= 12:
            _drain(ctx, procs, payload, sub)
            procs = []
    _drain(ctx, procs, payload, sub)
    with multiprocessing.get_context('fork').Pool(2) as pool:
        outs = pool.map(_pool_eval, [t[0] for t in sub[:3000]], chunksize=200)
    for (c, want), got in zip(sub[:3000], outs):
        ctx.evaluations += 1
        if got != want:
            ctx.fail('result in a worker process differs from the result in this process', c, fingerprint=['process'] + c)
    ctx.extra['hash_seeds'] = len(seeds)
    ctx.extra['pairs_with_results'] = fired
    ctx.sample({'pair': [canonical(pairs['en'][0][0]), canonical(pairs['en'][0][1])]})
    ctx.sample({'conflict_pair': ['S[X]/(S[X]\\NP[X])', 'S[dcl]\\NP[b]']})
    import cli_common
    cases += cli_common.read_params_model_cases(ctx, ctx.budget(24, 240))      # read_params next to its Lean model (Config.lean)
    ctx.extra['skipped_unsupported'] = common.compare_with_model(ctx, setup_lines + cases)
    import cli_common
    cli_common.cli_suite(ctx, ctx.budget(16, 160))      # the same through the command line itself
    cli_common.read_params_suite(ctx, ctx.budget(12, 120))
    common.conclude(ctx)


def _drain(ctx, procs, payload, sub):
    for sd, p in procs:
        try:
            out, errout = p.communicate(payload.encode(), timeout=900)
            res = json.loads(out.decode())
        except Exception as e:
            raise common.Infra(f'worker with PYTHONHASHSEED={sd} failed: {e}: {errout.decode()[-800:]}')
        for (c, want), got in zip(sub, res):
            ctx.evaluations += 1
            if got != want:
                ctx.fail(f'result under PYTHONHASHSEED={sd} differs from this process: {got[:200]} vs {want[:200]}', c,
                         fingerprint=['hashseed'] + c)


import tables  # noqa: E402


def replay(ctx, path):
    print(json.dumps(json.load(open(path)), indent=1)[:3000])
    run(ctx)
