"""C06 Pattern matching of categories succeeds exactly when it should.

model ops: uni uniobj        (lean/Depccg/Unify.lean)
theorems : lean/Depccg/Props/C06.lean
oracle   : declarative matcher (grammar_oracles.declarative_unify) + binding / protocol checks
"""
from depccg.cat import Category, Atom, Functor, UnaryFeature, TernaryFeature
from depccg.unification import Unification
import common
import gen_cat
import grammar_common as G
import grammar_oracles as O
import wire
from wire import enc_cat, enc_str
from oracles import sig, canonical

PID = 'C06'
VARS = 'abcdef'


def random_linear_pattern(rng, vars_left, depth=3):
    """a pattern using each variable at most once"""
    if depth == 0 or len(vars_left) <= 1 or rng.random() < 0.3:
        return Atom(vars_left.pop(rng.randrange(len(vars_left))))
    l = random_linear_pattern(rng, vars_left, depth - 1)
    if not vars_left:
        return l
    r = random_linear_pattern(rng, vars_left, depth - 1)
    return Functor(l, rng.choice(['/', '\\', '|']), r)


def run(ctx):
    rng = ctx.rng
    ctx.lean = common.check_lean(PID, ctx.thorough)
    ctx.rule = ('(pattern pair, category pair): all 16 pattern pairs of the two grammars and bounded random linear '
                'patterns; categories obtained by instantiating the patterns with shared bindings from a universe of '
                '<=2-atom categories and then perturbing one feature or slash on one side (70%), plus uniformly random '
                'pairs; both feature systems, and a mixed-system malformed stream. non-trivial = distinct cases where '
                'matching succeeded, or failed only on the feature-compatibility condition')
    en_atoms = gen_cat.en_atoms()
    ja_atoms = gen_cat.ja_atoms()
    pools = {
        'en': (gen_cat.universe(en_atoms[:14], 2), [a.feature for a in en_atoms] + [UnaryFeature('')]),
        'ja': (gen_cat.universe(ja_atoms[:10], 2), [a.feature for a in ja_atoms]),
    }
    n = ctx.budget(25000, 250000)
    work = []
    for lang, pats in (('en', G.EN_PATTERNS), ('ja', G.JA_PATTERNS)):
        pool, feats = pools[lang]
        deep = gen_cat.deep_pool(lang, rng)
        work += [(lang,) + t for t in G.pattern_pairs(rng, pats, pool, feats, n, deep=deep)]
        # bounded random linear patterns sharing some variables
        rp = []
        for _ in range(40):
            vs = list(VARS)
            rng.shuffle(vs)
            px = random_linear_pattern(rng, vs[:4], 3)
            vy = vs[2:6]
            py = random_linear_pattern(rng, vy, 3)
            rp.append((str(px), str(py)))
        work += [(lang,) + t for t in G.pattern_pairs(rng, rp, pool, feats, n // 2, slashes=('/', '\\', '|'), deep=deep)]
        for _ in range(n // 5):
            px, py = rng.choice(pats)
            work.append((lang, px, py, gen_cat.random_cat(rng, pool[:60], 3), gen_cat.random_cat(rng, pool[:60], 3)))
    # malformed stream: mixed feature systems (AttributeError inside TernaryFeature.unifies)
    for _ in range(ctx.budget(3000, 20000)):
        px, py = rng.choice(G.EN_PATTERNS + G.JA_PATTERNS)
        binding = {}
        mixed = pools['en'][0][:40] + pools['ja'][0][:40]
        x = gen_cat.instantiate(rng, Category.parse(px), binding, mixed)
        y = gen_cat.perturb(rng, gen_cat.instantiate(rng, Category.parse(py), binding, mixed),
                            pools['en'][1] + pools['ja'][1])
        work.append(('mixed', px, py, x, y))

    cases = []
    short_rec = []
    reasons = {}
    for lang, px, py, x, y in work:
        cpx, cpy = Category.parse(px), Category.parse(py)
        sx0, sy0 = sig(x), sig(y)
        uni, ok, out = G.uni_out(cpx, cpy, x, y)
        line = f'uni {enc_cat(cpx)} {enc_cat(cpy)} {enc_cat(x)} {enc_cat(y)}'
        desc = [px, py, canonical(x), canonical(y)]
        cases.append(('uni', line, out, desc))
        if not out.startswith('err'):
            short_rec.append((px, py, desc[2], desc[3], out, sx0, sy0))
        ctx.evaluations += 1
        if sig(x) != sx0 or sig(y) != sy0:
            ctx.fail('matching changed its arguments', desc, fingerprint=['uni-mut'] + desc)
        if lang == 'mixed' and O.mixed_systems(sx0, sy0):
            continue        # outside the property's quantifier: compared with the model only
        want, last, why = O.declarative_unify(sig(cpx), sig(cpy), sx0, sy0)
        reasons[why] = reasons.get(why, 0) + 1
        if ok is None:
            ctx.fail(f'matching raised ({out})', desc, fingerprint=['uni-raise'] + desc)
            continue
        if bool(ok) != want:
            ctx.fail(f'matching {"succeeded" if ok else "failed"} but the declarative conditions say '
                     f'{"success" if want else "failure (" + why + ")"}', desc, fingerprint=['uni'] + desc)
            continue
        if want or why == 'features':
            ctx.nontrivial_add(line)
        feats = set(O.s_feats(sx0) + O.s_feats(sy0))
        if ok:
            for v, matched in last.items():
                try:
                    b = sig(uni[v])
                except Exception as e:
                    ctx.fail(f'binding of {v} unreadable after success: {wire.err_name(e)}', desc, fingerprint=['uni-get'] + desc)
                    continue
                if not O.binding_ok(b, matched, feats):
                    ctx.fail(f'binding of {v} is {O.s_str(b)}, matched sub-category is {O.s_str(matched)}', desc,
                             fingerprint=['uni-binding'] + desc)
            try:
                uni['zz']
                ctx.fail('lookup of an unknown variable did not raise', desc, fingerprint=['uni-unknown'] + desc)
            except KeyError:
                pass
            except Exception as e:
                ctx.fail(f'lookup of an unknown variable raised {wire.err_name(e)}', desc, fingerprint=['uni-unknown'] + desc)
        else:
            for v in 'ab':
                try:
                    got = uni[v]
                    ctx.fail(f'binding {v}={got} readable after a failed match', desc, fingerprint=['uni-after-fail'] + desc)
                except AssertionError:
                    pass
                except Exception as e:
                    ctx.fail(f'reading a binding after failure raised {wire.err_name(e)} (AssertionError expected)', desc,
                             fingerprint=['uni-after-fail'] + desc)
        try:
            uni(x, y)
            ctx.fail('a matcher answered twice', desc, fingerprint=['uni-twice'] + desc)
        except RuntimeError:
            pass
        except Exception as e:
            ctx.fail(f'second call raised {wire.err_name(e)} (RuntimeError expected)', desc, fingerprint=['uni-twice'] + desc)
    # object protocol against the model
    for lang, px, py, x, y in rng.sample(work, min(len(work), ctx.budget(3000, 30000))):
        cpx, cpy = Category.parse(px), Category.parse(py)
        key = rng.choice(['a', 'b', 'c', 'z'])
        _, _, x2, y2 = work[rng.randrange(len(work))][1:]
        uni = Unification(cpx, cpy)
        outs = []

        def get():
            try:
                return 'ok ' + enc_cat(uni[key])
            except Exception as e:
                return 'err ' + wire.err_name(e)

        def call(p, q):
            try:
                return 'ok ' + wire.b01(uni(p, q))
            except Exception as e:
                return 'err ' + wire.err_name(e)
        outs = [get(), call(x, y), get(), call(x2, y2), get()]
        if outs[1].startswith('err'):
            continue
        cases.append(('uniobj', f'uniobj {enc_cat(cpx)} {enc_cat(cpy)} {enc_cat(x)} {enc_cat(y)} {enc_cat(x2)} {enc_cat(y2)} {enc_str(key)}',
                      ' ; '.join(outs), [px, py, canonical(x), canonical(y), key]))
        ctx.evaluations += 1
    ctx.extra['oracle_outcomes'] = reasons
    ctx.sample({'patterns': list(work[0][1:3]), 'x': canonical(work[0][3]), 'y': canonical(work[0][4])})
    ctx.sample({'patterns': list(work[-1][1:3]), 'x': canonical(work[-1][3]), 'y': canonical(work[-1][4]), 'stream': 'mixed'})
    # the same matches on categories that live for one call only (patterns and arguments rebuilt from their text,
    # matched, released — addresses are reused): the outcome must be the recorded one
    sample = rng.sample(short_rec, min(len(short_rec), 700))
    n_short = 0
    for rnd in range(ctx.budget(3, 10)):
        stop = False
        for px, py, tx, ty, want, sx0, sy0 in sample:
            try:
                x, y = Category.parse(tx), Category.parse(ty)
            except Exception:
                continue
            if sig(x) != sx0 or sig(y) != sy0:
                continue        # a value no text denotes (built by the generator): it cannot be rebuilt
            _, _, out = G.uni_out(Category.parse(px), Category.parse(py), x, y)
            n_short += 1
            ctx.evaluations += 1
            if out != want:
                ctx.fail('matching freshly built categories gives a different outcome than matching the same categories built earlier',
                         [px, py, tx, ty], fingerprint=['uni-short-lived', px, py, tx, ty])
                stop = True
                break
            del x, y
        if stop:
            break
    ctx.extra['short_lived_matches'] = n_short
    ctx.extra['skipped_unsupported'] = common.compare_with_model(ctx, cases)
    common.conclude(ctx)


def replay(ctx, path):
    import json
    print(json.dumps(json.load(open(path)), indent=1)[:3000])
    run(ctx)
