"""C19 Whatever the parser can return can be rendered in every offered format.

model    : label closure theorems (C03 en_labels_closed / en_unary_labels, C04 ja_labels_closed /
           ja_unary_labels_closed) + generated tables of the printers' label dictionaries
           (lean/Depccg/Generated/Labels.lean, re-emitted from the imported modules every run)
oracle   : the real to_string on derivations covering every label each grammar can emit, on the
           failure placeholder, and on batches mixing parsed and failed sentences
"""
from depccg.tree import Tree, ScoredTree
from depccg.cat import Category
from depccg.grammar import en, ja
import common
import gen_cat
import grammar_common as G
import render_common as R
import tree_common as T

PID = 'C19'


def label_covering_trees(rng, lang):
    """for every (label, symbol) the rule functions return on the observed rule instances and the
    shipped unary tables: a small licensed tree containing a node with that label"""
    mod = en if lang == 'en' else ja
    out = {}
    pairs = T.lexicon(lang)
    for x, y in pairs:
        for r in mod.apply_binary_rules(x, y):
            key = ('B', r.op_string, r.op_symbol)
            if key not in out:
                l = Tree.make_terminal(T.make_token(rng, lang, awkward=0.0, attrs=0.6), x)
                rr = Tree.make_terminal(T.make_token(rng, lang, awkward=0.0, attrs=0.6), y)
                out[key] = Tree.make_binary(r.cat, l, rr, r.op_string, r.op_symbol, r.head_is_left)
    unary = G.unary_table(lang)
    for x in unary:
        for r in mod.apply_unary_rules(x, unary):
            key = ('U', r.op_string, r.op_symbol)
            if key not in out:
                l = Tree.make_terminal(T.make_token(rng, lang, awkward=0.0, attrs=0.6), x)
                out[key] = Tree.make_unary(r.cat, l, r.op_string, r.op_symbol)
    if lang == 'ja':
        # every label _unary_rule_symbol can return, through synthetic unary tables
        for text in ['S[mod=adn,form=base,fin=f]', 'S[mod=adn,form=base,fin=f]\\NP[case=ga,mod=nm,fin=f]',
                     'S[mod=adv,form=cont,fin=f]', 'S[mod=adv,form=cont,fin=f]\\NP[case=ga,mod=nm,fin=f]',
                     '(S[mod=adv,form=cont,fin=f]\\NP[case=ga,mod=nm,fin=f])\\NP[case=o,mod=nm,fin=f]',
                     'S[mod=nm,form=base,fin=f]',
                     # deeper and differently shaped inputs (custom unary tables may name any category): the
                     # label vocabulary must stay within what every offered format can render
                     '((S[mod=adv,form=cont,fin=f]\\NP[case=ga,mod=nm,fin=f])\\NP[case=ni,mod=nm,fin=f])\\NP[case=o,mod=nm,fin=f]',
                     '(((S[mod=adv,form=cont,fin=f]\\NP[case=ga,mod=nm,fin=f])\\NP[case=ni,mod=nm,fin=f])\\NP[case=o,mod=nm,fin=f])\\NP[case=to,mod=nm,fin=f]',
                     '(S[mod=adn,form=base,fin=f]\\NP[case=ga,mod=nm,fin=f])\\NP[case=o,mod=nm,fin=f]',
                     'S[mod=adv,form=cont,fin=f]/NP[case=ga,mod=nm,fin=f]',
                     '(S[mod=adv,form=cont,fin=f]/NP[case=ga,mod=nm,fin=f])\\NP[case=o,mod=nm,fin=f]',
                     'NP[case=nc,mod=adv,fin=f]', 'NP[case=nc,mod=adn,fin=f]\\NP[case=nc,mod=nm,fin=f]']:
            x = Category.parse(text)
            for r in ja.apply_unary_rules(x, {x: [Category.parse('NP[case=nc,mod=nm,fin=f]/NP[case=nc,mod=nm,fin=f]')]}):
                key = ('U', r.op_string, r.op_symbol)
                if key not in out:
                    l = Tree.make_terminal(T.make_token(rng, lang, awkward=0.0, attrs=0.6), x)
                    out[key] = Tree.make_unary(r.cat, l, r.op_string, r.op_symbol)
    return out


def deep_tree(rng, lang, n):
    """a licensed chain-shaped derivation over n words: modifier^(n-1) head, combined by the grammar's own
    application rule one word at a time"""
    mod = en if lang == 'en' else ja
    if lang == 'en':
        m, h = Category.parse('S/S'), Category.parse('S[dcl]')
        t = Tree.make_terminal(T.make_token(rng, lang, awkward=0.0, attrs=0.6), h)
        for _ in range(n - 1):
            rs = mod.apply_binary_rules(m, t.cat)
            if not rs:
                return None
            r = rs[0]
            t = Tree.make_binary(r.cat, Tree.make_terminal(T.make_token(rng, lang, awkward=0.0, attrs=0.6), m), t, r.op_string, r.op_symbol,
                                 r.head_is_left)
        return t
    h = Category.parse('S[mod=nm,form=base,fin=f]')
    m = Category.parse('S[mod=nm,form=base,fin=f]/S[mod=nm,form=base,fin=f]')
    t = Tree.make_terminal(T.make_token(rng, lang, awkward=0.0, attrs=0.6), h)
    for _ in range(n - 1):
        rs = mod.apply_binary_rules(m, t.cat)
        if not rs:
            return None
        r = rs[0]
        t = Tree.make_binary(r.cat, Tree.make_terminal(T.make_token(rng, lang, awkward=0.0, attrs=0.6), m), t, r.op_string, r.op_symbol,
                             r.head_is_left)
    return t


def run(ctx):
    rng = ctx.rng
    import gen_tables
    try:
        gen_tables.emit()
    except Exception as e:
        ctx.notes.append(f'table emission failed: {e}')
    ctx.lean = common.check_lean(PID, ctx.thorough)
    ctx.rule = ('(a) one small derivation per (label, symbol) that the real rule functions return over the observed rule '
                'instances, the shipped unary tables and (ja) synthetic unary inputs of every shape; (b) the failure '
                'placeholder alone; (c) random batches mixing parsed sentences (licensed trees) and failed ones; each '
                'rendered by the real to_string in every executable format offered for the language. '
                'non-trivial = distinct (derivation or batch, format) pairs rendered')
    for lang in ('en', 'ja'):
        fmts = R.offered(lang)
        cover = label_covering_trees(rng, lang)
        ctx.extra[f'labels_{lang}'] = sorted(' '.join(k) for k in cover)
        items = [(f'label {k}', [[ScoredTree(t, -1.0)]]) for k, t in cover.items()]
        items.append(('placeholder', [[ScoredTree(T.placeholder(), -float('inf'))]]))
        for _ in range(ctx.budget(40, 400)):
            items.append(('mixed batch', R.make_batch(rng, lang, n_sent=rng.randint(2, 4), licensed_only=True, awkward=0.0,
                                                      with_failed=0.4)))
        # a long sentence (the default --max-length is 250): a licensed derivation about 200 levels deep, alone
        # and next to a short sentence
        deep = deep_tree(rng, lang, 200)
        if deep is not None:
            items.append(('a 200-word sentence', [[ScoredTree(deep, -40.0)]]))
            items.append(('a 200-word sentence in a batch', [[ScoredTree(T.licensed_tree(rng, lang, 1, dict(awkward=0.0, attrs=0.6)), -1.0)],
                                                              [ScoredTree(T.clone(deep), -40.0)]]))
        for what, batch in items:
            for f in fmts:
                ctx.evaluations += 1
                work = R.clone_batch(batch)
                desc = {'lang': lang, 'format': f, 'what': what,
                        'batch': [[T.enc_tree(st.tree)[:600] for st in sent] for sent in batch]}
                try:
                    out = R.render(work, f, lang, default_stack=True)
                    ctx.nontrivial_add((lang, what, f, len(ctx.nontrivial)))
                except Exception as e:
                    kind = 'placeholder' if what == 'placeholder' or (what == 'mixed batch') else what
                    ctx.fail(f'format {f} ({lang}) cannot render {what}: {type(e).__name__}: {e}', desc,
                             fingerprint=['render', lang, f, kind, type(e).__name__])
        # one parser result shown in several formats one after the other (the same objects): every
        # format must still render, whatever was rendered before
        for what, batch in items[-ctx.budget(30, 300):] + items[:3]:
            work = R.clone_batch(batch)
            order = list(fmts)
            rng.shuffle(order)
            for k, f in enumerate(order):
                ctx.evaluations += 1
                try:
                    R.render(work, f, lang)
                    ctx.nontrivial_add((lang, what, 'seq', f, len(ctx.nontrivial)))
                except Exception as e:
                    ctx.fail(f'format {f} ({lang}) cannot render {what} after {order[:k]} were rendered from the same result: '
                             f'{type(e).__name__}: {e}', {'lang': lang, 'order': order, 'at': f, 'what': what,
                                                         'batch': [[T.enc_tree(st.tree)[:600] for st in sent] for sent in batch]},
                             fingerprint=['render-seq', lang, f, type(e).__name__])
                    break
    ctx.sample({'formats_en': R.offered('en'), 'formats_ja': R.offered('ja')})
    ctx.traces = ctx.evaluations
    # every offered format through the command line itself (option parsing, print_)
    import cli_common
    cli_common.cli_suite(ctx, ctx.budget(30, 300), formats=R.offered('en') + ['ja'])
    common.conclude(ctx)


def replay(ctx, path):
    import json
    print(json.dumps(json.load(open(path)), indent=1)[:4000])
    run(ctx)
