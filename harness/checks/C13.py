"""C13 Categories behave as values.

model ops: eq hash eqstr xor clear feq feqstr   (lean/Depccg/Cat.lean)
theorems : lean/Depccg/Props/C13.lean
oracle   : value laws stated directly on the real objects (independent structural walker)
"""
import copy
import itertools

from depccg.cat import Category, Atom, Functor, UnaryFeature, TernaryFeature, Feature
import common
import gen_cat
import wire
from wire import enc_cat, enc_str, b01

PID = 'C13'


def call(fn):
    try:
        return fn()
    except Exception as e:  # the implementation raised
        return wire_err(e)


class wire_err(object):
    def __init__(self, e):
        self.name = wire.err_name(e)


def out_bool(v):
    if isinstance(v, wire_err):
        return 'err ' + v.name
    return b01(bool(v))


def out_cat(v):
    if isinstance(v, wire_err):
        return 'err ' + v.name
    try:
        return 'ok ' + enc_cat(v)
    except wire.Garbage:
        return 'err Unsupported'


# ---- independent structural walkers (the oracle's notion of "same value") -------------

def sig(c):
    """a nested tuple describing a category value completely"""
    if type(c) is Functor:
        return ('F', sig(c.left), c.slash, sig(c.right))
    f = c.feature
    if type(f) is UnaryFeature:
        fs = ('U', f.value)
    else:
        fs = ('T', f.kv1, f.kv2, f.kv3)
    return ('A', c.base, fs)


def blind(c):
    if type(c) is Functor:
        return ('F', blind(c.left), c.slash, blind(c.right))
    return ('A', c.base)


def canonical(c):
    """independent printer of the canonical text"""
    if type(c) is Functor:
        def w(x):
            t = canonical(x)
            return '(' + t + ')' if type(x) is Functor else t
        return w(c.left) + c.slash + w(c.right)
    f = c.feature
    if type(f) is UnaryFeature:
        fs = f.value or ''
    else:
        fs = ','.join(k + '=' + v for k, v in (f.kv1, f.kv2, f.kv3))
    return c.base + ('[' + fs + ']' if fs else '')


def feat_text(f):
    if type(f) is UnaryFeature:
        return f.value
    return ','.join(k + '=' + v for k, v in (f.kv1, f.kv2, f.kv3))


def erase(c, names):
    """independent eraser: atoms whose feature's text is one of names lose it"""
    if type(c) is Functor:
        return ('F', erase(c.left, names), c.slash, erase(c.right, names))
    t = feat_text(c.feature)
    if t is not None and t in names:
        return ('A', c.base, ('U', None))
    return sig(c)


def rebuild(c):
    """a structurally equal but physically distinct object"""
    return wire.dec_cat(enc_cat(c))


def run(ctx):
    rng = ctx.rng
    ctx.lean = common.check_lean(PID, ctx.thorough)
    ctx.rule = ('pairs of categories: exhaustive universe of <=2 atoms over the English (unary) and '
                'Japanese (three-part) feature systems (sampled in quick), shipped inventories, random '
                'categories of depth<=3, rebuilt copies and one-position perturbations; non-trivial = '
                'distinct pairs that are equal, feature-blind equal, or differ in exactly one feature/slash; '
                'string comparisons against canonical and near-canonical texts; erasure over all subsets of '
                'a feature-name pool')
    en_atoms = gen_cat.en_atoms()
    ja_atoms = gen_cat.ja_atoms(small=True)
    uni_en = gen_cat.universe(en_atoms, 2)
    uni_ja = gen_cat.universe(ja_atoms, 2)
    en_feats = [UnaryFeature(f) for f in gen_cat.EN_FEATS] + [UnaryFeature('')]
    ja_feats = gen_cat.ja_feats(small=False)
    shipped = gen_cat.shipped('en') + gen_cat.shipped('ja')

    pairs = []
    n_rand = ctx.budget(30000, 400000)
    for uni, atoms, feats in ((uni_en, en_atoms, en_feats), (uni_ja, ja_atoms, ja_feats)):
        for _ in range(n_rand // 2):
            pairs.append((rng.choice(uni), rng.choice(uni)))
        for c in uni if ctx.thorough else rng.sample(uni, min(len(uni), 1500)):
            pairs.append((c, rebuild(c)))
            pairs.append((c, gen_cat.perturb(rng, c, feats)))
            pairs.append((gen_cat.perturb(rng, c, feats), c))
    for _ in range(ctx.budget(3000, 30000)):
        c = rng.choice(shipped)
        feats = ja_feats if any(type(a.feature) is TernaryFeature for a in gen_cat.atoms_of(c)) else en_feats
        pairs.append((c, rebuild(c)))
        pairs.append((c, gen_cat.perturb(rng, c, feats)))
        pairs.append((c, rng.choice(shipped)))
    for _ in range(ctx.budget(3000, 30000)):
        atoms = rng.choice([en_atoms, ja_atoms, en_atoms + ja_atoms])
        c = gen_cat.random_cat(rng, atoms, 3)
        pairs.append((c, gen_cat.perturb(rng, rebuild(c), en_feats + ja_feats)))
        pairs.append((c, gen_cat.random_cat(rng, atoms, 3)))
    # three-part features in other than the treebank's key order / with repeated keys
    odd = gen_cat.ja_feats_odd()
    odd_atoms = [Atom(b, f) for f in odd for b in ('S', 'NP')]
    for _ in range(ctx.budget(4000, 40000)):
        a, b = rng.choice(odd_atoms), rng.choice(odd_atoms)
        if rng.random() < 0.5:
            kv = [a.feature.kv1, a.feature.kv2, a.feature.kv3]
            rng.shuffle(kv)
            b = Atom(a.base, TernaryFeature(*kv))
        if rng.random() < 0.5:
            o = rng.choice(ja_atoms)
            sl = rng.choice(['/', '\\'])
            a, b = (Functor(a, sl, o), Functor(b, sl, o)) if rng.random() < 0.5 else (Functor(o, sl, a), Functor(o, sl, b))
        pairs.append((a, b))
        pairs.append((a, rebuild(a)))
    # mixed kinds
    for a in en_atoms[:6] + ja_atoms[:4]:
        for b in uni_en[-5:] + uni_ja[-5:]:
            pairs.append((a, b))
            pairs.append((b, a))

    cases = []
    for a, b in pairs:
        ea, eb = enc_cat(a), enc_cat(b)
        eq = call(lambda: a == b)
        hq = call(lambda: hash(a) == hash(b))
        xq = call(lambda: a ^ b)
        cases.append(('eq', f'eq {ea} {eb}', out_bool(eq), (str(a), str(b))))
        cases.append(('hash', f'hash {ea} {eb}', out_bool(hq), (str(a), str(b))))
        cases.append(('xor', f'xor {ea} {eb}', out_bool(xq), (str(a), str(b))))
        ctx.evaluations += 3
        # ---- oracle -----------------------------------------------------------------
        same = sig(a) == sig(b)
        bl = blind(a) == blind(b)
        if same or bl or sum(1 for x, y in zip(enc_cat(a).split(), enc_cat(b).split()) if x != y) <= 2:
            ctx.nontrivial_add(('pair', ea, eb))
        if isinstance(eq, wire_err) or bool(eq) != same:
            ctx.fail(f'a == b is {out_bool(eq)} but structural equality is {same}', [str(a), str(b)],
                     fingerprint=['eq', str(a), str(b)])
        if same:
            d = call(lambda: ({a: 1}.get(b), b in {a}, b in [a]))
            if isinstance(hq, wire_err) or not hq or isinstance(d, wire_err) or d != (1, True, True):
                ctx.fail('equal categories do not hash equally / are not found in dict or set', [str(a), str(b)],
                         fingerprint=['hash', str(a), str(b)])
        if isinstance(xq, wire_err) or bool(xq) != bl:
            ctx.fail(f'a ^ b is {out_bool(xq)} but feature-blind structural equality is {bl}', [str(a), str(b)],
                     fingerprint=['xor', str(a), str(b)])
        sx = call(lambda: (b ^ a))
        if not isinstance(xq, wire_err) and not isinstance(sx, wire_err) and bool(sx) != bool(xq):
            ctx.fail('feature-blind comparison is not symmetric', [str(a), str(b)], fingerprint=['xor-sym', str(a), str(b)])
    for a, b in pairs[:2000]:
        ra = call(lambda: a ^ a)
        if ra is not True:
            ctx.fail('feature-blind comparison is not reflexive', [str(a)], fingerprint=['xor-refl', str(a)])
    # transitivity on triples built from blind-equal classes
    cls = {}
    for a, b in pairs:
        for c in (a, b):
            cls.setdefault(repr(blind(c)), {})[enc_cat(c)] = c
    ntr = 0
    for k, members in cls.items():
        ms = list(members.values())[:6]
        for x, y, z in itertools.permutations(ms, 3):
            ntr += 1
            if ntr > ctx.budget(20000, 200000):
                break
            r = call(lambda: ((x ^ y) and (y ^ z), x ^ z))
            if isinstance(r, wire_err) or (r[0] and not r[1]):
                ctx.fail('feature-blind comparison is not transitive', [str(x), str(y), str(z)],
                         fingerprint=['xor-trans', str(x), str(y), str(z)])
    ctx.evaluations += ntr
    ctx.extra['transitivity_triples'] = ntr

    # ---- comparison with strings -------------------------------------------------------
    pool = [p[0] for p in pairs[::7]][:ctx.budget(4000, 40000)]
    for c in pool:
        t = canonical(c)
        variants = [t, '(' + t + ')', ' ' + t, t + ' ', t.replace('(', '<').replace(')', '>'), t[:-1], t + ']',
                    canonical(rng.choice(pool)), t.replace('[nb]', ''), t.replace('\\', '/'), '']
        for s in variants:
            r = call(lambda: c == s)
            cases.append(('eqstr', f'eqstr {enc_cat(c)} {enc_str(s)}', out_bool(r), (str(c), s)))
            ctx.evaluations += 1
            if s == t:
                ctx.nontrivial_add(('eqstr', t))
            if isinstance(r, wire_err) or bool(r) != (s == t):
                ctx.fail(f'category == {s!r} is {out_bool(r)}; canonical text is {t!r}', [str(c), s],
                         fingerprint=['eqstr', str(c), s])
    # features against strings
    fpool = en_feats + ja_feats
    ftexts = ['X', 'nb', 'dcl', '', 'mod=nm,form=base,fin=f', 'mod=X1,form=X2,fin=X3', 'case=ga,mod=nm,fin=f',
              'a=b,c', 'a=b,c=d', 'a=b=c,d=e,f=g', 'x,y,z=', ',=', 'b']
    for f in fpool:
        for g in fpool:
            r = call(lambda: f == g)
            cases.append(('feq', 'feq ' + ' '.join(wire.enc_feat(f)) + ' ' + ' '.join(wire.enc_feat(g)), out_bool(r), (str(f), str(g))))
            ctx.evaluations += 1
        for s in ftexts + [feat_text(f) or '']:
            r = call(lambda: f == s)
            o = out_bool(r)
            cases.append(('feqstr', 'feqstr ' + ' '.join(wire.enc_feat(f)) + ' ' + enc_str(s),
                          o if o.startswith('err') else 'ok ' + o, (str(f), s)))
            ctx.evaluations += 1

    # ---- erasure -------------------------------------------------------------------------
    names_pool = ['X', 'nb', 'dcl', 'b', 'mod=nm,form=base,fin=f', 'mod=X1,form=X2,fin=X3', 'case=ga,mod=nm,fin=f', '']
    subsets = [()] + [(n,) for n in names_pool] + [tuple(rng.sample(names_pool, k)) for k in (2, 2, 3, 3, 4) for _ in range(3)]
    cpool = rng.sample(uni_en, min(len(uni_en), ctx.budget(400, 1400))) + rng.sample(uni_ja, min(len(uni_ja), ctx.budget(300, 1400))) \
        + rng.sample(shipped, min(len(shipped), ctx.budget(300, 3000))) \
        + [gen_cat.random_cat(rng, en_atoms + ja_atoms, 3) for _ in range(ctx.budget(200, 3000))]
    for c in cpool:
        for F in (subsets if ctx.thorough else rng.sample(subsets, 6)):
            before = sig(c)
            r = call(lambda: c.clear_features(*F))
            cases.append(('clear', f'clear {len(F)} ' + ' '.join(enc_str(n) for n in F) + (' ' if F else '') + enc_cat(c),
                          out_cat(r), (str(c), list(F))))
            ctx.evaluations += 1
            if sig(c) != before:
                ctx.fail('clear_features changed its receiver', [str(c), list(F)], fingerprint=['clear-mut', str(c), list(F)])
            if isinstance(r, wire_err):
                ctx.fail(f'clear_features raised {r.name}', [str(c), list(F)], fingerprint=['clear-raise', str(c), list(F)])
                continue
            want = erase(c, set(F))
            if sig(r) != want:
                ctx.fail('clear_features did not remove exactly the named features', [str(c), list(F), str(r)],
                         fingerprint=['clear', str(c), list(F)])
            if want != before:
                ctx.nontrivial_add(('clear', enc_cat(c), F))
            r2 = call(lambda: r.clear_features(*F))
            if isinstance(r2, wire_err) or sig(r2) != sig(r):
                ctx.fail('clear_features is not idempotent', [str(c), list(F)], fingerprint=['clear-idem', str(c), list(F)])
    # the same on categories that do not outlive the call (a parser builds and drops them all the time): every
    # category is parsed afresh from its text, erased, compared and released
    texts = [str(c) for c in cpool if '[' in str(c)][:ctx.budget(400, 2000)]
    few = [('X', 'nb'), ('nb',), ('X',), ('dcl', 'b')]
    n_short = 0
    for rnd in range(ctx.budget(6, 20)):
        for t in texts:
            F = few[(rnd + len(t)) % len(few)]
            try:
                c = Category.parse(t)
            except Exception:
                continue
            want = erase(c, set(F))
            r = call(lambda: c.clear_features(*F))
            ctx.evaluations += 1
            n_short += 1
            if isinstance(r, wire_err) or sig(r) != want:
                ctx.fail('clear_features did not remove exactly the named features (category built, erased and released)',
                         [t, list(F), str(r)], fingerprint=['clear-short-lived', t, list(F)])
                break
            del c, r
    ctx.extra['short_lived_erasures'] = n_short
    # malformed feature names: the model and the implementation must agree on the error
    for c in cpool[:200]:
        for F in (('a=b,c',), ('X', 'a=b,c=d'), ('a=b=c,d=e,f=g',)):
            r = call(lambda: c.clear_features(*F))
            cases.append(('clear', f'clear {len(F)} ' + ' '.join(enc_str(n) for n in F) + ' ' + enc_cat(c),
                          out_cat(r), (str(c), list(F))))
            ctx.evaluations += 1

    ctx.sample({'op': 'eq', 'a': str(pairs[0][0]), 'b': str(pairs[0][1])})
    ctx.sample({'op': 'eqstr', 'cat': str(pool[0]), 'text': canonical(pool[0])})
    ctx.sample({'op': 'clear', 'cat': str(cpool[0]), 'names': list(subsets[3])})
    ctx.sample({'obligation': 'Depccg.C13.pyEq_iff : Cat.pyEq a b = true ↔ a = b'})
    ctx.extra['skipped_unsupported'] = common.compare_with_model(ctx, cases)
    common.conclude(ctx)


def replay(ctx, path):
    import json
    rec = json.load(open(path))
    print(json.dumps(rec, indent=1)[:3000])
    run(ctx)
