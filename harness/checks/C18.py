"""C18 Printing is an observation: it changes nothing and is repeatable.

model    : every renderer is a function of the tree (lean/Depccg/Print/*.lean) - purity is what being a
           Lean function means; theorems in lean/Depccg/Props/C18.lean state it for sequences
oracle   : deep snapshots of every reachable Tree / Token / category before and after each real
           rendering; sequences of formats on the same objects vs fresh deep copies
"""
import itertools

import common
import render_common as R
import tree_common as T

PID = 'C18'


def run(ctx):
    rng = ctx.rng
    ctx.lean = common.check_lean(PID, ctx.thorough)
    ctx.rule = ('parse results (1..3 sentences x 1..3 trees, grammar-licensed and arbitrary trees, English and Japanese, '
                'tokens with / without attributes) rendered by the real to_string in every executable format offered for '
                'the language: all ordered pairs of formats (quick) and random sequences of length <= 6 (thorough) on the '
                'same objects, compared with rendering fresh deep copies; deep snapshot before/after every call. '
                'non-trivial = distinct (batch, format sequence) pairs')
    refused_rendering_scenario(ctx, ctx.budget(9, 90))
    nb = ctx.budget(60, 500)
    for i in range(nb):
        lang = 'ja' if i % 3 == 2 else 'en'
        fmts = R.offered(lang)
        batch = R.make_batch(rng, lang, awkward=0.1, with_failed=0.15, bare=0.5, reader_like=0.4)
        pristine = R.clone_batch(batch)
        # reference output of every format on a fresh copy each
        ref = {}
        for f in fmts:
            try:
                ref[f] = R.render(R.clone_batch(pristine), f, lang)
            except Exception as e:
                ref[f] = ('raised', type(e).__name__)
        if ctx.thorough:
            seqs = [[rng.choice(fmts) for _ in range(rng.randint(2, 6))] for _ in range(12)]
            seqs += [list(p) for p in itertools.product(fmts, repeat=2)]
        else:
            pairs = [list(p) for p in itertools.product(fmts, repeat=2)]
            # every ordered pair of formats on every second batch, a sample on the others
            seqs = (pairs if i % 2 == 0 else rng.sample(pairs, min(len(pairs), 25))) + [[f, f, f] for f in fmts[:3]]
        for seq in seqs:
            work = R.clone_batch(pristine)
            desc = {'lang': lang, 'sequence': seq, 'batch': [[T.enc_tree(st.tree)[:800] for st in sent] for sent in work]}
            state0 = R.batch_state(work)
            for k, f in enumerate(seq):
                ctx.evaluations += 1
                try:
                    out = R.render(work, f, lang)
                except Exception as e:
                    out = ('raised', type(e).__name__)
                if R.batch_state(work) != state0:
                    ctx.fail(f'rendering in format {f} changed the trees / tokens it was given', dict(desc, step=k),
                             fingerprint=['mutates', f])
                    break
                if out != ref[f]:
                    what = out if isinstance(out, tuple) else 'different output'
                    ctx.fail(f'rendering in format {f} after {seq[:k]} gives {what}, a fresh copy gives '
                             f'{ref[f] if isinstance(ref[f], tuple) else "the reference output"}', dict(desc, step=k),
                             fingerprint=['sequence', f, str(seq[:k][-1:] )])
                    break
            else:
                ctx.nontrivial_add((i, tuple(seq)))
    ctx.sample({'formats_en': R.offered('en'), 'formats_ja': R.offered('ja')})
    ctx.traces = ctx.evaluations
    import cli_common
    cli_common.cli_suite(ctx, ctx.budget(12, 120), formats=['auto_extended', 'conll', 'json', 'xml', 'jigg_xml'])      # the same through the command line itself
    common.conclude(ctx)


def refused_rendering_scenario(ctx, count):
    """a document rendered sentence by sentence, in every format, over several passes, where one sentence cannot be
    rendered in some formats (a form feed in a word: lxml refuses it; a token without `word`: most formats raise
    KeyError). The refused rendering is an observation too: the other sentences, rendered again afterwards, must
    give what a fresh copy gave before anything was refused"""
    rng = ctx.rng
    for i in range(count):
        lang = 'ja' if i % 3 == 2 else 'en'
        fmts = R.offered(lang)
        while True:
            doc = R.make_batch(rng, lang, n_sent=3, licensed_only=True, awkward=0.0)
            vi = rng.randrange(len(doc))
            if all(len(st.tree.leaves) >= 2 for st in doc[vi]):      # the refusal happens part-way through a tree
                break
        for st in doc[vi]:
            leaf = st.tree.leaves[0]
            if i % 2 == 0:
                leaf.token['word'] = 'a\x0cb'
            else:
                leaf.token.pop('word', None)
        pristine = R.clone_batch(doc)
        desc = {'lang': lang, 'spoiled_sentence': vi, 'kind': 'form feed' if i % 2 == 0 else 'no word',
                'batch': [[T.enc_tree(st.tree)[:800] for st in sent] for sent in pristine]}
        ref = {}
        for si in range(len(doc)):
            if si == vi:
                continue
            for f in fmts:
                try:
                    ref[(si, f)] = R.render(R.clone_batch([pristine[si]]), f, lang)
                except Exception as e:
                    ref[(si, f)] = ('raised', type(e).__name__)
        state0 = R.batch_state(doc)
        bad = None
        refused = 0
        for rnd in range(3):
            order = list(range(len(doc)))
            if rnd == 2:
                order.reverse()
            for si in order:
                for f in fmts:
                    ctx.evaluations += 1
                    try:
                        out = R.render([doc[si]], f, lang)
                    except Exception as e:
                        out = ('raised', type(e).__name__)
                        refused += (si == vi)
                    if si != vi and out != ref[(si, f)] and bad is None:
                        bad = (f'sentence {si + 1} rendered in format {f} (pass {rnd + 1}, after a sentence some formats refuse) gives '
                               f'{out if isinstance(out, tuple) else "a different output"}; a fresh copy gave '
                               f'{ref[(si, f)] if isinstance(ref[(si, f)], tuple) else "the reference output"}')
                        step = [rnd, si, f]
        if R.batch_state(doc) != state0 and bad is None:
            bad, step = 'rendering sentence by sentence changed the trees / tokens it was given', []
        if bad:
            ctx.fail(bad, dict(desc, step=step), fingerprint=['after-refusal', lang, step[-1] if step else ''])
        elif refused:
            ctx.nontrivial_add(('refused', i, lang, vi))
        ctx.extra['renderings_refused_in_sequences'] = ctx.extra.get('renderings_refused_in_sequences', 0) + refused


def replay(ctx, path):
    import json
    print(json.dumps(json.load(open(path)), indent=1)[:4000])
    run(ctx)
