"""C01 A* search returns the highest-scoring derivation; agenda priorities never increase.

model op : search   (lean/Depccg/Search.lean; pop trace, status, results compared exactly when tie-free)
theorems : lean/Depccg/Props/C01.lean
oracle   : exhaustive enumeration of all derivations (independent CKY with unary closure)
"""
import common
import search_checks

PID = 'C01'


def run(ctx):
    ctx.lean = common.check_lean(PID, ctx.thorough)
    ctx.rule = ('random search problems: 1..5 (thorough: ..6) tokens, 1..4 lexical categories + derived ones, integer-scaled '
                'exact log-probability scores incl. rows flattened to a huge negative value, random head-uniform grammars '
                '(binary tables of several densities, acyclic unary tables), root sets, unary penalty in {0, small, 1}, '
                'pruning and beta on/off; the real C++ parse_sentence is run through the shim with the pop hook. '
                'non-trivial = distinct problems that have at least one root derivation')
    n = ctx.budget(1500, 15000)
    mx = 6 if ctx.thorough else 5
    search_checks.suite(ctx, PID, {'optimal', 'monotone'},
                        [dict(max_n=mx), dict(max_n=mx, beam=True), dict(max_n=mx, multi=True), dict(max_n=4, mixed_heads=True)],
                        n, max_n_enum=mx)
    # the real English / Japanese rule functions and unary tables, through the real depccg.parsing.run
    import glue_checks
    glue_checks.real_grammar_suite(ctx, {'optimal', 'valid', 'score', 'labels'}, ctx.budget(150, 1500))
    common.conclude(ctx)


def replay(ctx, path):
    import json
    print(json.dumps(json.load(open(path)), indent=1)[:4000])
    run(ctx)
