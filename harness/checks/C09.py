"""C09 Reported score is the model score of the returned tree.

search level: the real C++ parse_sentence through the shim vs lean/Depccg/Search.lean (op `search`),
oracles from harness/search_common.py.  Further levels are added by `extra(ctx)` below.
"""
import common
import search_checks

PID = 'C09'
ORACLES = {'score'}
GENS = [dict(max_n=5), dict(max_n=4, multi=True, nbest_max=4), dict(max_n=5, mixed_heads=True, multi=True, nbest_max=3), dict(max_n=4, beam=True)]


def extra(ctx):
    import glue_checks
    glue_checks.single_suite(ctx, {'score'}, [dict(max_n=5), dict(max_n=4, multi=True, nbest_max=3), dict(max_n=4, mixed_heads=True, multi=True)], ctx.budget(600, 6000))
    glue_checks.real_grammar_suite(ctx, {'score'}, ctx.budget(100, 1000))
    glue_checks.lazy_suite(ctx, ctx.budget(60, 600))      # incl. the Lean `treeScore` of every real tree (theorem tree_score)


def run(ctx):
    ctx.lean = common.check_lean(PID, ctx.thorough)
    ctx.rule = ('random search problems (1..5 tokens, lexical + derived category ids, integer-scaled exact scores, '
                'random binary/unary rule tables, root sets, penalties, beam settings, n-best sizes) run through the real '
                'C++ parse_sentence (shim + pop hook) and through the Lean model; oracles: ' + ', '.join(sorted(ORACLES))
                + '. non-trivial = distinct problems with at least one root derivation / returned tree')
    search_checks.suite(ctx, PID, ORACLES, GENS, ctx.budget(1200, 12000), max_n_enum=5)
    search_checks.long_sentence_suite(ctx, [257] if not ctx.thorough else [257, 270, 300, 301])
    extra(ctx)
    import cli_common
    cli_common.cli_suite(ctx, ctx.budget(20, 200))      # the same through the command line itself
    common.conclude(ctx)


def replay(ctx, path):
    import json
    print(json.dumps(json.load(open(path)), indent=1)[:4000])
    run(ctx)
