"""C10 n-best results are the k best distinct derivations, best first.

search level: the real C++ parse_sentence through the shim vs lean/Depccg/Search.lean (op `search`),
oracles from harness/search_common.py.  Further levels are added by `extra(ctx)` below.
"""
import common
import search_checks

PID = 'C10'
ORACLES = {'nbest', 'valid', 'score'}
GENS = [dict(max_n=4, nbest_max=6), dict(max_n=4, multi=True, nbest_max=8), dict(max_n=3, multi=True, nbest_max=40)]


def extra(ctx):
    import glue_checks
    glue_checks.real_grammar_suite(ctx, {'valid', 'score'}, ctx.budget(100, 1000), nbest=True)
    search_checks.float_order_suite(ctx, ctx.budget(1500, 15000))
    glue_checks.lazy_suite(ctx, ctx.budget(40, 400), batch=True)      # n-best inside calls with failing / over-long sentences


def run(ctx):
    ctx.lean = common.check_lean(PID, ctx.thorough)
    ctx.rule = ('random search problems (1..5 tokens, lexical + derived category ids, integer-scaled exact scores, '
                'random binary/unary rule tables, root sets, penalties, beam settings, n-best sizes) run through the real '
                'C++ parse_sentence (shim + pop hook) and through the Lean model; oracles: ' + ', '.join(sorted(ORACLES))
                + '. non-trivial = distinct problems with at least one root derivation / returned tree')
    # the first parse of the process asks for one tree (the default): whatever the search keeps between calls from
    # then on must not limit the n-best requests that follow
    import search_common as S
    if search_checks.setup(ctx):
        try:
            S.run_cpp(S.random_problem(ctx.rng, max_n=2, nbest_max=1))
        except Exception:
            pass
    search_checks.suite(ctx, PID, ORACLES, GENS, ctx.budget(1200, 12000), max_n_enum=5)
    extra(ctx)
    import cli_common
    cli_common.cli_suite(ctx, ctx.budget(30, 300), focus='nbest')      # the same through the command line itself
    common.conclude(ctx)


def replay(ctx, path):
    import json
    print(json.dumps(json.load(open(path)), indent=1)[:4000])
    run(ctx)
