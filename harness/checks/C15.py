"""C15 XML formats round-trip and give ccg2lambda a complete derivation.

model ops: xml jigg read_xml read_jigg build_tree normalize    (lean/Depccg/Print/Xml.lean, Read/Xml.lean)
theorems : lean/Depccg/Props/C15.lean
oracle   : lxml XPath checks of the real output, real read_xml / read_jigg_xml / build_ccg_tree /
           normalize_tokens
"""
import os
import re
import tempfile

from lxml import etree

from depccg.tree import Tree, ScoredTree
from depccg.types import Token
from depccg.printer.xml import xml_of
from depccg.printer.jigg_xml import to_jigg_xml
from depccg.tools.reader import read_xml, read_jigg_xml
from depccg.semantics.ccg2lambda.ccg2lambda_tools import build_ccg_tree, normalize_tokens
from depccg.semantics.ccg2lambda.normalization import normalize_token
from depccg.grammar import en, ja
from depccg import lang as dlang
import common
import gen_cat
import tree_common as T
import xml_common as X
import wire
from wire import enc_str

PID = 'C15'
XML_AWKWARD = ['(', ')', '[', ']', '<', '>', '&', '"', "'", '/', '\\', 'a<b', 'R&D', '&amp;', '<b>', 'naïve', '彼', 'it\'s', ',', '.',
               '-', '--', '!', 'x-y', 'Ph.D.', '2,000', 'a(b)', '-LRB-', '&', 'a-b-c', '!!', '...', 'U.S.', 'co-op', '_x', 'Mr.']


def xml_token(rng, lang):
    w = rng.choice(XML_AWKWARD) if rng.random() < 0.5 else rng.choice(T.PLAIN if lang == 'en' else T.JA_WORDS)
    if lang == 'ja':
        d = {'word': w}
        for k, pool in (('pos', ['名詞', '動詞']), ('pos1', ['一般', '*']), ('lemma', [w, '*']), ('inflectionForm', ['基本形'])):
            if rng.random() < 0.7:
                d[k] = rng.choice(pool)
        return Token(**d)
    # an attribute may be the empty string (`Token.of_piped('dogs||NNS|O')`): XML represents it as is
    return Token(word=w, lemma=rng.choice([w, w.lower(), 'XX', '']), pos=rng.choice(['NN', ',', '-LRB-', 'XX']),
                 entity=rng.choice(['O', 'I-ORG', 'XX', 'XX', '']), chunk=rng.choice(['I-NP', 'XX', 'XX', '']))


def gen_nbest(rng, lang, cats):
    """one sentence with 1..3 trees over the same tokens (n-best lists share the tokens)"""
    kw = dict(awkward=0.0)
    if rng.random() < 0.6:
        t = T.licensed_tree(rng, lang, rng.randint(0, 4), kw)
    else:
        t = T.arbitrary_tree(rng, lang, rng.randint(1, 5), cats, T.EN_LABELS if lang == 'en' else T.JA_LABELS, kw)
    toks = [xml_token(rng, lang) for _ in t.tokens]

    def retoken(node, it):
        if node.is_leaf:
            return Tree(node.cat, [next(it)], node.op_string, node.op_symbol)
        return Tree(node.cat, [retoken(c, it) for c in node.children], node.op_string, node.op_symbol, node.head_is_left)
    first = retoken(t, iter(toks))
    trees = [first]
    for _ in range(rng.randint(0, 2)):
        # another bracketing over the same tokens
        alt = T.arbitrary_tree(rng, lang, len(toks), cats, T.EN_LABELS if lang == 'en' else T.JA_LABELS, kw)
        trees.append(retoken(alt, iter(toks)))
    return [ScoredTree(tr, -float(i) - 0.5) for i, tr in enumerate(trees)]


def same_children_batch(rng, lang):
    """one file in which the same pair of child categories occurs under different parents: every
    result the grammar has for the pair, and a parent it does not derive"""
    mod = en if lang == 'en' else ja
    pairs = T.lexicon(lang)
    for _ in range(50):
        x, y = rng.choice(pairs)
        rs = mod.apply_binary_rules(x, y)
        if rs:
            break
    else:
        return None
    parents = []
    for r in rs:
        if r.cat not in parents:
            parents.append(r.cat)
    other = rng.choice(rng.choice(pairs))
    if other not in parents:
        parents.append(other)
    rng.shuffle(parents)
    sents = []
    for p in parents:
        l = Tree.make_terminal(xml_token(rng, lang), x)
        r = Tree.make_terminal(xml_token(rng, lang), y)
        sents.append([ScoredTree(Tree.make_binary(p, l, r, 'fa', '>', True), -0.5)])
    return sents


def run(ctx):
    rng = ctx.rng
    ctx.lean = common.check_lean(PID, ctx.thorough)
    ctx.rule = ('batches of 1..3 sentences x 1..3 trees (n-best lists over shared tokens), grammar-licensed and arbitrary '
                'trees, English for C&C XML and both languages for Jigg XML, tokens over XML-representable text incl. '
                '< > & quotes brackets non-ASCII and logic punctuation. The real xml_of / to_jigg_xml output is serialised, '
                're-read with read_xml / read_jigg_xml, checked with XPath, passed to build_ccg_tree and normalize_tokens. '
                'non-trivial = distinct trees with >= 2 leaves that were round-tripped')
    cats = {'en': gen_cat.tree_cats('en'), 'ja': gen_cat.tree_cats('ja')}
    cases = []
    tmpdir = tempfile.mkdtemp(prefix='verif_c15_')
    try:
        for it in range(ctx.budget(500, 5000)):
            lang = 'ja' if it % 3 == 2 else 'en'
            mod = en if lang == 'en' else ja
            batch = [gen_nbest(rng, lang, cats[lang]) for _ in range(rng.randint(1, 3))]
            if it % 8 == 5:
                batch = same_children_batch(rng, lang) or batch
            desc = {'lang': lang, 'batch': [[T.enc_tree(st.tree)[:1500] for st in sent] for sent in batch]}
            ctx.evaluations += 1
            # ---------------- C&C XML (English) ----------------------------------------------------------
            if lang == 'en':
                work = [[ScoredTree(T.clone(st.tree), st.score) for st in sent] for sent in batch]
                try:
                    if it % 5 in (1, 3):
                        # the same result objects were printed as Jigg XML before (a user asking for both)
                        to_jigg_xml(work, use_symbol=False)
                    root = xml_of(work)
                    text = etree.tostring(root, encoding='utf-8', pretty_print=True).decode('utf-8')
                except Exception as e:
                    ctx.fail(f'xml_of raised {type(e).__name__}: {e}', desc, fingerprint=['xml-raise'])
                    continue
                cases.append(('xml', 'xml ' + X.enc_batch(batch), 'ok ' + X.canon(root), desc))
                if not (it % 5 in (1, 3)):
                    # the file as written, character by character (Print/XmlText.lean)
                    cases.append(('xml_text', 'xml_text ' + X.enc_batch(batch), 'ok ' + enc_str(text), desc))
                path = os.path.join(tmpdir, 'a.xml')
                with open(path, 'w', encoding='utf-8') as f:
                    f.write(text)
                try:
                    back = list(read_xml(path))
                    got = 'ok ' + ' || '.join(T.enc_read(r.tree, r.tokens)[3:] for r in back)
                except Exception as e:
                    back = None
                    got = 'err ' + wire.err_name(e)
                cases.append(('read_xml', 'read_xml en ' + X.enc_batch(batch), got, desc))
                # the same file through the XML reader written in Lean (Read/XmlText.lean) instead of lxml's parser
                cases.append(('read_xml_text', 'read_xml_text en ' + enc_str(text), got, desc))
                flat = [st.tree for sent in batch for st in sent]
                if back is None or len(back) != len(flat):
                    ctx.fail(f'C&C XML written by depccg cannot be read back ({got[:80]})', desc, fingerprint=['xml-read'])
                else:
                    for orig, r in zip(flat, back):
                        why = X.compare_xml_roundtrip(orig, r.tree, mod)
                        if why:
                            ctx.fail('C&C XML round trip: ' + why, desc, fingerprint=['xml-roundtrip', why.split(':')[0]])
                            break
                        if len(orig.tokens) >= 2:
                            ctx.nontrivial_add(T.enc_tree(orig)[:400])
            # ---------------- Jigg XML -----------------------------------------------------------------------
            work = [[ScoredTree(T.clone(st.tree), st.score) for st in sent] for sent in batch]
            try:
                root = to_jigg_xml(work, use_symbol=(lang == 'ja'))
                text = etree.tostring(root, encoding='utf-8', pretty_print=True).decode('utf-8')
            except Exception as e:
                ctx.fail(f'to_jigg_xml raised {type(e).__name__}: {e}', desc, fingerprint=['jigg-raise'])
                continue
            cases.append(('jigg', f'jigg {1 if lang == "ja" else 0} ' + X.enc_batch(batch), 'ok ' + X.canon(root), desc))
            if all(st.score * 64 == int(st.score * 64) for sent in batch for st in sent):
                enc_k = f'{len(batch)} ' + ' '.join(f'{len(sent)} ' + ' '.join(str(int(st.score * 64)) + ' ' + T.enc_tree(st.tree) for st in sent)
                                                  for sent in batch)
                cases.append(('jigg_text', f'jigg_text {1 if lang == "ja" else 0} {enc_k}', 'ok ' + enc_str(text), desc))
            why = X.jigg_wellformed(root, batch, lang)
            if why:
                ctx.fail('Jigg XML is not self-contained: ' + why, desc, fingerprint=['jigg-wf', why.split(':')[0]])
                continue
            # ccg2lambda's tree builder and token normaliser
            for si, sent_node in enumerate(root.xpath('.//sentence')):
                for ti, ccg in enumerate(sent_node.xpath('./ccg')):
                    try:
                        built = build_ccg_tree(ccg)
                    except Exception as e:
                        ctx.fail(f'build_ccg_tree raised {type(e).__name__}: {e}', desc, fingerprint=['build-raise'])
                        continue
                    why = X.compare_built(built, batch[si][ti].tree, lang)
                    if why:
                        ctx.fail('ccg2lambda tree builder: ' + why, desc, fingerprint=['build', why.split(':')[0]])
                toks = sent_node.find('.//tokens')
                import copy
                norm = normalize_tokens(copy.deepcopy(toks))
                for tk, tk0 in zip(norm, toks):
                    for key in ('surf', 'base'):
                        v = tk.get(key)
                        if v is not None and not X.normalized_ok(v, tk0.get(key)):
                            ctx.fail(f'token name {v!r} is not a normalised identifier free of logic punctuation', desc,
                                     fingerprint=['normalize', key])
            if lang == 'ja':
                path = os.path.join(tmpdir, 'a.jigg.xml')
                with open(path, 'w', encoding='utf-8') as f:
                    f.write(text)
                dlang.set_global_language_to('ja')
                try:
                    back = list(read_jigg_xml(path))
                    got = 'ok ' + ' || '.join(T.enc_read(r.tree, r.tokens)[3:] for r in back)
                except Exception as e:
                    back = None
                    got = 'err ' + wire.err_name(e)
                finally:
                    dlang.set_global_language_to('en')
                cases.append(('read_jigg', 'read_jigg ja ' + X.enc_batch(batch), got, desc))
                cases.append(('read_jigg_text', 'read_jigg_text ja ' + enc_str(text), got, desc))
                flat = [st.tree for sent in batch for st in sent]
                if back is None or len(back) != len(flat):
                    ctx.fail(f'Jigg XML of a Japanese derivation cannot be read back ({got[:80]})', desc, fingerprint=['jigg-read'])
                else:
                    for orig, r in zip(flat, back):
                        if X.shape_words(orig) != X.shape_words(r.tree):
                            ctx.fail('Jigg XML round trip (ja): categories / shape / words differ', desc, fingerprint=['jigg-roundtrip'])
                            break
                        if len(orig.tokens) >= 2:
                            ctx.nontrivial_add(T.enc_tree(orig)[:400])
        # normalize_token on a pool of awkward strings, model vs implementation
        for w in XML_AWKWARD + T.AWKWARD + ['', '_', '_a', '-', '&', 'a-', '(.)', 'a.b,c', '!-!']:
            try:
                out = 'ok ' + enc_str(normalize_token(w))
            except Exception as e:
                out = 'err ' + wire.err_name(e)
            cases.append(('normalize', 'normalize ' + enc_str(w), out, w))
            if out.startswith('ok') and not X.normalized_ok(normalize_token(w), w):
                ctx.fail(f'normalize_token({w!r}) = {normalize_token(w)!r} is not free of logic punctuation', w,
                         fingerprint=['normalize-token', w])
    finally:
        for fn in os.listdir(tmpdir):
            os.remove(os.path.join(tmpdir, fn))
        os.rmdir(tmpdir)
    ctx.sample({'formats': ['xml', 'jigg_xml'], 'batch_shape': 'sentences 1..3 x trees 1..3'})
    ctx.extra['skipped_unsupported'] = common.compare_with_model(ctx, [c for c in cases if X.MODEL_OPS.get(c[0], False)])
    common.conclude(ctx)


def replay(ctx, path):
    import json
    print(json.dumps(json.load(open(path)), indent=1)[:4000])
    run(ctx)
