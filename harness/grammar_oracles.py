"""Independent oracles for C03/C04/C06, written from the property statements.

Everything works on `sig` tuples from oracles.py:
  ('A', base, ('U', value) | ('T', kv1, kv2, kv3))   |   ('F', left, slash, right)
"""
from oracles import sig, blind, canonical
from depccg.cat import Category

# ---- features ------------------------------------------------------------------------------


def f_is_var(f):
    if f[0] == 'U':
        return f[1] == 'X'
    return any(kv[1].startswith('X') for kv in f[1:])


def f_compat(f, g):
    """compatible: equal, or one side is absent, 'nb' or a variable (for triples: same keys and
    value-wise equal-or-variable, in one direction)"""
    if f == g:
        return True
    if f[0] == 'U' and f[1] in (None, 'nb', 'X'):
        return True
    if g[0] == 'U' and g[1] in (None, 'nb', 'X'):
        return True
    if f[0] == 'T' and g[0] == 'T':
        if [kv[0] for kv in f[1:]] != [kv[0] for kv in g[1:]]:
            return False
        one = all(a[1] == b[1] or a[1].startswith('X') for a, b in zip(f[1:], g[1:]))
        two = all(a[1] == b[1] or b[1].startswith('X') for a, b in zip(f[1:], g[1:]))
        return one or two
    return False


def s_blind(s):
    if s[0] == 'F':
        return ('F', s_blind(s[1]), s[2], s_blind(s[3]))
    return ('A', s[1])


def s_atoms(s):
    if s[0] == 'F':
        return s_atoms(s[1]) + s_atoms(s[3])
    return [s]


def s_feats(s):
    return [a[2] for a in s_atoms(s)]


def s_str(s):
    if s[0] == 'F':
        def w(x):
            t = s_str(x)
            return '(' + t + ')' if x[0] == 'F' else t
        return w(s[1]) + s[2] + w(s[3])
    f = s[2]
    if f[0] == 'U':
        fs = f[1] or ''
    else:
        fs = ','.join(k + '=' + v for k, v in f[1:])
    return s[1] + ('[' + fs + ']' if fs else '')


def mixed_systems(*sigs):
    kinds = set()
    for s in sigs:
        for f in s_feats(s):
            if f[0] == 'T':
                kinds.add('T')
            elif f[1] is not None:
                kinds.add('U')
            else:
                kinds.add('N')
    return 'T' in kinds and ('U' in kinds or 'N' in kinds)


# ---- declarative matcher (C06) ---------------------------------------------------------------

def shape_match(p, t, out):
    """p: pattern sig (atoms are variables); collects var -> matched sub-sig (last wins);
    returns False when the shape does not fit"""
    if p[0] == 'A':
        out.append((p[1], t))
        return True
    if t[0] != 'F':
        return False
    if not (p[2] == t[2] or p[2] == '|' or t[2] == '|'):
        return False
    return shape_match(p[1], t[1], out) and shape_match(p[3], t[3], out)


def declarative_unify(px, py, x, y):
    """-> (success, last-matched dict) by the four conditions of the property (linear patterns)"""
    mx, my = [], []
    if not shape_match(px, x, mx):
        return False, None, 'shape-x'
    if not shape_match(py, y, my):
        return False, None, 'shape-y'
    dx, dy = dict(mx), dict(my)
    for v in dx:
        if v in dy:
            if s_blind(dx[v]) != s_blind(dy[v]):
                return False, None, 'shared-differs'
    for v in dx:
        if v in dy:
            for a, b in zip(s_atoms(dx[v]), s_atoms(dy[v])):
                if not f_compat(a[2], b[2]):
                    return False, None, 'features'
    last = dict(dx)
    last.update(dy)
    return True, last, 'ok'


def binding_ok(bound, matched, input_feats):
    """bound: sig of uni[v]; matched: sig of the matched sub-category: identical up to
    features, and each feature is the original or (original is a variable and the new one
    occurs in the inputs)"""
    if s_blind(bound) != s_blind(matched):
        return False
    for a, b in zip(s_atoms(bound), s_atoms(matched)):
        if a[2] != b[2] and not (f_is_var(b[2]) and a[2] in input_feats):
            return False
    return True


# ---- schema checkers (C03 / C04) ---------------------------------------------------------------

def is_modifier(s):
    return s[0] == 'F' and s[1] == s[3]


def instance_of(result, target, input_feats):
    """result is `target` with at most its variable features replaced by features of the inputs"""
    return binding_ok(result, target, input_feats)


def compat_parts(b1, b2):
    if s_blind(b1) != s_blind(b2):
        return False
    return all(f_compat(p[2], q[2]) for p, q in zip(s_atoms(b1), s_atoms(b2)))


FWD = ('/', '|')
BWD = ('\\', '|')


def en_is_punct(s):
    if s[0] == 'F':
        return False
    b = s[1]
    return (not (b[0].isascii() and b[0].isalpha())) or b in ('LRB', 'RRB', 'LQU', 'RQU')


def en_is_type_raised(s):
    return s[0] == 'F' and s[3][0] == 'F' and s[3][1] == s[1]


def bare_n_np(s):
    return s[0] == 'A' and s[1] in ('N', 'NP') and s_str(s) in ('N', 'NP')


SNP = ('F', ('A', 'S', ('U', None)), '\\', ('A', 'NP', ('U', None)))


def en_justified(label, symbol, r, x, y):
    """x, y: sigs of the inputs with 'nb' erased; r: sig of the result; -> None or reason"""
    feats = set(s_feats(x) + s_feats(y))
    if label == 'fa':
        if symbol != '>':
            return 'symbol'
        if x[0] != 'F' or x[2] not in FWD:
            return 'functor is not forward'
        if not compat_parts(x[3], y):
            return 'argument does not match'
        if is_modifier(x):
            return None if r == y else 'modifier must return the other category unchanged'
        return None if instance_of(r, x[1], feats) else 'result is not the functor result'
    if label == 'ba':
        if symbol != '<':
            return 'symbol'
        if s_str(x) == 'S[dcl]' and s_str(y) == 'S[em]\\S[em]':
            if r == x:
                return None
        if y[0] != 'F' or y[2] not in BWD:
            return 'functor is not backward'
        if not compat_parts(y[3], x):
            return 'argument does not match'
        if is_modifier(y):
            return None if r == x else 'modifier must return the other category unchanged'
        return None if instance_of(r, y[1], feats) else 'result is not the functor result'
    if label == 'fc':
        if symbol != '>B':
            return 'symbol'
        if x[0] != 'F' or y[0] != 'F' or x[2] not in FWD or y[2] not in FWD:
            return 'shape'
        if not compat_parts(x[3], y[1]):
            return 'middle does not match'
        if is_modifier(x):
            return None if r == y else 'modifier must return the other category unchanged'
        if r[0] != 'F' or r[2] != '/':
            return 'result shape'
        return None if instance_of(r[1], x[1], feats) and instance_of(r[3], y[3], feats) else 'result parts'
    if label == 'bx':
        if symbol != '<B':
            return 'symbol'
        if x[0] != 'F' or y[0] != 'F' or x[2] not in FWD or y[2] not in BWD:
            return 'shape'
        if not compat_parts(x[1], y[3]):
            return 'middle does not match'
        if bare_n_np(y[3]) and bare_n_np(x[1]):
            return 'backward crossed composition over a bare N or NP'
        if is_modifier(y):
            return None if r == x else 'modifier must return the other category unchanged'
        if r[0] != 'F' or r[2] != '/':
            return 'result shape'
        return None if instance_of(r[1], y[1], feats) and instance_of(r[3], x[3], feats) else 'result parts'
    if label == 'gfc':
        if symbol != '>B':
            return 'symbol'
        if x[0] != 'F' or x[2] not in FWD or y[0] != 'F' or y[1][0] != 'F' or y[1][2] not in FWD:
            return 'shape'
        if not compat_parts(x[3], y[1][1]):
            return 'middle does not match'
        if is_modifier(x):
            return None if r == y else 'modifier must return the other category unchanged'
        if r[0] != 'F' or r[2] != y[2] or r[1][0] != 'F' or r[1][2] != '/':
            return 'result shape (outer slash and argument of the secondary functor must be kept)'
        ok = (instance_of(r[1][1], x[1], feats) and instance_of(r[1][3], y[1][3], feats)
              and instance_of(r[3], y[3], feats))
        return None if ok else 'result parts'
    if label == 'gbx':
        if symbol != '<B':
            return 'symbol'
        if y[0] != 'F' or y[2] not in FWD or x[0] != 'F' or x[1][0] != 'F' or x[1][2] not in FWD:
            return 'shape'
        if not compat_parts(x[1][1], y[3]):
            return 'middle does not match'
        if bare_n_np(y[3]) and bare_n_np(x[1][1]):
            return 'backward crossed composition over a bare N or NP'
        if is_modifier(y):
            return None if r == x else 'modifier must return the other category unchanged'
        if r[0] != 'F' or r[2] != x[2] or r[1][0] != 'F' or r[1][2] != '/':
            return 'result shape (outer slash and argument of the secondary functor must be kept)'
        ok = (instance_of(r[1][1], y[1], feats) and instance_of(r[1][3], x[1][3], feats)
              and instance_of(r[3], x[3], feats))
        return None if ok else 'result parts'
    if label == 'conj':
        if symbol != '<Φ>':
            return 'symbol'
        if s_str(x) == 'conj' and s_str(y) == 'NP\\NP' and r == y:
            return None
        if s_str(x) not in (',', ';', 'conj'):
            return 'left is not a conjunction'
        if en_is_punct(y) or en_is_type_raised(y):
            return 'right conjunct is punctuation or type-raised'
        return None if r == ('F', y, '\\', y) else 'result is not Y\\Y'
    if label == 'lp':
        if symbol == '<lp>':
            if en_is_punct(x) and r == y:
                return None
            if s_str(x) in ('LQU', 'LRB') and r == ('F', y, '\\', y):
                return None
            return 'not a punctuation absorption'
        if symbol == '<*>':
            if s_str(x) == ',' and s_str(y) in ('S[ng]\\NP', 'S[pss]\\NP') and r == ('F', SNP, '\\', SNP):
                return None
            if s_str(x) == ',' and s_str(y) == 'S[dcl]/S[dcl]' and r == ('F', SNP, '/', SNP):
                return None
            return 'not a listed type-changing rule'
        return 'symbol'
    if label == 'rp':
        if symbol != '<rp>':
            return 'symbol'
        return None if en_is_punct(y) and r == x else 'not a punctuation absorption'
    return 'unknown label ' + label


def strip_left(s, depth):
    """peel `depth` outer functor layers: returns (core, [(slash, arg), ...] outermost first)"""
    layers = []
    for _ in range(depth):
        if s[0] != 'F':
            return None, None
        layers.append((s[2], s[3]))
        s = s[1]
    return s, layers


JA_LABELS = {
    '>': 'fa', '<': 'ba', '>B': 'fc', '<B1': 'bx', '<B2': 'bx', '<B3': 'bx', '<B4': 'bx',
    '>Bx1': 'fx', '>Bx2': 'fx', '>Bx3': 'fx', 'SSEQ': 'other',
}


def ja_justified(label, symbol, r, x, y, roots):
    feats = set(s_feats(x) + s_feats(y))
    if JA_LABELS.get(symbol) != label:
        return 'label/symbol mismatch'
    if symbol == '>':
        if x[0] != 'F' or x[2] not in FWD or not compat_parts(x[3], y):
            return 'premises'
        if is_modifier(x):
            return None if r == y else 'modifier must return the other category unchanged'
        return None if instance_of(r, x[1], feats) else 'result'
    if symbol == '<':
        if y[0] != 'F' or y[2] not in BWD or not compat_parts(y[3], x):
            return 'premises'
        if is_modifier(y):
            return None if r == x else 'modifier must return the other category unchanged'
        return None if instance_of(r, y[1], feats) else 'result'
    if symbol == '>B':
        if x[0] != 'F' or y[0] != 'F' or x[2] not in FWD or y[2] not in FWD or not compat_parts(x[3], y[1]):
            return 'premises'
        if is_modifier(x):
            return None if r == y else 'modifier must return the other category unchanged'
        ok = r[0] == 'F' and r[2] == '/' and instance_of(r[1], x[1], feats) and instance_of(r[3], y[3], feats)
        return None if ok else 'result'
    if symbol in ('<B1', '<B2', '<B3', '<B4'):
        n = int(symbol[2]) - 1
        if y[0] != 'F' or y[2] not in BWD:
            return 'premises'
        core, layers = strip_left(x, n)
        if core is None or core[0] != 'F' or core[2] not in BWD:
            return 'premises'
        if not compat_parts(core[1], y[3]):
            return 'middle does not match'
        if is_modifier(y):
            return None if r == x else 'modifier must return the other category unchanged'
        rcore, rlayers = strip_left(r, n)
        if rcore is None or rcore[0] != 'F' or rcore[2] != '\\':
            return 'result shape'
        if [l[0] for l in rlayers] != [l[0] for l in layers]:
            return 'outer slashes of the secondary functor not kept'
        ok = instance_of(rcore[1], y[1], feats) and instance_of(rcore[3], core[3], feats) \
            and all(instance_of(a[1], b[1], feats) for a, b in zip(rlayers, layers))
        return None if ok else 'result parts'
    if symbol in ('>Bx1', '>Bx2', '>Bx3'):
        n = int(symbol[3]) - 1
        if x[0] != 'F' or x[2] not in FWD:
            return 'premises'
        core, layers = strip_left(y, n)
        if core is None or core[0] != 'F' or core[2] not in BWD:
            return 'premises'
        if not compat_parts(x[3], core[1]):
            return 'middle does not match'
        if is_modifier(x):
            return None if r == y else 'modifier must return the other category unchanged'
        rcore, rlayers = strip_left(r, n)
        if rcore is None or rcore[0] != 'F':
            return 'result shape'
        if rcore[2] != '\\':
            return 'crossed composition must keep the slash of the secondary functor'
        if [l[0] for l in rlayers] != [l[0] for l in layers]:
            return 'outer slashes of the secondary functor not kept'
        ok = instance_of(rcore[1], x[1], feats) and instance_of(rcore[3], core[3], feats) \
            and all(instance_of(a[1], b[1], feats) for a, b in zip(rlayers, layers))
        return None if ok else 'result parts'
    if symbol == 'SSEQ':
        return None if (x in roots and y in roots and r == y) else 'not a sentence sequence'
    return 'unknown symbol'


def ja_unary_label(x):
    """the label the property prescribes for a unary step, from the shape of its input"""
    core = x
    missing = 0
    while core[0] == 'F':
        core = core[1]
        missing += 1
    f = core[2]
    if f[0] != 'T':
        return None
    kv = set(f[1:])
    b = s_blind(x)
    S, NP = ('A', 'S'), ('A', 'NP')
    if ('mod', 'adn') in kv:
        return 'ADNext' if b == S else 'ADNint'
    if ('mod', 'adv') in kv:
        if b == ('F', S, '\\', NP):
            return 'ADV1'
        if b == ('F', ('F', S, '\\', NP), '\\', NP):
            return 'ADV2'
        return 'ADV0'
    return 'OTHER'
