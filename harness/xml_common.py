"""Helpers of the XML checks (C15, C07): canonical form of lxml documents, wire encoding of
batches, the oracles on Jigg XML and on ccg2lambda's tree builder."""
import re

import tree_common as T
from wire import enc_str

# which ops the Lean model implements (extended as the model grows)
MODEL_OPS = {'xml': True, 'jigg': True, 'read_xml': True, 'read_jigg': True, 'normalize': True, 'xml_text': True, 'jigg_text': True,
             'read_xml_text': True, 'read_jigg_text': True}


def canon(el):
    """canonical one-line form of an element tree: tag, ordered attributes, children"""
    items = [(k, v) for k, v in el.attrib.items() if not (el.tag == 'ccg' and k == 'score')]
    out = ['E', enc_str(el.tag), str(len(items))]
    for k, v in items:
        out += [enc_str(k), enc_str(v)]
    kids = list(el)
    out.append(str(len(kids)))
    return ' '.join(out) + ''.join(' ' + canon(k) for k in kids)


def enc_batch(batch):
    """<nsent> (<ntrees> (<score-ignored> tree)*)*"""
    parts = [str(len(batch))]
    for sent in batch:
        parts.append(str(len(sent)))
        for st in sent:
            parts.append(T.enc_tree(st.tree))
    return ' '.join(parts)


def shape_words(t):
    if t.is_leaf:
        return ('L', str(t.cat), t.token.get('word', t.token.get('surf')))
    return ('N', str(t.cat)) + tuple(shape_words(c) for c in t.children)


def compare_xml_roundtrip(orig, back, mod):
    """None or reason.  Same tree, rule labels and token attributes."""
    def rec(a, b):
        if a.is_leaf != b.is_leaf or len(a.children) != len(b.children):
            return 'shape: differs'
        if str(a.cat) != str(b.cat):
            return f'category: {a.cat} read back as {b.cat}'
        if a.is_leaf:
            want = {k: a.token.get(k) for k in ('word', 'pos', 'entity', 'lemma', 'chunk')}
            got = {k: b.token.get(k) for k in ('word', 'pos', 'entity', 'lemma', 'chunk')}
            if want != got:
                return f'token: attributes {want} read back as {got}'
            return None
        if a.is_unary:
            if a.op_string != b.op_string:
                return f'label: unary node {a.cat} labelled {a.op_string} read back as {b.op_string}'
        else:
            # the rule label is that of a grammar result deriving the node, when the original's was
            rs = [r for r in mod.apply_binary_rules(a.children[0].cat, a.children[1].cat) if r.cat == a.cat]
            labs = {r.op_string for r in rs}
            if a.op_string in labs and b.op_string not in labs:
                return f'label: binary node {a.cat} labelled {a.op_string} read back as {b.op_string}'
        for x, y in zip(a.children, b.children):
            why = rec(x, y)
            if why:
                return why
        return None
    return rec(orig, back)


def jigg_wellformed(root, batch, lang):
    """None or reason: ids unique, references resolve, offsets tile, exactly one root per ccg"""
    sents = root.xpath('.//sentence')
    if len(sents) != len(batch):
        return f'count: {len(sents)} sentence elements for {len(batch)} sentences'
    all_ids = root.xpath('.//*[@id]/@id')
    if len(set(all_ids)) != len(all_ids):
        return 'ids: duplicate id in the document'
    for sent_node, trees in zip(sents, batch):
        toks = sent_node.xpath('./tokens/token')
        n = len(trees[0].tree.tokens)
        if len(toks) != n:
            return 'tokens: wrong number of token elements'
        tok_ids = {t.get('id') for t in toks}
        for i, (tk, real) in enumerate(zip(toks, trees[0].tree.tokens)):
            if tk.get('surf') != real.get('word'):
                return f'tokens: token {i} surf={tk.get("surf")!r} for word {real.get("word")!r}'
        ccgs = sent_node.xpath('./ccg')
        if len(ccgs) != len(trees):
            return 'count: number of ccg elements differs from the n-best size'
        for ccg, st in zip(ccgs, trees):
            spans = ccg.xpath('./span')
            ids = {s.get('id'): s for s in spans}
            if len(ids) != len(spans):
                return 'ids: duplicate span id'
            roots = [s for s in spans if s.get('root') == 'true']
            if len(roots) != 1 or roots[0].get('id') != ccg.get('root'):
                return 'root: not exactly one root span matching ccg@root'
            leaf_spans = []
            for s in spans:
                b, e = int(s.get('begin')), int(s.get('end'))
                if s.get('terminal') is not None:
                    if s.get('terminal') not in tok_ids:
                        return 'refs: terminal reference does not resolve'
                    if e != b + 1:
                        return 'offsets: a leaf span is not one token wide'
                    leaf_spans.append((b, e))
                else:
                    kids = s.get('child').split(' ')
                    if any(k not in ids for k in kids):
                        return 'refs: child reference does not resolve'
                    kb = [(int(ids[k].get('begin')), int(ids[k].get('end'))) for k in kids]
                    if kb[0][0] != b or kb[-1][1] != e or any(kb[i][1] != kb[i + 1][0] for i in range(len(kb) - 1)):
                        return 'offsets: a span is not the union of its children'
                    if s.get('rule') is None:
                        return 'rule: internal span without rule'
            if sorted(leaf_spans) != [(i, i + 1) for i in range(n)]:
                return 'offsets: leaf spans do not tile the sentence'
    return None


def compare_built(el, tree, lang):
    """ccg2lambda's nested element vs the derivation: isomorphic, categories (multi-valued
    spelling), rule = label (en) / symbol (ja)"""
    from depccg.printer.jigg_xml import _cat_multi_valued
    if el.get('category') != _cat_multi_valued(tree.cat):
        return f'category: {el.get("category")} for {tree.cat}'
    kids = [k for k in el if k.tag == 'span']
    if tree.is_leaf:
        if kids or el.get('terminal') is None:
            return 'shape: leaf expected'
        return None
    if len(kids) != len(tree.children):
        return f'shape: {len(kids)} children for a node with {len(tree.children)}'
    want = tree.op_symbol if lang == 'ja' else tree.op_string
    if el.get('rule') != want:
        return f'rule: {el.get("rule")} for {want}'
    for k, c in zip(kids, tree.children):
        why = compare_built(k, c, lang)
        if why:
            return why
    return None


def normalized_ok(v, original=None):
    """an identifier free of logic punctuation: starts with `_`, none of . , ( ) ! - ; a token that
    is the conjunction sign `&` alone must have been renamed (inside a word `&` is kept by design)"""
    if original == '&' and '&' in v:
        return False
    return v.startswith('_') and not any(ch in v for ch in '.,()!-')
