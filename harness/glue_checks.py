"""Glue-level suites: real depccg.parsing.run (translated parsing.pyx + real C++), real objects.
Used by C02 C09 C12 (single sentences) and C11 (batches)."""
import json
import multiprocessing
import os
import subprocess
import sys

import numpy

import common
import glue_common as G
import native
import search_common as S
from depccg.types import Token, ScoringResult


def ensure_native(ctx):
    try:
        native.setup()
        return True
    except Exception as e:
        ctx.disagree('native', 'shim/glue build', 'model available', f'implementation not runnable: {e}')
        return False


# ---- oracles on real trees ------------------------------------------------------------------------

def validate_real_tree(p, cats, gram, tokens, tree, admitted):
    """None or reason; independent walk over the real Tree"""
    ids = {c: i for i, c in enumerate(cats)}
    leaves = tree.leaves
    if len(leaves) != p.n:
        return f'{len(leaves)} leaves for {p.n} tokens'
    for i, leaf in enumerate(leaves):
        if leaf.token is not tokens[i] and dict(leaf.token) != dict(tokens[i]):
            return f'leaf {i} does not carry input token {i}'
        cid = ids.get(leaf.cat)
        if cid is None or cid not in admitted[i]:
            return f'leaf {i} carries a supertag that was not admitted'

    def rec(node):
        if node.is_leaf:
            return None
        kids = node.children
        if len(kids) == 1:
            rs = gram.unary(kids[0].cat)
        else:
            rs = gram.binary(kids[0].cat, kids[1].cat)
        if not any(r.cat == node.cat for r in rs):
            return f'node {node.cat} is not a grammar result for its children'
        for k in kids:
            why = rec(k)
            if why:
                return why
        return None
    why = rec(tree)
    if why:
        return why
    if ids.get(tree.cat) not in p.roots:
        return 'root category is not an allowed root'
    if p.n > 1 and tree.is_unary:
        return 'unary step at the root of a multi-word sentence'
    return None


def labels_real_tree(gram, tree):
    """None or reason: every node carries label, symbol and head direction of one grammar result
    for its children that has the node's category"""
    if tree.is_leaf:
        return None
    kids = tree.children
    rs = gram.unary(kids[0].cat) if len(kids) == 1 else gram.binary(kids[0].cat, kids[1].cat)
    ok = False
    for r in rs:
        if r.cat == tree.cat and r.op_string == tree.op_string and r.op_symbol == tree.op_symbol:
            if len(kids) == 1 or bool(r.head_is_left) == bool(tree.head_is_left):
                ok = True
    if not ok:
        return (f'node {tree.cat} labelled {tree.op_string}/{tree.op_symbol} head_left={tree.head_is_left}; grammar results: '
                + str([(str(r.cat), r.op_string, r.op_symbol, r.head_is_left) for r in rs]))
    for k in kids:
        why = labels_real_tree(gram, k)
        if why:
            return why
    return None


def rescore_real_tree(p, cats, tree):
    """model score recomputed from the real tree, heads from its head flags (1/SCALE units)"""
    ids = {c: i for i, c in enumerate(cats)}
    counter = [0]

    def rec(node):
        if node.is_leaf:
            i = counter[0]
            counter[0] += 1
            return p.tags[i][ids[node.cat]], i
        if node.is_unary:
            s, h = rec(node.children[0])
            return s - p.penalty, h
        sl, hl = rec(node.children[0])
        sr, hr = rec(node.children[1])
        head, child = (hl, hr) if node.head_is_left else (hr, hl)
        return sl + sr + p.deps[child][head + 1], head
    s, h = rec(tree)
    return s + p.deps[h][0]


def real_grammar_suite(ctx, oracles, count, nbest=False):
    """small sentences parsed by the real depccg.parsing.run with the real English / Japanese rule
    functions and unary tables; the functions are tabulated on the closure of the sentence's
    categories so that the model and the enumeration oracle see the same grammar"""
    rng = ctx.rng
    items = []
    tries = 0
    while len(items) < count and tries < count * 6:
        tries += 1
        lang = 'ja' if tries % 3 == 0 else 'en'
        r = G.real_grammar_problem(rng, lang)
        if r is not None:
            if nbest:
                r[0].nbest = rng.choice([2, 3, 5])
            items.append(r)
    ctx.extra['real_grammar_problems'] = len(items)
    single_suite(ctx, oracles, [], 0, items=items)


def single_suite(ctx, oracles, gen_kwargs_list, count, items=None):
    """one-sentence calls of depccg.parsing.run, compared with the model's expected trees"""
    from driver import run_lines
    rng = ctx.rng
    if not ensure_native(ctx):
        return
    given = items is not None
    items = [it if len(it) == 5 else it + (None,) for it in (items or [])]
    per = max(1, count // max(1, len(gen_kwargs_list)))
    for kw in gen_kwargs_list:
        for _ in range(per):
            p = S.random_problem(rng, **kw)
            K = G.problem_K(p)
            cats = G.category_pool(K, rng)
            # every fourth grammar labels its results independently of their position: the same result may occur twice
            gram = G.TableGrammar(cats, p.bin, p.un, plain_labels=(len(items) % 4 == 3))
            toks = G.tokens_for(p)
            items.append((p, cats, gram, toks, None))
    # very long searches are not sent to the (quadratic) model
    big = []
    for p, _, _, _, _ in items:
        try:
            big.append(len(S.run_cpp(p)['pops']) > 4000)
        except Exception:
            big.append(True)
    lines = [S.model_line(p) for (p, _, _, _, _), b in zip(items, big) if not b]
    model_ok = ctx.lean is None or ctx.lean.driver_ok
    small = iter(run_lines(lines) if model_ok else [None] * len(lines))
    outs = [None if b else next(small) for b in big]
    stats = {'parsed': 0, 'failed': 0, 'ties': 0}
    retrieve_cases = []
    import tree_common as T
    for (p, cats, gram, toks, funcs), mline in zip(items, outs):
        desc = p.to_json()
        desc['categories'] = [str(c) for c in cats]
        ctx.evaluations += 1
        try:
            res = G.run_real(p, cats, gram, [toks], [G.scoring(p)], max_length=250, processes=1, max_chunk_size=20, funcs=funcs)
        except Exception as e:
            ctx.fail(f'depccg.parsing.run raised {type(e).__name__}: {e}', desc, fingerprint=['glue-raise', type(e).__name__])
            continue
        if len(res) != 1:
            ctx.fail(f'{len(res)} result lists for one sentence', desc, fingerprint=['glue-align'])
            continue
        trees = res[0]
        failed = len(trees) == 1 and trees[0].score == -float('inf')
        stats['failed' if failed else 'parsed'] += 1
        admitted = S.admitted_tags(p)
        # a tag whose probability ratio to the best one is within rounding distance of beta is borderline: it
        # may or may not be admitted, so the enumeration oracle speaks only when there is none
        beam_exact = (not p.use_beta) or all(s == m for (s, _), m in zip(S.admitted_tags(p, margin=True), admitted))
        if 'optimal' in oracles and p.n <= 4 and beam_exact:
            try:
                chart = S.enumerate_derivations(p, admitted, limit=60000)
                roots = S.root_derivations(p, chart)
                best = max((s for s, _ in roots), default=None)
                if not p.head_uniform:
                    ctx.fail('the grammar function returned results with different head directions: the search order no longer '
                             'guarantees the best parse', desc, fingerprint=['glue-head-uniform'])
                elif failed and roots:
                    ctx.fail('sentence reported as failed although the grammar licenses a derivation', desc, fingerprint=['glue-spurious-failure'])
                elif not failed and p.nbest >= 1 and (best is None or S.to_int(trees[0].score) != best):
                    ctx.fail(f'first parse scores {S.to_int(trees[0].score)}, the best licensed derivation scores {best} (1/{S.SCALE})', desc,
                             fingerprint=['glue-optimal'])
            except OverflowError:
                pass
        if not failed:
            ctx.nontrivial_add(json.dumps(desc, sort_keys=True))
            for tree, score in trees:
                if 'valid' in oracles:
                    why = validate_real_tree(p, cats, gram, toks, tree, admitted)
                    if why:
                        ctx.fail('returned tree is not licensed: ' + why, desc, fingerprint=['glue-valid', why.split(' ')[0]])
                if 'labels' in oracles:
                    why = labels_real_tree(gram, tree)
                    if why:
                        ctx.fail('a node does not carry label / symbol / head direction of the grammar result that created it: '
                                 + why, desc, fingerprint=['glue-labels'])
                if 'score' in oracles:
                    try:
                        want = rescore_real_tree(p, cats, tree)
                        got = S.to_int(score)
                        if want != got:
                            ctx.fail(f'reported score {got} but the returned tree (with its head flags) recomputes to {want} '
                                     f'(1/{S.SCALE})', desc, fingerprint=['glue-score'])
                    except KeyError:
                        pass
        else:
            t = trees[0].tree
            if 'valid' in oracles and not (t.is_leaf and t.word == 'FAILED' and str(t.cat) == 'NP'):
                ctx.fail('failure is not reported by the explicit placeholder', desc, fingerprint=['glue-placeholder'])
        # ---- correspondence with the model ------------------------------------------------
        if mline is None:
            continue
        m, mres = G.model_results(mline)
        ctx.traces += 1
        words = [t.word for t in toks]
        got = G.canon_results(res)[0]
        if (m['status'] == 1) != failed:
            ctx.disagree('run', desc, f"status {m['status']}", 'failed' if failed else 'parsed')
            continue
        if failed:
            continue
        if m['tie']:
            stats['ties'] += 1        # compared exactly all the same: the model's agenda is the real heap
        want = [(s, G.expected_tree(p, cats, gram, words, d)) for s, d in mres]
        if want != got:
            ctx.disagree('run', desc, json.dumps(want)[:700], json.dumps(got)[:700], note='trees/labels/heads/scores differ')
        # the model of retrieve_tree (lean/Depccg/GlueTree.lean) on the same derivation and tables
        for (sc, d), (tree, _) in zip(mres, trees):
            retrieve_cases.append(('retrieve', G.retrieve_line(p, cats, gram, toks, d), 'ok ' + T.enc_tree(tree), desc))
    ctx.extra['glue_stats'] = stats
    ctx.extra['retrieve_cases'] = len(retrieve_cases)
    common.compare_with_model(ctx, retrieve_cases)


# ---- the whole stack on the real grammars: callbacks' category table + search, id for id -------

import pyxrt  # noqa: E402
from depccg.types import Token  # noqa: E402
import wire  # noqa: E402
from wire import enc_cat, enc_str  # noqa: E402

def full_stack_problem(rng, lang, m=1):
    """m sentences over the real grammar sharing one category list: lexical categories of licensed
    derivations + distractors"""
    import functools
    import grammar_common
    import tree_common as T
    from depccg.grammar import en, ja
    mod = en if lang == 'en' else ja
    bfun = mod.apply_binary_rules
    ufun = functools.partial(mod.apply_unary_rules, unary_rules=grammar_common.unary_table(lang))
    golds = [T.licensed_tree(rng, lang, rng.randint(0, 5), dict(awkward=0.0)) for _ in range(m)]
    pairs = T.lexicon(lang)
    lex = []
    for gold in golds:
        for l in gold.leaves:
            if l.cat not in lex:
                lex.append(l.cat)
    for _ in range(rng.randint(0, 4)):
        c = rng.choice(rng.choice(pairs))
        if c not in lex:
            lex.append(c)
    rng.shuffle(lex)
    base = S.Problem()
    base.T = len(lex)
    base.penalty = rng.choice([0, 6, 13])
    base.nbest = rng.choice([1, 1, 2, 4])
    base.max_step = 3000
    sents = []
    for si, gold in enumerate(golds):
        p = S.Problem.from_json(base.to_json())
        leaves = [l.cat for l in gold.leaves]
        p.n = len(leaves)
        lo = -rng.choice([300, 1500])
        p.tags = [[rng.randint(lo, 0) for _ in range(p.T)] for _ in range(p.n)]
        for i, c in enumerate(leaves):
            p.tags[i][lex.index(c)] = rng.randint(-40, 0)
        p.deps = [[rng.randint(lo, 0) for _ in range(p.n + 1)] for _ in range(p.n)]
        sents.append((p, [Token.of_word(f'w{si}_{i}') for i in range(p.n)]))
    roots = [g.cat for g in golds] + [rng.choice(rng.choice(pairs)) for _ in range(rng.randint(0, 2))]
    roots = [c for i, c in enumerate(roots) if c not in roots[:i]]
    return base, sents, lex, roots, bfun, ufun


def full_stack_case(rng, lang, m=1):
    base, sents, cats, root_cats, bfun, ufun = full_stack_problem(rng, lang, m)
    calls = []

    def rec_b(x, y):
        rs = bfun(x, y)
        calls.append(('b', x, y, list(rs)))
        return rs

    def rec_u(x):
        rs = ufun(x)
        calls.append(('u', x, None, list(rs)))
        return rs
    pops = pyxrt.trace_pops(True)
    try:
        res = native.setup()['parsing'].run([t for _, t in sents], [G.scoring(p) for p, _ in sents], list(cats), list(root_cats),
                                            rec_b, rec_u, unary_penalty=base.penalty / S.SCALE, beta=base.beta, use_beta=base.use_beta,
                                            pruning_size=base.pruning, nbest=base.nbest, max_step=base.max_step, max_length=250,
                                            processes=1, max_chunk_size=1000)
        real_pops = [(1 if f else 0, S.to_int(i), S.to_int(o), s, l, c, h, rr) for f, i, o, s, l, c, h, rr in pops]
    finally:
        pyxrt.trace_pops(False)

    def enc_res(rs):
        return f'{len(rs)} ' + ' '.join(f'{enc_cat(q.cat)} {1 if q.head_is_left else 0} {enc_str(q.op_string)} {enc_str(q.op_symbol)}'
                                        for q in rs)
    parts = ['gluetable', str(base.T)] + [enc_cat(c) for c in cats] + [str(len(root_cats))] + [enc_cat(c) for c in root_cats]
    parts.append(str(len(calls)))
    for k, x, y, rs in calls:
        parts.append(f'b {enc_cat(x)} {enc_cat(y)} {enc_res(rs)}' if k == 'b' else f'u {enc_cat(x)} {enc_res(rs)}')
    line = ' '.join(' '.join(parts).split())
    return [p for p, _ in sents], cats, calls, real_pops, res, line


def decode_table(out):
    ts = out.split(' ')
    assert ts[0] == 'ok', out[:200]
    i = 1
    K = int(ts[i]); i += 1
    table = []
    for _ in range(K):
        c, i = wire.dec_cat_at(ts, i); table.append(c)
    nr = int(ts[i]); i += 1
    roots = [int(x) for x in ts[i:i + nr]]; i += nr
    nc = int(ts[i]); i += 1
    rows = []
    for _ in range(nc):
        kind = ts[i]; i += 1
        if kind == 'b':
            x, y = int(ts[i]), int(ts[i + 1]); i += 2
        else:
            x, y = int(ts[i]), None; i += 1
        n = int(ts[i]); i += 1
        ids = [int(v) for v in ts[i:i + n]]; i += n
        rows.append((kind, x, y, ids))
    return table, roots, rows



def full_stack_suite(ctx, count, batch=False):
    """real `depccg.parsing.run` with the real English / Japanese rule functions, recording the rule
    function calls; the Lean model of the callback side (GlueRun: category table, cache rows) is
    replayed on the recorded calls, the id-level grammar it yields is given to the Lean search, and
    the model's pop trace must equal the real one item for item (category ids included). With
    batch=True a call parses 2..4 sentences, which share the table and the rule cache."""
    from driver import run_lines
    rng = ctx.rng
    if not ensure_native(ctx):
        return
    if ctx.lean is not None and not ctx.lean.driver_ok:
        return
    cases = []
    tries = 0
    while len(cases) < count and tries < 3 * count:
        tries += 1
        try:
            c = full_stack_case(rng, 'ja' if tries % 3 == 0 else 'en', rng.randint(2, 4) if batch else 1)
        except Exception as e:
            ctx.fail(f'depccg.parsing.run raised {type(e).__name__}: {e}', {'suite': 'full-stack'},
                     fingerprint=['full-stack-raise', type(e).__name__])
            continue
        if c and len(c[3]) <= 4000:
            cases.append(c)
    outs = run_lines([c[5] for c in cases])
    lines2, keep = [], []
    for (ps, cats, calls, real_pops, res, line), out in zip(cases, outs):
        ctx.evaluations += 1
        desc = dict(sentences=[p.to_json() for p in ps], categories=[str(c) for c in cats], calls=len(calls))
        if not out.startswith('ok'):
            ctx.disagree('gluetable', desc, out[:200], 'a table built by the real callbacks', line=line[:2000])
            continue
        table, roots, rows = decode_table(out)
        gbin, gun = {}, {}
        for (k, x, y, ids), (_, _, _, rs) in zip(rows, calls):
            if k == 'b':
                gbin[(x, y)] = [(cid, bool(q.head_is_left)) for cid, q in zip(ids, rs)]
            else:
                gun[x] = list(ids)
        idx = []
        for p in ps:
            p2 = S.Problem.from_json(p.to_json())
            p2.roots, p2.bin, p2.un = roots, gbin, gun
            idx.append(len(lines2))
            lines2.append(S.model_line(p2))
        keep.append((idx, real_pops, res, table, desc))
    outs2 = run_lines(lines2)
    for idx, real_pops, res, table, desc in keep:
        ms = [S.parse_model_output(outs2[i]) for i in idx]
        mpops = [q for m in ms for q in m['pops']]
        ctx.traces += 1
        if mpops != list(real_pops):
            k = 0
            while k < min(len(mpops), len(real_pops)) and mpops[k] == real_pops[k]:
                k += 1
            ctx.disagree('full-stack', desc, f"pop {k}: {mpops[k] if k < len(mpops) else None}",
                         f"pop {k}: {real_pops[k] if k < len(real_pops) else None}",
                         note='pop traces (with the category ids the real callbacks assigned) differ')
            continue
        ok = True
        for m, trees in zip(ms, res):
            failed = len(trees) == 1 and trees[0].score == -float('inf')
            if (m['status'] == 1) != failed:
                ctx.disagree('full-stack', desc, f"status {m['status']}", 'failed' if failed else 'parsed')
                ok = False
                break
            if not failed:
                got = [S.to_int(t.score) for t in trees]
                want = [int(q.split(' ')[1]) for q in m['results']]
                if got != want:
                    ctx.disagree('full-stack', desc, str(want), str(got), note='result scores differ')
                    ok = False
                    break
        if ok and any(m['status'] == 0 for m in ms):
            ctx.nontrivial_add(json.dumps(desc, sort_keys=True)[:3000])
    ctx.extra['full_stack_cases' + ('_batch' if batch else '')] = len(keep)


# ---- the whole of `_parsing.run` inside the model: Lean rule functions + lazy cache + search -----

def lazy_case(rng, lang, m, with_seen, with_beta, dup=False, chunking=None, long_doc=False, fail_some=False):
    """one call of the real depccg.parsing.run (real rule functions of `lang`, m sentences sharing
    category table and cache) and the protocol line that makes the Lean model do the same thing
    *by itself*: its own En / Ja rule functions, its own callbacks, search and finaliser"""
    import functools
    import grammar_common
    from depccg.grammar import en, ja
    import tree_common as T
    base, sents, cats, root_cats, bfun, ufun = full_stack_problem(rng, lang, m)
    variant = lang
    mod = en if lang == 'en' else ja
    if with_seen:
        bfun = functools.partial(mod.apply_binary_rules, seen_rules=grammar_common.seen_set(variant))
    if with_beta:
        base.use_beta = True
        base.beta = rng.choice([0.5, 0.1, 0.001, 1.0, 2.0])
        base.pruning = rng.choice([1, 2, 3, 50, 0])
    max_length = rng.choice([250, 250, 3])
    if long_doc:
        max_length = rng.choice([2, 3])        # a long document in which several sentences are over-long
    if fail_some and len(sents) >= 2:
        # the first sentence of the call has no parse (its gold root category is not an allowed root) and the
        # call asks for several parses: the later sentences must get theirs all the same
        root_cats = list(root_cats[1:]) or list(root_cats)
        base.nbest = rng.choice([2, 3, 4])
        for p, _ in sents:
            p.nbest = base.nbest
    if dup:
        # the same category named by two columns of the tag matrix: `run` must reject the call
        j = rng.randrange(len(cats))
        cats = list(cats) + [cats[j]]
        base.T += 1
        for p, _ in sents:
            p.T += 1
            for row in p.tags:
                row.append(row[j])
    for p, _ in sents:
        p.use_beta, p.beta, p.pruning = base.use_beta, base.beta, base.pruning
    pops = pyxrt.trace_pops(True)
    try:
        try:
            res = native.setup()['parsing'].run([t for _, t in sents], [G.scoring(p) for p, _ in sents], list(cats), list(root_cats),
                                                bfun, ufun, unary_penalty=base.penalty / S.SCALE, beta=base.beta, use_beta=base.use_beta,
                                                pruning_size=base.pruning, nbest=base.nbest, max_step=base.max_step, max_length=max_length,
                                                processes=(chunking[1] if chunking else 1),
                                                max_chunk_size=(chunking[0] if chunking else 1000))
        except RuntimeError as e:
            res = e
        real_pops = [(1 if f else 0, S.to_int(i), S.to_int(o), s, l, c, h, rr) for f, i, o, s, l, c, h, rr in pops]
    finally:
        pyxrt.trace_pops(False)
    parts = ['lazyrun', lang, ('ship_' + lang) if with_seen else '-', 'ship_' + lang,
             str(len(cats))] + [enc_cat(c) for c in cats] + [str(len(root_cats))] + [enc_cat(c) for c in root_cats]
    parts += [str(base.penalty), str(base.pruning), str(base.nbest), str(base.max_step), str(max_length)]
    if chunking:
        parts += ['chunks', str(chunking[0]), str(chunking[1])]
    parts.append(str(len(sents)))
    for p, toks in sents:
        parts.append(str(p.n))
        parts += [T.enc_tok(t) for t in toks]
        for row in p.tags:
            parts += [str(v) for v in row]
        for row in p.deps:
            parts += [str(v) for v in row]
        if p.use_beta:
            parts.append('1')
            for row in S.passes_table(p):
                parts += [str(v) for v in row]
        else:
            parts.append('0')
    line = ' '.join(' '.join(parts).split())
    desc = dict(lang=lang, seen=with_seen, sentences=[p.to_json() for p, _ in sents], categories=[str(c) for c in cats],
                roots=[str(c) for c in root_cats], max_length=max_length, duplicate_category=dup, chunking=chunking, fail_some=fail_some)
    return desc, real_pops, res, line, (sents, cats, root_cats, bfun, ufun, max_length)


def lazy_oracle(sents, cats, root_cats, bfun, ufun, max_length, res):
    """independent check of what the real `run` returned, written from C02 / C09 / C11: one result
    list per sentence; every tree has the sentence's tokens as leaves, admitted supertags, nodes
    licensed by the rule functions (category, label, symbol, head direction), an allowed root, no
    unary step at the root of a multi-word sentence, and the reported score recomputes from it"""
    if len(res) != len(sents):
        return f'{len(res)} result lists for {len(sents)} sentences'
    for si, ((p, toks), trees) in enumerate(zip(sents, res)):
        failed = len(trees) == 1 and trees[0].score == -float('inf')
        if failed:
            continue
        if p.n > max_length:
            return f'sentence {si} is longer than max_length but was parsed'
        if len(trees) > p.nbest:
            return f'sentence {si}: {len(trees)} trees for nbest={p.nbest}'
        admitted = S.admitted_tags(p)
        for st in trees:
            tree = st.tree
            leaves = tree.leaves
            if [dict(l.token) for l in leaves] != [dict(t) for t in toks]:
                return f'sentence {si}: leaves are not the input tokens in order'
            for i, leaf in enumerate(leaves):
                if not any(cats[j] == leaf.cat for j in admitted[i] if j < len(cats)):
                    return f'sentence {si}: leaf {i} carries {leaf.cat}, not an admitted supertag'

            def rec(node):
                if node.is_leaf:
                    return None
                kids = node.children
                rs = ufun(kids[0].cat) if len(kids) == 1 else bfun(kids[0].cat, kids[1].cat)
                if not any(r.cat == node.cat and r.op_string == node.op_string and r.op_symbol == node.op_symbol
                           and (len(kids) == 1 or bool(r.head_is_left) == bool(node.head_is_left)) for r in rs):
                    return f'sentence {si}: node {node.cat} ({node.op_string}) is not a result of the rule function for its children'
                for k in kids:
                    why = rec(k)
                    if why:
                        return why
                return None
            why = rec(tree)
            if why:
                return why
            if tree.cat not in root_cats:
                return f'sentence {si}: root category {tree.cat} is not an allowed root'
            if p.n > 1 and tree.is_unary:
                return f'sentence {si}: unary step at the root of a multi-word sentence'
            ids = {}
            for j, c in enumerate(cats):
                ids.setdefault(c, j)
            try:
                want = rescore_real_tree(p, cats, tree)
            except (KeyError, ValueError):
                want = None
            if want is not None and S.to_int(st.score) != want:
                return f'sentence {si}: reported score {st.score} but the tree scores {want}/{S.SCALE}'
    return None


def parse_lazy_output(out):
    """-> (ncats or None, [ (kind, pops, [(score, tree_enc)]) ])"""
    segs = out.split(' || ')
    head = segs[0].split(' ')
    assert head[0] == 'ok', out[:200]
    if head[1] == '-':
        head[1] = '-1'
    sents = []
    for seg in segs[1:]:
        items = seg.split(' ; ')
        kind = items[0].split(' ')[0]
        pops, results = [], []
        for it in items[1:]:
            ts = it.split(' ')
            if ts[0] == 'P':
                pops.append(tuple(int(v) for v in ts[1:]))
            elif ts[0] == 'R':
                results.append((int(ts[1]), ' '.join(ts[2:])))
        sents.append((kind, pops, results))
    return int(head[1]), sents


def lazy_suite(ctx, count, batch=False):
    """real `depccg.parsing.run` (real rule functions, real callbacks, real C++ search, real
    `retrieve_tree`) against `Lazy.runBatch` — the model of the whole call — on the same sentences:
    pop traces with category ids, status, scores and the returned trees (categories, labels, head
    flags, tokens) must be identical."""
    import grammar_common
    import tree_common as T
    from driver import run_lines
    rng = ctx.rng
    if not ensure_native(ctx):
        return
    if ctx.lean is not None and not ctx.lean.driver_ok:
        return
    setup = []
    for lang in ('en', 'ja'):
        setup.append(grammar_common.set_seen_line('ship_' + lang, sorted(grammar_common.seen_set(lang), key=lambda p: (str(p[0]), str(p[1])))))
        setup.append(grammar_common.set_unary_line('ship_' + lang, grammar_common.unary_table(lang)))
    cases = []
    tries = 0
    while len(cases) < count and tries < 3 * count:
        tries += 1
        try:
            m = rng.randint(2, 4) if batch else 1
            long_doc = (tries % 9 == 7)
            if long_doc:
                m = rng.randint(9, 14)
            # every sixth batch goes through the chunking of depccg.parsing.run and a real worker pool
            chunking = (rng.randint(1, m - 1), rng.randint(1, 3)) if batch and tries % 6 == 4 else None
            c = lazy_case(rng, 'ja' if tries % 3 == 0 else 'en', m,
                          with_seen=(tries % 4 == 1), with_beta=(tries % 5 == 2), dup=(tries % 8 == 5), chunking=chunking,
                          long_doc=long_doc, fail_some=(batch and tries % 4 == 2))
        except Exception as e:
            ctx.fail(f'depccg.parsing.run raised {type(e).__name__}: {e}', {'suite': 'lazy'},
                     fingerprint=['lazy-raise', type(e).__name__])
            continue
        if len(c[1]) <= 4000:
            cases.append(c)
    outs = run_lines(setup + [c[3] for c in cases])[len(setup):]
    parsed = 0
    rejected = 0
    chunked = 0
    ts_cases = []
    for (desc, real_pops, res, line, orc), out in zip(cases, outs):
        ctx.evaluations += 1
        ctx.traces += 1
        if isinstance(res, Exception):
            if desc['duplicate_category']:
                rejected += 1
            else:
                ctx.fail(f'depccg.parsing.run raised {type(res).__name__}: {res}', desc, fingerprint=['lazy-raise', type(res).__name__])
            if out != 'err RuntimeError':
                ctx.disagree('lazyrun', desc, out[:200], 'RuntimeError')
            continue
        why = lazy_oracle(*orc, res)
        if why is None and len(orc[0]) >= 2 and not desc['duplicate_category']:
            # C11 / C10 on the real code: a sentence of the call against the same sentence parsed alone
            sents_, cats_, roots_, bf_, uf_, ml_ = orc
            for si in (range(len(sents_)) if desc.get('fail_some') else rng.sample(range(len(sents_)), min(2, len(sents_)))):
                p_, toks_ = sents_[si]
                try:
                    alone = native.setup()['parsing'].run([toks_], [G.scoring(p_)], list(cats_), list(roots_), bf_, uf_,
                                                          unary_penalty=p_.penalty / S.SCALE, beta=p_.beta, use_beta=p_.use_beta,
                                                          pruning_size=p_.pruning, nbest=p_.nbest, max_step=p_.max_step, max_length=ml_,
                                                          processes=1, max_chunk_size=1000)
                except Exception as e:
                    why = f'sentence {si} parsed alone raised {type(e).__name__}'
                    break
                if G.canon_results(alone)[0] != G.canon_results([res[si]])[0]:
                    a, b = G.canon_results(alone)[0], G.canon_results([res[si]])[0]
                    why = (f'sentence {si}: in the call it yields {len(b)} result(s) {str(b)[:200]}, parsed alone {len(a)} result(s) '
                           f'{str(a)[:200]}')
                    break
        if why is None and desc['duplicate_category']:
            why = 'a category list naming one category twice was not rejected'
        if why:
            ctx.fail(why, desc, fingerprint=['lazy-oracle', why.split(':')[-1].strip()[:40]])
        if not out.startswith('ok'):
            ctx.disagree('lazyrun', desc, out[:200], 'a result list', line=line[:3000])
            continue
        _, msents = parse_lazy_output(out)
        mpops = [q for _, pops, _ in msents for q in pops]
        if desc['chunking']:
            chunked += 1          # the searches ran in worker processes: no pop trace, results only
        elif mpops != list(real_pops):
            k = 0
            while k < min(len(mpops), len(real_pops)) and mpops[k] == real_pops[k]:
                k += 1
            ctx.disagree('lazyrun', desc, f"pop {k}: {mpops[k] if k < len(mpops) else None}",
                         f"pop {k}: {real_pops[k] if k < len(real_pops) else None}",
                         note='pop traces of the whole call differ (model: Lean rule functions + lazy cache + search)',
                         line=line[:3000])
            continue
        if len(msents) != len(res):
            ctx.disagree('lazyrun', desc, f'{len(msents)} results', f'{len(res)} results')
            continue
        ok = True
        for si, ((kind, _, mres), trees) in enumerate(zip(msents, res)):
            failed = len(trees) == 1 and trees[0].score == -float('inf')
            if (kind == 'F') != failed or kind == 'E':
                ctx.disagree('lazyrun', desc, kind, 'failed' if failed else 'parsed')
                ok = False
                break
            if failed:
                continue
            got = [(S.to_int(t.score), T.enc_tree(t.tree)) for t in trees]
            # C09 on the real objects: the Lean function `treeScore` (theorem tree_score) applied to the real tree
            psent = orc[0][si][0]
            for sc_int, enc in got:
                ts_cases.append(('treescore', ' '.join(
                    ['treescore', str(len(orc[1]))] + [enc_cat(c) for c in orc[1]] + [str(psent.penalty), str(psent.n)]
                    + [str(v) for row in psent.tags for v in row] + [str(v) for row in psent.deps for v in row] + [enc]),
                    f'ok {sc_int}', desc))
            if got != mres:
                k = 0
                while k < min(len(got), len(mres)) and got[k] == mres[k]:
                    k += 1
                ctx.disagree('lazyrun', desc, str(mres[k] if k < len(mres) else None)[:600], str(got[k] if k < len(got) else None)[:600],
                             note=f'returned tree / score {k} differs')
                ok = False
                break
            parsed += 1
        if ok and any(k == 'T' for k, _, _ in msents):
            ctx.nontrivial_add(json.dumps(desc, sort_keys=True)[:3000])
    common.compare_with_model(ctx, ts_cases)
    ctx.extra['treescore_on_real_trees' + ('_batch' if batch else '')] = len(ts_cases)
    ctx.extra['lazy_cases' + ('_batch' if batch else '')] = len(cases)
    ctx.extra['lazy_parsed_sentences' + ('_batch' if batch else '')] = parsed
    ctx.extra['lazy_rejected_duplicate_lists' + ('_batch' if batch else '')] = rejected
    ctx.extra['lazy_chunked_calls' + ('_batch' if batch else '')] = chunked


def option_sequence_scenario(ctx, rounds):
    """several depccg.parsing.run calls in ONE process with the SAME grammar functions and documents longer
    than max_chunk_size (worker pool), each call with its own beam / n-best options: every call must be
    decided by its own options (leaf tags admitted under them, result = the single-process result)"""
    import importlib
    C11 = importlib.import_module('checks.C11')
    rng = ctx.rng
    if not ensure_native(ctx):
        return
    parsing = native.setup()['parsing']
    done = 0
    for _ in range(rounds):
        base, cats, gram, sents = C11.make_batch(rng, rng.randint(21, 24))
        base.nbest = 1
        doc = [G.tokens_for(p, tag=str(i)) for i, p in enumerate(sents)]
        scores = [G.scoring(p) for p in sents]
        settings = [dict(pruning=50, use_beta=False, beta=0.5), dict(pruning=1, use_beta=False, beta=0.5),
                    dict(pruning=50, use_beta=True, beta=0.5), dict(pruning=2, use_beta=True, beta=0.1)]
        rng.shuffle(settings)
        for st in settings[:3]:
            for p in sents:
                p.pruning, p.use_beta, p.beta, p.nbest = st['pruning'], st['use_beta'], st['beta'], 1
            desc = dict(scenario='several run calls, same grammar functions, worker pool', options=st, sentences=len(sents),
                        categories=[str(c) for c in cats])
            try:
                kw = dict(unary_penalty=base.penalty / S.SCALE, beta=st['beta'], use_beta=st['use_beta'], pruning_size=st['pruning'], nbest=1,
                          max_step=base.max_step)
                pooled = parsing.run(doc, scores, cats[:base.T], [cats[r] for r in base.roots], gram.binary, gram.unary,
                                     processes=2, max_chunk_size=20, **kw)
                plain = parsing.run(doc, scores, cats[:base.T], [cats[r] for r in base.roots], gram.binary, gram.unary,
                                    processes=1, max_chunk_size=1000, **kw)
            except Exception as e:
                ctx.fail(f'depccg.parsing.run raised {type(e).__name__}: {e}', desc, fingerprint=['option-seq-raise'])
                break
            ctx.evaluations += 1
            bad = None
            for si, (p, toks, trees) in enumerate(zip(sents, doc, pooled)):
                if len(trees) == 1 and trees[0].score == -float('inf'):
                    continue
                admitted = S.admitted_tags(p)
                why = validate_real_tree(p, cats, gram, toks, trees[0].tree, admitted)
                if why:
                    bad = f'sentence {si}: ' + why + f' (options of this call: {st})'
                    break
            if bad is None and G.canon_results(pooled) != G.canon_results(plain):
                k = next(i for i, (a, b) in enumerate(zip(G.canon_results(pooled), G.canon_results(plain))) if a != b)
                bad = f'sentence {k}: the result through the worker pool differs from the result of one call in this process (options {st})'
            if bad:
                ctx.fail(bad, desc, fingerprint=['option-seq'])
                break
            done += 1
    ctx.extra['option_sequence_calls'] = done
