"""Glue-level suites: real depccg.parsing.run (translated parsing.pyx + real C++), real objects.
Used by C02 C09 C12 (single sentences) and C11 (batches)."""
import json
import multiprocessing
import os
import subprocess
import sys

import numpy

import common
import glue_common as G
import native
import search_common as S
from depccg.types import Token, ScoringResult


def ensure_native(ctx):
    try:
        native.setup()
        return True
    except Exception as e:
        ctx.disagree('native', 'shim/glue build', 'model available', f'implementation not runnable: {e}')
        return False


# ---- oracles on real trees ------------------------------------------------------------------------

def validate_real_tree(p, cats, gram, tokens, tree, admitted):
    """None or reason; independent walk over the real Tree"""
    ids = {c: i for i, c in enumerate(cats)}
    leaves = tree.leaves
    if len(leaves) != p.n:
        return f'{len(leaves)} leaves for {p.n} tokens'
    for i, leaf in enumerate(leaves):
        if leaf.token is not tokens[i] and dict(leaf.token) != dict(tokens[i]):
            return f'leaf {i} does not carry input token {i}'
        cid = ids.get(leaf.cat)
        if cid is None or cid not in admitted[i]:
            return f'leaf {i} carries a supertag that was not admitted'

    def rec(node):
        if node.is_leaf:
            return None
        kids = node.children
        if len(kids) == 1:
            rs = gram.unary(kids[0].cat)
        else:
            rs = gram.binary(kids[0].cat, kids[1].cat)
        if not any(r.cat == node.cat for r in rs):
            return f'node {node.cat} is not a grammar result for its children'
        for k in kids:
            why = rec(k)
            if why:
                return why
        return None
    why = rec(tree)
    if why:
        return why
    if ids.get(tree.cat) not in p.roots:
        return 'root category is not an allowed root'
    if p.n > 1 and tree.is_unary:
        return 'unary step at the root of a multi-word sentence'
    return None


def labels_real_tree(gram, tree):
    """None or reason: every node carries label, symbol and head direction of one grammar result
    for its children that has the node's category"""
    if tree.is_leaf:
        return None
    kids = tree.children
    rs = gram.unary(kids[0].cat) if len(kids) == 1 else gram.binary(kids[0].cat, kids[1].cat)
    ok = False
    for r in rs:
        if r.cat == tree.cat and r.op_string == tree.op_string and r.op_symbol == tree.op_symbol:
            if len(kids) == 1 or bool(r.head_is_left) == bool(tree.head_is_left):
                ok = True
    if not ok:
        return (f'node {tree.cat} labelled {tree.op_string}/{tree.op_symbol} head_left={tree.head_is_left}; grammar results: '
                + str([(str(r.cat), r.op_string, r.op_symbol, r.head_is_left) for r in rs]))
    for k in kids:
        why = labels_real_tree(gram, k)
        if why:
            return why
    return None


def rescore_real_tree(p, cats, tree):
    """model score recomputed from the real tree, heads from its head flags (1/SCALE units)"""
    ids = {c: i for i, c in enumerate(cats)}
    counter = [0]

    def rec(node):
        if node.is_leaf:
            i = counter[0]
            counter[0] += 1
            return p.tags[i][ids[node.cat]], i
        if node.is_unary:
            s, h = rec(node.children[0])
            return s - p.penalty, h
        sl, hl = rec(node.children[0])
        sr, hr = rec(node.children[1])
        head, child = (hl, hr) if node.head_is_left else (hr, hl)
        return sl + sr + p.deps[child][head + 1], head
    s, h = rec(tree)
    return s + p.deps[h][0]


def real_grammar_suite(ctx, oracles, count, nbest=False):
    """small sentences parsed by the real depccg.parsing.run with the real English / Japanese rule
    functions and unary tables; the functions are tabulated on the closure of the sentence's
    categories so that the model and the enumeration oracle see the same grammar"""
    rng = ctx.rng
    items = []
    tries = 0
    while len(items) < count and tries < count * 6:
        tries += 1
        lang = 'ja' if tries % 3 == 0 else 'en'
        r = G.real_grammar_problem(rng, lang)
        if r is not None:
            if nbest:
                r[0].nbest = rng.choice([2, 3, 5])
            items.append(r)
    ctx.extra['real_grammar_problems'] = len(items)
    single_suite(ctx, oracles, [], 0, items=items)


def single_suite(ctx, oracles, gen_kwargs_list, count, items=None):
    """one-sentence calls of depccg.parsing.run, compared with the model's expected trees"""
    from driver import run_lines
    rng = ctx.rng
    if not ensure_native(ctx):
        return
    given = items is not None
    items = [it if len(it) == 5 else it + (None,) for it in (items or [])]
    per = max(1, count // max(1, len(gen_kwargs_list)))
    for kw in gen_kwargs_list:
        for _ in range(per):
            p = S.random_problem(rng, **kw)
            K = G.problem_K(p)
            cats = G.category_pool(K, rng)
            gram = G.TableGrammar(cats, p.bin, p.un)
            toks = G.tokens_for(p)
            items.append((p, cats, gram, toks, None))
    # very long searches are not sent to the (quadratic) model
    big = []
    for p, _, _, _, _ in items:
        try:
            big.append(len(S.run_cpp(p)['pops']) > 4000)
        except Exception:
            big.append(True)
    lines = [S.model_line(p) for (p, _, _, _, _), b in zip(items, big) if not b]
    model_ok = ctx.lean is None or ctx.lean.driver_ok
    small = iter(run_lines(lines) if model_ok else [None] * len(lines))
    outs = [None if b else next(small) for b in big]
    stats = {'parsed': 0, 'failed': 0, 'ties': 0}
    retrieve_cases = []
    import tree_common as T
    for (p, cats, gram, toks, funcs), mline in zip(items, outs):
        desc = p.to_json()
        desc['categories'] = [str(c) for c in cats]
        ctx.evaluations += 1
        try:
            res = G.run_real(p, cats, gram, [toks], [G.scoring(p)], max_length=250, processes=1, max_chunk_size=20, funcs=funcs)
        except Exception as e:
            ctx.fail(f'depccg.parsing.run raised {type(e).__name__}: {e}', desc, fingerprint=['glue-raise', type(e).__name__])
            continue
        if len(res) != 1:
            ctx.fail(f'{len(res)} result lists for one sentence', desc, fingerprint=['glue-align'])
            continue
        trees = res[0]
        failed = len(trees) == 1 and trees[0].score == -float('inf')
        stats['failed' if failed else 'parsed'] += 1
        admitted = S.admitted_tags(p)
        if 'optimal' in oracles and p.n <= 4:
            try:
                chart = S.enumerate_derivations(p, admitted, limit=60000)
                roots = S.root_derivations(p, chart)
                best = max((s for s, _ in roots), default=None)
                if not p.head_uniform:
                    ctx.fail('the grammar function returned results with different head directions: the search order no longer '
                             'guarantees the best parse', desc, fingerprint=['glue-head-uniform'])
                elif failed and roots:
                    ctx.fail('sentence reported as failed although the grammar licenses a derivation', desc, fingerprint=['glue-spurious-failure'])
                elif not failed and p.nbest >= 1 and (best is None or S.to_int(trees[0].score) != best):
                    ctx.fail(f'first parse scores {S.to_int(trees[0].score)}, the best licensed derivation scores {best} (1/{S.SCALE})', desc,
                             fingerprint=['glue-optimal'])
            except OverflowError:
                pass
        if not failed:
            ctx.nontrivial_add(json.dumps(desc, sort_keys=True))
            for tree, score in trees:
                if 'valid' in oracles:
                    why = validate_real_tree(p, cats, gram, toks, tree, admitted)
                    if why:
                        ctx.fail('returned tree is not licensed: ' + why, desc, fingerprint=['glue-valid', why.split(' ')[0]])
                if 'labels' in oracles:
                    why = labels_real_tree(gram, tree)
                    if why:
                        ctx.fail('a node does not carry label / symbol / head direction of the grammar result that created it: '
                                 + why, desc, fingerprint=['glue-labels'])
                if 'score' in oracles:
                    try:
                        want = rescore_real_tree(p, cats, tree)
                        got = S.to_int(score)
                        if want != got:
                            ctx.fail(f'reported score {got} but the returned tree (with its head flags) recomputes to {want} '
                                     f'(1/{S.SCALE})', desc, fingerprint=['glue-score'])
                    except KeyError:
                        pass
        else:
            t = trees[0].tree
            if 'valid' in oracles and not (t.is_leaf and t.word == 'FAILED' and str(t.cat) == 'NP'):
                ctx.fail('failure is not reported by the explicit placeholder', desc, fingerprint=['glue-placeholder'])
        # ---- correspondence with the model ------------------------------------------------
        if mline is None:
            continue
        m, mres = G.model_results(mline)
        ctx.traces += 1
        words = [t.word for t in toks]
        got = G.canon_results(res)[0]
        if (m['status'] == 1) != failed:
            ctx.disagree('run', desc, f"status {m['status']}", 'failed' if failed else 'parsed')
            continue
        if failed:
            continue
        if m['tie']:
            stats['ties'] += 1        # compared exactly all the same: the model's agenda is the real heap
        want = [(s, G.expected_tree(p, cats, gram, words, d)) for s, d in mres]
        if want != got:
            ctx.disagree('run', desc, json.dumps(want)[:700], json.dumps(got)[:700], note='trees/labels/heads/scores differ')
        # the model of retrieve_tree (lean/Depccg/GlueTree.lean) on the same derivation and tables
        for (sc, d), (tree, _) in zip(mres, trees):
            retrieve_cases.append(('retrieve', G.retrieve_line(p, cats, gram, toks, d), 'ok ' + T.enc_tree(tree), desc))
    ctx.extra['glue_stats'] = stats
    ctx.extra['retrieve_cases'] = len(retrieve_cases)
    common.compare_with_model(ctx, retrieve_cases)
