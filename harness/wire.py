"""Wire format shared with lean/Depccg/Wire.lean (DESIGN.md Appendix B)."""
from depccg.cat import Category, Atom, Functor, UnaryFeature, TernaryFeature, Feature


def enc_str(s: str) -> str:
    return 's' + '_'.join(format(ord(c), 'x') for c in s)


def dec_str(t: str) -> str:
    assert t[0] == 's', t
    if len(t) == 1:
        return ''
    return ''.join(chr(int(h, 16)) for h in t[1:].split('_'))


class Garbage(Exception):
    """the object is not a well-typed category value"""


def enc_feat(f) -> list:
    if type(f) is UnaryFeature:
        if f.value is None:
            return ['N']
        if not isinstance(f.value, str):
            raise Garbage()
        return ['U', enc_str(f.value)]
    if type(f) is TernaryFeature:
        out = ['T']
        for kv in (f.kv1, f.kv2, f.kv3):
            if not (isinstance(kv, tuple) and len(kv) == 2
                    and all(isinstance(x, str) for x in kv)):
                raise Garbage()
            out += [enc_str(kv[0]), enc_str(kv[1])]
        return out
    raise Garbage()


def enc_cat_l(c) -> list:
    if type(c) is Atom:
        if not isinstance(c.base, str):
            raise Garbage()
        return ['A', enc_str(c.base)] + enc_feat(c.feature)
    if type(c) is Functor:
        if not (isinstance(c.slash, str) and len(c.slash) == 1):
            raise Garbage()
        return ['F'] + enc_cat_l(c.left) + [str(ord(c.slash))] + enc_cat_l(c.right)
    raise Garbage()


def enc_cat(c) -> str:
    return ' '.join(enc_cat_l(c))


def dec_feat(ts, i):
    t = ts[i]
    if t == 'N':
        return UnaryFeature(), i + 1
    if t == 'U':
        return UnaryFeature(dec_str(ts[i + 1])), i + 2
    if t == 'T':
        v = [dec_str(x) for x in ts[i + 1:i + 7]]
        return TernaryFeature((v[0], v[1]), (v[2], v[3]), (v[4], v[5])), i + 7
    raise ValueError(t)


def dec_cat_at(ts, i):
    t = ts[i]
    if t == 'A':
        base = dec_str(ts[i + 1])
        f, j = dec_feat(ts, i + 2)
        return Atom(base, f), j
    if t == 'F':
        l, j = dec_cat_at(ts, i + 1)
        slash = chr(int(ts[j]))
        r, k = dec_cat_at(ts, j + 1)
        return Functor(l, slash, r), k
    raise ValueError(t)


def dec_cat(s: str):
    ts = s.split(' ')
    c, i = dec_cat_at(ts, 0)
    assert i == len(ts)
    return c


_ERR = {
    KeyError: 'KeyError', AssertionError: 'AssertionError', IndexError: 'IndexError',
    TypeError: 'TypeError', AttributeError: 'AttributeError', RuntimeError: 'RuntimeError',
    ValueError: 'ValueError',
}


def err_name(e: BaseException) -> str:
    for k, v in _ERR.items():
        if type(e) is k:
            return v
    for k, v in _ERR.items():
        if isinstance(e, k):
            return v
    return type(e).__name__


def b01(b) -> str:
    return '1' if b else '0'
