// C ABI around /repo/depccg/parsing.h so that the real search runs without Cython.
// The header forgets <climits> (Cython's generated code normally supplies it).
#include <climits>
#include <cstring>
#include "parsing.h"

extern "C"
{

    unsigned vp_sizeof_item() { return sizeof(parsing::cell_item); }
    unsigned vp_sizeof_config() { return sizeof(config); }

    void *vp_cache_new() { return new cache_type(); }
    void vp_cache_free(void *c) { delete static_cast<cache_type *>(c); }
    unsigned vp_cache_size(void *c) { return static_cast<cache_type *>(c)->size(); }

    // 0 ok, 1 key missing, 2 index out of range (both undefined behaviour / exceptions in C++)
    int vp_cache_get(void *c, unsigned first, unsigned second, unsigned index,
                     unsigned *cat_id, unsigned *rule_id, int *head_is_left,
                     const char **op_string, const char **op_symbol)
    {
        cache_type *cache = static_cast<cache_type *>(c);
        auto it = cache->find(std::make_pair(first, second));
        if (it == cache->end())
            return 1;
        if (index >= it->second.size())
            return 2;
        const combinator_result &r = it->second[index];
        *cat_id = r.cat_id;
        *rule_id = r.rule_id;
        *head_is_left = r.head_is_left ? 1 : 0;
        *op_string = r.op_string.c_str();
        *op_symbol = r.op_symbol.c_str();
        return 0;
    }

    void vp_results_push(void *results, unsigned cat_id, unsigned rule_id, int head_is_left,
                         const char *op_string, const char *op_symbol)
    {
        std::vector<combinator_result> *v = static_cast<std::vector<combinator_result> *>(results);
        combinator_result r;
        r.cat_id = cat_id;
        r.rule_id = rule_id;
        r.head_is_left = head_is_left != 0;
        r.op_string = op_string;
        r.op_symbol = op_symbol;
        v->push_back(r);
    }

    float vp_item_score(const parsing::cell_item *item) { return item->score(); }

    void vp_set_pop_hook(void (*hook)(const parsing::cell_item *)) { depccg_verif_pop_hook = hook; }

    static char vp_last_error[512];
    const char *vp_error() { return vp_last_error; }

    // the configuration struct is passed by pointer and lives across the sentences of one `run`
    // call in the Cython glue: whatever parse_sentence writes into it must be seen by the next call
    static config vp_cfg_after;
    void vp_cfg_get(unsigned *num_tags, float *unary_penalty, float *beta, int *use_beta,
                    unsigned *pruning_size, unsigned *nbest, unsigned *max_step)
    {
        *num_tags = vp_cfg_after.num_tags;
        *unary_penalty = vp_cfg_after.unary_penalty;
        *beta = vp_cfg_after.beta;
        *use_beta = vp_cfg_after.use_beta ? 1 : 0;
        *pruning_size = vp_cfg_after.pruning_size;
        *nbest = vp_cfg_after.nbest;
        *max_step = vp_cfg_after.max_step;
    }

    // returns the status of parse_sentence, or -1 when a C++ exception escaped
    int vp_parse_sentence(float *tag_scores, float *dep_scores, unsigned length,
                          const unsigned *roots, unsigned nroots,
                          void *binary_callback, void *unary_callback,
                          finalizer_type finalizer, scaffold_type scaffold, void *finalizer_args,
                          void *cache,
                          unsigned num_tags, float unary_penalty, float beta, int use_beta,
                          unsigned pruning_size, unsigned nbest, unsigned max_step)
    {
        std::unordered_set<unsigned> root_set(roots, roots + nroots);
        config cfg;
        cfg.num_tags = num_tags;
        cfg.unary_penalty = unary_penalty;
        cfg.beta = beta;
        cfg.use_beta = use_beta != 0;
        cfg.pruning_size = pruning_size;
        cfg.nbest = nbest;
        cfg.max_step = max_step;
        int status;
        try
        {
            status = (int)parse_sentence(tag_scores, dep_scores, length, root_set, binary_callback,
                                         unary_callback, finalizer, scaffold, finalizer_args,
                                         static_cast<cache_type *>(cache), &cfg);
        }
        catch (const std::exception &e)
        {
            std::strncpy(vp_last_error, e.what(), sizeof(vp_last_error) - 1);
            status = -1;
        }
        catch (...)
        {
            std::strncpy(vp_last_error, "unknown C++ exception", sizeof(vp_last_error) - 1);
            status = -1;
        }
        vp_cfg_after = cfg;
        return status;
    }
}
