import json,glob,sys,collections
pid=sys.argv[1]
fs=sorted(glob.glob(f'/verif/build/replay/{pid}-*'))
r=json.load(open(fs[-1]))
ds=r.get('disagreements') or []
if 'model_output' in r: ds=[r]+r.get('more',[])
print(r['kind'], r.get('failure_kinds'))
seen=collections.Counter()
for d in ds:
    seen[d['op']]+=1
    if seen[d['op']]>int(sys.argv[2]) if len(sys.argv)>2 else 2: continue
    m,i=d['model_output'],d['impl_output']
    k=0
    while k<min(len(m),len(i)) and m[k]==i[k]: k+=1
    print('==',d['op'], json.dumps(d['input'],ensure_ascii=False)[:500])
    print('   M:', m[max(0,k-80):k+120]); print('   I:', i[max(0,k-80):k+120])
print(seen)
