"""Regenerates /verif/MANIFEST.json from the table below (run by hand after adding a check)."""
import json
import os

VERIF = os.path.dirname(os.path.dirname(os.path.abspath(__file__)))

BASELINE_OFF = ("cd /repo && env -u DEPCCG_VERIF /venv/bin/python -m pytest -ra -q -p no:cacheprovider "
                "--timeout=900 --continue-on-collection-errors")

ALL = ['C%02d' % i for i in range(1, 21)]

# pid -> (technique, level text, level note, design ref)
T_PROOF = ('Lean 4 theorems (kernel-checked, no sorry, axioms audited) over a hand-written executable model + '
           'differential correspondence model vs real code on generated inputs + independent oracle on the real code')
NOTE = ('Trusted: Lean 4.33 kernel; axioms propext/Classical.choice/Quot.sound only; the statements in lean/Depccg/Props; '
        'the hand-written model is tied to the code by differential testing on every run (not by proof); ')

CLAIMED = {
    'C05': (T_PROOF,
            'Proved for all category values / all well-formed texts (no size bound): parse(print c) = c for every well-formed '
            'value; every well-formed text of a value (arbitrary redundant round/angle brackets, blanks between tokens) reads '
            'to that value, and the printed text is such a text; text with two unbracketed slashes at one level is rejected '
            '(RuntimeError at top level, AssertionError inside brackets). Model (tokenizer, shift-reduce loop, printer) is '
            'diffed against Category.parse/str on ~45k texts per run incl. every shipped category string and a malformed '
            'stream; an independent recursive-descent reader is the oracle.',
            NOTE + 'inputs on which the real reader builds ill-typed objects are outside the model (reported as Unsupported, not compared).',
            'DESIGN.md §4 C05'),
    'C06': (T_PROOF,
            'Proved: for linear patterns with single-letter variables (all 13 grammar pattern pairs, checked by decide) and '
            'inputs of one feature system, matching succeeds iff shape, shared-variable feature-blind identity and positionwise '
            'feature compatibility hold (stated declaratively, both directions); bindings are the last matched sub-category '
            'with at most its variable features replaced by input features; unknown variable = KeyError; no binding before a '
            'call or after a failure; a matcher answers once. Model diffed against the real Unification on ~90k cases per run '
            '(pattern-instantiated and perturbed pairs, random linear patterns, mixed-system malformed stream); a declarative '
            'matcher written from the statement is the oracle.',
            NOTE + 'CPython dict order is modelled as insertion order.',
            'DESIGN.md §4 C06'),
    'C13': (T_PROOF,
            'Proved for all categories of any size: equality is structural, the hashed key is coherent with and determined by '
            'the value, string comparison holds exactly for the canonical text, feature-blind comparison is an equivalence '
            'strictly coarser than equality, clear_features removes exactly the named features (idempotent, nothing else '
            'changes). Model diffed against the real objects on >200k operations per run; an independent oracle states the '
            'laws directly on the real objects (incl. real hash()/dict/set).',
            NOTE + 'CPython hash()/dict semantics are observed, not modelled.',
            'DESIGN.md §4 C13'),
    'C14': (T_PROOF,
            'Proved: seen-rule gate (en: key with X/nb erased; ja: raw pair) gives exactly the unrestricted result or []; '
            'English results do not depend on nb; unary rules return exactly the configured targets in order; totality of the '
            'English/Japanese binary rules on their own feature system; success of matching is independent of the visiting '
            'order of shared variables, bindings too unless one variable is bound twice to different values (witness proved: '
            'the hash-seed dependence repaired by a fix: commit). Purity is what being a Lean function means; the real code is '
            'checked for it by snapshots, double evaluation, a Pool worker and fresh interpreters under several '
            'PYTHONHASHSEED values on every run.',
            NOTE + 'interpreter hashing / process behaviour is observed by the cross-process correspondence only.',
            'DESIGN.md §4 C14'),
}

REASON_PENDING = 'check not yet built in this session (model/theorems planned in DESIGN.md §4); not claimed until it runs'


def main():
    checks = []
    for pid in ALL:
        if pid not in CLAIMED:
            continue
        tech, text, note, ref = CLAIMED[pid]
        checks.append({
            'property_id': pid,
            'quick_cmd': f'./check {pid} --tier quick',
            'thorough_cmd': f'./check {pid} --tier thorough',
            'evidence_file': f'/verif/evidence/{pid}.json',
            'replay_cmd_template': f'./check {pid} --replay {{path}}',
            'engine': 'lean+harness',
            'level_claimed': {'category': 'proof', 'text': text, 'design_ref': ref},
            'level_note': note,
            'technique': tech,
        })
    man = {
        'version': 1,
        'setup_cmd': './setup.sh',
        'hooks': {
            'guard': 'DEPCCG_VERIF',
            'enable': 'export DEPCCG_VERIF=1 (done by ./check); the pop hook in depccg/parsing.h is compiled in always and is inert unless the variable is set and a hook function is installed',
            'baseline_off_cmd': BASELINE_OFF,
            'source_commits': [],
            'add_only': True,
        },
        'engines': [
            {'name': 'lean', 'path': 'lean/', 'serves_properties': sorted(CLAIMED), 'kind_free_text': 'Lean 4 models, theorems (Depccg/Props), compiled line-protocol driver'},
            {'name': 'harness', 'path': 'harness/', 'serves_properties': sorted(CLAIMED), 'kind_free_text': 'Python correspondence harness, generators, independent oracles, verdicts'},
        ],
        'checks': checks,
        'notes': 'Technique family: machine-checked proof in Lean 4. See DESIGN.md.',
        'not_applicable': [{'property_id': p, 'reason': REASON_PENDING} for p in ALL if p not in CLAIMED],
    }
    hooks_file = os.path.join(VERIF, 'hooks.json')
    if os.path.exists(hooks_file):
        man['hooks'].update(json.load(open(hooks_file)))
    with open(os.path.join(VERIF, 'MANIFEST.json'), 'w') as f:
        json.dump(man, f, indent=1)
    print('wrote MANIFEST.json with', len(checks), 'checks')


if __name__ == '__main__':
    main()
