"""Regenerates /verif/MANIFEST.json from the table below (run by hand after adding a check)."""
import json
import os

VERIF = os.path.dirname(os.path.dirname(os.path.abspath(__file__)))

BASELINE_OFF = ("cd /repo && env -u DEPCCG_VERIF /venv/bin/python -m pytest -ra -q -p no:cacheprovider "
                "--timeout=900 --continue-on-collection-errors")

ALL = ['C%02d' % i for i in range(1, 21)]

# pid -> (technique, level text, level note, design ref)
CLAIMED = {
    'C13': (
        'Lean 4 theorems over a hand-written model of cat.py + differential correspondence (driver vs real objects) + value-law oracle',
        'Machine-checked proof (Lean 4 kernel) that in the model of depccg/cat.py equality is structural, the hashed key is '
        'coherent with and determined by the value, string comparison holds exactly for the canonical text, feature-blind '
        'comparison is an equivalence strictly coarser than equality, and clear_features removes exactly the named features '
        '(idempotent, nothing else changes) - for all categories of any size. The model is tied to the code on every run by '
        'running model and implementation on the same >200k operations and diffing the answers; an independent oracle states '
        'the laws directly on the real objects (incl. real hash()/dict/set).',
        'Trusted: Lean kernel; axioms propext/Classical.choice/Quot.sound only; the hand-written model is tied to cat.py by '
        'differential testing (not by proof); CPython hash()/dict semantics are observed, not modelled.',
        'DESIGN.md §4 C13'),
}

REASON_PENDING = 'check not yet built in this session (model/theorems planned in DESIGN.md §4); not claimed until it runs'


def main():
    checks = []
    for pid in ALL:
        if pid not in CLAIMED:
            continue
        tech, text, note, ref = CLAIMED[pid]
        checks.append({
            'property_id': pid,
            'quick_cmd': f'./check {pid} --tier quick',
            'thorough_cmd': f'./check {pid} --tier thorough',
            'evidence_file': f'/verif/evidence/{pid}.json',
            'replay_cmd_template': f'./check {pid} --replay {{path}}',
            'engine': 'lean+harness',
            'level_claimed': {'category': 'proof', 'text': text, 'design_ref': ref},
            'level_note': note,
            'technique': tech,
        })
    man = {
        'version': 1,
        'setup_cmd': './setup.sh',
        'hooks': {
            'guard': 'DEPCCG_VERIF',
            'enable': 'export DEPCCG_VERIF=1 (done by ./check); the pop hook in depccg/parsing.h is compiled in always and is inert unless the variable is set and a hook function is installed',
            'baseline_off_cmd': BASELINE_OFF,
            'source_commits': [],
            'add_only': True,
        },
        'engines': [
            {'name': 'lean', 'path': 'lean/', 'serves_properties': sorted(CLAIMED), 'kind_free_text': 'Lean 4 models, theorems (Depccg/Props), compiled line-protocol driver'},
            {'name': 'harness', 'path': 'harness/', 'serves_properties': sorted(CLAIMED), 'kind_free_text': 'Python correspondence harness, generators, independent oracles, verdicts'},
        ],
        'checks': checks,
        'notes': 'Technique family: machine-checked proof in Lean 4. See DESIGN.md.',
        'not_applicable': [{'property_id': p, 'reason': REASON_PENDING} for p in ALL if p not in CLAIMED],
    }
    hooks_file = os.path.join(VERIF, 'hooks.json')
    if os.path.exists(hooks_file):
        man['hooks'].update(json.load(open(hooks_file)))
    with open(os.path.join(VERIF, 'MANIFEST.json'), 'w') as f:
        json.dump(man, f, indent=1)
    print('wrote MANIFEST.json with', len(checks), 'checks')


if __name__ == '__main__':
    main()
