"""Regenerates /verif/MANIFEST.json from the table below (run by hand after adding a check)."""
import json
import os

VERIF = os.path.dirname(os.path.dirname(os.path.abspath(__file__)))

BASELINE_OFF = ("cd /repo && env -u DEPCCG_VERIF /venv/bin/python -m pytest -ra -q -p no:cacheprovider "
                "--timeout=900 --continue-on-collection-errors")

ALL = ['C%02d' % i for i in range(1, 21)]

# pid -> (technique, level text, level note, design ref)
T_PROOF = ('Lean 4 theorems (kernel-checked, no sorry, axioms audited) over a hand-written executable model + '
           'differential correspondence model vs real code on generated inputs + independent oracle on the real code')
NOTE = ('Trusted: Lean 4.33 kernel; axioms propext/Classical.choice/Quot.sound only; the statements in lean/Depccg/Props; '
        'the hand-written model is tied to the code by differential testing on every run (not by proof); ')

CLAIMED = {
    'C05': (T_PROOF,
            'Proved for all category values / all well-formed texts (no size bound): parse(print c) = c for every well-formed '
            'value; every well-formed text of a value (arbitrary redundant round/angle brackets, blanks between tokens) reads '
            'to that value, and the printed text is such a text; text with two unbracketed slashes at one level is rejected '
            '(RuntimeError at top level, AssertionError inside brackets); and carried to the output of the parser: every category '
            'of every tree run returns is well-formed and reads back from its own text when the caller\'s categories and the unary '
            'targets are (output_cats_roundtrip); the range of the reader is characterised exactly (parse_wf_partial: every value read is ReadWF = well-formed up to stray square brackets as atom names / any token as a one-part feature, and every such value reads back from its own text; the unrestricted claim is refuted: parse_wf_original_false, replayed on the real reader) and read-print-read is the identity (parse_idem). Model (tokenizer, shift-reduce loop, printer) is '
            'diffed against Category.parse/str on ~45k texts per run incl. every shipped category string and a malformed '
            'stream; an independent recursive-descent reader is the oracle.',
            NOTE + 'inputs on which the real reader builds ill-typed objects are outside the model (reported as Unsupported, not compared).',
            'DESIGN.md §4 C05'),
    'C06': (T_PROOF,
            'Proved: for linear patterns with single-letter variables (all 13 grammar pattern pairs, checked by decide) and '
            'inputs of one feature system, matching succeeds iff shape, shared-variable feature-blind identity and positionwise '
            'feature compatibility hold (stated declaratively, both directions); bindings are the last matched sub-category '
            'with at most its variable features replaced by input features; unknown variable = KeyError; no binding before a '
            'call or after a failure; a matcher answers once. Model diffed against the real Unification on ~90k cases per run '
            '(pattern-instantiated and perturbed pairs, random linear patterns, mixed-system malformed stream); a declarative '
            'matcher written from the statement is the oracle.',
            NOTE + 'CPython dict order is modelled as insertion order.',
            'DESIGN.md §4 C06'),
    'C13': (T_PROOF,
            'Proved for all categories of any size: equality is structural, the hashed key is coherent with and determined by '
            'the value, string comparison holds exactly for the canonical text, feature-blind comparison is an equivalence '
            'strictly coarser than equality, clear_features removes exactly the named features (idempotent, nothing else '
            'changes). Model diffed against the real objects on >200k operations per run; an independent oracle states the '
            'laws directly on the real objects (incl. real hash()/dict/set).',
            NOTE + 'CPython hash()/dict semantics are observed, not modelled.',
            'DESIGN.md §4 C13'),
    'C14': (T_PROOF,
            'Proved: seen-rule gate (en: key with X/nb erased; ja: raw pair) gives exactly the unrestricted result or []; '
            'English results do not depend on nb; unary rules return exactly the configured targets in order; totality of the '
            'English/Japanese binary rules on their own feature system; success of matching is independent of the visiting '
            'order of shared variables, bindings too unless one variable is bound twice to different values (witness proved: '
            'the hash-seed dependence repaired by a fix: commit). Purity is what being a Lean function means; the real code is '
            'checked for it by snapshots, double evaluation, a Pool worker and fresh interpreters under several '
            'PYTHONHASHSEED values on every run. For what the program parses with: read_params as a Lean model (Config.lean, '
            'compared with the real function on in-memory configurations) with program_gate_en / program_gate_ja (a pair passes '
            'iff its erased form is the erased form of a configured pair; an empty list or --disable-seen-rules switches the gate '
            'off), program_unary_en / _ja (configured targets in file order, wherever the lines stand), read_params_total; and '
            'en_system_closed / ja_system_closed / lazy_no_raise: no rule-function call of a run over a one-system lexicon raises.',
            NOTE + 'interpreter hashing / process behaviour is observed by the cross-process correspondence only.',
            'DESIGN.md §4 C14'),
}


SEARCH_NOTE = NOTE + ('float32 rounding is outside the model (scores fed to the C++ are exactly representable, k/64; inexact '
                      'scores are used by oracle-only suites); the agenda of the model is libstdc++\'s binary heap (pickHeap), so pop '
                      'traces and result trees are compared exactly, ties included, while every theorem is proved for any admissible '
                      'agenda; the rule cache is filled lazily during the search in the model `Lazy` exactly as in parse_sentence, and '
                      'lazy_eq_final_partial proves that this equals the search over a total grammar that the theorems speak of; '
                      'the Cython glue runs as a translation to Python over ctypes (harness/pyx2py.py, pyxrt.py, shim.cpp).')
CLAIMED.update({
    'C01': (T_PROOF,
            'Proved for every sentence length, score matrix, head-uniform grammar, root set, penalty >= 0, beam and any '
            'tie-breaking: the first parse returned has the maximum model score among all licensed complete parses '
            '(first_parse_optimal), a failure with step budget left means no licensed parse exists (failure_only_if_none), '
            'and popped priorities never increase (pops_nonincreasing, any grammar). The model is diffed against the real C++ '
            'parse_sentence (compiled from /repo each run, pop hook) on ~1500 random problems per run; an exhaustive '
            'enumeration of all derivations is the oracle for optimality, failure and monotonicity on the real code. '
            'Also proved of the model of the whole call (`Lazy`: Lean rule functions + callbacks + lazily filled cache + search): '
            'lazy_first_parse_optimal, lazy_shipped_optimal_partial (both shipped grammars), lazy_pops_nonincreasing; the '
            'unrestricted forms of two statements were refuted (a tag column that is not an id of the table) and are kept with '
            'their counterexamples. Full strength (lazy_optimal_full, lazy_failure_full): the first parse is optimal among ALL '
            'complete derivations the rule functions license over the admitted supertags (stated over categories, independent '
            'of the numbering and of what the search cached), and a failure with budget left means there is none.',
            SEARCH_NOTE, 'DESIGN.md §4 C01, §7'),
    'C02': (T_PROOF,
            'Proved: every returned item carries a licensed complete parse (leaves = input tokens in order with admitted tags, '
            'every node a grammar result of its children with its rule id and head direction, allowed root, no unary step at the '
            'root of a multi-word sentence), 1-best and n-best, any tie-breaking. Model diffed against the real C++ search and, '
            'through the translated glue, against real depccg.parsing.run trees; an independent validator walks every returned '
            'real Tree.',
            SEARCH_NOTE, 'DESIGN.md §4 C02'),
    'C03': (T_PROOF,
            'Proved for all categories with unary features: every English result is justified by the schema its label names '
            '(21-constructor inductive `Justified` stated with the declarative notions of C06), head always left, labels closed '
            'under a 10-element table, features from the inputs, no bx/gbx over a bare N/NP, completeness for identical '
            'matched parts, and type preservation (en_binary_closed / en_unary_closed: results on well-formed categories are '
            'well-formed). Model diffed against en.apply_binary_rules on ~50k pairs per run (inventories, seen rules, exhaustive '
            'small universe, pattern-instantiated/perturbed); an independent per-label schema checker is the oracle.',
            NOTE, 'DESIGN.md §4 C03'),
    'C04': (T_PROOF,
            'Proved for all categories with three-part features: every Japanese result is justified by the schema its symbol '
            'names (crossed composition keeps the backward slash, generalised composition keeps outer slashes/arguments), head '
            'always right, labels closed, feature triples from the inputs, unary steps labelled by shape (ADNext/ADNint/ADV0-2/'
            'OTHER), type preservation (ja_binary_closed / ja_unary_closed). Model diffed against ja.apply_binary_rules / apply_unary_rules; schema checker + shape-label oracle.',
            NOTE, 'DESIGN.md §4 C04'),
    'C09': (T_PROOF,
            'Proved: the priority of every returned item equals the model score of its derivation (leaf tags + attachment of every '
            'non-head child by the stored head flags + root attachment - penalty per unary node), any grammar, 1-best and n-best. '
            'Diffed against the real C++ and against real trees through the glue (scores recomputed from each returned Tree with '
            'its head flags); lazy_score_accounting carries it to the lazy model of the call, and tree_score states it on the object the '
            'caller receives: the score recomputed from the returned Tree alone (Lean function treeScore, also evaluated on every real '
            'tree of the lazy suite) equals the attached score.',
            SEARCH_NOTE, 'DESIGN.md §4 C09'),
    'C10': (T_PROOF,
            'Proved for n-best mode with step budget left: no unreturned licensed parse scores more than a returned one, fewer '
            'than k results means all parses were returned, returned derivations are pairwise distinct, results sorted, at most '
            'k (also for the lazy model: lazy_nbest_topk, and against all derivations the rule functions license: lazy_nbest_full). Diffed against the real C++; oracle = full enumeration (k largest '
            'scores, distinctness, order) and, on inexact float32 scores, order and distinctness of the reported list.',
            SEARCH_NOTE, 'DESIGN.md §4 C10'),
    'C11': (T_PROOF,
            'Proved: chunking loses/duplicates/reorders nothing and the batch driver is map-solo for every chunk size and '
            'process count; shape mismatches are rejected by a function of the shapes alone; the search commutes with any '
            'injective renumbering of derived categories that fixes the lexical ids (run_rename) - the only thing batch '
            'history can change in the glue. At the level of trees, for the model of the whole call: the result of a sentence '
            '(placeholder or scored trees) and its step count do not depend on anything the call did before '
            '(lazy_history_independent), a call is map-solo (batch_eq_map_solo), and depccg.parsing.run with any chunk size / '
            'number of processes returns one result per sentence in order, each equal to parsing it alone '
            '(parsing_run_eq_map_solo); for the program as a whole (Cli.mainText, compared character by character with the real '
            'command line) the printed text is the records of each sentence parsed alone and --num-processes is irrelevant '
            '(main_eq_map_solo, main_procs_irrelevant). The real depccg.parsing.run (translated glue + real C++ + real '
            'multiprocessing.Pool) is compared: alone vs one call vs permuted vs subset vs repeated vs chunked.',
            SEARCH_NOTE + ' process scheduling, pickling and worker crashes are runtime behaviour observed by the correspondence only.',
            'DESIGN.md §4 C11'),
    'C12': (T_PROOF,
            'Proved: (a) every node of a returned derivation carries the rule id of the grammar result that created it with that '
            'result\'s category and head direction (part of `Licensed`, returned_valid); (b) guess_combinator_by_triplet returns '
            'the first rule deriving the node and unk only when none does. Glue-level correspondence checks labels/symbols/heads '
            'on real trees with grammars whose results for one pair all differ; reader labels checked on printed-and-read trees '
            '(auto, xml, jigg, ptb; files carrying foreign labels; both grammars in one process).',
            SEARCH_NOTE, 'DESIGN.md §4 C12'),
    'C16': (T_PROOF,
            'Proved: the admitted tags of a token are a prefix of its candidates in queue order, within the pruning_size best, all '
            'pass the probability test, stop at the first failure; with the filter off exactly the top pruning_size; every leaf '
            'of a returned parse carries an admitted tag. The numeric test exp(s) > exp(best)*beta is a parameter of the model '
            '(computed by the harness with the same float32 libm expf) - correspondence-only. lazy_leaf_tags_admitted carries it to '
            'the lazy model of the call and tree_beam states it on the returned Trees (the i-th leaf carries the category of a column admitted '
            'for the i-th word). The options are also given on the real command line (argparse.py -> __main__.py -> '
            'parsing.run -> print_ in-process, only the neural tagger replaced): the printed trees must respect the beam as given.',
            SEARCH_NOTE, 'DESIGN.md §4 C16, §7.2'),
})


TEXT_NOTE = NOTE + ('the guards of the text formats are explicit decidable predicates in Props/TextDefs.lean (plain words and '
                    'attribute values: non-empty, no blank/tab/newline/backslash; well-formed categories); tokens outside them '
                    'form the malformed stream on which model and code must still agree.')
CLAIMED.update({
    'C08': (T_PROOF,
            'Proved for every tree with well-formed categories of one feature system and plain token values: reading the printed '
            'AUTO line yields exactly the image tree (same categories, shape, head flags, pos, words in escaped spelling, '
            'grammar-guessed labels), printing it again reproduces the line, the conll last-column fragments concatenate to the '
            'line, and the CCGbank category repair leaves well-formed categories alone. The printers and the cursor reader are '
            'modelled to the character and diffed against auto_of / conll_of / read_auto (files on disk) on 1500 trees per run; '
            'an independent AUTO reader is the oracle. File level: what to_string prints for a whole batch is read by read_auto '
            '(model Read/File.lean incl. str.strip) to one result per tree, in order, each under its sentence\'s ID line '
            '(auto_file_roundtrip, auto_file_needs_id), and the AUTO text the whole program writes reads back '
            '(main_auto_reads_back); the header score text is exact (fmt8_roundtrip).',
            TEXT_NOTE, 'DESIGN.md §4 C08, §7.2'),
    'C15': (T_PROOF,
            'Proved: C&C XML round trip (tree, unary labels, grammar labels, the five token attributes), numbering by sentence; '
            'Jigg XML self-containedness (unique ids document-wide, references resolve, leaf spans tile, spans cover children, '
            'one root = ccg@root) for tokens without an own id entry (original statement proved false without that guard); '
            'Japanese Jigg round trip (categories, shape, words); ccg2lambda\'s build_ccg_tree yields a tree isomorphic to the '
            'derivation with the rule labels/symbols; normalize_token yields _-prefixed names free of . , ( ) ! - and is idempotent. '
            'Documents are modelled as element trees and diffed against the real lxml output; XPath oracles on the real output. '
            'The serialised text itself (lxml pretty printing, attribute escaping, ValueError on non-XML text, the jigg score '
            'attribute) is modelled to the character (Print/XmlText.lean) and compared with the real text; an XML reader written '
            'in Lean reads it back to the element trees (xml_parse_render, xml_text_decode, jigg_text_decode); composed with the round trips at file level: xml_file_roundtrip, jigg_file_roundtrip_ja; the same pipeline runs on the real files next to read_xml / read_jigg_xml (lxml).',
            NOTE + 'lxml parsing trusted (serialisation is modelled and compared); ccg2lambda semantic composition needs NLTK (absent): not covered.',
            'DESIGN.md §4 C15'),
    'C17': (T_PROOF,
            'Proved: elementwise specification of the dictionary filter (exactly the unlisted categories of dictionary words become '
            'the large negative value, everything else and the shape untouched), applicability iff every dictionary category is in '
            'the list; and, by kernel evaluation of tables re-emitted from /repo on every run, every one of the 3469 shipped '
            'category strings reads to a well-formed category and every category of cat_dict.en belongs to targets.en. '
            'Model diffed against apply_category_filters on real numpy arrays (fresh, sliced, strided and column-major); elementwise oracle; shipped files loaded with the '
            'real parser. read_params (Config.lean) hands out the configured dictionary and root categories in order (dict_roots, dict_off).',
            NOTE + 'the jsonnet-subset reader of harness/tables.py is trusted for extracting the tables.',
            'DESIGN.md §4 C17'),
    'C18': (T_PROOF,
            'In the model every renderer is a function of the parse results; the theorems state it for any sequence of formats '
            '(any_sequence, repeatable). The real printers are tied to these functions by the correspondence (C07/C08/C15/C20) '
            'and observed directly: deep snapshots of every reachable Tree/Token before and after each real to_string call, all '
            'ordered format pairs / random sequences on the same objects vs fresh deep copies.',
            NOTE + 'Python aliasing is runtime behaviour only the snapshot oracle can exhibit.',
            'DESIGN.md §4 C18'),
    'C20': (T_PROOF,
            'Proved: PTB round trip (categories, shape, escaped words, grammar labels and head directions) for words whose escaped '
            'spelling neither starts with ( nor ends with ) [known finding for the others]; every proper field-prefix of a printed '
            'PTB line is rejected; Japanese bank round trip (categories, shape, words, rule symbols) for non-empty attribute values '
            '(original statement proved false for an empty inflection value); the bank\'s _suffix / {I1} annotations are '
            'irrelevant. Printers and both readers modelled to the character and diffed against the real code; independent '
            'S-expression / brace readers as oracle. File level: ptb_file_roundtrip, ja_file_roundtrip, ptb_file_default_name '
            '(real read_ptb / read_ccgbank on files, incl. words with odd line-break characters).',
            TEXT_NOTE, 'DESIGN.md §4 C20, §7.2'),
})


CLAIMED.update({
    'C07': (T_PROOF,
            'One theorem per format family that the real bytes are tied to: auto/conll (C08 round trip, fragments), ptb/ja (C20), '
            'xml/jigg_xml (C15), auto_extended (independent Lean decoder reads every printed line back to words/shape/categories/'
            'labels/head flags/attributes), conll heads (= the head assignment implied by the head flags: one root, every other '
            'word attached inside its parent span), json (shape/categories/labels/attributes; the text of json.dumps(indent=4) is modelled to the character and a JSON reader written in Lean reads it back to sentence numbers, n-best order, scores and trees: json_roundtrip, json_text_decode; also run on the real output against json.loads), deriv (an independent Lean reader of '
            'the ASCII art recovers words, shape, categories and rule symbols of every printed derivation: deriv_decode; it is '
            'also run on the real output), the conll table (an independent Lean reader of the ten-column table: conll_decode, '
            'with the exact necessity of its hypotheses conll_decode_iff, conll_rows; a document reader for the whole output: conll_doc_decode, main_conll_reads_back; both also run on the real output; likewise line_doc_decode / main_line_reads_back for the whole output of auto, auto_extended, ptb, ja and block_doc_decode / main_deriv_reads_back for deriv), prolog (an independent Lean term reader recovers sentence numbers, rule functors, category '
            'spellings, the extra category arguments and all leaf fields of both the English and the Japanese format: '
            'prolog_en_decode, prolog_ja_decode; also run on the real output), html (a Lean reader decodes the MathML of every tree back to nesting, words, labels and '
            'category segments), record numbering by sentence for every line format and prolog. All twelve printers '
            'are modelled to the character / element and diffed against the real to_string; eleven independent Python '
            'decoders compare each real output with the derivation in the format\'s own spelling.',
            TEXT_NOTE + ' html is modelled and decoded in Lean (html_decode), and so are deriv (deriv_decode) and prolog (prolog_en_decode / prolog_ja_decode); '
            'the three float spellings of the scores ({:.8f}, {:.5e}, repr) are computed on the exact value k/64 and compared with CPython (repr claimed below 10^9 only).',
            'DESIGN.md §4 C07'),
    'C19': (T_PROOF,
            'Proved, at the level of the whole program (main_total_partial): whatever the input lines and scores, the model of the '
            'program prints a text in every format it models (program_total: from the configuration on, whenever every string read as a category is one — no well-formedness hypothesis left; all eleven executable formats; for xml / jigg_xml under the necessary hypothesis that the inputs are XML text: main_total_xml, main_xml_refuses), for both shipped grammars (the unrestricted statement is refuted by a '
            'category *value* no text denotes: an atom named NP\\NP; replayed on the real code). '
            'Proved: label closure of both grammars (C03/C04) is contained in the printers\' label tables, which are re-emitted '
            'from the imported modules on every run and checked equal to the model tables by kernel evaluation; every line / XML / '
            'json format is total on trees whose tokens have a word, the Prolog formats on trees whose labels are in the tables '
            '(conj nodes have functor categories by C03.en_sound), the failure placeholder renders everywhere, and a batch '
            'renders iff each of its trees does. The real to_string is run on one derivation per label the real rule functions '
            'return, on the placeholder and on mixed batches, in every executable offered format.',
            NOTE + 'ccg2lambda / jigg_xml_ccg2lambda formats need NLTK (absent): offered by the CLI, not executable here.',
            'DESIGN.md §4 C19'),
})

REASON_PENDING = 'check not yet built in this session (model/theorems planned in DESIGN.md §4); not claimed until it runs'


def main():
    checks = []
    for pid in ALL:
        if pid not in CLAIMED:
            continue
        tech, text, note, ref = CLAIMED[pid]
        checks.append({
            'property_id': pid,
            'quick_cmd': f'./check {pid} --tier quick',
            'thorough_cmd': f'./check {pid} --tier thorough',
            'evidence_file': f'/verif/evidence/{pid}.json',
            'replay_cmd_template': f'./check {pid} --replay {{path}}',
            'engine': 'lean+harness',
            'level_claimed': {'category': 'proof', 'text': text, 'design_ref': ref},
            'level_note': note,
            'technique': tech,
        })
    man = {
        'version': 1,
        'setup_cmd': './setup.sh',
        'hooks': {
            'guard': 'DEPCCG_VERIF',
            'enable': 'export DEPCCG_VERIF=1 (done by ./check); the pop hook in depccg/parsing.h is compiled in always and is inert unless the variable is set and a hook function is installed',
            'baseline_off_cmd': BASELINE_OFF,
            'source_commits': [],
            'add_only': True,
        },
        'engines': [
            {'name': 'lean', 'path': 'lean/', 'serves_properties': sorted(CLAIMED), 'kind_free_text': 'Lean 4 models, theorems (Depccg/Props), compiled line-protocol driver'},
            {'name': 'harness', 'path': 'harness/', 'serves_properties': sorted(CLAIMED), 'kind_free_text': 'Python correspondence harness, generators, independent oracles, verdicts'},
        ],
        'checks': checks,
        'notes': 'Technique family: machine-checked proof in Lean 4. See DESIGN.md.',
        'not_applicable': [{'property_id': p, 'reason': REASON_PENDING} for p in ALL if p not in CLAIMED],
    }
    hooks_file = os.path.join(VERIF, 'hooks.json')
    if os.path.exists(hooks_file):
        man['hooks'].update(json.load(open(hooks_file)))
    with open(os.path.join(VERIF, 'MANIFEST.json'), 'w') as f:
        json.dump(man, f, indent=1)
    print('wrote MANIFEST.json with', len(checks), 'checks')


if __name__ == '__main__':
    main()
