"""Independent readers of every output format (written from the formats, not from depccg's
printers or readers).  Each returns a list of records (sentence number, decoded tree) where a
decoded tree is  ('L', cat_text, word)  or  ('N', cat_text, label_or_None, head_or_None, [kids])."""
import html as htmllib
import json
import re

from lxml import etree


class DecodeError(Exception):
    pass


# ---- line formats with ID headers ---------------------------------------------------------------

def split_records(text, conll=False):
    """[(sentence number, body text)] from `ID=n, log probability=…` headers"""
    recs = []
    cur = None
    for line in text.split('\n'):
        m = re.match(r'^(?:# )?ID=(\d+)(?:, log probability=.*)?$', line)
        if m and (not conll or line.startswith('# ')):
            cur = [int(m.group(1)), []]
            recs.append(cur)
            continue
        if conll and line.startswith('# log probability='):
            continue
        if not conll and cur is not None and not cur[1] and line.startswith('log probability'):
            continue
        if cur is not None:
            cur[1].append(line)
    return [(n, '\n'.join(b).rstrip('\n')) for n, b in recs]


def read_auto(line, extended=False):
    toks = line.split(' ')
    pos = [0]

    def node():
        t = toks[pos[0]]
        if t == '(<L':
            if extended:
                cat, word, lemma, p, ent, chunk, last = toks[pos[0] + 1:pos[0] + 8]
                pos[0] += 8
                extra = {'lemma': lemma, 'pos': p, 'entity': ent, 'chunk': chunk}
            else:
                cat, p1, p2, word, last = toks[pos[0] + 1:pos[0] + 6]
                pos[0] += 6
                extra = {'pos': p1}
            if not last.endswith('>)') or last[:-2] != cat:
                raise DecodeError('leaf closer')
            return ('L', cat, word, extra)
        if t != '(<T':
            raise DecodeError('expected (<T or (<L')
        if extended:
            cat, rule, head, n = toks[pos[0] + 1:pos[0] + 5]
            pos[0] += 5
        else:
            cat, head, n = toks[pos[0] + 1:pos[0] + 4]
            rule = None
            pos[0] += 4
        kids = []
        while toks[pos[0]] != ')':
            kids.append(node())
        pos[0] += 1
        if len(kids) != int(n[:-1]):
            raise DecodeError('child count')
        return ('N', cat, rule, head == '0', kids)
    r = node()
    if pos[0] != len(toks):
        raise DecodeError('trailing text')
    return r


def read_conll(body):
    """-> (rows, tree from the last column)"""
    rows = []
    frags = []
    for line in body.split('\n'):
        cols = line.split('\t')
        if len(cols) != 10:
            raise DecodeError('conll columns')
        rows.append({'id': int(cols[0]), 'word': cols[1], 'lemma': cols[2], 'pos': cols[3], 'head': int(cols[6]), 'cat': cols[7]})
        frags.append(cols[9])
    return rows, read_auto(' '.join(frags))


def read_ptb(line):
    """independent PTB reader by token structure: items `(cat` open a node, an item that does not
    start with `(` is a word followed by the closers of the nodes that end there"""
    if not (line.startswith('(ROOT ') and line.endswith(')')):
        raise DecodeError('no ROOT')
    items = line[6:-1].split(' ')
    stack = [[]]
    cats = []
    for it in items:
        if it.startswith('('):
            cats.append(it[1:])
            stack.append([])
        else:
            k = len(it) - len(it.rstrip(')'))
            word = it[:len(it) - k]
            if not word or k == 0:
                raise DecodeError('word item')
            # the first closer ends the leaf
            cat = cats.pop()
            stack.pop()
            stack[-1].append(('L', cat, word, {}))
            for _ in range(k - 1):
                kids = stack.pop()
                cat = cats.pop()
                stack[-1].append(('N', cat, None, None, kids))
    if len(stack) != 1 or len(stack[0]) != 1 or cats:
        raise DecodeError('unbalanced')
    return stack[0][0]


def read_ja(line, symbols):
    pos = [0]

    def node():
        if line[pos[0]] != '{':
            raise DecodeError('expected {')
        j = line.index(' ', pos[0])
        head = line[pos[0] + 1:j]
        pos[0] = j + 1
        if head in symbols:
            j = line.index(' ', pos[0])
            cat = line[pos[0]:j]
            pos[0] = j + 1
            kids = []
            while True:
                kids.append(node())
                if line[pos[0]] == ' ':
                    pos[0] += 1
                elif line[pos[0]] == '}':
                    pos[0] += 1
                    return ('N', cat, head, None, kids)
                else:
                    raise DecodeError('expected } or blank')
        j = line.index('}', pos[0])
        fields = line[pos[0]:j].split('/')
        pos[0] = j + 1
        if len(fields) != 4 or fields[0] != fields[1]:
            raise DecodeError('leaf fields')
        return ('L', head, fields[0], {'pos': fields[2], 'infl': fields[3]})
    r = node()
    if pos[0] != len(line):
        raise DecodeError('trailing text')
    return r


# ---- XML / JSON ---------------------------------------------------------------------------------------

def read_candc_xml(text):
    root = etree.fromstring(text.encode('utf-8'))
    out = []

    def node(el):
        if el.tag == 'lf':
            a = dict(el.attrib)
            return ('L', a['cat'], a.get('word'), {k: v for k, v in a.items() if k not in ('cat',)})
        return ('N', el.get('cat'), el.get('type'), None, [node(k) for k in el])
    for ccg in root.findall('ccg'):
        out.append((int(ccg.get('sentence')), int(ccg.get('id')), node(ccg[0])))
    return out


def read_jigg(text):
    root = etree.fromstring(text.encode('utf-8'))
    out = []
    for si, sent in enumerate(root.iter('sentence'), 1):
        toks = {t.get('id'): dict(t.attrib) for t in sent.find('tokens')}
        for ccg in sent.findall('ccg'):
            spans = {s.get('id'): s for s in ccg.findall('span')}

            def node(sid):
                s = spans[sid]
                if s.get('terminal') is not None:
                    tk = toks[s.get('terminal')]
                    return ('L', s.get('category'), tk.get('surf'), {'begin': int(s.get('begin')), 'end': int(s.get('end')),
                                                                      'attrs': {k: v for k, v in tk.items() if k not in ('id', 'start', 'cat')}})
                kids = [node(k) for k in s.get('child').split(' ')]
                return ('N', s.get('category'), s.get('rule'), None, kids, (int(s.get('begin')), int(s.get('end'))))
            out.append((si, node(ccg.get('root'))))
    return out


def read_json(text):
    data = json.loads(text)
    out = []

    def node(d):
        if 'children' in d:
            return ('N', d['cat'], d['type'], None, [node(k) for k in d['children']])
        return ('L', d['cat'], d.get('word'), {k: v for k, v in d.items() if k not in ('cat', 'log_prob')})
    for key in data:
        for d in data[key]:
            out.append((int(key), node(d)))
    return out


# ---- Prolog ----------------------------------------------------------------------------------------------

def _split_args(s):
    """split the top-level, comma-separated arguments of `s` (quotes with \\' escapes, parentheses)"""
    args, depth, cur, i, inq = [], 0, '', 0, False
    while i < len(s):
        ch = s[i]
        if inq:
            cur += ch
            if ch == '\\' and i + 1 < len(s):
                cur += s[i + 1]
                i += 1
            elif ch == "'":
                inq = False
        elif ch == "'":
            inq = True
            cur += ch
        elif ch == '(':
            depth += 1
            cur += ch
        elif ch == ')':
            depth -= 1
            cur += ch
        elif ch == ',' and depth == 0:
            args.append(cur.strip())
            cur = ''
        else:
            cur += ch
        i += 1
    if cur.strip():
        args.append(cur.strip())
    return args


def _term(s):
    m = re.match(r'^([a-z0-9_]+)\((.*)\)$', s, re.S)
    if not m:
        return None
    return m.group(1), _split_args(m.group(2))


def _unq(s):
    if not (s.startswith("'") and s.endswith("'")):
        raise DecodeError('quoted atom expected: ' + s)
    return s[1:-1].replace("\\'", "'")


def read_prolog(text, lang):
    out = []
    body = text.split('\n\n', 1)[1] if '\n\n' in text else ''
    # records end with ").\n"
    for rec in re.findall(r'ccg\((\d+),(.*?)\)\.\n', body, re.S):
        idx, inner = int(rec[0]), rec[1].strip()
        out.append((idx, _prolog_node(inner, lang)))
    return out


def _prolog_node(s, lang):
    t = _term(s.strip())
    if t is None:
        raise DecodeError('term expected: ' + s[:40])
    name, args = t
    if name == 't':
        return ('L', args[0], _unq(args[1]), {'args': [_unq(a) for a in args[2:]]})
    if lang == 'en':
        if name == 'lx':
            inner = _term(args[2])
            if inner and inner[0] == 'lp':
                return ('N', args[0], 'lp', None, [_prolog_node(inner[1][1], lang), _prolog_node(inner[1][2], lang)])
            return ('N', args[0], 'lx', None, [_prolog_node(args[2], lang)])
        return ('N', args[0], name, None, [_prolog_node(args[-2], lang), _prolog_node(args[-1], lang)])
    return ('N', args[0], name, None, [_prolog_node(a, lang) for a in args[1:]])


# ---- deriv ---------------------------------------------------------------------------------------------------

def read_deriv(body):
    lines = body.split('\n')
    if lines and lines[-1] == '':
        lines = lines[:-1]
    # fields end at the ASCII blank only: other Unicode white space is part of a word
    cats = [f for f in lines[0].split(' ') if f]
    words = [f for f in lines[1].split(' ') if f]
    if len(cats) != len(words):
        raise DecodeError('header rows')
    cols = []
    start = 0
    for c, w in zip(cats, words):
        width = 2 + max(len(c), len(w))
        cols.append((start, start + width))
        start += width
    forest = [(cols[i][0], cols[i][1], ('L', cats[i], words[i], {})) for i in range(len(cats))]
    rest = lines[2:]
    if len(rest) % 2:
        raise DecodeError('rule lines come in pairs')
    for k in range(0, len(rest), 2):
        rule, catline = rest[k], rest[k + 1]
        lw = len(rule) - len(rule.lstrip(' '))
        dashes = len(rule[lw:]) - len(rule[lw:].lstrip('-'))
        sym = rule[lw + dashes:]
        rw = lw + dashes
        inside = [f for f in forest if f[0] >= lw and f[1] <= rw]
        if not inside or len(inside) > 2 or inside[0][0] != lw or inside[-1][1] != rw:
            raise DecodeError('rule line does not cover whole sub-derivations')
        node = ('N', catline.strip(' '), sym, None, [f[2] for f in inside])
        i = forest.index(inside[0])
        forest[i:i + len(inside)] = [(lw, rw, node)]
    if len(forest) != 1:
        raise DecodeError('forest not reduced to one tree')
    return forest[0][2]


# ---- html -----------------------------------------------------------------------------------------------------

def read_html(text):
    out = []
    for m in re.finditer(r'<p>ID=(\d+): (.*?)</p>(.*?)(?=<p>ID=|\n</body>)', text, re.S):
        idx = int(m.group(1))
        for frag in re.findall(r'<math xmlns="http://www.w3.org/1998/Math/MathML">(.*?)</math>', m.group(3), re.S):
            el = etree.fromstring(('<math>' + frag + '</math>').encode('utf-8'))
            out.append((idx, _html_node(el[0])))
    return out


def _mi_text(el):
    return ''.join((mi.text or '') for mi in el.iter('mi'))


def _html_node(mrow):
    frac, label = mrow[0], mrow[1]
    top, bottom = frac[0], frac[1]
    cat = _mi_text(bottom)
    if top.tag == 'mtext':
        return ('L', cat, top.text or '', {})
    return ('N', cat, label.text, None, [_html_node(k) for k in top])
