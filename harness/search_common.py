"""Search-level harness (C01 C02 C09 C10 C12 C16): random search problems over category ids,
running the real C++ `parse_sentence` through the shim, the protocol line for the Lean model,
and an independent exhaustive enumeration of all derivations (the oracle)."""
import ctypes
import itertools
import math

import numpy

import pyxrt

SCALE_BITS = 6
SCALE = 1 << SCALE_BITS       # scores are k / 64, exactly representable, sums stay exact

_libm = ctypes.CDLL('libm.so.6')
_libm.expf.restype = ctypes.c_float
_libm.expf.argtypes = [ctypes.c_float]


def expf(x):
    return numpy.float32(_libm.expf(ctypes.c_float(float(x))))


class Problem(object):
    """all scores are integers k meaning k / SCALE"""

    def __init__(self):
        self.n = 0
        self.T = 0
        self.tags = []          # n x T ints
        self.deps = []          # n x (n+1) ints
        self.roots = []
        self.penalty = 0
        self.pruning = 50
        self.nbest = 1
        self.max_step = 10000000
        self.use_beta = False
        self.beta = 0.00001
        self.bin = {}           # (x, y) -> [(cat, head_is_left)]
        self.un = {}            # x -> [cat]
        self.head_uniform = True

    def to_json(self):
        d = dict(self.__dict__)
        d['bin'] = [[list(k), [list(r) for r in v]] for k, v in self.bin.items()]
        d['un'] = [[k, v] for k, v in self.un.items()]
        return d

    @staticmethod
    def from_json(d):
        p = Problem()
        for k, v in d.items():
            setattr(p, k, v)
        p.bin = {tuple(k): [tuple(r) for r in v] for k, v in d['bin']}
        p.un = {k: list(v) for k, v in d['un']}
        return p


def passes_table(p):
    """the beta test as the (repaired) C++ evaluates it, in float32, per token and per rank in
    the order of std::priority_queue<pair<float,unsigned>> (score desc, id desc)"""
    out = []
    beta = numpy.float32(p.beta)
    for row in p.tags:
        cands = sorted(((k, i) for i, k in enumerate(row)), key=lambda c: (-c[0], -c[1]))
        top = numpy.float32(cands[0][0] / SCALE)
        thr = numpy.float32(expf(top) * beta)
        out.append([1 if expf(numpy.float32(k / SCALE)) > thr else 0 for k, _ in cands])
    return out


def model_line(p, op='search'):
    ints = [p.n, p.T]
    for row in p.tags:
        ints += row
    for row in p.deps:
        ints += row
    ints += [len(p.roots)] + list(p.roots)
    ints += [p.penalty, p.pruning, p.nbest, p.max_step, 1 if p.use_beta else 0]
    if p.use_beta:
        for row in passes_table(p):
            ints += row
    ints.append(len(p.bin))
    for (x, y), rs in p.bin.items():
        ints += [x, y, len(rs)]
        for c, h in rs:
            ints += [c, 1 if h else 0]
    ints.append(len(p.un))
    for x, cs in p.un.items():
        ints += [x, len(cs)] + list(cs)
    return op + ' ' + ' '.join(str(i) for i in ints)


def to_int(x):
    v = float(x) * SCALE
    r = round(v)
    if abs(v - r) > 1e-6:
        # all inputs are multiples of 1/SCALE and every sum the search forms is exact in float32, so
        # an implementation that reports anything else has added something that was not given to it
        # (e.g. a penalty other than the configured one); the non-integral value compares unequal
        # to every model score and is reported through the ordinary disagreement / oracle paths
        return round(v, 4)
    return int(r)


class _Obj(object):
    pass


def run_cpp(p, trace=True, raw=None):
    """runs the real parse_sentence; -> dict(status, pops, results, queries) in model units.
    raw=(tag, dep, penalty): arbitrary float32 score arrays instead of p.tags / p.deps (scores are then
    reported as floats, outside the exact-arithmetic model)"""
    if raw is not None:
        tag, dep = raw[0], raw[1]
    else:
        tag = numpy.array(p.tags, dtype=numpy.float32).reshape(p.n, p.T) / numpy.float32(SCALE)
        dep = numpy.array(p.deps, dtype=numpy.float32).reshape(p.n, p.n + 1) / numpy.float32(SCALE)
    tag = numpy.ascontiguousarray(tag, dtype=numpy.float32)
    dep = numpy.ascontiguousarray(dep, dtype=numpy.float32)
    roots = pyxrt.unordered_set_unsigned()
    for r in p.roots:
        roots.insert(r)
    queries = {'bin': set(), 'un': set()}

    def bin_cb(x, y):
        queries['bin'].add((x, y))
        return [(c, i, h) for i, (c, h) in enumerate(p.bin.get((x, y), []))]

    def un_cb(x, _):
        queries['un'].add(x)
        return [(c, i, True) for i, c in enumerate(p.un.get(x, []))]

    def scaffold(cb, x, y, results):
        for cat_id, rule_id, head in cb(x, y):
            r = pyxrt.combinator_result()
            r.cat_id, r.rule_id, r.head_is_left = cat_id, rule_id, head
            r.op_string, r.op_symbol = b'r%d' % rule_id, b's%d' % rule_id
            results.push_back(r)
        return 0

    results = []

    def deriv(item):
        l, r = item.left, item.right
        if l is None and r is None:
            return ('L', item.p.contents.start_of_span, item.cat)
        if r is None:
            return ('U', item.cat, item.rule_id, deriv(l))
        # head flag is not stored in the item: recover from head ids
        dl, dr = deriv(l), deriv(r)
        return ('B', item.cat, item.rule_id, 1 if item.head_id == l.head_id else 0, dl, dr)

    def finalizer(item, token_id, cache, args):
        results.append(((float(item.score()) if raw is not None else to_int(item.score())), deriv(item.left)))
        return 0

    cfg = _Obj()
    cfg.num_tags, cfg.unary_penalty, cfg.beta, cfg.use_beta = p.T, (raw[2] if raw is not None else p.penalty / SCALE), p.beta, p.use_beta
    cfg.pruning_size, cfg.nbest, cfg.max_step = p.pruning, p.nbest, p.max_step
    cache = pyxrt.cache_type()
    pops = pyxrt.trace_pops(True) if trace else None
    try:
        status = pyxrt.parse_sentence(pyxrt.float_ptr(tag), pyxrt.float_ptr(dep), p.n, roots, bin_cb, un_cb,
                                      finalizer, scaffold, None, cache, cfg)
    finally:
        if trace:
            pyxrt.trace_pops(False)
    out = {'status': status, 'results': results, 'queries': queries}
    if trace:
        out['pops'] = [(1 if f else 0, to_int(i), to_int(o), s, l, c, h, r) for f, i, o, s, l, c, h, r in pops]
    return out


def enc_deriv(d):
    if d[0] == 'L':
        return f'L {d[1]} {d[2]}'
    if d[0] == 'U':
        return f'U {d[1]} {d[2]} ' + enc_deriv(d[3])
    return f'B {d[1]} {d[2]} {d[3]} ' + enc_deriv(d[4]) + ' ' + enc_deriv(d[5])


def impl_output(res, with_trace=True):
    parts = [f"st={res['status']}"]
    if with_trace:
        parts += ['P ' + ' '.join(str(x) for x in pop) for pop in res['pops']]
    parts += [f'R {s} ' + enc_deriv(d) for s, d in res['results']]
    return parts


def parse_model_output(line):
    """-> dict(status, steps, tie, pops, results) from the driver's answer"""
    parts = line.split(' ; ')
    head = dict(kv.split('=') for kv in parts[0].split(' '))
    pops = [tuple(int(x) for x in q[2:].split(' ')) for q in parts[1:] if q.startswith('P ')]
    results = [q for q in parts[1:] if q.startswith('R ')]
    return {'status': int(head['st']), 'steps': int(head['steps']), 'tie': head['tie'] == '1',
            'pops': pops, 'results': results}


# ---- generators ------------------------------------------------------------------------------

def random_problem(rng, max_n=5, nbest_max=1, mixed_heads=False, multi=False, beam=False, identity=False):
    p = Problem()
    p.n = rng.randint(1, max_n)
    p.T = rng.randint(1, 4)
    K = p.T + rng.randint(1, 3)             # derived-only category ids above the lexical ones
    lo = -rng.choice([200, 600, 2000])
    p.tags = [[rng.randint(lo, 0) for _ in range(p.T)] for _ in range(p.n)]
    p.deps = [[rng.randint(lo, 0) for _ in range(p.n + 1)] for _ in range(p.n)]
    if rng.random() < 0.2:
        # rows flattened by the category dictionary
        t = rng.randrange(p.n)
        keep = rng.randrange(p.T)
        p.tags[t] = [p.tags[t][c] if c == keep else -(10 ** 5) for c in range(p.T)]
    p.roots = rng.sample(range(K), rng.randint(1, max(1, K // 2)))
    p.penalty = rng.choice([0, 0, 6, 13, 64])
    # boundary values included: 0 (no tag is admitted: the sentence must fail), exactly the number of tags
    p.pruning = rng.choice([50, 50, 1, 2, 3, 0, p.T]) if beam else 50
    p.nbest = rng.randint(1, nbest_max)
    # a step budget far above what these sentences need, but low enough that the model stays cheap even
    # when a (changed) implementation stops much earlier than the model
    p.max_step = 6000
    p.head_uniform = not mixed_heads
    hl = rng.random() < 0.5
    dens = rng.choice([0.25, 0.45, 0.7])
    for x in range(K):
        for y in range(K):
            if rng.random() < dens:
                k = rng.choice([1, 1, 2, 3]) if multi else 1
                rs = []
                for _ in range(k):
                    rs.append((rng.randrange(K), (rng.random() < 0.5) if mixed_heads else hl))
                p.bin[(x, y)] = rs
    # acyclic unary rules: only from a smaller id to a larger id
    for x in range(K - 1):
        if rng.random() < 0.3:
            k = rng.choice([1, 1, 2]) if multi else 1
            p.un[x] = [rng.randrange(x + 1, K) for _ in range(k)]
    if identity and p.nbest == 1:
        # identity unary rules (x -> x), listed before / between the others: harmless for the 1-best
        # search (the copy is discarded as already closed) but they occupy a rule index
        for x in list(p.un):
            if rng.random() < 0.7:
                p.un[x].insert(rng.randint(0, len(p.un[x]) - 1), x)
    if beam and rng.random() < 0.7:
        p.use_beta = True
        p.beta = rng.choice([0.5, 0.1, 0.01, 0.3, 1e-5, 1e-30, 1.0, 2.0])      # beta >= 1: no tag passes, not even the best
    if beam and rng.random() < 0.3:
        # a word all of whose tags are very improbable: exp() underflows in float32
        t = rng.randrange(p.n)
        shift = rng.choice([6000, 7000, 9000, 30000])
        p.tags[t] = [k - shift for k in p.tags[t]]
    return p


# ---- the oracle: exhaustive enumeration of all derivations -------------------------------------

def admitted_tags(p, margin=False):
    """independent statement of the beam (float64): per token the set of admitted tag ids; with
    margin=True returns (surely_admitted, surely_excluded) leaving out borderline tags"""
    out = []
    for row in p.tags:
        order = sorted(range(len(row)), key=lambda i: (-row[i], -i))
        top = order[:p.pruning]
        if not p.use_beta:
            out.append((set(top), set(range(len(row))) - set(top)) if margin else set(top))
            continue
        best = row[order[0]] / SCALE
        sure, maybe = set(), set()
        for rank, i in enumerate(top):
            if row[i] / SCALE < -100 or best + math.log(p.beta) < -100:
                # float32 exp() underflows around -104: outside the model (like rounding). Such a tag
                # counts as borderline; it may be used only if the float32 test lets it through
                if expf(numpy.float32(row[i] / SCALE)) > numpy.float32(expf(numpy.float32(best)) * numpy.float32(p.beta)):
                    maybe.add(i)
                continue
            ratio = math.exp(row[i] / SCALE - best)
            if ratio > p.beta * 1.001:
                sure.add(i)
                maybe.add(i)
            elif ratio >= p.beta * 0.999:
                maybe.add(i)
        # the loop stops at the first failure; candidates are in descending score order so the
        # passing ones form a prefix
        excl = set(range(len(row))) - maybe
        out.append((sure, excl) if margin else maybe)
    return out


def enumerate_derivations(p, tags_per_token, limit=200000):
    """all derivations over the given leaf tags: dict span -> list of (cat, inside, head, tree,
    n_unary). Trees as in run_cpp.  Raises OverflowError when there are more than `limit`."""
    n = p.n
    chart = {}
    count = [0]
    if any(x in v for x, v in p.un.items()):
        raise OverflowError      # identity rules: infinitely many derivations

    def close_unary(items, allow):
        if not allow:
            return items
        out = list(items)
        frontier = list(items)
        while frontier:
            nxt = []
            for cat, ins, head, tree, nu in frontier:
                for rid, c in enumerate(p.un.get(cat, [])):
                    it = (c, ins - p.penalty, head, ('U', c, rid, tree), nu + 1)
                    nxt.append(it)
            out += nxt
            count[0] += len(nxt)
            if count[0] > limit:
                raise OverflowError
            frontier = nxt
        return out

    for i in range(n):
        leaves = [(c, p.tags[i][c], i, ('L', i, c), 0) for c in sorted(tags_per_token[i])]
        chart[(i, i + 1)] = close_unary(leaves, True)
    for length in range(2, n + 1):
        for s in range(0, n - length + 1):
            e = s + length
            items = []
            for m in range(s + 1, e):
                for lc, lin, lh, lt, lnu in chart[(s, m)]:
                    for rc, rin, rh, rt, rnu in chart[(m, e)]:
                        for rid, (c, hl) in enumerate(p.bin.get((lc, rc), [])):
                            head, child = (lh, rh) if hl else (rh, lh)
                            ins = lin + rin + p.deps[child][head + 1]
                            items.append((c, ins, head, ('B', c, rid, 1 if hl else 0, lt, rt), lnu + rnu))
            count[0] += len(items)
            if count[0] > limit:
                raise OverflowError
            chart[(s, e)] = close_unary(items, length != n)
    return chart


def root_derivations(p, chart):
    out = []
    for cat, ins, head, tree, nu in chart.get((0, p.n), []):
        if cat in p.roots:
            out.append((ins + p.deps[head][0], tree))
    return out


def tree_leaves(t):
    if t[0] == 'L':
        return [t]
    if t[0] == 'U':
        return tree_leaves(t[3])
    return tree_leaves(t[4]) + tree_leaves(t[5])


def tree_cat(t):
    return t[2] if t[0] == 'L' else t[1]


def recompute(p, t):
    """(score without root attachment, head, n_unary) from the tree and its head flags"""
    if t[0] == 'L':
        return p.tags[t[1]][t[2]], t[1], 0
    if t[0] == 'U':
        s, h, nu = recompute(p, t[3])
        return s - p.penalty, h, nu + 1
    sl, hl, nl = recompute(p, t[4])
    sr, hr, nr = recompute(p, t[5])
    head, child = (hl, hr) if t[3] else (hr, hl)
    return sl + sr + p.deps[child][head + 1], head, nl + nr


def validate_tree(p, t, admitted):
    """None or a reason why t is not a derivation licensed by grammar and input"""
    leaves = tree_leaves(t)
    if [l[1] for l in leaves] != list(range(p.n)):
        return 'leaves are not the input tokens in order'
    for l in leaves:
        if l[2] not in admitted[l[1]]:
            return f'leaf {l[1]} carries tag {l[2]} that was not admitted'

    def rec(x):
        if x[0] == 'L':
            return None
        if x[0] == 'U':
            cc = tree_cat(x[3])
            if x[1] not in p.un.get(cc, []):
                return f'unary node {x[1]} is not a unary result of {cc}'
            return rec(x[3])
        lc, rc = tree_cat(x[4]), tree_cat(x[5])
        if not any(c == x[1] for c, _ in p.bin.get((lc, rc), [])):
            return f'binary node {x[1]} is not a result of ({lc}, {rc})'
        return rec(x[4]) or rec(x[5])
    why = rec(t)
    if why:
        return why
    if tree_cat(t) not in p.roots:
        return 'root category is not an allowed root'
    if p.n > 1 and t[0] == 'U':
        return 'unary step at the root of a multi-word sentence'
    return None


def rule_ids_ok(p, t):
    """None or reason: each node's rule id must index the grammar result that has its category
    and (binary) its head direction"""
    if t[0] == 'L':
        return None
    if t[0] == 'U':
        rs = p.un.get(tree_cat(t[3]), [])
        if not (t[2] < len(rs) and rs[t[2]] == t[1]):
            return f'unary node {t[1]} has rule id {t[2]} but the unary results of {tree_cat(t[3])} are {rs}'
        return rule_ids_ok(p, t[3])
    rs = p.bin.get((tree_cat(t[4]), tree_cat(t[5])), [])
    if not (t[2] < len(rs) and rs[t[2]][0] == t[1] and (1 if rs[t[2]][1] else 0) == t[3]):
        return f'binary node {t[1]} has rule id {t[2]} / head {t[3]} but the results are {rs}'
    return rule_ids_ok(p, t[4]) or rule_ids_ok(p, t[5])
