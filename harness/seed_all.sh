#!/bin/bash
# self-test of the machinery: every stored seeded change must be reported by the check of the
# property it breaks. Applies each patch to the repository (VERIF_REPO, default /repo) in turn and
# always restores the tree (git apply -R, so it also works on a plain copy of the repository).
# usage: harness/seed_all.sh [seed-dir-name ...]      (default: all of seeded/*)
cd "$(dirname "$0")/.."
REPO=${VERIF_REPO:-/repo}
export VERIF_REPO=$REPO
if [ -d $REPO/.git ] || [ -f $REPO/.git ]; then
  if [ -n "$(git -C $REPO status --short)" ]; then echo "$REPO is not clean"; exit 2; fi
fi
cur=""
restore() { if [ -n "$cur" ]; then (cd $REPO && git apply -R "$cur" 2>/dev/null); cur=""; fi; }
trap restore EXIT
names="$@"; [ -z "$names" ] && names=$(ls seeded)
missed=0
for n in $names; do
  d=$PWD/seeded/$n
  [ -f $d/meta.json ] || continue
  pid=$(python3 -c "import json,sys; print(json.load(open('$d/meta.json'))['breaks'].split()[0])")
  if ! (cd $REPO && git apply "$d/patch.diff" 2>/dev/null); then echo "$n: patch does not apply"; missed=$((missed+1)); continue; fi
  cur="$d/patch.diff"
  out=$(timeout ${VERIF_TIMEOUT:-1700} ./check $pid 2>/dev/null | grep -E "^VIOLATION property=$pid " | head -1)
  restore
  if [ -n "$out" ]; then echo "$n: caught by $pid ($out)"; else echo "$n: MISSED by $pid"; missed=$((missed+1)); fi
done
echo "missed=$missed"
[ $missed -eq 0 ]
