#!/bin/bash
# self-test of the machinery: every stored seeded change must be reported by the check of the
# property it breaks. Applies each patch to /repo in turn and always restores the tree.
# usage: harness/seed_all.sh [seed-dir-name ...]      (default: all of seeded/*)
cd "$(dirname "$0")/.."
if [ -n "$(git -C /repo status --short)" ]; then echo "/repo is not clean"; exit 2; fi
trap 'git -C /repo checkout -- . 2>/dev/null' EXIT
names="$@"; [ -z "$names" ] && names=$(ls seeded)
missed=0
for n in $names; do
  d=seeded/$n
  [ -f $d/meta.json ] || continue
  pid=$(python3 -c "import json,sys; print(json.load(open('$d/meta.json'))['breaks'].split()[0])")
  if ! git -C /repo apply "$PWD/$d/patch.diff" 2>/dev/null; then echo "$n: patch does not apply"; missed=$((missed+1)); continue; fi
  out=$(timeout ${VERIF_TIMEOUT:-1700} ./check $pid 2>/dev/null | grep -E "^VIOLATION property=$pid " | head -1)
  git -C /repo checkout -- .
  if [ -n "$out" ]; then echo "$n: caught by $pid ($out)"; else echo "$n: MISSED by $pid"; missed=$((missed+1)); fi
done
echo "missed=$missed"
[ $missed -eq 0 ]
