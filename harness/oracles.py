"""Independent reference implementations written from the property statements (not from the
Lean model and not from depccg's code): structural signatures, canonical printer, a
recursive-descent reader of well-formed category text."""
from depccg.cat import Atom, Functor, UnaryFeature, TernaryFeature


def sig(c):
    if type(c) is Functor:
        return ('F', sig(c.left), c.slash, sig(c.right))
    f = c.feature
    if type(f) is UnaryFeature:
        fs = ('U', f.value)
    else:
        fs = ('T', f.kv1, f.kv2, f.kv3)
    return ('A', c.base, fs)


def blind(c):
    if type(c) is Functor:
        return ('F', blind(c.left), c.slash, blind(c.right))
    return ('A', c.base)


def feat_text(f):
    if type(f) is UnaryFeature:
        return f.value
    return ','.join(k + '=' + v for k, v in (f.kv1, f.kv2, f.kv3))


def canonical(c):
    if type(c) is Functor:
        def w(x):
            t = canonical(x)
            return '(' + t + ')' if type(x) is Functor else t
        return w(c.left) + c.slash + w(c.right)
    fs = feat_text(c.feature) or ''
    return c.base + ('[' + fs + ']' if fs else '')


SPECIAL = set('[]()/\\|<>')
PUNCT = [',', '.', ';', ':', 'LRB', 'RRB', 'conj', '*START*', '*END*']


class Reject(Exception):
    pass


def read_wellformed(text):
    """Reference reader: sig of the category denoted by a well-formed text (atoms with optional
    [feature], operands optionally wrapped in ( ) or < > any number of times, blanks between
    tokens, exactly one slash between two operands); raises Reject otherwise."""
    toks = []
    cur = ''
    for ch in text:
        if ch == ' ':
            if cur:
                toks.append(cur)
                cur = ''
        elif ch in SPECIAL:
            if cur:
                toks.append(cur)
                cur = ''
            toks.append(ch)
        else:
            cur += ch
    if cur:
        toks.append(cur)
    pos = [0]

    def peek():
        return toks[pos[0]] if pos[0] < len(toks) else None

    def take():
        t = peek()
        if t is None:
            raise Reject('unexpected end')
        pos[0] += 1
        return t

    def operand():
        t = take()
        if t in '(<' and len(t) == 1:
            close = ')' if t == '(' else '>'
            e = expr()
            if take() != close:
                raise Reject('bracket mismatch')
            return e
        if t in SPECIAL:
            raise Reject('unexpected ' + t)
        if peek() == '[' and t not in PUNCT:
            take()
            f = take()
            if f in SPECIAL or take() != ']':
                raise Reject('bad feature')
            if '=' in f and ',' in f:
                parts = [tuple(kv.split('=')) for kv in f.split(',')]
                if len(parts) != 3 or any(len(p) != 2 for p in parts):
                    raise Reject('bad triple')
                return ('A', t, ('T',) + tuple(parts))
            return ('A', t, ('U', f))
        return ('A', t, ('U', None))

    def expr():
        a = operand()
        if peek() in ('/', '\\', '|'):
            s = take()
            b = operand()
            return ('F', a, s, b)
        return a

    e = expr()
    if pos[0] != len(toks):
        raise Reject('trailing tokens')
    return e
