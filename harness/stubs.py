"""Make depccg importable in this sandbox without its absent third-party packages.

A meta-path finder fabricates empty modules for packages that are not installed
(chainer, allennlp, nltk, yaml, simplejson, tqdm, torch, spacy, janome, ...) and for the
compiled / network-dependent depccg modules that cannot be built here.  Everything else
(depccg.cat, unification, grammar, tree, printer, tools.reader, parsing) is the real,
unmodified source under /repo.
"""
import importlib.abc
import importlib.machinery
import os
import sys
import types

REPO = os.environ.get('VERIF_REPO', '/repo')

STUB_TOPS = {
    'chainer', 'allennlp', 'nltk', 'yaml', 'simplejson', 'tqdm', 'torch', 'spacy',
    'janome', 'google_drive_downloader', 'cython', 'overrides', 'jsonnet', '_jsonnet',
}
STUB_EXACT = {
    'depccg.morpha', 'depccg.chainer.supertagger', 'depccg.allennlp.supertagger',
}


class _Anything(types.ModuleType):
    """A module whose every attribute is a permissive dummy."""

    def __getattr__(self, name):
        if name.startswith('__') and name.endswith('__'):
            raise AttributeError(name)
        value = _Dummy(f'{self.__name__}.{name}')
        setattr(self, name, value)
        return value


class _Dummy(object):
    def __init__(self, name='dummy'):
        self._name = name

    def __call__(self, *args, **kwargs):
        # usable as decorator and as constructor
        if len(args) == 1 and callable(args[0]) and not kwargs:
            return args[0]
        return _Dummy(self._name + '()')

    def __getattr__(self, name):
        if name.startswith('__') and name.endswith('__'):
            raise AttributeError(name)
        return _Dummy(f'{self._name}.{name}')

    def __iter__(self):
        return iter(())

    def __mro_entries__(self, bases):
        return (object,)

    def __repr__(self):
        return f'<stub {self._name}>'


class _Loader(importlib.abc.Loader):
    def create_module(self, spec):
        mod = _Anything(spec.name)
        mod.__path__ = []
        return mod

    def exec_module(self, module):
        if module.__name__ == 'tqdm':
            module.tqdm = lambda it, **kw: it


class _Finder(importlib.abc.MetaPathFinder):
    def find_spec(self, fullname, path=None, target=None):
        top = fullname.split('.')[0]
        if top in STUB_TOPS or fullname in STUB_EXACT:
            return importlib.machinery.ModuleSpec(fullname, _Loader(), is_package=True)
        return None


_installed = False


def install():
    global _installed
    if _installed:
        return
    _installed = True
    sys.meta_path.insert(0, _Finder())
    if REPO not in sys.path:
        sys.path.insert(0, REPO)
    # never write .pyc files into /repo
    sys.dont_write_bytecode = True
