"""Run in a fresh interpreter (PYTHONHASHSEED set by the caller): evaluate rule applications
given as text on stdin (JSON list of [lang, x, y]) and print one digest line per case."""
import json
import os
import sys

HERE = os.path.dirname(os.path.abspath(__file__))
sys.path.insert(0, HERE)
import stubs  # noqa
stubs.install()
from depccg.cat import Category  # noqa
from depccg.grammar import en, ja  # noqa


def digest(rs):
    return ' ; '.join(f'{r.cat} {r.op_string} {r.op_symbol} {int(r.head_is_left)}' for r in rs)


def main():
    cases = json.load(sys.stdin)
    out = []
    for lang, x, y in cases:
        mod = en if lang == 'en' else ja
        try:
            rs = mod.apply_binary_rules(Category.parse(x), Category.parse(y))
            out.append('ok ' + digest(rs))
        except Exception as e:
            out.append('err ' + type(e).__name__)
    json.dump(out, sys.stdout)


if __name__ == '__main__':
    main()
