"""Reader for the jsonnet subset used by depccg/models/*.jsonnet (object with one field whose
value is a list of strings, a list of pairs of strings, or an object word -> list of strings),
and access to the shipped tables and test inventories."""
import os
import functools

REPO = os.environ.get('VERIF_REPO', '/repo')
MODELS = os.path.join(REPO, 'depccg', 'models')

_ESC = {'n': '\n', 't': '\t', 'r': '\r', '\\': '\\', "'": "'", '"': '"', '/': '/', 'b': '\b', 'f': '\f'}


class JsonnetError(Exception):
    pass


def parse_jsonnet(text):
    pos = 0
    n = len(text)

    def ws():
        nonlocal pos
        while pos < n:
            c = text[pos]
            if c in ' \t\r\n':
                pos += 1
            elif text.startswith('//', pos) or text[pos] == '#':
                j = text.find('\n', pos)
                pos = n if j < 0 else j
            elif text.startswith('/*', pos):
                j = text.find('*/', pos)
                if j < 0:
                    raise JsonnetError('unterminated comment')
                pos = j + 2
            else:
                break

    def string():
        nonlocal pos
        q = text[pos]
        pos += 1
        out = []
        while True:
            if pos >= n:
                raise JsonnetError('unterminated string')
            c = text[pos]
            if c == q:
                pos += 1
                return ''.join(out)
            if c == '\\':
                e = text[pos + 1]
                if e == 'u':
                    out.append(chr(int(text[pos + 2:pos + 6], 16)))
                    pos += 6
                    continue
                if e not in _ESC:
                    raise JsonnetError('bad escape \\' + e)
                out.append(_ESC[e])
                pos += 2
            else:
                out.append(c)
                pos += 1

    def ident():
        nonlocal pos
        j = pos
        while j < n and (text[j].isalnum() or text[j] == '_'):
            j += 1
        if j == pos:
            raise JsonnetError(f'unexpected {text[pos:pos+20]!r} at {pos}')
        s = text[pos:j]
        pos = j
        return s

    def value():
        nonlocal pos
        ws()
        c = text[pos]
        if c in '\'"':
            return string()
        if c == '[':
            pos += 1
            out = []
            while True:
                ws()
                if text[pos] == ']':
                    pos += 1
                    return out
                out.append(value())
                ws()
                if text[pos] == ',':
                    pos += 1
        if c == '{':
            pos += 1
            out = {}
            while True:
                ws()
                if text[pos] == '}':
                    pos += 1
                    return out
                if text[pos] in '\'"':
                    k = string()
                else:
                    k = ident()
                ws()
                if text[pos] != ':':
                    raise JsonnetError(f'expected : at {pos}')
                pos += 1
                out[k] = value()
                ws()
                if text[pos] == ',':
                    pos += 1
        w = ident()
        if w == 'true':
            return True
        if w == 'false':
            return False
        if w == 'null':
            return None
        raise JsonnetError('unsupported token ' + w)

    v = value()
    ws()
    if pos != n:
        raise JsonnetError('trailing text')
    return v


@functools.lru_cache(maxsize=None)
def load(name):
    """load('targets.en') -> python value of the single field of that file"""
    path = os.path.join(MODELS, name + '.jsonnet')
    obj = parse_jsonnet(open(path, encoding='utf-8').read())
    if not isinstance(obj, dict) or len(obj) != 1:
        raise JsonnetError(f'{name}: expected an object with one field')
    return list(obj.values())[0]


VARIANTS = {
    'en': dict(targets='targets.en', seen='seen_rules.en', unary='unary_rules.en', cat_dict='cat_dict.en'),
    'en_rebank': dict(targets='targets.en_rebank', seen='seen_rules.en_rebank', unary='unary_rules.en', cat_dict='cat_dict.en'),
    'ja': dict(targets='targets.ja', seen='seen_rules.ja', unary='unary_rules.ja', cat_dict=None),
}


def test_file_lines(rel):
    return [l.rstrip('\n') for l in open(os.path.join(REPO, 'tests', rel), encoding='utf-8') if l.strip()]


@functools.lru_cache(maxsize=None)
def shipped_strings(lang):
    """every category string of the shipped tables of one feature system ('en' covers en and
    en_rebank), deduplicated, in file order"""
    seen = {}
    def add(s):
        if s not in seen:
            seen[s] = True
    if lang == 'en':
        for v in ('en', 'en_rebank'):
            for s in load(VARIANTS[v]['targets']):
                add(s)
            for a, b in load(VARIANTS[v]['seen']):
                add(a); add(b)
        for a, b in load('unary_rules.en'):
            add(a); add(b)
        for l in test_file_lines('cats.txt'):
            add(l)
        for l in test_file_lines('grammar/rules.txt'):
            for s in l.split(' '):
                add(s)
    else:
        for s in load('targets.ja'):
            add(s)
        for a, b in load('seen_rules.ja'):
            add(a); add(b)
        for a, b in load('unary_rules.ja'):
            add(a); add(b)
        for l in test_file_lines('cats.ja.txt'):
            add(l)
        for l in test_file_lines('grammar/rules.ja.txt'):
            for s in l.split(' '):
                add(s)
    return list(seen)


# ---- the categories the command line offers as roots of a Japanese tree ------------------------------

JA_ROOTS_DOC = [
    'NP[case=nc,mod=nm,fin=f]', 'NP[case=nc,mod=nm,fin=t]', 'S[mod=nm,form=attr,fin=t]', 'S[mod=nm,form=base,fin=f]',
    'S[mod=nm,form=base,fin=t]', 'S[mod=nm,form=cont,fin=f]', 'S[mod=nm,form=cont,fin=t]', 'S[mod=nm,form=da,fin=f]',
    'S[mod=nm,form=da,fin=t]', 'S[mod=nm,form=hyp,fin=t]', 'S[mod=nm,form=imp,fin=f]', 'S[mod=nm,form=imp,fin=t]',
    'S[mod=nm,form=r,fin=t]', 'S[mod=nm,form=s,fin=t]', 'S[mod=nm,form=stem,fin=f]', 'S[mod=nm,form=stem,fin=t]',
]


def cli_root_cats(lang):
    """the default of `--root-cats` of the `en` / `ja` sub-command in depccg/argparse.py, read from the
    source text (the function that builds the parser cannot be imported without the annotators);
    None when the text cannot be found"""
    import re
    try:
        src = open(os.path.join(REPO, 'depccg', 'argparse.py'), encoding='utf-8').read()
    except OSError:
        return None
    chunks = src.split("'--root-cats'")[1:]
    if len(chunks) != 2:
        return None
    body = chunks[0 if lang == 'en' else 1].split('help=')[0]
    lits = re.findall(r"'([^'\n]*)'", body)
    text = ''.join(lits)
    cats = [c for c in text.split('|') if c]
    return cats or None


def ja_sentence_categories():
    """what "root category" means for the sentence-sequencing rule SSEQ, independently of
    depccg/grammar/ja.py: the command line's Japanese root categories; the documented list is used
    when the command-line source cannot be read, and the two are intersected otherwise (a category
    counts as a root only if nothing contradicts it)"""
    cli = cli_root_cats('ja')
    if cli is None:
        return list(JA_ROOTS_DOC)
    return [c for c in cli if c in JA_ROOTS_DOC] or list(JA_ROOTS_DOC)
