#!/bin/bash
# usage: harness/seed_eval.sh <patch.diff> <check ids...>
# applies a seeded change to /repo, runs the given checks (quick tier), undoes the change.
set -u
patch="$1"; shift
cd /verif
if ! git -C /repo diff --quiet; then echo "/repo has uncommitted changes"; exit 2; fi
git -C /repo apply "$patch" || { echo "patch does not apply"; exit 2; }
trap 'git -C /repo checkout -- . ' EXIT
echo "== baseline tests with the change"
(cd /repo && /venv/bin/python -m pytest -q -p no:cacheprovider --timeout=900 --continue-on-collection-errors 2>&1 | tail -1)
for id in "$@"; do
  echo "== check $id"
  ./check "$id" --tier quick 2>/dev/null | grep -E "VIOLATION|KNOWN-FINDING|^\[" | cut -c1-400
  echo "exit=$?"
done
