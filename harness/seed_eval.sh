#!/bin/bash
# usage: harness/seed_eval.sh <patch.diff> <check ids...>
# applies a seeded change to the repository (VERIF_REPO, default /repo; a plain copy is fine), runs the
# given checks (quick tier), undoes the change.
set -u
patch="$1"; shift
cd /verif
REPO=${VERIF_REPO:-/repo}
export VERIF_REPO=$REPO
(cd $REPO && git apply "$patch") || { echo "patch does not apply"; exit 2; }
trap '(cd $REPO && git apply -R "$patch")' EXIT
echo "== baseline tests with the change"
(cd $REPO && /venv/bin/python -m pytest -q -p no:cacheprovider --timeout=900 --continue-on-collection-errors 2>&1 | tail -1)
for id in "$@"; do
  echo "== check $id"
  ./check "$id" --tier quick 2>/dev/null | grep -E "VIOLATION|KNOWN-FINDING|INFRA|^\[" | cut -c1-400
  echo "exit=$?"
done
