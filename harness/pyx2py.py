"""Targeted source-to-source translation of depccg/parsing.pyx (Cython glue) into plain Python
hosted on pyxrt (ctypes).  DESIGN.md Appendix A.  Anything outside the dialect aborts the
translation (reported by the checks as a broken tie, never silently ignored)."""
import re


class TranslationError(Exception):
    pass


RT_STRUCTS = {
    'combinator_result': '_rt.combinator_result()',
    'pair[unsigned, unsigned]': '_rt.pair_unsigned()',
    'unordered_set[unsigned]': '_rt.unordered_set_unsigned()',
    'cache_type': '_rt.cache_type()',
    'config': '_rt.config()',
}

PY_TYPES = {'list': 'list', 'dict': 'dict', 'object': None, 'str': 'str', 'tuple': 'tuple'}


def _strip_param(p):
    """'list doc' -> ('doc', 'list'); 'void *callback_func' -> ('callback_func', None);
    'process_id=0' -> ('process_id=0', None); '**kwargs' -> ('**kwargs', None)"""
    p = p.strip()
    if not p:
        return None
    if p.startswith('*'):
        return p, None
    default = ''
    if '=' in p:
        p, default = p.split('=', 1)
        p = p.strip()
        default = '=' + default.strip()
    m = re.match(r'^(.*?)([A-Za-z_]\w*)$', p)
    if not m:
        raise TranslationError('cannot read parameter: ' + p)
    typ = m.group(1).strip().rstrip('*&').strip()
    name = m.group(2)
    check = PY_TYPES.get(typ) if typ in PY_TYPES else None
    return name + default, check


def _split_params(s):
    out, depth, cur = [], 0, ''
    for ch in s:
        if ch in '([':
            depth += 1
        elif ch in ')]':
            depth -= 1
        if ch == ',' and depth == 0:
            out.append(cur)
            cur = ''
        else:
            cur += ch
    if cur.strip():
        out.append(cur)
    return out


def translate(src):
    lines = src.split('\n')
    out = []
    i = 0
    n = len(lines)
    while i < n:
        line = lines[i]
        stripped = line.strip()
        indent = line[:len(line) - len(line.lstrip())]
        # rule 1: cimport lines
        if re.match(r'^(from\s+\S+\s+cimport\s|cimport\s)', stripped):
            i += 1
            continue
        # rule 2: cdef extern blocks (and everything indented under them)
        if stripped.startswith('cdef extern'):
            i += 1
            while i < n and (lines[i].strip() == '' or lines[i].startswith((' ', '\t'))):
                i += 1
            continue
        # rules 3/4: function headers (possibly multi-line)
        m = re.match(r'^(cdef|def)\s+(.*)$', stripped)
        if m and ('(' in stripped) and not re.match(r'^cdef\s+[\w\[\], ]+\s*=', stripped):
            header = stripped
            j = i
            depth = header.count('(') - header.count(')')
            while depth > 0 or not header.rstrip().endswith(':'):
                j += 1
                if j >= n:
                    raise TranslationError('unterminated function header at line %d' % (i + 1))
                header += ' ' + lines[j].strip()
                depth = header.count('(') - header.count(')')
            hm = re.match(r'^(cdef|def)\s+(.*?)([A-Za-z_]\w*)\s*\((.*)\)\s*(.*):$', header)
            if not hm:
                raise TranslationError('cannot read function header: ' + header)
            name = hm.group(3)
            params = [_strip_param(p) for p in _split_params(hm.group(4))]
            params = [p for p in params if p]
            out.append(f'{indent}def {name}({", ".join(p[0] for p in params)}):')
            body_indent = indent + '    '
            for pname, check in params:
                if check:
                    out.append(f'{body_indent}_rt.expect_type({pname.split("=")[0]}, {check}, {pname.split("=")[0]!r})')
            i = j + 1
            continue
        # rules 5-7: cdef declarations
        if stripped.startswith('cdef '):
            decl = stripped[5:]
            flat = re.sub(r'\[[^\]]*\]', '', decl)     # ignore `=` inside type brackets
            if '=' in flat:
                lhs, rhs = decl.split('=', 1)
                name = re.match(r'^.*?([A-Za-z_]\w*)\s*$', lhs.strip()).group(1)
                out.append(f'{indent}{name} = {_expr(rhs.strip())}')
            else:
                done = False
                for typ, ctor in RT_STRUCTS.items():
                    if decl.startswith(typ + ' '):
                        names = decl[len(typ):].strip()
                        for nm in names.split(','):
                            out.append(f'{indent}{nm.strip()} = {ctor}')
                        done = True
                        break
                if not done:
                    if re.match(r'^[\w\[\], \*\.=\']+$', decl):
                        # plain typed declaration (incl. typed numpy buffers, whose dtype/ndim/
                        # contiguity checks are made by _rt.float_ptr)
                        out.append(f'{indent}pass')
                    else:
                        raise TranslationError('unsupported cdef: ' + stripped)
            i += 1
            continue
        out.append(indent + _expr(stripped) if stripped else line)
        i += 1
    text = '\n'.join(out)
    leftovers = [l for l in text.split('\n') if re.search(r'\bcdef\b|<\w[\w\*\s]*>\s*\w|\bNULL\b', l) and not l.strip().startswith('#')]
    if leftovers:
        raise TranslationError('untranslated Cython remains: ' + leftovers[0].strip())
    prelude = ('# generated from depccg/parsing.pyx by harness/pyx2py.py -- do not edit\n'
               'import pyxrt as _rt\n'
               'UINT_MAX = _rt.UINT_MAX\n')
    return prelude + text + '\n'


def _expr(s):
    # rule 8: typed buffer pointer
    s = re.sub(r'<float\s*\*>\s*([A-Za-z_]\w*)\.data', r'_rt.float_ptr(\1)', s)
    # rule 9: casts
    s = re.sub(r'<object>\s*', '', s)
    s = re.sub(r'<void\s*\*>\s*', '', s)
    # rule 16: a pointer used as a number (`<size_t>item`: the address of a chart item)
    s = re.sub(r'<(?:size_t|uintptr_t|Py_ssize_t|unsigned\s+long(?:\s+long)?|long)>\s*([A-Za-z_][\w\.]*)', r'_rt.addr(\1)', s)
    # rule 10: address-of
    s = re.sub(r'&(c_\w+)', r'\1', s)
    # rule 11: NULL
    s = re.sub(r'(\S+)\s*==\s*NULL\b', r'\1 is None', s)
    s = re.sub(r'(\S+)\s*!=\s*NULL\b', r'\1 is not None', s)
    s = re.sub(r'\bNULL\b', 'None', s)
    # rule 12: the C++ entry point
    s = re.sub(r'(?<![\w\.])parse_sentence\(', '_rt.parse_sentence(', s)
    return s
