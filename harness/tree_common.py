"""Trees for the printer / reader checks (C07 C08 C15 C18 C19 C20): generators of
grammar-licensed and arbitrary trees over awkward tokens, wire encoding, signatures."""
import copy

from depccg.cat import Category, Atom, Functor
from depccg.tree import Tree, ScoredTree
from depccg.types import Token
from depccg.grammar import en, ja
import gen_cat
import grammar_common
import tables
import wire
from wire import enc_cat, enc_str

AWKWARD = ['(', ')', '[', ']', '{', '}', '<', '>', '/', '\\/', '|', '&', "'", '"', ',', '.', '!', '-', '_', '--', '-LRB-', '-RRB-',
           'x)[conj]', '(<L', 'a<b', 'a>b', '<<>>', 'a(b', 'a)b', '(a', 'a)', 'it\'s', 'R&D', 'Ph.D.', '2,000', 'naïve', '彼',
           '走る', 'Ω', '%', '#1', '=', 'a=b,c=d', 'x]', '[x', 'S[dcl]', '*', '**', '?', ';', ':', '@', '~', 'T', 'L', '0', '1',
           'the', 'cat', 'sat', 'on', 'mat', 'Mr.', 'co-op', 'a_b', '_x', '-', 'x-', '&amp;', '<b>', "''", '``',
           '()', '[]', '{}', ')(', '(){}', '[)', '<>', '-LRB--RRB-',
           # words that look like the header lines of the record formats
           'ID=4711', 'PID=1', 'ID', 'ID=1,', '#']
# words and tags containing Unicode white space that is not the ASCII blank: one field of every text format
UNISPACE = ['10\u00a0000', 'a\u3000b', 'x\u2003y', 'New\u00a0York', 'N\u00a0P']
PLAIN = ['the', 'cat', 'sat', 'on', 'mat', 'dogs', 'run', 'fast', 'John', 'loves', 'Mary', 'and', 'quickly', 'very']
JA_WORDS = ['彼', '走る', 'は', 'が', 'を', '本', '読む', 'た', '。', '東京', 'に', '行く', 'ない', '美しい', '花']


def make_token(rng, lang, word=None, awkward=0.3, attrs=None, unispace=0.0):
    if word is None:
        if unispace and rng.random() < unispace:
            word = rng.choice(UNISPACE)
        elif rng.random() < awkward:
            word = rng.choice(AWKWARD)
        else:
            word = rng.choice(JA_WORDS if lang == 'ja' else PLAIN)
    kind = rng.random() if attrs is None else attrs
    if lang == 'ja':
        d = {'word': word}
        if kind < 0.7:
            for k, pool in (('pos', ['名詞', '動詞', '助詞', '*']), ('pos1', ['一般', '自立', '*']), ('pos2', ['*', '人名']),
                            ('pos3', ['*']), ('inflectionForm', ['基本形', '*', '連用形']), ('inflectionType', ['*', '五段']),
                            ('lemma', [word])):
                if rng.random() < 0.7:
                    d[k] = rng.choice(pool)
        return Token(**d)
    if kind < 0.5:
        return Token.of_word(word)
    if kind < 0.8:
        return Token(word=word, lemma=rng.choice([word.lower(), 'XX', 'be']), pos=rng.choice(['NN', 'VBZ', 'DT', ',', '-LRB-', 'XX']),
                     entity=rng.choice(['O', 'I-PER', 'XX']), chunk=rng.choice(['I-NP', 'XX', 'O']))
    if kind < 0.9:
        return Token(word=word, pos=rng.choice(['NN', 'XX']))
    return Token(word=word)


def arbitrary_tree(rng, lang, n_leaves, cats, labels, tok_kw):
    """random shape, random categories and labels, random head flags"""
    if n_leaves == 1:
        t = Tree.make_terminal(make_token(rng, lang, **tok_kw), rng.choice(cats))
        if rng.random() < 0.2:
            s, y = rng.choice(labels['unary'])
            t = Tree.make_unary(rng.choice(cats), t, s, y)
        return t
    k = rng.randint(1, n_leaves - 1)
    l = arbitrary_tree(rng, lang, k, cats, labels, tok_kw)
    r = arbitrary_tree(rng, lang, n_leaves - k, cats, labels, tok_kw)
    s, y = rng.choice(labels['binary'])
    t = Tree.make_binary(rng.choice(cats), l, r, s, y, rng.random() < 0.5)
    if rng.random() < 0.15:
        s, y = rng.choice(labels['unary'])
        t = Tree.make_unary(rng.choice(cats), t, s, y)
    return t


EN_LABELS = {'binary': [('fa', '>'), ('ba', '<'), ('fc', '>B'), ('bx', '<B'), ('gfc', '>B'), ('gbx', '<B'), ('conj', '<Φ>'),
                        ('lp', '<lp>'), ('rp', '<rp>'), ('lp', '<*>')],
             'unary': [('lex', '<un>'), ('tr', '<un>')]}
JA_LABELS = {'binary': [('fa', '>'), ('ba', '<'), ('fc', '>B'), ('bx', '<B1'), ('bx', '<B2'), ('bx', '<B3'), ('bx', '<B4'),
                        ('fx', '>Bx1'), ('fx', '>Bx2'), ('fx', '>Bx3'), ('other', 'SSEQ')],
             'unary': [('ADNext', 'ADNext'), ('ADNint', 'ADNint'), ('ADV0', 'ADV0'), ('ADV1', 'ADV1'), ('ADV2', 'ADV2'),
                       ('OTHER', 'OTHER')]}

_lex = {}


def lexicon(lang):
    """observed rule instances (x, y) of the test files: material for licensed derivations"""
    if lang not in _lex:
        trip = grammar_common.rule_triples(lang)
        _lex[lang] = [(x, y) for x, y, _ in trip]
    return _lex[lang]


def licensed_tree(rng, lang, depth, tok_kw):
    """a derivation built bottom-up with the real rule functions and the real unary tables"""
    mod = en if lang == 'en' else ja
    unary = grammar_common.unary_table(lang)

    def leaf(cat):
        t = Tree.make_terminal(make_token(rng, lang, **tok_kw), cat)
        return maybe_unary(t)

    def maybe_unary(t):
        if t.cat in unary and rng.random() < 0.5:
            rs = mod.apply_unary_rules(t.cat, unary)
            if rs:
                r = rng.choice(rs)
                return Tree.make_unary(r.cat, t, r.op_string, r.op_symbol)
        return t

    def grow(t, d):
        """combine t with a fresh leaf on either side when some rule fires"""
        if d == 0:
            return t
        pairs = lexicon(lang)
        for _ in range(30):
            x, y = rng.choice(pairs)
            for left, right in ((t, None), (None, t)):
                if left is t and (x == t.cat):
                    other = leaf(y)
                    rs = mod.apply_binary_rules(t.cat, other.cat)
                    if rs:
                        r = rng.choice(rs)
                        return grow(maybe_unary(Tree.make_binary(r.cat, t, other, r.op_string, r.op_symbol, r.head_is_left)), d - 1)
                if right is t and (y == t.cat):
                    other = leaf(x)
                    rs = mod.apply_binary_rules(other.cat, t.cat)
                    if rs:
                        r = rng.choice(rs)
                        return grow(maybe_unary(Tree.make_binary(r.cat, other, t, r.op_string, r.op_symbol, r.head_is_left)), d - 1)
        return t
    x, y = rng.choice(lexicon(lang))
    l, r = leaf(x), leaf(y)
    rs = mod.apply_binary_rules(l.cat, r.cat)
    if not rs:
        return l
    res = rng.choice(rs)
    t = Tree.make_binary(res.cat, l, r, res.op_string, res.op_symbol, res.head_is_left)
    return grow(maybe_unary(t), depth)


def repeat_tokens(rng, t):
    """make a later leaf carry a token equal (not identical) to an earlier leaf's token, as in a
    sentence that repeats a word with the same annotation"""
    leaves = t.leaves
    if len(leaves) >= 2:
        i = rng.randrange(len(leaves) - 1)
        j = rng.randrange(i + 1, len(leaves))
        leaves[j].children[0] = Token(**dict(leaves[i].children[0]))
    return t


def unk_variant(rng, t, lang):
    """what a treebank reader makes of a node whose category differs from the grammar's result only in features
    (C&C-style `NP[nb]/N N => NP[nb]`): the category is kept, the node is labelled unk"""
    nodes = []

    def collect(n):
        if not n.is_leaf:
            if not n.is_unary:
                nodes.append(n)
            for c in n.children:
                collect(c)
    collect(t)
    if not nodes:
        return t
    target = rng.choice(nodes)
    feats = [a.feature for a in (gen_cat.en_atoms() if lang == 'en' else gen_cat.ja_atoms(small=True))]

    def rebuild(n):
        if n.is_leaf:
            return Tree(n.cat, list(n.children), n.op_string, n.op_symbol)
        kids = [rebuild(c) for c in n.children]
        if n is target:
            return Tree(gen_cat.perturb(rng, n.cat, feats), kids, 'unk', '<unk>', n.head_is_left)
        return Tree(n.cat, kids, n.op_string, n.op_symbol, n.head_is_left)
    return rebuild(t)


def placeholder():
    return Tree.make_terminal('FAILED', Category.parse('NP'))


# ---- wire / signatures ------------------------------------------------------------------------------

def enc_tok(tok):
    items = list(tok.items())
    return str(len(items)) + ''.join(f' {enc_str(k)} {enc_str(v)}' for k, v in items)


def enc_tree(t):
    if t.is_leaf:
        return f'L {enc_cat(t.cat)} {enc_tok(t.token)} {enc_str(t.op_string)} {enc_str(t.op_symbol)}'
    if t.is_unary:
        return f'U {enc_cat(t.cat)} {enc_str(t.op_string)} {enc_str(t.op_symbol)} ' + enc_tree(t.children[0])
    return (f'B {enc_cat(t.cat)} {enc_str(t.op_string)} {enc_str(t.op_symbol)} {1 if t.head_is_left else 0} '
            + enc_tree(t.children[0]) + ' ' + enc_tree(t.children[1]))


def enc_read(tree, tokens):
    return 'ok ' + enc_tree(tree) + ' | ' + str(len(tokens)) + ''.join(' ' + enc_tok(t) for t in tokens)


def tree_sig(t, with_tokens=True, with_labels=True, with_heads=True):
    if t.is_leaf:
        tok = tuple(t.token.items()) if with_tokens else t.token.get('word')
        return ('L', str(t.cat), tok)
    lab = (t.op_string, t.op_symbol) if with_labels else None
    if t.is_unary:
        return ('U', str(t.cat), lab, tree_sig(t.children[0], with_tokens, with_labels, with_heads))
    return ('B', str(t.cat), lab, bool(t.head_is_left) if with_heads else None,
            tree_sig(t.children[0], with_tokens, with_labels, with_heads),
            tree_sig(t.children[1], with_tokens, with_labels, with_heads))


def deep_state(t):
    """everything reachable from a tree, for mutation checks"""
    if t.is_leaf:
        return ('L', repr(t.cat), tuple(t.token.items()), t.op_string, t.op_symbol, t.head_is_left, id(t.token))
    return (len(t.children), repr(t.cat), t.op_string, t.op_symbol, t.head_is_left) + tuple(deep_state(c) for c in t.children)


def clone(t):
    return copy.deepcopy(t)


def token_ok_strict(tok):
    """the guard of the text formats (`TextProps.PlainWord` of the Lean theorems): non-empty values
    without the ASCII blank / tab / line breaks and without backslash. Other Unicode white space
    (U+00A0, U+3000, ...) is ordinary text to the formats, whose fields end at the ASCII blank"""
    for k, v in tok.items():
        if not isinstance(v, str) or v == '' or any(c in ' \t\n\r\x0b\x0c\x1c\x1d\x1e\x1f\x85\u2028\u2029' for c in v) or '\\' in v:
            return False
    return True
