"""Make the real search runnable: compile the shim, translate parsing.pyx, install the
translated module as depccg._parsing, import the real depccg.parsing."""
import importlib.util
import os
import sys

import build_native
import pyxrt

_state = {}


def setup():
    """-> dict(parsing=<module depccg.parsing>, glue=<translated depccg._parsing>)"""
    if _state:
        return _state
    so = build_native.build_shim()
    pyxrt.load(so)
    path = build_native.translate_pyx()
    sys.modules['pyxrt'] = pyxrt
    spec = importlib.util.spec_from_file_location('depccg._parsing', path)
    mod = importlib.util.module_from_spec(spec)
    sys.modules['depccg._parsing'] = mod
    spec.loader.exec_module(mod)
    import depccg
    depccg._parsing = mod
    import depccg.parsing as parsing
    _state.update(parsing=parsing, glue=mod, rt=pyxrt)
    return _state
