"""Entry point: ./check <ID> [--tier quick|thorough] [--replay FILE]

exit 0: property held on everything explored (KNOWN-FINDING lines possible)
exit 1: VIOLATION line printed
exit 2: infrastructure failure / timeout (never a VIOLATION)"""
import argparse
import importlib
import os
import sys
import traceback

HERE = os.path.dirname(os.path.abspath(__file__))
sys.path.insert(0, HERE)
sys.setrecursionlimit(10000)

import stubs  # noqa: E402
stubs.install()
import common  # noqa: E402


def main():
    ap = argparse.ArgumentParser()
    ap.add_argument('pid')
    ap.add_argument('--tier', default=os.environ.get('VERIF_TIER', 'quick'), choices=['quick', 'thorough'])
    ap.add_argument('--replay', default=None)
    ap.add_argument('--seed', type=int, default=None)
    args = ap.parse_args()
    seed = args.seed if args.seed is not None else int(os.environ.get('VERIF_SEED', '0') or 0)
    try:
        mod = importlib.import_module(f'checks.{args.pid}')
    except ModuleNotFoundError:
        print(f'no check for {args.pid}', file=sys.stderr)
        sys.exit(2)
    # a check that does not finish is an infrastructure failure (exit 2), never a verdict
    import signal

    def _timeout(signum, frame):
        print(f'INFRA-ERROR {args.pid}: timeout', file=sys.stderr)
        os._exit(2)
    signal.signal(signal.SIGALRM, _timeout)
    signal.alarm(int(os.environ.get('VERIF_TIMEOUT', '1500' if args.tier == 'quick' else '14400')))
    ctx = common.Ctx(args.pid, args.tier, seed, level=getattr(mod, 'LEVEL', 'proof'))
    try:
        if args.replay:
            mod.replay(ctx, args.replay)
        else:
            mod.run(ctx)
    except SystemExit:
        raise
    except common.Infra as e:
        print(f'INFRA-ERROR {args.pid}: {e}', file=sys.stderr)
        sys.exit(2)
    except Exception:
        traceback.print_exc()
        print(f'INFRA-ERROR {args.pid}: unexpected exception in the check itself', file=sys.stderr)
        sys.exit(2)


if __name__ == '__main__':
    main()
