#!/bin/bash
# usage: harness/seed_try.sh <srcdir with SEED/> <seed name e.g. C05e> <check ids...>
# imports a sub-agent's seeded change, confirms it (patch applies, suite passes, demo fails with / passes without),
# runs the given checks against it, restores /repo.
set -u
src="$1"; name="$2"; shift 2
cd /verif
if [ -n "$(git -C /repo status --short)" ]; then echo "/repo is not clean"; exit 2; fi
d=seeded/$name
mkdir -p $d
cp -r "$src"/SEED/* $d/ 2>/dev/null
demo=$(ls $d/demo.py $d/demo.sh 2>/dev/null | head -1)
run_demo() { if [[ "$demo" == *.py ]]; then DEPCCG_TREE=/repo PYTHONPATH=/repo timeout 600 /venv/bin/python $demo >/tmp/demo_$name.log 2>&1; else DEPCCG_TREE=/repo timeout 600 bash $demo >/tmp/demo_$name.log 2>&1; fi; echo $?; }
echo "demo clean: exit $(run_demo)"
git -C /repo apply "$PWD/$d/patch.diff" || { echo "patch does not apply"; exit 2; }
trap 'git -C /repo checkout -- . ; git -C /repo clean -fdq depccg tests 2>/dev/null' EXIT
echo "demo patched: exit $(run_demo)"
echo "suite: $(cd /repo && /venv/bin/python -m pytest -q -p no:cacheprovider --timeout=900 --continue-on-collection-errors 2>&1 | tail -1)"
for id in "$@"; do
  out=$(timeout 1700 ./check "$id" --tier quick 2>/dev/null | grep -E "^VIOLATION|^\[" | cut -c1-300)
  echo "check $id: $out"
done
