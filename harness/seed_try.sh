#!/bin/bash
# usage: harness/seed_try.sh <srcdir with SEED/> <seed name e.g. C05e> <check ids...>
# imports a sub-agent's seeded change, confirms it (patch applies, suite passes, demo fails with / passes without),
# runs the given checks against it, restores the tree. Works on VERIF_REPO (default /repo; a plain copy is fine).
set -u
src="$1"; name="$2"; shift 2
cd /verif
REPO=${VERIF_REPO:-/repo}
export VERIF_REPO=$REPO
d=seeded/$name
mkdir -p $d
cp -r "$src"/SEED/* $d/ 2>/dev/null
demo=$(ls $d/demo.py $d/demo.sh 2>/dev/null | head -1)
run_demo() { if [[ "$demo" == *.py ]]; then DEPCCG_TREE=$REPO PYTHONPATH=$REPO timeout 900 /venv/bin/python $demo >/tmp/demo_$name.log 2>&1; else DEPCCG_TREE=$REPO timeout 900 bash $demo >/tmp/demo_$name.log 2>&1; fi; echo $?; }
echo "demo clean: exit $(run_demo)"
(cd $REPO && git apply "/verif/$d/patch.diff") || { echo "patch does not apply"; exit 2; }
trap '(cd $REPO && git apply -R "/verif/$d/patch.diff")' EXIT
echo "demo patched: exit $(run_demo)"
echo "suite: $(cd $REPO && /venv/bin/python -m pytest -q -p no:cacheprovider --timeout=900 --continue-on-collection-errors 2>&1 | tail -1)"
for id in "$@"; do
  out=$(timeout 1700 ./check "$id" --tier quick 2>/dev/null | grep -E "^VIOLATION|^INFRA|^\[" | cut -c1-300)
  echo "check $id: $out"
done
