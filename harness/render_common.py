"""Rendering helpers for C07 C18 C19: the formats offered per language, calling the real
to_string, building batches of parse results."""
from depccg.tree import Tree, ScoredTree
from depccg.printer import to_string
from depccg import lang as dlang
import tree_common as T
import gen_cat

# the CLI's choice lists, read from the argument parser itself (behaviourally)
_formats = {}


def cli_formats(lang):
    if not _formats:
        import argparse
        import depccg.argparse as da
        parser, _ = None, None
        try:
            p = da.parse_args.__wrapped__ if hasattr(da.parse_args, '__wrapped__') else None
        except Exception:
            p = None
        # walk the parser objects created by the module's own function
        import sys
        captured = {}
        orig = argparse.ArgumentParser.add_argument

        def spy(self, *a, **kw):
            if '--format' in a and 'choices' in kw:
                captured[getattr(self, '_verif_lang', self.prog.split(' ')[-1])] = list(kw['choices'])
            return orig(self, *a, **kw)
        argparse.ArgumentParser.add_argument = spy
        import io
        import contextlib
        old_argv = sys.argv
        sys.argv = ['depccg']
        try:
            with contextlib.redirect_stdout(io.StringIO()), contextlib.redirect_stderr(io.StringIO()):
                try:
                    da.parse_args(lambda args: None)
                except SystemExit:
                    pass
                except Exception:
                    pass
        finally:
            argparse.ArgumentParser.add_argument = orig
            sys.argv = old_argv
        for k, v in captured.items():
            _formats[k] = v
    return _formats.get(lang)


EXECUTABLE = ['auto', 'auto_extended', 'deriv', 'xml', 'conll', 'html', 'prolog', 'jigg_xml', 'ptb', 'json', 'ja']
# ccg2lambda / jigg_xml_ccg2lambda need NLTK's logic parser, which is not installed here


def offered(lang):
    f = cli_formats(lang)
    if not f:
        f = (['auto', 'auto_extended', 'deriv', 'xml', 'conll', 'html', 'prolog', 'jigg_xml', 'ptb', 'ccg2lambda',
              'jigg_xml_ccg2lambda', 'json'] if lang == 'en' else
             ['auto', 'deriv', 'ja', 'conll', 'html', 'jigg_xml', 'ptb', 'ccg2lambda', 'jigg_xml_ccg2lambda', 'json', 'prolog'])
    return [x for x in f if x in EXECUTABLE]


def render(batch, fmt, lang, default_stack=False):
    """default_stack=True: run the printer under Python's default recursion limit, as the program does (the
    harness itself raises the limit for its own deep recursions)"""
    import sys
    dlang.set_global_language_to(lang)
    old = sys.getrecursionlimit()
    if default_stack:
        sys.setrecursionlimit(1000)
    try:
        return to_string(batch, format=fmt)
    finally:
        sys.setrecursionlimit(old)
        dlang.set_global_language_to('en')


def make_batch(rng, lang, n_sent=None, licensed_only=False, awkward=0.2, with_failed=0.0, bare=0.0, unispace=0.0, reader_like=0.0):
    cats = gen_cat.tree_cats(lang)
    out = []
    for _ in range(n_sent or rng.randint(1, 3)):
        if rng.random() < with_failed:
            out.append([ScoredTree(T.placeholder(), -float('inf'))])
            continue
        # attrs=None: tokens with all, some or none of lemma / pos / entity / chunk (readers and the failure
        # placeholder produce bare tokens); a fixed 0.6 gives fully annotated tokens
        kw = dict(awkward=awkward, attrs=(None if rng.random() < bare else 0.6), unispace=unispace)
        if licensed_only or rng.random() < 0.6:
            t = T.licensed_tree(rng, lang, rng.randint(0, 4), kw)
        else:
            t = T.arbitrary_tree(rng, lang, rng.randint(1, 5), cats, T.EN_LABELS if lang == 'en' else T.JA_LABELS, kw)
        if rng.random() < reader_like:
            t = T.unk_variant(rng, t, lang)
        if rng.random() < 0.3:
            T.repeat_tokens(rng, t)
        trees = [t]
        toks = t.tokens
        for _ in range(rng.choice([0, 0, 1, 2])):
            alt = T.arbitrary_tree(rng, lang, len(toks), cats, T.EN_LABELS if lang == 'en' else T.JA_LABELS, kw) \
                if not licensed_only else T.clone(t)
            it = iter(toks)

            def retoken(node):
                if node.is_leaf:
                    return Tree(node.cat, [next(it)], node.op_string, node.op_symbol)
                return Tree(node.cat, [retoken(c) for c in node.children], node.op_string, node.op_symbol, node.head_is_left)
            trees.append(retoken(alt))
        scores = [-1.5 - i for i in range(len(trees))]
        if len(trees) > 1 and rng.random() < 0.3:
            # a reranked / hand-assembled list: not in descending score order, ties
            scores = [rng.choice([-0.5, -1.5, -1.5, -7.25]) for _ in trees]
        out.append([ScoredTree(tr, sc) for tr, sc in zip(trees, scores)])
    return out


def batch_state(batch):
    return tuple(tuple((T.deep_state(st.tree), st.score) for st in sent) for sent in batch)


def clone_batch(batch):
    import copy
    return copy.deepcopy(batch)
