"""Shared pieces of the grammar checks (C03, C04, C06, C14): running the real rule
functions, encoding their results like the driver does, pair generators."""
import itertools

from depccg.cat import Category, Atom, Functor, UnaryFeature, TernaryFeature
from depccg.unification import Unification
from depccg.grammar import en, ja
import gen_cat
import tables
import wire
from wire import enc_cat, enc_str, b01

EN_PATTERNS = [('a/b', 'b'), ('b', 'a\\b'), ('a/b', 'b/c'), ('b/c', 'a\\b'), ('a/b', '(b/c)|d'), ('(b/c)|d', 'a/b')]
JA_PATTERNS = [('a/b', 'b'), ('b', 'a\\b'), ('a/b', 'b/c'), ('b\\c', 'a\\b'), ('(b\\c)|d', 'a\\b'),
               ('((b\\c)|d)|e', 'a\\b'), ('(((b\\c)|d)|e)|f', 'a\\b'), ('a/b', 'b\\c'), ('a/b', '(b\\c)|d'),
               ('a/b', '((b\\c)|d)|e')]


def enc_res(r):
    return f'{enc_cat(r.cat)} {enc_str(r.op_string)} {enc_str(r.op_symbol)} {b01(r.head_is_left)}'


def enc_res_list(rs):
    return str(len(rs)) + ('' if not rs else ' ; ' + ' ; '.join(enc_res(r) for r in rs))


def call_rules(fn, *args, **kw):
    """-> (results or None, encoded output)"""
    try:
        rs = fn(*args, **kw)
    except RecursionError:
        raise
    except Exception as e:
        return None, 'err ' + wire.err_name(e)
    try:
        return rs, 'ok ' + enc_res_list(rs)
    except wire.Garbage:
        return rs, 'err Unsupported'
    except Exception:
        # not a list of rule results at all (e.g. a list shared with, and written to by, somebody else)
        return rs, 'ok <malformed result list: ' + repr(rs)[:200] + '>'


def uni_out(px, py, x, y):
    """-> (uni or None, success flag or None, encoded output)"""
    uni = Unification(px, py)
    try:
        ok = uni(x, y)
    except RecursionError:
        raise
    except Exception as e:
        return uni, None, 'err ' + wire.err_name(e)
    if not ok:
        return uni, False, 'fail'
    out = 'ok'
    for k in uni.cats:
        try:
            out += ' | ' + enc_str(k) + ' ' + enc_cat(uni[k])
        except wire.Garbage:
            return uni, True, 'err Unsupported'
        except Exception as e:
            out += ' | ' + enc_str(k) + ' err ' + wire.err_name(e)
    return uni, True, out


def seen_set(variant):
    return {
        (Category.parse(x).clear_features('X', 'nb'), Category.parse(y).clear_features('X', 'nb'))
        for x, y in tables.load(tables.VARIANTS[variant]['seen'])
    }


def unary_table(variant):
    out = {}
    for k, v in tables.load(tables.VARIANTS[variant]['unary']):
        out.setdefault(Category.parse(k), []).append(Category.parse(v))
    return out


def set_seen_line(name, pairs):
    return (f'set_seen {name} {len(pairs)} ' + ' '.join(enc_cat(a) + ' ' + enc_cat(b) for a, b in pairs)).strip()


def set_unary_line(name, table):
    rows = []
    for k, vs in table.items():
        rows.append(enc_cat(k) + f' {len(vs)} ' + ' '.join(enc_cat(v) for v in vs))
    return f'set_unary {name} {len(table)} ' + ' '.join(rows)


def rule_triples(lang):
    """(x, y, expected) of tests/grammar/rules*.txt : file lists `result left right`? -> detect"""
    rel = 'grammar/rules.txt' if lang == 'en' else 'grammar/rules.ja.txt'
    out = []
    for l in tables.test_file_lines(rel):
        parts = l.split(' ')
        if len(parts) == 3:
            cs = tuple(Category.parse(p) for p in parts)
            # rules.txt is `x y expected`; rules.ja.txt is `expected x y` (see the tests)
            out.append(cs if lang == 'en' else (cs[1], cs[2], cs[0]))
    return out


def pattern_pairs(rng, patterns, pool, feats, n, slashes=('/', '\\'), deep=None):
    """instantiate both patterns of a rule with shared variable bindings from pool, then
    (mostly) perturb one feature or slash on one side"""
    out = []
    for _ in range(n):
        px, py = rng.choice(patterns)
        binding = {}
        if deep is not None and rng.random() < 0.35:
            # complex bindings: a variable bound to a functor whose own argument is a functor
            use = deep
        else:
            use = pool
        # small categories for the variables keep the pairs readable and near the boundary
        x = gen_cat.instantiate(rng, Category.parse(px), binding, use, slashes)
        y = gen_cat.instantiate(rng, Category.parse(py), binding, use, slashes)
        k = rng.random()
        if k < 0.35:
            x = gen_cat.perturb(rng, x, feats)
        elif k < 0.7:
            y = gen_cat.perturb(rng, y, feats)
        elif k < 0.8:
            x = gen_cat.perturb(rng, x, feats)
            y = gen_cat.perturb(rng, y, feats)
        out.append((px, py, x, y))
    return out


def short_lived_suite(ctx, apply_binary_rules, recorded, rounds):
    from oracles import sig
    """`recorded`: (text of x, text of y, encoded result, sig of x, sig of y) obtained on categories the check keeps alive. The same pairs
    again on categories that exist for one call only — parsed afresh from their text, combined, released (a parser
    builds and drops categories all the time, so addresses are reused): the result must be the recorded one"""
    from depccg.cat import Category
    n = 0
    for rnd in range(rounds):
        for tx, ty, want, sx0, sy0 in recorded:
            try:
                x, y = Category.parse(tx), Category.parse(ty)
            except Exception:
                continue
            if sig(x) != sx0 or sig(y) != sy0:
                continue        # a value no text denotes (built by a generator): it cannot be rebuilt
            _, out = call_rules(apply_binary_rules, x, y)
            n += 1
            ctx.evaluations += 1
            if out != want:
                ctx.fail('rule application on freshly built categories differs from the result on the same categories built earlier',
                         [tx, ty], fingerprint=['short-lived', tx, ty])
                return n
            del x, y
    return n
