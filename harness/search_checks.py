"""The search-level suite shared by C01 C02 C09 C10 C12 C16: generate problems, run the real
C++ search, compare with the Lean model (status, pop trace, results), apply the oracles the
calling check asks for."""
import json

import common
import native
import search_common as S


def setup(ctx):
    try:
        native.setup()
    except Exception as e:
        # the shim no longer compiles / the glue left the translator's dialect: a broken tie
        ctx.native_error = str(e)
        return False
    ctx.native_error = None
    return True


def compare_one(ctx, p, res, mline, pid, desc):
    """model vs implementation for one problem; returns parsed model output"""
    m = S.parse_model_output(mline)
    ctx.traces += 1
    imp = S.impl_output(res)
    if m['status'] != res['status']:
        ctx.disagree('search', desc, f"status {m['status']}", f"status {res['status']}")
        return m
    mres = m['results']
    ires = [q for q in imp if q.startswith('R ')]
    if m['tie']:
        # ties are resolved by the heap discipline of std::priority_queue, which the model mirrors
        # (Search.pickHeap): traces and results are compared exactly, ties or not
        ctx.extra['ties'] = ctx.extra.get('ties', 0) + 1
    if list(m['pops']) != list(res['pops']):
        k = 0
        while k < min(len(m['pops']), len(res['pops'])) and m['pops'][k] == res['pops'][k]:
            k += 1
        ctx.disagree('search', desc, f"pop {k}: {m['pops'][k] if k < len(m['pops']) else None}",
                     f"pop {k}: {res['pops'][k] if k < len(res['pops']) else None}", note='pop traces differ')
        return m
    if mres != ires:
        ctx.disagree('search', desc, ' ; '.join(mres)[:600], ' ; '.join(ires)[:600], note='results differ')
    return m


def suite(ctx, pid, oracles, gen_kwargs_list, count, max_n_enum=5, enum_limit=60000):
    """oracles: subset of {'optimal', 'monotone', 'valid', 'score', 'nbest', 'ruleids', 'beam'}"""
    from driver import run_lines
    rng = ctx.rng
    ok = setup(ctx)
    if not ok:
        ctx.disagree('native', 'shim/glue build', 'model available', 'implementation not runnable: ' + ctx.native_error)
        return
    problems = []
    # corpus of past minimal failures first
    import os
    cdir = os.path.join(common.VERIF, 'corpus', 'search')
    if os.path.isdir(cdir):
        for fn in sorted(os.listdir(cdir)):
            if fn.endswith('.json'):
                problems.append(S.Problem.from_json(json.load(open(os.path.join(cdir, fn)))))
    per = max(1, count // len(gen_kwargs_list))
    for kw in gen_kwargs_list:
        for _ in range(per):
            problems.append(S.random_problem(rng, **kw))
    runs = []
    for p in problems:
        try:
            res = S.run_cpp(p)
        except ValueError as e:
            raise common.Infra(f'inexact float arithmetic in a generated problem: {e}')
        except Exception as e:
            ctx.fail(f'the search raised {type(e).__name__}: {e}', p.to_json(), fingerprint=['search-raise'])
            continue
        runs.append((p, res))
    # the model's agenda is a plain list (quadratic): very long searches are checked by the
    # oracles only
    big = [len(r['pops']) > 4000 for _, r in runs]
    lines = [S.model_line(p) for (p, _), b in zip(runs, big) if not b]
    model_ok = ctx.lean is None or ctx.lean.driver_ok
    small_outs = iter(run_lines(lines) if model_ok else [None] * len(lines))
    outs = [None if b else next(small_outs) for b in big]
    ctx.extra['too_long_for_model'] = sum(big)
    stats = {'failed': 0, 'parsed': 0, 'enumerated': 0, 'skipped_enum': 0, 'n': {}, 'step_limited': 0}
    for (p, res), mline in zip(runs, outs):
        ctx.evaluations += 1
        desc = p.to_json()
        stats['n'][p.n] = stats['n'].get(p.n, 0) + 1
        if mline is not None:
            if mline == 'bad-op':
                raise common.Infra('driver rejected a search line')
            compare_one(ctx, p, res, mline, pid, desc)
        status = res['status']
        stats['parsed' if status == 0 else 'failed'] += 1
        results = res['results']
        # ---- oracles ----------------------------------------------------------------------
        if 'monotone' in oracles:
            pr = [q[1] + q[2] for q in res['pops']]
            for a, b in zip(pr, pr[1:]):
                if b > a:
                    ctx.fail(f'agenda priorities increased during one search ({a} then {b}, in 1/{S.SCALE})', desc,
                             fingerprint=['monotone'])
                    break
        beam_exact = True
        if p.use_beta:
            sure_excl = S.admitted_tags(p, margin=True)
            maybe = S.admitted_tags(p)
            beam_exact = all(s == m for (s, _), m in zip(sure_excl, maybe))
            admitted = maybe
        else:
            admitted = S.admitted_tags(p)
        for score, tree in results:
            if 'valid' in oracles or 'beam' in oracles:
                why = S.validate_tree(p, tree, admitted)
                if why and ('valid' in oracles or 'admitted' in why):
                    ctx.fail('returned tree is not licensed: ' + why, desc, fingerprint=['valid', why.split(' ')[0]])
            if 'score' in oracles:
                s, head, _ = S.recompute(p, tree)
                if s + p.deps[head][0] != score:
                    ctx.fail(f'reported score {score} but the tree recomputes to {s + p.deps[head][0]} (1/{S.SCALE})', desc,
                             fingerprint=['score'])
            if 'ruleids' in oracles:
                why = S.rule_ids_ok(p, tree)
                if why:
                    ctx.fail('rule id / head direction of a node is not that of the grammar result that created it: ' + why,
                             desc, fingerprint=['ruleids', tree[0]])
        need_enum = oracles & {'optimal', 'nbest', 'beam'}
        if need_enum and p.n <= max_n_enum and beam_exact:
            try:
                chart = S.enumerate_derivations(p, admitted, limit=enum_limit)
            except OverflowError:
                stats['skipped_enum'] += 1
                continue
            stats['enumerated'] += 1
            roots = S.root_derivations(p, chart)
            scores = sorted((s for s, _ in roots), reverse=True)
            budget_hit = len(res['pops']) >= p.max_step
            if budget_hit:
                stats['step_limited'] += 1
            if roots:
                ctx.nontrivial_add(json.dumps(desc, sort_keys=True))
            if 'optimal' in oracles and p.head_uniform and p.nbest == 1:
                if status == 0:
                    if not roots or results[0][0] != scores[0]:
                        ctx.fail(f'first parse has score {results[0][0]} but the best derivation scores '
                                 f'{scores[0] if scores else None} (1/{S.SCALE})', desc, fingerprint=['optimal'])
                elif roots and not budget_hit:
                    ctx.fail('sentence reported as failed although a derivation exists within the step budget', desc,
                             fingerprint=['spurious-failure'])
            if 'beam' in oracles:
                if status != 0 and roots and not budget_hit and p.head_uniform:
                    ctx.fail('sentence failed although a derivation over admitted tags exists', desc, fingerprint=['beam-fail'])
                if status == 0 and not roots:
                    ctx.fail('a parse was returned although every derivation needs a tag outside the beam', desc,
                             fingerprint=['beam-leak'])
            if 'nbest' in oracles and not budget_hit:
                k = p.nbest
                got = [s for s, _ in results]
                want = scores[:k]
                if status == 0:
                    if got != want:
                        ctx.fail(f'{k}-best scores {got} are not the {k} largest derivation scores {want}', desc,
                                 fingerprint=['nbest-scores'])
                    trees = [S.enc_deriv(t) for _, t in results]
                    if len(set(trees)) != len(trees):
                        ctx.fail('the n-best list contains the same derivation twice', desc, fingerprint=['nbest-dup'])
                    if got != sorted(got, reverse=True):
                        ctx.fail('n-best list is not in non-increasing score order', desc, fingerprint=['nbest-order'])
                elif roots:
                    ctx.fail('n-best search failed although derivations exist', desc, fingerprint=['nbest-fail'])
        elif results:
            ctx.nontrivial_add(json.dumps(desc, sort_keys=True))
    ctx.extra['search_stats'] = stats
    if runs:
        p0, r0 = runs[len(runs) // 2]
        ctx.sample({'problem': p0.to_json(), 'status': r0['status'], 'results': [[s, S.enc_deriv(t)] for s, t in r0['results']][:2],
                    'pops': len(r0['pops'])})


def float_order_suite(ctx, count):
    """oracle only, on scores that are NOT exactly representable (float32 rounding is outside the
    model): whatever the rounding does, the n-best list the real search returns must be in
    non-increasing order of the scores it reports, and its derivations must be pairwise different.
    Sentences over a fully ambiguous grammar (X X -> X) with per-token constant dependency rows, so
    that many bracketings have the same real-valued score and differ only by rounding."""
    import numpy
    rng = ctx.rng
    bad = 0
    for k in range(count):
        p = S.Problem()
        p.n = rng.randint(3, 6)
        p.T = rng.randint(1, 2)
        p.roots = list(range(p.T))
        p.nbest = rng.choice([3, 5, 10, 20])
        p.pruning = 50
        p.max_step = 20000
        for x in range(p.T):
            for y in range(p.T):
                p.bin[(x, y)] = [(rng.randrange(p.T), True)]
        if rng.random() < 0.3:
            p.un[0] = [p.T - 1] if p.T > 1 else []
        tag = numpy.array([[rng.uniform(-9, 0) for _ in range(p.T)] for _ in range(p.n)], dtype=numpy.float32)
        if rng.random() < 0.7:
            dep = numpy.array([[rng.uniform(-9, 0)] * (p.n + 1) for _ in range(p.n)], dtype=numpy.float32)
        else:
            dep = numpy.array([[rng.uniform(-9, 0) for _ in range(p.n + 1)] for _ in range(p.n)], dtype=numpy.float32)
        tag = numpy.ascontiguousarray(tag)
        dep = numpy.ascontiguousarray(dep)
        pen = rng.choice([0.1, 0.3, 0.0])
        res = S.run_cpp(p, trace=False, raw=(tag, dep, pen))
        ctx.evaluations += 1
        scores = [sc for sc, _ in res['results']]
        desc = dict(n=p.n, T=p.T, nbest=p.nbest, tag=[[float(v) for v in r] for r in tag], dep=[[float(v) for v in r] for r in dep],
                    penalty=pen, bin={f'{a},{b}': v for (a, b), v in p.bin.items()}, un=p.un, scores=[float.hex(s) for s in scores])
        if any(a < b for a, b in zip(scores, scores[1:])):
            i = next(i for i, (a, b) in enumerate(zip(scores, scores[1:])) if a < b)
            ctx.fail(f'n-best results are not best first: result {i} has score {float.hex(scores[i])} but result {i + 1} has the '
                     f'better score {float.hex(scores[i + 1])}', desc, fingerprint=['float-order'])
            bad += 1
        derivs = [d for _, d in res['results']]
        if len(set(derivs)) != len(derivs):
            ctx.fail('the same derivation is returned twice in one n-best list', desc, fingerprint=['float-distinct'])
        if len(derivs) > 1:
            ctx.nontrivial_add(('float', k))
    ctx.extra['float_order_problems'] = count


def long_sentence_suite(ctx, lengths):
    """sentences beyond 256 tokens (the program accepts them with --max-length raised): one category, one binary rule
    with the head on the right or with mixed heads, so that head positions above 255 occur; oracle only (score
    recomputed from the head flags, leaves in order) — the model's agenda is a plain list"""
    rng = ctx.rng
    if not setup(ctx):
        return
    n_ok = 0
    for n in lengths:
        p = S.Problem()
        p.n, p.T = n, 1
        p.tags = [[rng.randint(-64, 0)] for _ in range(n)]
        p.deps = [[rng.randint(-128, 0) for _ in range(n + 1)] for _ in range(n)]
        p.roots = [0]
        mixed = rng.random() < 0.5
        p.bin = {(0, 0): [(0, False)] + ([(0, True)] if mixed else [])}
        p.head_uniform = not mixed
        p.max_step = 10000000
        desc = {'n': n, 'mixed_heads': mixed, 'tags': p.tags[:5], 'note': 'long sentence; the full problem is regenerated from the seed'}
        try:
            res = S.run_cpp(p, trace=False)
        except Exception as e:
            ctx.fail(f'the search raised {type(e).__name__}: {e} on a sentence of {n} tokens', desc, fingerprint=['long-raise'])
            continue
        ctx.evaluations += 1
        if not res['results']:
            ctx.fail(f'a sentence of {n} tokens with a total grammar has no parse', desc, fingerprint=['long-fail'])
            continue
        for score, tree in res['results']:
            s, head, _ = S.recompute(p, tree)
            if [l[1] for l in S.tree_leaves(tree)] != list(range(n)):
                ctx.fail(f'the leaves of the tree returned for {n} tokens are not the tokens in order', desc, fingerprint=['long-leaves'])
            elif s + p.deps[head][0] != score:
                ctx.fail(f'reported score {score} but the tree recomputes to {s + p.deps[head][0]} (1/{S.SCALE}) on a sentence of {n} tokens',
                         desc, fingerprint=['long-score'])
            else:
                n_ok += 1
                ctx.nontrivial_add(('long', n, score))
    ctx.extra['long_sentences_scored'] = n_ok
