/-
  Line-protocol driver: one request per line on stdin, one response line on stdout.
  Imports model files only (no Mathlib), so it links as a native executable.
-/
import Depccg.Ops

open Depccg

partial def loop (h : IO.FS.Stream) (out : IO.FS.Stream) (st : Ops.State) : IO Unit := do
  let line ← h.getLine
  if line.isEmpty then return ()
  let l := (line.dropEndWhile (fun c => c == '\n' || c == '\r')).toString
  let (st', r) := Ops.dispatch st l
  out.putStrLn r
  loop h out st'

def main : IO Unit := do
  let out ← IO.getStdout
  loop (← IO.getStdin) out {}
  out.flush
