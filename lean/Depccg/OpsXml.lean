/-
  Driver side of the XML correspondence.
-/
import Depccg.OpsTree
import Depccg.Print.Xml

namespace Depccg
namespace OpsXml
open Wire OpsTree Xml

def encAttrs (a : Attrs) : String :=
  toString a.length ++ String.join (a.map fun (k, v) => " " ++ encStr k ++ " " ++ encStr v)

def elem (tag : String) (a : Attrs) (kids : List String) : String :=
  "E " ++ encStr (Str.lit tag) ++ " " ++ encAttrs a ++ " " ++ toString kids.length ++
    String.join (kids.map fun k => " " ++ k)

def encXTree : XTree → String
  | .lf a => elem "lf" a []
  | .rule1 a ch => elem "rule" a [encXTree ch]
  | .rule2 a l r => elem "rule" a [encXTree l, encXTree r]

def encCcg (c : CcgElem) : String :=
  elem "ccg" [(Str.lit "sentence", Str.ofNat c.sentence), (Str.lit "id", Str.ofNat c.id)] [encXTree c.tree]

def pBatch : P (List (List Tree)) := pList (pList pTree)

def encJigg (ss : List JSentence) : String :=
  elem "root" [] [elem "document" [] [elem "sentences" [] (ss.map fun s =>
    elem "sentence" [] (elem "tokens" [] (s.tokens.map fun t => elem "token" t []) ::
      s.ccgs.map fun c => elem "ccg" c.attrs (c.spans.map fun sp => elem "span" sp [])))]]

def encReads (rs : List (Tree × List Token)) : String :=
  " || ".intercalate (rs.map fun (t, toks) =>
    encTree t ++ " | " ++ toString toks.length ++ String.join (toks.map fun t => " " ++ encTok t))

def readXmlAll (lang : Lang) : List CcgElem → Except Err (List (Tree × List Token))
  | [] => .ok []
  | c :: cs =>
    match readXTree lang c.tree, readXmlAll lang cs with
    | .ok r, .ok rs => .ok (r :: rs)
    | .error e, _ => .error e
    | _, .error e => .error e

def readJiggAll (lang : Lang) : List JSentence → Except Err (List (Tree × List Token))
  | [] => .ok []
  | s :: ss =>
    match readJiggSentence lang s, readJiggAll lang ss with
    | .ok r, .ok rs => .ok (r ++ rs)
    | .error e, _ => .error e
    | _, .error e => .error e

def dispatch (op : String) (ts : List String) : Option String :=
  match op with
  | "xml" => some (match pBatch ts with
      | some (b, []) => "ok " ++ elem "candc" [] ((xmlOf b).map encCcg)
      | _ => "bad-op")
  | "jigg" => some (match ts with
      | u :: rest => (match pBatch rest with
        | some (b, []) => (match jiggOf (u == "1") b with
          | .ok ss => "ok " ++ encJigg ss
          | .error e => "err " ++ e.name)
        | _ => "bad-op")
      | [] => "bad-op")
  | "read_xml" => some (match pLang ts with
      | some (lang, rest) => (match pBatch rest with
        | some (b, []) => (match readXmlAll lang (xmlOf b) with
          | .ok rs => "ok " ++ encReads rs
          | .error e => "err " ++ e.name)
        | _ => "bad-op")
      | none => "bad-op")
  | "read_jigg" => some (match pLang ts with
      | some (lang, rest) => (match pBatch rest with
        | some (b, []) => (match jiggOf (lang == .ja) b with
          | .error e => "err " ++ e.name
          | .ok ss => (match readJiggAll lang ss with
            | .ok rs => "ok " ++ encReads rs
            | .error e => "err " ++ e.name))
        | _ => "bad-op")
      | none => "bad-op")
  | "normalize" => some (match pStr ts with
      | some (s, []) => "ok " ++ encStr (normalizeToken s)
      | _ => "bad-op")
  | _ => none

end OpsXml
end Depccg
