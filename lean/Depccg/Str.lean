/-
  Strings of the model: lists of Unicode code points (what Python's `len`, indexing,
  `find`, `split(' ')` count).  No Mathlib, structural recursion only, so that every
  function here evaluates in the kernel (`decide +kernel`) and compiles into the driver.
-/
namespace Depccg

abbrev Str := List Nat

namespace Str

/-- Literal: `s!"abc"` is not used to avoid macros; `Str.lit "abc"` converts at elaboration/run time. -/
def lit (s : String) : Str := s.toList.map Char.toNat

def toString (s : Str) : String := String.ofList (s.map Char.ofNat)

/-- code points used all over the model -/
def cSpace : Nat := 32
def cLPar : Nat := 40   -- (
def cRPar : Nat := 41   -- )
def cComma : Nat := 44  -- ,
def cSlash : Nat := 47  -- /
def cLt : Nat := 60     -- <
def cEq : Nat := 61     -- =
def cGt : Nat := 62     -- >
def cLBr : Nat := 91    -- [
def cBSlash : Nat := 92 -- \
def cRBr : Nat := 93    -- ]
def cBar : Nat := 124   -- |
def cLBrace : Nat := 123 -- {
def cRBrace : Nat := 125 -- }
def cUnderscore : Nat := 95

/-- Python `sep.join(parts)` for a one-character separator. -/
def joinSep (sep : Nat) : List Str → Str
  | [] => []
  | [x] => x
  | x :: y :: rest => x ++ sep :: joinSep sep (y :: rest)

/-- Python `sep.join(parts)` for a string separator. -/
def joinStr (sep : Str) : List Str → Str
  | [] => []
  | [x] => x
  | x :: y :: rest => x ++ sep ++ joinStr sep (y :: rest)

/-- Python `s.split(c)` for a one-character separator: always at least one field. -/
def splitOnAux (c : Nat) : Str → Str → List Str
  | acc, [] => [acc.reverse]
  | acc, x :: xs => if x = c then acc.reverse :: splitOnAux c [] xs else splitOnAux c (x :: acc) xs

def splitOn (c : Nat) (s : Str) : List Str := splitOnAux c [] s

/-- Python `c in s` for a character. -/
def hasChar (c : Nat) (s : Str) : Bool := s.elem c

/-- Python `s.startswith(p)`. -/
def startsWith : Str → Str → Bool
  | _, [] => true
  | [], _ :: _ => false
  | x :: xs, p :: ps => x == p && startsWith xs ps

def endsWith (s p : Str) : Bool := startsWith s.reverse p.reverse

/-- Python `s.find(c, start)` for a one-character needle, as an offset from the list given
    (the caller adds the start index); `none` is Python's `-1`. -/
def findChar (c : Nat) : Str → Option Nat
  | [] => none
  | x :: xs => if x = c then some 0 else (findChar c xs).map (· + 1)

/-- Python `s.replace(old, new)` for a one-character `old`. -/
def replaceChar (old : Nat) (new : Str) : Str → Str
  | [] => []
  | x :: xs => if x = old then new ++ replaceChar old new xs else x :: replaceChar old new xs

/-- decimal digits of a natural number, as code points (Python `str(n)`), fuel-bounded. -/
def natDigitsAux : Nat → Nat → Str → Str
  | 0, _, acc => acc
  | fuel + 1, n, acc =>
    if n < 10 then (48 + n) :: acc else natDigitsAux fuel (n / 10) ((48 + n % 10) :: acc)

def ofNat (n : Nat) : Str := natDigitsAux (n + 1) n []

end Str
end Depccg
