/-
  Lemmas for C15 at the level of files: `Cli.mapExcept` along a `Forall2`, the `<ccg>` records of
  `xmlOf` against the trees of the batch, the `score` attribute is invisible to `readJiggSentence`,
  the single-sentence Jigg round trip for every sentence number, and the batch.   Core Lean only.
-/
import Depccg.Props.C15FileDefs
import Depccg.Props.C15Text
import Depccg.Props.C15

namespace Depccg.C15File
open Depccg Str Xml TextProps C15

/-! ### `mapExcept` along a relation -/

theorem cf_mapExcept_forall2 {α β γ : Type} (f : β → Except Err γ) (S : α → β → Prop) (R : α → γ → Prop) :
    ∀ (as : List α) (bs : List β), FileProps.Forall2 S as bs →
      (∀ a ∈ as, ∀ b, S a b → ∃ r, f b = .ok r ∧ R a r) →
      ∃ rs, Cli.mapExcept f bs = .ok rs ∧ FileProps.Forall2 R as rs := by
  intro as bs h
  induction h with
  | nil => exact fun _ => ⟨[], rfl, .nil⟩
  | @cons a b as bs hab _ ih =>
    intro hall
    obtain ⟨r, hr, hR⟩ := hall a List.mem_cons_self b hab
    obtain ⟨rs, hrs, hF⟩ := ih fun a' ha' => hall a' (List.mem_cons_of_mem _ ha')
    refine ⟨r :: rs, ?_, .cons hR hF⟩
    simp only [Cli.mapExcept, hr, hrs]

theorem cf_forall2_append {α β : Type} {R : α → β → Prop} :
    ∀ {as : List α} {bs : List β} {as' : List α} {bs' : List β},
      FileProps.Forall2 R as bs → FileProps.Forall2 R as' bs' → FileProps.Forall2 R (as ++ as') (bs ++ bs') := by
  intro as bs as' bs' h h'
  induction h with
  | nil => exact h'
  | cons hab _ ih => exact .cons hab ih

/-! ### the records of `xmlOf` -/

theorem cf_zipIdx_trees (si : Nat) : ∀ (trees : List Tree) (k : Nat),
    FileProps.Forall2 (fun (t : Tree) (c : CcgElem) => c.tree = (xmlTree t 0).1) trees
      ((trees.zipIdx k).map fun (t, ti) => (⟨si, ti + 1, (xmlTree t 0).1⟩ : CcgElem))
  | [], _ => .nil
  | t :: ts, k => by
    rw [List.zipIdx_cons, List.map_cons]
    exact .cons rfl (cf_zipIdx_trees si ts (k + 1))

theorem cf_xmlOfAux_trees : ∀ (batch : List (List Tree)) (si : Nat),
    FileProps.Forall2 (fun (t : Tree) (c : CcgElem) => c.tree = (xmlTree t 0).1) batch.flatten (xmlOfAux batch si)
  | [], _ => .nil
  | trees :: rest, si => by
    rw [List.flatten_cons, xmlOfAux]
    exact cf_forall2_append (cf_zipIdx_trees si trees 0) (cf_xmlOfAux_trees rest (si + 1))

theorem cf_xml_file : XmlFileRoundtripStatement := by
  intro lang batch text hall htext
  have hdec := C15Text.xml_text_decode batch text (fun ts hts t ht => (hall ts hts t ht).2.2.2) htext
  unfold readXmlFile
  rw [hdec]
  refine cf_mapExcept_forall2 (fun c : CcgElem => readXTree lang c.tree) _ _ (flat batch) (xmlOf batch)
    (cf_xmlOfAux_trees batch 1) ?_
  intro t ht c hc
  obtain ⟨ts, hts, htt⟩ := List.mem_flatten.1 ht
  obtain ⟨h1, h2, h3, _⟩ := hall ts hts t htt
  obtain ⟨t', himg, hread⟩ := C15.xml_roundtrip lang t 0 h1 h2 h3
  refine ⟨(t', t'.tokens), ?_, t', himg, rfl⟩
  show readXTree lang c.tree = _
  rw [hc]
  exact hread

/-! ### the `score` attribute -/

theorem cf_go_scores (lang : Lang) (toks : List (Str × Token)) : ∀ (cs : List JCcg) (sc : List (Option Int)),
    readJiggSentence.go lang toks (withScores cs sc) = readJiggSentence.go lang toks cs
  | [], [] => rfl
  | [], _ :: _ => rfl
  | _ :: _, [] => rfl
  | c :: cs, s :: sc => by
    rw [withScores, readJiggSentence.go, readJiggSentence.go, cf_go_scores lang toks cs sc]
    have hroot : getAttr (setAttr c.attrs (lit "score") (scoreAttr s)) (lit "root") = getAttr c.attrs (lit "root") := by
      unfold getAttr setAttr
      rw [C06.get?_set_ne _ _ (by decide)]
    simp only [hroot]

theorem cf_sentence_scores (lang : Lang) (toks : List Attrs) (cs : List JCcg) (sc : List (Option Int)) :
    readJiggSentence lang { tokens := toks, ccgs := withScores cs sc } =
      readJiggSentence lang { tokens := toks, ccgs := cs } := by
  unfold readJiggSentence
  cases readJiggTokens toks with
  | error e => rfl
  | ok tk => exact cf_go_scores lang tk cs sc

/-! ### one sentence, any sentence number -/

theorem cf_sentence (sid : Nat) (t : Tree) (ts : List Tree)
    (hall : ∀ t' ∈ t :: ts, AllCats C05.WF t' ∧ AllCats C14.AllTernary t' ∧ AllToks JiggTokOK t')
    (hsame : ∀ t' ∈ t :: ts, ∀ t'' ∈ t :: ts, t'.tokens = t''.tokens) :
    ∃ rs, readJiggSentence .ja
        { tokens := (t.tokens.zip (leafCats t)).zipIdx.map fun ((tok, c), i) => jiggToken sid i c tok,
          ccgs := jiggTrees sid true (t :: ts) 0 0 } = .ok rs ∧
      rs.map (fun r => shapeWords r.1) = (t :: ts).map shapeWords := by
  rw [sentToks_eq]
  have htoks : AllToks JiggTokOK t := (hall t List.mem_cons_self).2.2
  have hread : readJiggTokens (sentToks sid t) = .ok (((t.tokens.zip (leafCats t)).zipIdx).map fun x =>
      (tokId sid x.2, rdTok (jiggToken sid x.2 x.1.2 x.1.1))) := by
    apply readTokens_map
    intro x hx kv hkv
    have hx1 : x.1 ∈ t.tokens.zip (leafCats t) := by
      have : x.1 ∈ List.map Prod.fst ((t.tokens.zip (leafCats t)).zipIdx) := List.mem_map.2 ⟨x, hx, rfl⟩
      rwa [List.zipIdx_eq_zip_range', List.map_fst_zip (by simp)] at this
    have hx2 : x.1.1 ∈ t.tokens := (List.of_mem_zip (a := x.1.1) (b := x.1.2) hx1).1
    have := (allToks_mem htoks _ hx2).2.1 kv hkv
    intro e; apply this; rw [e]; decide
  obtain ⟨rs, hrs, hmap⟩ := go_trees sid true _ _ (tokTable_sent sid t htoks) (t :: ts) 0 0 (by
    intro t' ht'
    refine ⟨(hall t' ht').1, (hall t' ht').2.1, ?_⟩
    rw [hsame t' ht' t List.mem_cons_self])
  refine ⟨rs, ?_, hmap⟩
  simp only [readJiggSentence, hread]
  exact hrs

/-! ### the batch -/

theorem cf_jigg_batch : ∀ (batch : List (List Tree)) (sid : Nat) (ss : List JSentence) (scs : List (List (Option Int))),
    (∀ ts ∈ batch, ts ≠ [] ∧
      (∀ t ∈ ts, AllCats C05.WF t ∧ AllCats C14.AllTernary t ∧ AllToks JiggTokOK t) ∧
      (∀ t ∈ ts, ∀ t' ∈ ts, t.tokens = t'.tokens)) →
    jiggOfAux true batch sid = .ok ss →
    ∃ rss, Cli.mapExcept (fun s : JSentence => readJiggSentence .ja s) (withScoresAll ss scs) = .ok rss ∧
      rss.flatten.map (fun r => shapeWords r.1) = batch.flatten.map shapeWords
  | [], _, ss, scs, _, h => by
    simp only [jiggOfAux, Except.ok.injEq] at h
    subst h
    cases scs <;> exact ⟨[], rfl, rfl⟩
  | [] :: _, _, _, _, hall, _ => absurd rfl (hall [] List.mem_cons_self).1
  | (t :: ts) :: rest, sid, ss, scs, hall, h => by
    simp only [jiggOfAux] at h
    cases hmore : jiggOfAux true rest (sid + 1) with
    | error e => rw [hmore] at h; cases h
    | ok more =>
      rw [hmore] at h
      simp only [Except.ok.injEq] at h
      subst h
      obtain ⟨_, h1, h2⟩ := hall (t :: ts) List.mem_cons_self
      obtain ⟨rs, hrs, hmap⟩ := cf_sentence sid t ts h1 h2
      have hrest : ∀ ts' ∈ rest, _ := fun ts' hts' => hall ts' (List.mem_cons_of_mem _ hts')
      cases scs with
      | nil =>
        obtain ⟨rss, hrss, hmaps⟩ := cf_jigg_batch rest (sid + 1) more [] hrest hmore
        have hw : ∀ l : List JSentence, withScoresAll l [] = l := fun l => by cases l <;> rfl
        rw [hw] at hrss ⊢
        refine ⟨rs :: rss, ?_, ?_⟩
        · simp only [Cli.mapExcept, hrs, hrss]
        · rw [List.flatten_cons, List.map_append, hmap, hmaps, List.flatten_cons, List.map_append]
      | cons sc scs =>
        obtain ⟨rss, hrss, hmaps⟩ := cf_jigg_batch rest (sid + 1) more scs hrest hmore
        refine ⟨rs :: rss, ?_, ?_⟩
        · rw [withScoresAll]
          simp only [Cli.mapExcept, cf_sentence_scores, hrs, hrss]
        · rw [List.flatten_cons, List.map_append, hmap, hmaps, List.flatten_cons, List.map_append]

theorem cf_jigg_file : JiggFileRoundtripJaStatement := by
  intro batch text hall htext
  unfold jiggText at htext
  cases hj : jiggOf true (batch.map fun ts => ts.map fun p => p.1) with
  | error e => rw [hj] at htext; cases htext
  | ok ss =>
    have hdec := C15Text.jigg_text_decode true batch ss text
      (fun ts hts p hp => ((hall ts hts).2.1 p hp).2.2.2) hj htext
    unfold readJiggFile
    rw [hdec]
    have hj' : jiggOfAux true (batch.map fun ts => ts.map fun p => p.1) 0 = .ok ss := hj
    obtain ⟨rss, hrss, hmap⟩ := cf_jigg_batch (batch.map fun ts => ts.map fun p => p.1) 0 ss
      (batch.map fun ts => ts.map fun p => p.2) (by
        intro ts' hts'
        obtain ⟨ts, hts, rfl⟩ := List.mem_map.1 hts'
        obtain ⟨hne, h1, h2⟩ := hall ts hts
        refine ⟨by simpa using hne, ?_, ?_⟩
        · intro t ht
          obtain ⟨p, hp, rfl⟩ := List.mem_map.1 ht
          exact ⟨(h1 p hp).1, (h1 p hp).2.1, (h1 p hp).2.2.1⟩
        · intro t ht t' ht'
          obtain ⟨p, hp, rfl⟩ := List.mem_map.1 ht
          obtain ⟨q, hq, rfl⟩ := List.mem_map.1 ht'
          exact h2 p hp q hq) hj'
    refine ⟨rss.flatten, ?_, hmap⟩
    simp only [hrss]

end Depccg.C15File
