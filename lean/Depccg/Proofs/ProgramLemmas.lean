/-
  Lemmas for Props/Program.lean, part 3: the program from its configuration on. The hypotheses
  `Closure.TableWF table` / `∀ c ∈ categories, C05.WF c` of `main_total_partial` are too strong for
  what `Cat.parse` returns (`parse_wf_original_false`); what the English Prolog printer needs is only
  that no *atom* prints as `NP\NP`, and that holds of every `ReadWF` value — so `mt_main_total` is
  redone here over `ReadWF` (`pl_main_total`), and the unary table of `read_params` and the tagger's
  categories are `ReadWF` because they are parsed.
-/
import Depccg.Proofs.ProgramParseLemmas
import Depccg.Proofs.ProgramClosureLemmas
import Depccg.Proofs.MainTotalLemmas
import Depccg.Proofs.ConfigLemmas
import Depccg.Props.Config

namespace Depccg.ProgramProps
open Depccg Str Search SearchProps GlueTree GlueRun Lazy Print Cli LazyProps GlueRunProps TextProps
open CliProps Config

/-! ### the labels of the English grammar and the English Prolog printer, over `ReadWF` -/

/-- a read category that prints as `NP\NP` is the functor, not an atom of that name -/
theorem pl_str_npnp : ∀ {c : Cat}, ReadWF c → c.str = lit "NP\\NP" → c.isFunctor = true
  | .fn .., _, _ => rfl
  | .atom b f, hwf, h => by
    exfalso
    simp only [Cat.str] at h
    split at h
    · subst h
      rcases hwf.1 with hp | hp | hp
      · have := hp.2 cBSlash (by decide)
        revert this
        decide
      · revert hp
        decide
      · revert hp
        decide
    · have : cLBr ∈ lit "NP\\NP" := by
        rw [← h]
        simp
      revert this
      decide

/-- a result labelled `conj` has a functor category as soon as its category is a read value -/
theorem pl_comb_conj {c : En.Comb} (hc : c ∈ En.combinators) {x y : Cat} {r : RuleRes}
    (h : c x y = .ok (some r)) (hl : r.opString = lit "conj") (hwf : ReadWF r.cat) :
    r.cat.isFunctor = true := by
  rcases C03.mem_combinators hc with rfl | rfl | rfl | rfl | rfl | rfl | rfl | rfl | rfl | rfl | rfl | rfl | rfl
  · obtain ⟨k, rfl⟩ := C03.label_fa _ _ _ h
    exact absurd (show lit "fa" = lit "conj" from hl) (by decide)
  · obtain ⟨k, rfl⟩ := C03.label_ba _ _ _ h
    exact absurd (show lit "ba" = lit "conj" from hl) (by decide)
  · obtain ⟨k, rfl⟩ := C03.label_fc _ _ _ h
    exact absurd (show lit "fc" = lit "conj" from hl) (by decide)
  · obtain ⟨k, rfl⟩ := C03.label_bx _ _ _ h
    exact absurd (show lit "bx" = lit "conj" from hl) (by decide)
  · obtain ⟨k, rfl⟩ := C03.label_gfc _ _ _ h
    exact absurd (show lit "gfc" = lit "conj" from hl) (by decide)
  · obtain ⟨k, rfl⟩ := C03.label_gbx _ _ _ h
    exact absurd (show lit "gbx" = lit "conj" from hl) (by decide)
  · exact mt_conj_functor h
  · exact pl_str_npnp hwf (mt_conj2_cat h)
  · obtain ⟨k, rfl⟩ := C03.label_rp1 _ _ _ h
    exact absurd (show lit "lp" = lit "conj" from hl) (by decide)
  · obtain ⟨k, rfl⟩ := C03.label_rp2 _ _ _ h
    exact absurd (show lit "rp" = lit "conj" from hl) (by decide)
  · obtain ⟨k, rfl⟩ := C03.label_rpl _ _ _ h
    exact absurd (show lit "lp" = lit "conj" from hl) (by decide)
  · obtain ⟨k, rfl⟩ := C03.label_comma _ _ _ h
    exact absurd (show lit "lp" = lit "conj" from hl) (by decide)
  · obtain ⟨k, rfl⟩ := C03.label_pds _ _ _ h
    exact absurd (show lit "lp" = lit "conj" from hl) (by decide)

theorem pl_en_res_ok {seen : Option (List (Cat × Cat))} {x y : Cat} {rs : List RuleRes}
    (h : En.applyBinary seen x y = .ok rs) {r : RuleRes} (hr : r ∈ rs) :
    (Dict.get? Print.opMapping r.opString).isSome ∧
      (r.opString = lit "conj" → ReadWF r.cat → r.cat.isFunctor = true) := by
  refine ⟨(mt_en_res_ok h hr).1, ?_⟩
  intro hl hwf
  obtain ⟨c, hc, hcr⟩ := C03.applyBinary_mem (C14.clear_nb_eq x) (C14.clear_nb_eq y) h hr
  exact pl_comb_conj hc hcr hl hwf

/-- a tree licensed by the English grammar whose categories are read values is acceptable to the
    English Prolog printer -/
theorem pl_en_prologOK {seen : Option (List (Cat × Cat))} {table : List (Cat × List Cat)} {t : Tree}
    (hl : EndToEnd.TreeLicensed (EndToEnd.enGrammar seen table) t) :
    AllCats ReadWF t → C19.EnPrologOK t := by
  induction hl with
  | leaf c tok => intro _; trivial
  | un c opS opY ch r _ _ _ _ _ ih => intro hw; exact ih hw.2
  | bin c opS opY hd l r res _ _ hmem hcat hos _ _ ihl ihr =>
    intro hw
    simp only [EndToEnd.enGrammar] at hmem
    split at hmem
    · rename_i rs hrs
      obtain ⟨h1, h2⟩ := pl_en_res_ok hrs hmem
      subst hcat hos
      exact ⟨h1, fun e => h2 e hw.1, ihl hw.2.1, ihr hw.2.2⟩
    · cases hmem

/-- the English Prolog condition of `ResultsRenderStatement'`, over read values -/
theorem pl_results_render_en (seen : Option (List (Cat × Cat))) (table : List (Cat × List Cat))
    (categories roots : List Cat) (calls : List Call) (cfg : Cfg) (maxLength : Option Nat) (x : SentIn)
    (r : SentResult) (hnd : categories.Nodup) (hlex : LexOK categories x)
    (h : (sentenceL pickHeap (OutputWF.shipped true seen table) (addRoots categories roots).2 cfg maxLength
        (calls.foldl (GlueRun.step (OutputWF.shipped true seen table)) (GlueRun.init categories roots)) x).1 = .ok r)
    (htab : TableReadWF table) (hcats : ∀ c ∈ categories, ReadWF c) :
    ∀ ts ∈ scored r, C19.EnPrologOK ts.1 := by
  intro ts hts
  cases r with
  | failed =>
    simp only [scored, List.mem_singleton] at hts
    subst hts
    exact C19.placeholder_renders.2.1
  | parsed trees =>
    simp only [scored, List.mem_map] at hts
    obtain ⟨p, hp, rfl⟩ := hts
    obtain ⟨hlic, -, hleaf⟩ := mt_sentence_trees hnd hlex h p hp
    rw [OutputWF.ow_toE2E_shipped] at hlic
    have hwf : AllCats ReadWF p.1 :=
      pc_licensed_wf (pc_en_closed seen table htab) hlic (fun c hc => hcats c (hleaf c hc))
    exact pl_en_prologOK hlic hwf

/-! ### the whole program, over read values -/

/-- `MainTotalStatement'` with `ReadWF` for `C05.WF` -/
theorem pl_main_total (en : Bool) (seen : Option (List (Cat × Cat))) (table : List (Cat × List Cat))
    (o : Opts) (lines tagCats : List Str) (scores : List Scores) (roots categories : List Cat)
    (doc : List (List Token))
    (hr : rootsOf o.rootCats = .ok roots) (hd : Cli.mapExcept (tokensOfLine o.piped) lines = .ok doc)
    (hc : Cli.mapExcept Cat.parse tagCats = .ok categories) (hnd : categories.Nodup)
    (hlex : ∀ x ∈ zipSents doc scores, LexOK categories x) (hfit : fmtFits en o.format = true)
    (hwf : o.format = Fmt.prologEn → TableReadWF table ∧ ∀ c ∈ categories, ReadWF c) :
    ∃ text, mainText (OutputWF.shipped en seen table) o lines tagCats scores = .ok text := by
  have hready : ∀ x ∈ zipSents doc scores, ∃ r,
      (sentenceL pickHeap (OutputWF.shipped en seen table) (addRoots categories roots).2 o.cfg (some o.maxLength)
        (GlueRun.init categories roots) x).1 = .ok r := fun x hx =>
    mt_sentenceL_ok (ready_of_history _ categories roots [] x hnd (hlex x hx))
  obtain ⟨results, hres⟩ := mt_mapExcept_total _ _ hready
  rw [main_eq_map_solo _ o lines tagCats scores roots categories doc hr hd hc hnd hlex results hres]
  have hall : ∀ r ∈ results, ∀ ts ∈ scored r, AllToks C19.HasWord ts.1 ∧
      (en = true → Closure.TableWF table → (∀ c ∈ categories, C05.WF c) → C19.EnPrologOK ts.1) ∧
      (en = false → C19.JaPrologOK ts.1) := by
    intro r hr'
    obtain ⟨x, hx, hxr⟩ := mt_mapExcept_mem _ _ _ hres r hr'
    exact mt_results_render en seen table categories roots [] o.cfg (some o.maxLength) x r hnd (hlex x hx)
      (mt_doc_hasWord hd _ (mt_zipSents_tokens doc scores x hx)) hxr
  apply mt_printText_total
  · refine ⟨?_, ?_, ?_⟩ <;> (intro h; rw [h] at hfit; simp [fmtFits] at hfit)
  · intro r hr'
    obtain ⟨x, -, hxr⟩ := mt_mapExcept_mem _ _ _ hres r hr'
    exact mt_sentenceL_nonempty hxr
  · exact fun r hr' ts hts => (hall r hr' ts hts).1
  · intro hf r hr' ts hts
    rw [hf] at hfit
    obtain ⟨htab, hcats⟩ := hwf hf
    have hen : en = true := hfit
    subst hen
    obtain ⟨x, hx, hxr⟩ := mt_mapExcept_mem _ _ _ hres r hr'
    exact pl_results_render_en seen table categories roots [] o.cfg (some o.maxLength) x r hnd
      (hlex x hx) hxr htab hcats ts hts
  · intro hf r hr' ts hts
    rw [hf] at hfit
    refine (hall r hr' ts hts).2.2 ?_
    simpa [fmtFits] using hfit

/-! ### what `read_params` and the tagger's category names give is read -/

theorem pl_appendKey {tbl : List (Cat × List Cat)} {k v : Cat} (ht : TableReadWF tbl) (hv : ReadWF v) :
    TableReadWF (appendKey tbl k v) := by
  induction tbl with
  | nil =>
    intro p hp c hc
    simp only [appendKey, List.mem_singleton] at hp
    subst hp
    simp only [List.mem_singleton] at hc
    subst hc
    exact hv
  | cons q rest ih =>
    obtain ⟨k', vs⟩ := q
    have hrest : TableReadWF rest := fun p hp => ht p (List.mem_cons_of_mem _ hp)
    have hq : ∀ c ∈ vs, ReadWF c := ht (k', vs) List.mem_cons_self
    intro p hp c hc
    simp only [appendKey] at hp
    split at hp
    · rcases List.mem_cons.1 hp with rfl | hp
      · rcases List.mem_append.1 hc with hc | hc
        · exact hq c hc
        · simp only [List.mem_singleton] at hc
          subst hc
          exact hv
      · exact hrest p hp c hc
    · rcases List.mem_cons.1 hp with rfl | hp
      · exact hq c hc
      · exact ih hrest p hp c hc

/-- every target of the unary table `read_params` builds is a parsed string -/
theorem pl_unaryTable : ∀ (pairs : List (Str × Str)) (tbl tbl' : List (Cat × List Cat)),
    unaryTable tbl pairs = .ok tbl' → TableReadWF tbl → TableReadWF tbl'
  | [], tbl, tbl', h, ht => by
    simp only [unaryTable, Except.ok.injEq] at h
    subst h
    exact ht
  | (ks, vs) :: rest, tbl, tbl', h, ht => by
    simp only [unaryTable] at h
    cases hk : Cat.parse ks with
    | error e => rw [hk] at h; cases h
    | ok k =>
      rw [hk] at h
      cases hv : Cat.parse vs with
      | error e => rw [hv] at h; cases h
      | ok v =>
        rw [hv] at h
        exact pl_unaryTable rest _ tbl' h (pl_appendKey ht (pp_parse_readWF hv))

theorem pl_readParams_table {p : Params} {dd ds : Bool} {L : Loaded} (h : readParams p dd ds = .ok L) :
    TableReadWF L.table := by
  obtain ⟨ht, -, -, -⟩ := ConfigProps.cf_readParams_inv p dd ds L h
  exact pl_unaryTable _ _ _ ht (by intro p hp; cases hp)

theorem pl_categories {tagCats : List Str} {categories : List Cat}
    (h : Cli.mapExcept Cat.parse tagCats = .ok categories) : ∀ c ∈ categories, ReadWF c := by
  intro c hc
  obtain ⟨s, -, hs⟩ := mt_mapExcept_mem _ _ _ h c hc
  exact pp_parse_readWF hs

/-- `ProgramTotalStatement` -/
theorem pl_program_total : ProgramTotalStatement := by
  intro en p o lines tagCats scores categories doc hu hseen htg hroots hd hc hnd hlex hfit
  obtain ⟨L, hL⟩ := ConfigProps.read_params_total p true false hu (fun h => by cases h)
    (fun _ => hseen) htg
  obtain ⟨roots, hr⟩ := hroots
  simp only [programText, hL]
  exact pl_main_total en L.seen L.table o lines tagCats scores roots categories doc hr hd hc hnd hlex hfit
    (fun _ => ⟨pl_readParams_table hL, pl_categories hc⟩)

end Depccg.ProgramProps
