/-
  Lemmas for C15 / text: the XML reader `Read.parseXml` on the text `Xml.Elem.render` writes
  (white space, names, attribute values and their references, the recursive descent), and the way
  back from the element tree to the `<ccg>` records and the Jigg sentences.
-/
import Depccg.Props.C15TextDefs
import Depccg.Proofs.C07ConllLemmas
import Depccg.Proofs.C15Lemmas

namespace Depccg.C15Text
open Depccg Str Xml Read

/-! ### white space -/

theorem xt_skipWs_indent (n : Nat) (s : Str) : xmlSkipWs (indent n ++ s) = xmlSkipWs s := by
  unfold indent
  induction n with
  | zero => rfl
  | succ n ih =>
    rw [List.replicate_succ, List.cons_append]
    show (if xmlWs cSpace then xmlSkipWs (List.replicate n cSpace ++ s) else _) = _
    rw [if_pos (by decide), ih]

theorem xt_skipWs_cons {c : Nat} (r : Str) (h : xmlWs c = false) : xmlSkipWs (c :: r) = c :: r := by
  show (if xmlWs c then _ else _) = _
  rw [h]; rfl

theorem xt_skipWs_nl (s : Str) : xmlSkipWs (10 :: s) = xmlSkipWs s := by
  show (if xmlWs 10 then _ else _) = _
  rw [if_pos (by decide)]

theorem xt_skipWs_sp (s : Str) : xmlSkipWs (32 :: s) = xmlSkipWs s := by
  show (if xmlWs 32 then _ else _) = _
  rw [if_pos (by decide)]

/-! ### names -/

instance (s : Str) : Decidable (NameOK s) := by unfold NameOK; infer_instance

theorem xt_nameChar_of {c : Nat}
    (h : c ≠ 32 ∧ c ≠ 9 ∧ c ≠ 10 ∧ c ≠ 13 ∧ c ≠ 61 ∧ c ≠ 60 ∧ c ≠ 62 ∧ c ≠ 47 ∧ c ≠ 34 ∧ c ≠ 39 ∧ c ≠ 38) :
    xmlNameChar c = true := by
  obtain ⟨h1, h2, h3, h4, h5, h6, h7, h8, h9, h10, h11⟩ := h
  simp [xmlNameChar, xmlWs, h1, h2, h3, h4, h5, h6, h7, h8, h9, h10, h11]

theorem xt_nameChar_notWs {c : Nat} (h : xmlNameChar c = true) : xmlWs c = false := by
  simp only [xmlNameChar, Bool.and_eq_true, Bool.not_eq_true'] at h
  exact h.1.1.1.1.1.1.1

/-- the text ends a name -/
def NoNameHead : Str → Prop
  | [] => True
  | c :: _ => xmlNameChar c = false

theorem xt_span_name : ∀ (n rest : Str), (∀ c ∈ n, xmlNameChar c = true) → NoNameHead rest →
    (n ++ rest).takeWhile xmlNameChar = n ∧ (n ++ rest).dropWhile xmlNameChar = rest
  | [], [], _, _ => by simp
  | [], c :: r, _, hr => by
    have : xmlNameChar c = false := hr
    simp [this]
  | d :: ds, rest, hd, hr => by
    have h1 := hd d (List.mem_cons_self ..)
    have ih := xt_span_name ds rest (fun x hx => hd x (List.mem_cons_of_mem _ hx)) hr
    simp [h1, ih.1, ih.2]

theorem xt_readName {n : Str} (hn : NameOK n) (rest : Str) (hr : NoNameHead rest) :
    xmlReadName (n ++ rest) = some (n, rest) := by
  obtain ⟨h1, h2⟩ := xt_span_name n rest (fun c hc => xt_nameChar_of (hn.2 c hc)) hr
  unfold xmlReadName
  rw [h1, h2]
  cases n with
  | nil => exact absurd rfl hn.1
  | cons c n => rfl

/-- a name starts with a character that is no white space, `>`, `/` -/
theorem xt_name_head {n : Str} (hn : NameOK n) :
    ∃ c r, n = c :: r ∧ xmlWs c = false ∧ c ≠ 62 ∧ c ≠ 47 := by
  cases n with
  | nil => exact absurd rfl hn.1
  | cons c r =>
    have h := hn.2 c (List.mem_cons_self ..)
    exact ⟨c, r, rfl, xt_nameChar_notWs (xt_nameChar_of h), h.2.2.2.2.2.2.1, h.2.2.2.2.2.2.2.1⟩

/-! ### attribute values -/

theorem xt_readUntil (q : Nat) : ∀ (v rest : Str), q ∉ v → xmlReadUntil q (v ++ q :: rest) = some (v, rest)
  | [], rest, _ => by simp [xmlReadUntil]
  | c :: cs, rest, h => by
    have hc : ¬ c = q := fun e => h (e ▸ List.mem_cons_self ..)
    have ih := xt_readUntil q cs rest (fun m => h (List.mem_cons_of_mem _ m))
    simp only [List.cons_append, xmlReadUntil, hc, if_false, ih]

theorem lit_amp : lit "&amp;" = [38, 97, 109, 112, 59] := by decide
theorem lit_lt : lit "&lt;" = [38, 108, 116, 59] := by decide
theorem lit_gt : lit "&gt;" = [38, 103, 116, 59] := by decide
theorem lit_quot : lit "&quot;" = [38, 113, 117, 111, 116, 59] := by decide
theorem lit_tab : lit "&#9;" = [38, 35, 57, 59] := by decide
theorem lit_nl : lit "&#10;" = [38, 35, 49, 48, 59] := by decide
theorem lit_cr : lit "&#13;" = [38, 35, 49, 51, 59] := by decide

theorem xt_escChar_safe (x : Nat) : ∀ c ∈ escAttrChar x, c ≠ 60 ∧ c ≠ 34 ∧ c ≠ 9 ∧ c ≠ 10 ∧ c ≠ 13 := by
  unfold escAttrChar
  split; · rw [lit_amp]; decide
  split; · rw [lit_lt]; decide
  split; · rw [lit_gt]; decide
  split; · rw [lit_quot]; decide
  split; · rw [lit_tab]; decide
  split; · rw [lit_nl]; decide
  split; · rw [lit_cr]; decide
  intro c hc
  rw [List.mem_singleton] at hc
  subst hc
  omega

theorem xt_esc_safe : ∀ (s : Str), ∀ c ∈ escAttr s, c ≠ 60 ∧ c ≠ 34 ∧ c ≠ 9 ∧ c ≠ 10 ∧ c ≠ 13
  | [], c, hc => by cases hc
  | x :: xs, c, hc => by
    rw [escAttr, List.mem_append] at hc
    rcases hc with h | h
    · exact xt_escChar_safe x c h
    · exact xt_esc_safe xs c h

theorem xt_escChar_length (c : Nat) : 1 ≤ (escAttrChar c).length := by
  unfold escAttrChar
  repeat' split
  all_goals simp [lit_amp, lit_lt, lit_gt, lit_quot, lit_tab, lit_nl, lit_cr]

theorem xt_esc_length : ∀ (s : Str), s.length ≤ (escAttr s).length
  | [] => by simp [escAttr]
  | c :: cs => by
    have := xt_esc_length cs
    have := xt_escChar_length c
    simp only [escAttr, List.length_cons, List.length_append]
    omega

theorem xt_ref_amp : xmlRef [97, 109, 112] = some 38 := by decide
theorem xt_ref_lt : xmlRef [108, 116] = some 60 := by decide
theorem xt_ref_gt : xmlRef [103, 116] = some 62 := by decide
theorem xt_ref_quot : xmlRef [113, 117, 111, 116] = some 34 := by decide
theorem xt_ref_tab : xmlRef [35, 57] = some 9 := by decide
theorem xt_ref_nl : xmlRef [35, 49, 48] = some 10 := by decide
theorem xt_ref_cr : xmlRef [35, 49, 51] = some 13 := by decide

/-- one character of a value, read back -/
theorem xt_unesc_step (c fuel : Nat) (tail : Str) :
    unescAux (fuel + 1) (escAttrChar c ++ tail) =
      (match unescAux fuel tail with | some t => some (c :: t) | none => none) := by
  unfold escAttrChar
  split
  · next h =>
    subst h
    simp only [lit_amp, List.cons_append, List.nil_append, unescAux, if_true, xmlReadUntil, if_false,
      (by decide : ¬ (97:Nat) = 59), (by decide : ¬ (109:Nat) = 59), (by decide : ¬ (112:Nat) = 59), xt_ref_amp]
    cases unescAux fuel tail <;> rfl
  split
  · next h =>
    subst h
    simp only [lit_lt, List.cons_append, List.nil_append, unescAux, if_true, xmlReadUntil, if_false,
      (by decide : ¬ (108:Nat) = 59), (by decide : ¬ (116:Nat) = 59), xt_ref_lt]
    cases unescAux fuel tail <;> rfl
  split
  · next h =>
    subst h
    simp only [lit_gt, List.cons_append, List.nil_append, unescAux, if_true, xmlReadUntil, if_false,
      (by decide : ¬ (103:Nat) = 59), (by decide : ¬ (116:Nat) = 59), xt_ref_gt]
    cases unescAux fuel tail <;> rfl
  split
  · next h =>
    subst h
    simp only [lit_quot, List.cons_append, List.nil_append, unescAux, if_true, xmlReadUntil, if_false,
      (by decide : ¬ (113:Nat) = 59), (by decide : ¬ (117:Nat) = 59), (by decide : ¬ (111:Nat) = 59),
      (by decide : ¬ (116:Nat) = 59), xt_ref_quot]
    cases unescAux fuel tail <;> rfl
  split
  · next h =>
    subst h
    simp only [lit_tab, List.cons_append, List.nil_append, unescAux, if_true, xmlReadUntil, if_false,
      (by decide : ¬ (35:Nat) = 59), (by decide : ¬ (57:Nat) = 59), xt_ref_tab]
    cases unescAux fuel tail <;> rfl
  split
  · next h =>
    subst h
    simp only [lit_nl, List.cons_append, List.nil_append, unescAux, if_true, xmlReadUntil, if_false,
      (by decide : ¬ (35:Nat) = 59), (by decide : ¬ (49:Nat) = 59), (by decide : ¬ (48:Nat) = 59), xt_ref_nl]
    cases unescAux fuel tail <;> rfl
  split
  · next h =>
    subst h
    simp only [lit_cr, List.cons_append, List.nil_append, unescAux, if_true, xmlReadUntil, if_false,
      (by decide : ¬ (35:Nat) = 59), (by decide : ¬ (49:Nat) = 59), (by decide : ¬ (51:Nat) = 59), xt_ref_cr]
    cases unescAux fuel tail <;> rfl
  · next a38 a60 a62 a34 a9 a10 a13 =>
    have hn : ¬ (c = 9 ∨ c = 10 ∨ c = 13) := by omega
    simp only [List.cons_append, List.nil_append, unescAux, a38, a60, hn, if_false]
    cases unescAux fuel tail <;> rfl

theorem xt_unesc_aux : ∀ (s : Str) (fuel : Nat), s.length < fuel → unescAux fuel (escAttr s) = some s
  | [], fuel, hf => by
    obtain ⟨f, rfl⟩ : ∃ f, fuel = f + 1 := ⟨fuel - 1, by simp at hf; omega⟩
    simp [escAttr, unescAux]
  | c :: cs, fuel, hf => by
    obtain ⟨f, rfl⟩ : ∃ f, fuel = f + 1 := ⟨fuel - 1, by simp at hf; omega⟩
    rw [escAttr, xt_unesc_step, xt_unesc_aux cs f (by simp at hf; omega)]

theorem xt_unesc_esc (s : Str) : unescAttr (escAttr s) = some s := by
  unfold unescAttr
  exact xt_unesc_aux s _ (by have := xt_esc_length s; omega)

/-! ### attributes -/

theorem xt_renderAttrs_length : ∀ (a : Attrs), a.length ≤ (renderAttrs a).length
  | [] => Nat.le_refl _
  | (k, v) :: rest => by
    have := xt_renderAttrs_length rest
    simp only [renderAttrs, List.length_cons, List.length_append]
    omega

theorem xt_renderAttrs_cons (k v : Str) (rest : Attrs) (T : Str) :
    renderAttrs ((k, v) :: rest) ++ T = 32 :: (k ++ 61 :: 34 :: (escAttr v ++ 34 :: (renderAttrs rest ++ T))) := by
  simp [renderAttrs, cSpace, cEq]

/-- one attribute, as the printer writes it -/
theorem xt_parseAttrs_cons (f : Nat) {k : Str} (v R : Str) {as : Attrs} {sc : Bool} {r5 : Str} (hk : NameOK k)
    (h : parseAttrs f R = some (as, sc, r5)) :
    parseAttrs (f + 1) (32 :: (k ++ 61 :: 34 :: (escAttr v ++ 34 :: R))) = some ((k, v) :: as, sc, r5) := by
  obtain ⟨c, k', rfl, hws, h62, h47⟩ := xt_name_head hk
  have h1 : xmlSkipWs (32 :: (c :: k' ++ 61 :: 34 :: (escAttr v ++ 34 :: R))) =
      c :: (k' ++ 61 :: 34 :: (escAttr v ++ 34 :: R)) := by
    rw [xt_skipWs_sp, List.cons_append, xt_skipWs_cons _ hws]
  have h2 : xmlReadName (c :: (k' ++ 61 :: 34 :: (escAttr v ++ 34 :: R))) =
      some (c :: k', 61 :: 34 :: (escAttr v ++ 34 :: R)) :=
    xt_readName hk _ (show xmlNameChar 61 = false by decide)
  have h3 : ∀ t : Str, xmlSkipWs (61 :: t) = 61 :: t := fun t => xt_skipWs_cons _ (by decide)
  have h4 : ∀ t : Str, xmlSkipWs (34 :: t) = 34 :: t := fun t => xt_skipWs_cons _ (by decide)
  have h5 := xt_readUntil 34 (escAttr v) R (fun m => (xt_esc_safe v 34 m).2.1 rfl)
  have h6 : xmlStartsWs (32 :: (c :: k' ++ 61 :: 34 :: (escAttr v ++ 34 :: R))) = true := rfl
  have h7 : parseAttrValue (34 :: (escAttr v ++ 34 :: R)) = some (v, R) := by
    simp only [parseAttrValue, h5, xt_unesc_esc, true_or, if_true]
  have h8 : parseAttr (c :: (k' ++ 61 :: 34 :: (escAttr v ++ 34 :: R))) = some ((c :: k', v), R) := by
    simp only [parseAttr, h2, h3, h4, h7, if_true]
  simp only [parseAttrs, parseAttrsStep, h1, h8, h6, h62, h47, h, if_true, if_false]

theorem xt_parseAttrs_render : ∀ (a : Attrs), AttrsOK a → ∀ (fuel : Nat) (T : Str) (sc : Bool) (r : Str),
    a.length < fuel → (∀ f, parseAttrs (f + 1) T = some ([], sc, r)) →
    parseAttrs fuel (renderAttrs a ++ T) = some (a, sc, r)
  | [], _, fuel, T, sc, r, hf, hT => by
    obtain ⟨f, rfl⟩ : ∃ f, fuel = f + 1 := ⟨fuel - 1, by simp at hf; omega⟩
    exact hT f
  | (k, v) :: rest, ha, fuel, T, sc, r, hf, hT => by
    obtain ⟨f, rfl⟩ : ∃ f, fuel = f + 1 := ⟨fuel - 1, by simp at hf; omega⟩
    have ih := xt_parseAttrs_render rest (fun kv hkv => ha kv (List.mem_cons_of_mem _ hkv)) f T sc r
      (by simp at hf; omega) hT
    rw [xt_renderAttrs_cons]
    exact xt_parseAttrs_cons f v _ (ha (k, v) (List.mem_cons_self ..)) ih

theorem xt_parseAttrs_close (f : Nat) (r : Str) : parseAttrs (f + 1) (62 :: r) = some ([], false, r) := by
  simp only [parseAttrs, parseAttrsStep, xt_skipWs_cons r (show xmlWs 62 = false by decide), if_true]

theorem xt_parseAttrs_empty (f : Nat) (r : Str) : parseAttrs (f + 1) (47 :: 62 :: r) = some ([], true, r) := by
  simp only [parseAttrs, parseAttrsStep, xt_skipWs_cons (62 :: r) (show xmlWs 47 = false by decide), if_true, if_false,
    (by decide : ¬ (47 : Nat) = 62)]

theorem xt_noNameHead_attrs (a : Attrs) (T : Str) (hT : NoNameHead T) : NoNameHead (renderAttrs a ++ T) := by
  cases a with
  | nil => exact hT
  | cons kv rest =>
    obtain ⟨k, v⟩ := kv
    rw [xt_renderAttrs_cons]
    show xmlNameChar 32 = false
    decide

/-! ### the recursive descent, one step at a time -/

theorem xt_parseEndTag {tag : Str} (ht : NameOK tag) (rest : Str) :
    parseEndTag tag (tag ++ 62 :: rest) = some rest := by
  have h1 := xt_readName ht (62 :: rest) (show xmlNameChar 62 = false by decide)
  simp only [parseEndTag, h1, if_true, xt_skipWs_cons rest (show xmlWs 62 = false by decide)]

theorem xt_parseElem_leaf {s tag r1 r2 : Str} {attrs : Attrs} (f : Nat) (h1 : xmlReadName s = some (tag, r1))
    (h2 : parseAttrs (r1.length + 1) r1 = some (attrs, true, r2)) :
    parseElem (f + 1) (60 :: s) = some (.mk tag attrs [], r2) := by
  simp only [parseElem, h1, h2, if_true]

theorem xt_parseElem_node {s tag r1 r2 r3 r4 : Str} {attrs : Attrs} {kids : List Elem} (f : Nat)
    (h1 : xmlReadName s = some (tag, r1)) (h2 : parseAttrs (r1.length + 1) r1 = some (attrs, false, r2))
    (h3 : parseKids f r2 = some (kids, r3)) (h4 : parseEndTag tag r3 = some r4) :
    parseElem (f + 1) (60 :: s) = some (.mk tag attrs kids, r4) := by
  simp only [parseElem, h1, h2, h3, h4, if_true]

theorem xt_parseKids_nil {s r : Str} (f : Nat) (h1 : xmlSkipWs s = 60 :: 47 :: r) :
    parseKids (f + 1) s = some ([], r) := by
  simp only [parseKids, h1, if_true]

theorem xt_parseKids_cons {s r r1 r2 : Str} {d : Nat} {k : Elem} {ks : List Elem} (f : Nat)
    (h1 : xmlSkipWs s = 60 :: d :: r) (hd : d ≠ 47) (h2 : parseElem f (60 :: d :: r) = some (k, r1))
    (h3 : parseKids f r1 = some (ks, r2)) : parseKids (f + 1) s = some (k :: ks, r2) := by
  simp only [parseKids, h1, hd, h2, h3, if_true, if_false]

theorem xt_parseKids_skip {s s' : Str} (h : xmlSkipWs s = xmlSkipWs s') (fuel : Nat) :
    parseKids fuel s = parseKids fuel s' := by
  cases fuel with
  | zero => rfl
  | succ f => simp only [parseKids, h]

/-! ### the reader on a printed element -/

/-- an element without the indentation before it and the newline after it -/
def core (ind : Nat) : Elem → Str
  | .mk tag attrs [] => 60 :: (tag ++ (renderAttrs attrs ++ [47, 62]))
  | .mk tag attrs (k :: ks) =>
    60 :: (tag ++ (renderAttrs attrs ++ 62 :: 10 :: (renderKids (ind + 2) (k :: ks) ++
      (indent ind ++ 60 :: 47 :: (tag ++ [62])))))

theorem xt_render_eq (e : Elem) (ind : Nat) : e.render ind = indent ind ++ (core ind e ++ [10]) := by
  obtain ⟨tag, attrs, kids⟩ := e
  cases kids with
  | nil => simp [Elem.render, core, cLt, cSlash, cGt]
  | cons k ks => simp [Elem.render, core, renderKids, cLt, cSlash, cGt]

theorem xt_core_head {e : Elem} (he : ElemOK e) (ind : Nat) (R : Str) :
    ∃ d r, core ind e ++ R = 60 :: d :: r ∧ d ≠ 47 := by
  obtain ⟨tag, attrs, kids⟩ := e
  simp only [ElemOK] at he
  obtain ⟨c, t', rfl, _, _, h47⟩ := xt_name_head he.1
  cases kids with
  | nil => exact ⟨c, _, by simp only [core, List.cons_append]; rfl, h47⟩
  | cons k ks => exact ⟨c, _, by simp only [core, List.cons_append]; rfl, h47⟩

theorem xt_fuel_succ {n fuel : Nat} (h : n < fuel) : ∃ f, fuel = f + 1 := ⟨fuel - 1, by omega⟩

mutual
theorem xt_parse_elem : ∀ (e : Elem) (ind : Nat) (rest : Str) (fuel : Nat), ElemOK e →
    (core ind e ++ rest).length ≤ fuel → parseElem fuel (core ind e ++ rest) = some (e, rest)
  | .mk tag attrs [], ind, rest, fuel, he, hf => by
    simp only [ElemOK] at he
    have e1 : core ind (.mk tag attrs []) ++ rest = 60 :: (tag ++ (renderAttrs attrs ++ 47 :: 62 :: rest)) := by
      simp only [core, List.cons_append, List.append_assoc, List.nil_append]
    rw [e1] at hf ⊢
    obtain ⟨f, rfl⟩ := xt_fuel_succ (Nat.lt_of_succ_le hf)
    have h1 := xt_readName he.1 (renderAttrs attrs ++ 47 :: 62 :: rest)
      (xt_noNameHead_attrs attrs _ (show xmlNameChar 47 = false by decide))
    have h2 := xt_parseAttrs_render attrs he.2.1 ((renderAttrs attrs ++ 47 :: 62 :: rest).length + 1)
      (47 :: 62 :: rest) true rest
      (by have := xt_renderAttrs_length attrs; simp only [List.length_append]; omega)
      (fun f => xt_parseAttrs_empty f rest)
    exact xt_parseElem_leaf f h1 h2
  | .mk tag attrs (k :: ks), ind, rest, fuel, he, hf => by
    simp only [ElemOK] at he
    have e1 : core ind (.mk tag attrs (k :: ks)) ++ rest =
        60 :: (tag ++ (renderAttrs attrs ++ 62 :: 10 :: (renderKids (ind + 2) (k :: ks) ++
          (indent ind ++ 60 :: 47 :: (tag ++ 62 :: rest))))) := by
      simp only [core, List.cons_append, List.append_assoc, List.nil_append]
    rw [e1] at hf ⊢
    obtain ⟨f, rfl⟩ := xt_fuel_succ (Nat.lt_of_succ_le hf)
    simp only [List.length_cons, List.length_append] at hf
    have h1 := xt_readName he.1 (renderAttrs attrs ++ 62 :: 10 :: (renderKids (ind + 2) (k :: ks) ++
        (indent ind ++ 60 :: 47 :: (tag ++ 62 :: rest))))
      (xt_noNameHead_attrs attrs _ (show xmlNameChar 62 = false by decide))
    have h2 := xt_parseAttrs_render attrs he.2.1
      ((renderAttrs attrs ++ 62 :: 10 :: (renderKids (ind + 2) (k :: ks) ++
        (indent ind ++ 60 :: 47 :: (tag ++ 62 :: rest)))).length + 1)
      (62 :: 10 :: (renderKids (ind + 2) (k :: ks) ++ (indent ind ++ 60 :: 47 :: (tag ++ 62 :: rest)))) false
      (10 :: (renderKids (ind + 2) (k :: ks) ++ (indent ind ++ 60 :: 47 :: (tag ++ 62 :: rest))))
      (by have := xt_renderAttrs_length attrs; simp only [List.length_append]; omega)
      (fun f => xt_parseAttrs_close f _)
    have h3 := xt_parse_kids (k :: ks) (ind + 2) ind (tag ++ 62 :: rest) f he.2.2
      (by simp only [List.length_cons, List.length_append]; omega)
    rw [← xt_parseKids_skip (xt_skipWs_nl _)] at h3
    exact xt_parseElem_node f h1 h2 h3 (xt_parseEndTag he.1 rest)

theorem xt_parse_kids : ∀ (ks : List Elem) (ind n : Nat) (rest : Str) (fuel : Nat), KidsOK ks →
    (renderKids ind ks ++ (indent n ++ 60 :: 47 :: rest)).length < fuel →
    parseKids fuel (renderKids ind ks ++ (indent n ++ 60 :: 47 :: rest)) = some (ks, rest)
  | [], ind, n, rest, fuel, _, hf => by
    obtain ⟨f, rfl⟩ := xt_fuel_succ hf
    rw [renderKids, List.nil_append]
    exact xt_parseKids_nil f (by rw [xt_skipWs_indent, xt_skipWs_cons _ (by decide)])
  | k :: ks, ind, n, rest, fuel, hk, hf => by
    obtain ⟨f, rfl⟩ := xt_fuel_succ hf
    simp only [KidsOK] at hk
    have e1 : renderKids ind (k :: ks) ++ (indent n ++ 60 :: 47 :: rest) =
        indent ind ++ (core ind k ++ 10 :: (renderKids ind ks ++ (indent n ++ 60 :: 47 :: rest))) := by
      rw [renderKids, xt_render_eq]
      simp only [List.cons_append, List.append_assoc, List.nil_append]
    rw [e1] at hf ⊢
    simp only [List.length_cons, List.length_append] at hf
    obtain ⟨d, r, hd, h47⟩ := xt_core_head hk.1 ind (10 :: (renderKids ind ks ++ (indent n ++ 60 :: 47 :: rest)))
    have h2 := xt_parse_elem k ind (10 :: (renderKids ind ks ++ (indent n ++ 60 :: 47 :: rest))) f hk.1
      (by simp only [List.length_cons, List.length_append]; omega)
    have h3 := xt_parse_kids ks ind n rest f hk.2 (by simp only [List.length_cons, List.length_append]; omega)
    rw [← xt_parseKids_skip (xt_skipWs_nl _)] at h3
    rw [hd] at h2
    exact xt_parseKids_cons f (by rw [xt_skipWs_indent, hd, xt_skipWs_cons _ (by decide)]) h47 h2 h3
end

theorem xt_parse_render (e : Elem) (ind : Nat) (he : ElemOK e) : parseXml (e.render ind) = some e := by
  have h := xt_parse_elem e ind [10] ((e.render ind).length + 1) he
    (by rw [xt_render_eq]; simp only [List.length_append]; omega)
  obtain ⟨d, r, hd, _⟩ := xt_core_head he ind [10]
  unfold parseXml
  rw [show xmlSkipWs (e.render ind) = core ind e ++ [10] by
    rw [xt_render_eq, xt_skipWs_indent, hd, xt_skipWs_cons _ (by decide)], h]
  rfl

/-! ### from the elements back to the records -/

theorem xt_xtree_back : ∀ (t : XTree), xtreeOfElem (elemOfXTree t) = some t
  | .lf a => by simp only [elemOfXTree, xtreeOfElem, xtreesOfElems, if_true]
  | .rule1 a ch => by
    simp only [elemOfXTree, xtreeOfElem, xtreesOfElems, xt_xtree_back ch, if_true]
  | .rule2 a l r => by
    simp only [elemOfXTree, xtreeOfElem, xtreesOfElems, xt_xtree_back l, xt_xtree_back r, if_true]

theorem xt_ccg_back (c : CcgElem) : ccgOfElem (elemOfCcg c) = some c := by
  simp only [elemOfCcg, ccgOfElem, and_self, if_true, C07.cn_conllNat_ofNat, xt_xtree_back]

theorem xt_ccgs_back : ∀ (l : List CcgElem), ccgsOfElems (l.map elemOfCcg) = some l
  | [] => rfl
  | c :: cs => by simp only [List.map_cons, ccgsOfElems, xt_ccg_back, xt_ccgs_back cs]

theorem xt_leaves_back (tag : Str) : ∀ (l : List Attrs),
    attrsOfLeaves tag (l.map fun a => Elem.mk tag a []) = some l
  | [] => rfl
  | a :: as => by simp only [List.map_cons, attrsOfLeaves, xt_leaves_back tag as, if_true]

theorem xt_jccg_back (c : JCcg) :
    jccgOfElem (.mk (lit "ccg") c.attrs (c.spans.map fun sp => .mk (lit "span") sp [])) = some c := by
  simp only [jccgOfElem, xt_leaves_back, if_true]

theorem xt_jccgs_back : ∀ (l : List JCcg),
    jccgsOfElems (l.map fun c => .mk (lit "ccg") c.attrs (c.spans.map fun sp => .mk (lit "span") sp [])) = some l
  | [] => rfl
  | c :: cs => by simp only [List.map_cons, jccgsOfElems, xt_jccg_back, xt_jccgs_back cs]

theorem xt_jsentence_back (s : JSentence) : jsentenceOfElem (elemOfSentence s) = some s := by
  simp only [elemOfSentence, jsentenceOfElem, and_self, if_true, xt_leaves_back, xt_jccgs_back]

theorem xt_jsentences_back : ∀ (l : List JSentence), jsentencesOfElems (l.map elemOfSentence) = some l
  | [] => rfl
  | c :: cs => by simp only [List.map_cons, jsentencesOfElems, xt_jsentence_back, xt_jsentences_back cs]

/-! ### the printed documents have XML names -/

theorem xt_kidsOK_iff : ∀ (ks : List Elem), KidsOK ks ↔ ∀ k ∈ ks, ElemOK k
  | [] => by simp [KidsOK]
  | k :: ks => by simp [KidsOK, xt_kidsOK_iff ks]

theorem xt_kidsOK_map {α : Type} (f : α → Elem) (l : List α) (h : ∀ a ∈ l, ElemOK (f a)) : KidsOK (l.map f) := by
  rw [xt_kidsOK_iff]
  intro k hk
  obtain ⟨a, ha, rfl⟩ := List.mem_map.1 hk
  exact h a ha

theorem xt_attrsOK_nil : AttrsOK [] := fun _ h => by cases h

theorem xt_attrsOK_cons {k v : Str} {a : Attrs} (hk : NameOK k) (ha : AttrsOK a) : AttrsOK ((k, v) :: a) := by
  intro kv h
  rcases List.mem_cons.1 h with rfl | h
  · exact hk
  · exact ha kv h

theorem xt_attrsOK_set : ∀ (a : Attrs) (k v : Str), AttrsOK a → NameOK k → AttrsOK (setAttr a k v)
  | [], k, v, _, hk => xt_attrsOK_cons hk xt_attrsOK_nil
  | (k', v') :: rest, k, v, ha, hk => by
    have hr : AttrsOK rest := fun kv h => ha kv (List.mem_cons_of_mem _ h)
    simp only [setAttr, Dict.set]
    split
    · exact xt_attrsOK_cons hk hr
    · exact xt_attrsOK_cons (ha (k', v') (List.mem_cons_self ..)) (xt_attrsOK_set rest k v hr hk)

theorem xt_attrsOK_foldl : ∀ (tok : Token) (acc : Attrs), TokKeysOK tok → AttrsOK acc →
    AttrsOK (tok.foldl (fun acc kv => setAttr acc kv.1 kv.2) acc)
  | [], acc, _, ha => ha
  | kv :: rest, acc, ht, ha => by
    rw [List.foldl_cons]
    exact xt_attrsOK_foldl rest _ (fun p hp => ht p (List.mem_cons_of_mem _ hp))
      (xt_attrsOK_set acc kv.1 kv.2 ha (ht kv (List.mem_cons_self ..)))

theorem xt_elemOK_leaf {tag : Str} {a : Attrs} (ht : NameOK tag) (ha : AttrsOK a) : ElemOK (.mk tag a []) := by
  simp only [ElemOK, KidsOK]
  exact ⟨ht, ha, trivial⟩

/-- the element tree of a parse tree -/
theorem xt_elemOK_xmlTree : ∀ (t : Tree) (start : Nat), TreeKeysOK t → ElemOK (elemOfXTree (xmlTree t start).1)
  | .leaf c tok _ _, start, h => by
    simp only [TreeKeysOK] at h
    simp only [xmlTree, elemOfXTree]
    refine xt_elemOK_leaf (by decide) (xt_attrsOK_foldl tok _ h ?_)
    exact xt_attrsOK_cons (by decide) (xt_attrsOK_cons (by decide) (xt_attrsOK_cons (by decide) xt_attrsOK_nil))
  | .un c s _ ch, start, h => by
    simp only [TreeKeysOK] at h
    have ih := xt_elemOK_xmlTree ch start h
    simp only [xmlTree, elemOfXTree, ElemOK, KidsOK]
    exact ⟨by decide, xt_attrsOK_cons (by decide) (xt_attrsOK_cons (by decide) xt_attrsOK_nil), ih, trivial⟩
  | .bin c s _ _ l r, start, h => by
    simp only [TreeKeysOK] at h
    have ihl := xt_elemOK_xmlTree l start h.1
    have ihr := xt_elemOK_xmlTree r (xmlTree l start).2 h.2
    simp only [xmlTree, elemOfXTree, ElemOK, KidsOK]
    exact ⟨by decide, xt_attrsOK_cons (by decide) (xt_attrsOK_cons (by decide) xt_attrsOK_nil), ihl, ihr, trivial⟩

theorem xt_xmlOfAux_mem : ∀ (batch : List (List Tree)) (si : Nat) (c : CcgElem), c ∈ xmlOfAux batch si →
    ∃ ts ∈ batch, ∃ t ∈ ts, c.tree = (xmlTree t 0).1
  | [], _, c, h => by cases h
  | trees :: rest, si, c, h => by
    rw [xmlOfAux, List.mem_append] at h
    rcases h with h | h
    · obtain ⟨p, hp, rfl⟩ := List.mem_map.1 h
      exact ⟨trees, List.mem_cons_self .., p.1, List.fst_mem_of_mem_zipIdx hp, rfl⟩
    · obtain ⟨ts, hts, t, ht, e⟩ := xt_xmlOfAux_mem rest (si + 1) c h
      exact ⟨ts, List.mem_cons_of_mem _ hts, t, ht, e⟩

theorem xt_elemOK_xmlDoc (batch : List (List Tree)) (h : ∀ ts ∈ batch, ∀ t ∈ ts, TreeKeysOK t) :
    ElemOK (xmlDoc batch) := by
  simp only [xmlDoc, ElemOK]
  refine ⟨by decide, xt_attrsOK_nil, xt_kidsOK_map _ _ ?_⟩
  intro c hc
  obtain ⟨ts, hts, t, ht, e⟩ := xt_xmlOfAux_mem batch 1 c hc
  simp only [elemOfCcg, ElemOK, KidsOK, e]
  exact ⟨by decide, xt_attrsOK_cons (by decide) (xt_attrsOK_cons (by decide) xt_attrsOK_nil),
    xt_elemOK_xmlTree t 0 (h ts hts t ht), trivial⟩

/-! ### Jigg documents -/

def CcgOK (c : JCcg) : Prop := AttrsOK c.attrs ∧ ∀ sp ∈ c.spans, AttrsOK sp

def JSentOK (s : JSentence) : Prop := (∀ a ∈ s.tokens, AttrsOK a) ∧ ∀ c ∈ s.ccgs, CcgOK c

theorem xt_elemOK_sentence (s : JSentence) (h : JSentOK s) : ElemOK (elemOfSentence s) := by
  simp only [elemOfSentence, ElemOK, KidsOK]
  refine ⟨by decide, xt_attrsOK_nil, ⟨by decide, xt_attrsOK_nil, xt_kidsOK_map _ _ ?_⟩, xt_kidsOK_map _ _ ?_⟩
  · intro a ha
    exact xt_elemOK_leaf (by decide) (h.1 a ha)
  · intro c hc
    simp only [ElemOK]
    exact ⟨by decide, (h.2 c hc).1, xt_kidsOK_map _ _ fun sp hsp => xt_elemOK_leaf (by decide) ((h.2 c hc).2 sp hsp)⟩

theorem xt_elemOK_jiggDoc (ss : List JSentence) (h : ∀ s ∈ ss, JSentOK s) : ElemOK (jiggDoc ss) := by
  simp only [jiggDoc, ElemOK, KidsOK]
  exact ⟨by decide, xt_attrsOK_nil, ⟨by decide, xt_attrsOK_nil, ⟨by decide, xt_attrsOK_nil,
    xt_kidsOK_map _ _ fun s hs => xt_elemOK_sentence s (h s hs)⟩, trivial⟩, trivial⟩

theorem xt_withScores_ok : ∀ (cs : List JCcg) (sc : List (Option Int)), (∀ c ∈ cs, CcgOK c) →
    ∀ c ∈ withScores cs sc, CcgOK c
  | [], sc, h => by
    intro c hc
    cases sc <;> simp [withScores] at hc
  | c :: cs, [], h => by
    intro d hd
    simp only [withScores] at hd
    exact h d hd
  | c :: cs, s :: ss, h => by
    intro d hd
    simp only [withScores, List.mem_cons] at hd
    rcases hd with rfl | hd
    · have hc := h c (List.mem_cons_self ..)
      exact ⟨xt_attrsOK_set _ _ _ hc.1 (by decide), hc.2⟩
    · exact xt_withScores_ok cs ss (fun x hx => h x (List.mem_cons_of_mem _ hx)) d hd

theorem xt_withScoresAll_ok : ∀ (ss : List JSentence) (scs : List (List (Option Int))), (∀ s ∈ ss, JSentOK s) →
    ∀ s ∈ withScoresAll ss scs, JSentOK s
  | [], scs, h => by
    intro c hc
    cases scs <;> simp [withScoresAll] at hc
  | c :: cs, [], h => by
    intro d hd
    simp only [withScoresAll] at hd
    exact h d hd
  | c :: cs, s :: ss, h => by
    intro d hd
    simp only [withScoresAll, List.mem_cons] at hd
    rcases hd with rfl | hd
    · have hc := h c (List.mem_cons_self ..)
      exact ⟨hc.1, xt_withScores_ok _ _ hc.2⟩
    · exact xt_withScoresAll_ok cs ss (fun x hx => h x (List.mem_cons_of_mem _ hx)) d hd

theorem xt_tokens_ok : ∀ (t : Tree), TreeKeysOK t → ∀ tok ∈ t.tokens, TokKeysOK tok
  | .leaf c tok _ _, h, x, hx => by
    simp only [Tree.tokens, List.mem_singleton] at hx
    subst hx
    exact h
  | .un _ _ _ ch, h, x, hx => xt_tokens_ok ch h x hx
  | .bin _ _ _ _ l r, h, x, hx => by
    simp only [TreeKeysOK] at h
    simp only [Tree.tokens, List.mem_append] at hx
    rcases hx with hx | hx
    · exact xt_tokens_ok l h.1 x hx
    · exact xt_tokens_ok r h.2 x hx

theorem xt_renameKey_ok (t : Token) (old new : Str) (ht : TokKeysOK t) (hn : NameOK new) :
    TokKeysOK (renameKey t old new) := by
  unfold renameKey
  split
  · exact xt_attrsOK_set _ new _ (fun kv h => ht kv (List.mem_filter.1 h).1) hn
  · exact ht

theorem xt_jiggToken_ok (sid i : Nat) (c : Cat) (tok : Token) (ht : TokKeysOK tok) :
    AttrsOK (jiggToken sid i c tok) := by
  unfold jiggToken
  refine xt_attrsOK_foldl _ _ (xt_renameKey_ok _ _ _ (xt_renameKey_ok _ _ _ ht (by decide)) (by decide)) ?_
  exact xt_attrsOK_cons (by decide) (xt_attrsOK_cons (by decide) (xt_attrsOK_cons (by decide) xt_attrsOK_nil))

theorem xt_leafAttrs_ok (a b c d e : Str) : AttrsOK (C15.leafAttrs a b c d e) := by
  unfold C15.leafAttrs
  exact xt_attrsOK_cons (by decide) (xt_attrsOK_cons (by decide) (xt_attrsOK_cons (by decide)
    (xt_attrsOK_cons (by decide) (xt_attrsOK_cons (by decide) xt_attrsOK_nil))))

theorem xt_nodeAttrs_ok (a b c d e f : Str) : AttrsOK (C15.nodeAttrs a b c d e f) := by
  unfold C15.nodeAttrs
  exact xt_attrsOK_cons (by decide) (xt_attrsOK_cons (by decide) (xt_attrsOK_cons (by decide)
    (xt_attrsOK_cons (by decide) (xt_attrsOK_cons (by decide) (xt_attrsOK_cons (by decide) xt_attrsOK_nil)))))

theorem xt_exp_ok (sid : Nat) (u : Bool) : ∀ (t : Tree) (n k : Nat), ∀ sp ∈ C15.exp sid u t n k, AttrsOK sp
  | .leaf c _ _ _, n, k, sp, h => by
    simp only [C15.exp, List.mem_singleton] at h
    subst h
    exact xt_leafAttrs_ok _ _ _ _ _
  | .un c s y ch, n, k, sp, h => by
    simp only [C15.exp, List.mem_cons] at h
    rcases h with rfl | h
    · exact xt_nodeAttrs_ok _ _ _ _ _ _
    · exact xt_exp_ok sid u ch _ _ sp h
  | .bin c s y _ l r, n, k, sp, h => by
    simp only [C15.exp, List.mem_cons, List.mem_append] at h
    rcases h with rfl | h | h
    · exact xt_nodeAttrs_ok _ _ _ _ _ _
    · exact xt_exp_ok sid u l _ _ sp h
    · exact xt_exp_ok sid u r _ _ sp h

theorem xt_rootify_ok (l : List Attrs) (h : ∀ sp ∈ l, AttrsOK sp) : ∀ sp ∈ C15.rootify l, AttrsOK sp := by
  cases l with
  | nil => exact h
  | cons a rest =>
    intro sp hsp
    simp only [C15.rootify, List.mem_cons] at hsp
    rcases hsp with rfl | hsp
    · exact xt_attrsOK_set _ _ _ (h a (List.mem_cons_self ..)) (by decide)
    · exact h sp (List.mem_cons_of_mem _ hsp)

theorem xt_jiggTrees_ok (sid : Nat) (u : Bool) : ∀ (ts : List Tree) (p n : Nat),
    ∀ c ∈ jiggTrees sid u ts p n, CcgOK c
  | [], _, _, c, h => by simp [jiggTrees] at h
  | t :: ts, p, n, c, h => by
    rw [C15.trees_eq] at h
    simp only [List.mem_cons] at h
    rcases h with rfl | h
    · exact ⟨xt_attrsOK_cons (by decide) (xt_attrsOK_cons (by decide) xt_attrsOK_nil),
        xt_rootify_ok _ (xt_exp_ok sid u t n 0)⟩
    · exact xt_jiggTrees_ok sid u ts _ _ c h

theorem xt_jiggOfAux_ok (u : Bool) : ∀ (batch : List (List Tree)) (sid : Nat) (ss : List JSentence),
    jiggOfAux u batch sid = .ok ss → (∀ ts ∈ batch, ∀ t ∈ ts, TreeKeysOK t) → ∀ s ∈ ss, JSentOK s
  | [], _, ss, h, _ => by
    simp only [jiggOfAux, Except.ok.injEq] at h
    subst h
    intro s hs
    cases hs
  | [] :: _, _, ss, h, _ => by simp [jiggOfAux] at h
  | (t :: ts) :: rest, sid, ss, h, hk => by
    rw [jiggOfAux] at h
    cases hr : jiggOfAux u rest (sid + 1) with
    | error e => rw [hr] at h; cases h
    | ok more =>
      rw [hr] at h
      simp only [Except.ok.injEq] at h
      subst h
      intro s hs
      rcases List.mem_cons.1 hs with rfl | hs
      · refine ⟨?_, xt_jiggTrees_ok sid u _ _ _⟩
        intro a ha
        simp only at ha
        obtain ⟨q, hq, rfl⟩ := List.mem_map.1 ha
        obtain ⟨⟨tok, c⟩, i⟩ := q
        have h1 : (tok, c) ∈ t.tokens.zip (leafCats t) := List.fst_mem_of_mem_zipIdx hq
        have h2 := (List.of_mem_zip h1).1
        exact xt_jiggToken_ok sid i c tok
          (xt_tokens_ok t (hk (t :: ts) (List.mem_cons_self ..) t (List.mem_cons_self ..)) tok h2)
      · exact xt_jiggOfAux_ok u rest (sid + 1) more hr
          (fun ts' hts' => hk ts' (List.mem_cons_of_mem _ hts')) s hs

/-! ### the two outputs read back -/

theorem xt_docText_ok {e : Elem} {text : Str} (h : docText e = .ok text) : text = e.render 0 := by
  unfold docText at h
  split at h
  · cases h; rfl
  · cases h

theorem xt_xml_decode (batch : List (List Tree)) (text : Str) (hk : ∀ ts ∈ batch, ∀ t ∈ ts, TreeKeysOK t)
    (h : xmlText batch = .ok text) : readXmlText text = some (xmlOf batch) := by
  have e := xt_docText_ok h
  subst e
  unfold readXmlText
  rw [xt_parse_render _ 0 (xt_elemOK_xmlDoc batch hk)]
  simp only [xmlDoc, if_true]
  exact xt_ccgs_back _

theorem xt_jigg_decode (u : Bool) (batch : List (List (Tree × Option Int))) (ss : List JSentence) (text : Str)
    (hk : ∀ ts ∈ batch, ∀ p ∈ ts, TreeKeysOK p.1)
    (hj : jiggOf u (batch.map fun ts => ts.map fun p => p.1) = .ok ss) (h : jiggText u batch = .ok text) :
    readJiggText text = some (withScoresAll ss (batch.map fun ts => ts.map fun p => p.2)) := by
  unfold jiggText at h
  rw [hj] at h
  have e := xt_docText_ok h
  subst e
  have hk' : ∀ ts ∈ batch.map (fun ts => ts.map fun p => p.1), ∀ t ∈ ts, TreeKeysOK t := by
    intro ts hts t ht
    obtain ⟨ps, hps, rfl⟩ := List.mem_map.1 hts
    obtain ⟨p, hp, rfl⟩ := List.mem_map.1 ht
    exact hk ps hps p hp
  have hok := xt_withScoresAll_ok ss (batch.map fun ts => ts.map fun p => p.2)
    (xt_jiggOfAux_ok u _ 0 ss hj hk')
  unfold readJiggText
  rw [xt_parse_render _ 0 (xt_elemOK_jiggDoc _ hok)]
  simp only [jiggDoc, and_self, if_true]
  exact xt_jsentences_back _

end Depccg.C15Text
