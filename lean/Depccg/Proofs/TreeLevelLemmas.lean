/-
  Helper lemmas for `Depccg/Props/TreeLevel.lean`: a tree retrieved from a licensed derivation
  mirrors it (span length, head word by the head flags, unary count, dependency sum, leaf
  categories / admitted tags, tag sum through the caller's category list), the finaliser loop as a
  map over the results, and the per-sentence wrapper.
-/
import Depccg.Props.TreeLevelDefs
import Depccg.Proofs.OutputWFLemmas

namespace Depccg.TreeLevel
open Depccg Search SearchProps GlueTree GlueRun Lazy LazyProps GlueRunProps OutputWF

/-! ### inversion of `retrieve` -/

theorem tl_retrieve_leaf {T : Tables} {tokens : List Token} {tk c : Nat} {t : Tree}
    (h : retrieve T tokens (.leaf tk c) = .ok t) :
    ∃ cat tok, T.cats c = some cat ∧ t = Tree.leaf cat tok (Str.lit "lex") (Str.lit "<lex>") := by
  simp only [retrieve] at h
  split at h
  · rename_i cat tok hcat htok
    cases h
    exact ⟨cat, tok, hcat, rfl⟩
  · cases h
  · cases h

theorem tl_retrieve_un {T : Tables} {tokens : List Token} {c rid : Nat} {d : Deriv} {t : Tree}
    (h : retrieve T tokens (.un c rid d) = .ok t) :
    ∃ (child : Tree) (cat : Cat) (e : CacheEntry), retrieve T tokens d = .ok child ∧ t = .un cat e.opString e.opSymbol child := by
  simp only [retrieve] at h
  split at h
  · cases h
  · rename_i child hch
    split at h
    · rename_i cat e _ _
      cases h
      exact ⟨child, cat, e, hch, rfl⟩
    · cases h
    · cases h

theorem tl_retrieve_bin {T : Tables} {tokens : List Token} {c rid : Nat} {hd : Bool} {l r : Deriv} {t : Tree}
    (h : retrieve T tokens (.bin c rid hd l r) = .ok t) :
    ∃ (tl tr : Tree) (cat : Cat) (e : CacheEntry), retrieve T tokens l = .ok tl ∧ retrieve T tokens r = .ok tr ∧
      (T.bin (dcatId l) (dcatId r))[rid]? = some e ∧ t = .bin cat e.opString e.opSymbol e.headLeft tl tr := by
  simp only [retrieve] at h
  split at h
  · cases h
  · rename_i tl htl
    split at h
    · cases h
    · rename_i tr htr
      split at h
      · rename_i cat e _ he
        cases h
        exact ⟨tl, tr, cat, e, htl, htr, he, rfl⟩
      · cases h
      · cases h

/-- the head flag the search used is the head flag `retrieve` writes into the tree -/
theorem tl_head_flag {gF : GSt} {x y rid c : Nat} {hl : Bool} {e : CacheEntry}
    (hg : ((view gF).bin x y)[rid]? = some ⟨c, hl⟩) (he : ((tablesOf gF).bin x y)[rid]? = some e) :
    e.headLeft = hl := by
  simp only [view, grammarOf, List.getElem?_map, he, Option.map_some, Option.some.injEq, Rule.mk.injEq] at hg
  exact hg.2

theorem tl_leafCatsT_length : ∀ t : Tree, (leafCatsT t).length = t.numLeaves
  | .leaf .. => rfl
  | .un _ _ _ ch => by simp only [leafCatsT, Tree.numLeaves]; exact tl_leafCatsT_length ch
  | .bin _ _ _ _ l r => by
    simp only [leafCatsT, Tree.numLeaves, List.length_append, tl_leafCatsT_length l, tl_leafCatsT_length r]

/-! ### the tree mirrors the derivation -/

/-- what the tree `t` shares with the derivation `d` it was built from -/
structure Mirror (gF : GSt) (s : Sent) (cfg : Cfg) (d : Deriv) (t : Tree) : Prop where
  len : t.numLeaves = dlen d
  head : headT t (dstart d) = dhead d
  nun : nUnaryT t = nUnary d
  dep : depSumT s t (dstart d) = depSum s d
  beam : ∀ (i : Nat) (c : Cat), (leafCatsT t)[i]? = some c →
    ∃ sc col, (sc, col) ∈ admitted s cfg (dstart d + i) ∧ gF.cats[col]? = some c

theorem tl_mirror {gF : GSt} {s : Sent} {cfg : Cfg} {tokens : List Token} {d : Deriv}
    (hl : Licensed (view gF) s cfg d) :
    ∀ t, retrieve (tablesOf gF) tokens d = .ok t → Mirror gF s cfg d t := by
  induction hl with
  | leaf tk cid sc ht hadm =>
    intro t hret
    obtain ⟨cat, tok, hcat, rfl⟩ := tl_retrieve_leaf hret
    refine ⟨rfl, rfl, rfl, rfl, ?_⟩
    intro i c hc
    simp only [leafCatsT] at hc
    cases i with
    | zero =>
      simp only [List.getElem?_cons_zero, Option.some.injEq] at hc
      subst hc
      exact ⟨sc, cid, hadm, hcat⟩
    | succ i => simp at hc
  | un cid rid d _ _ _ ih =>
    intro t hret
    obtain ⟨child, cat, e, hch, rfl⟩ := tl_retrieve_un hret
    have m := ih child hch
    refine ⟨m.len, m.head, ?_, m.dep, m.beam⟩
    simp only [nUnaryT, nUnary, m.nun]
  | bin cid rid hd l r _ _ hadj hg ihl ihr =>
    intro t hret
    obtain ⟨tl, tr, cat, e, htl, htr, he, rfl⟩ := tl_retrieve_bin hret
    have ml := ihl tl htl
    have mr := ihr tr htr
    rw [EndToEnd.e2e_dcatId_eq, EndToEnd.e2e_dcatId_eq] at he
    have hflag : e.headLeft = hd := tl_head_flag hg he
    have hoff : dstart l + tl.numLeaves = dstart r := by
      rw [ml.len]; exact hadj
    refine ⟨?_, ?_, ?_, ?_, ?_⟩
    · simp only [Tree.numLeaves, dlen, ml.len, mr.len]
    · simp only [headT, dstart, dhead, hoff, ml.head, mr.head, hflag]
    · simp only [nUnaryT, nUnary, ml.nun, mr.nun]
    · simp only [depSumT, dstart, depSum, hoff, ml.head, mr.head, ml.dep, mr.dep, hflag]
    · intro i c hc
      simp only [leafCatsT] at hc
      by_cases hi : i < (leafCatsT tl).length
      · rw [List.getElem?_append_left hi] at hc
        exact ml.beam i c hc
      · rw [List.getElem?_append_right (Nat.le_of_not_lt hi)] at hc
        obtain ⟨sc, col, hadm, hcol⟩ := mr.beam _ c hc
        refine ⟨sc, col, ?_, hcol⟩
        have : dstart r + (i - (leafCatsT tl).length) = dstart l + i := by
          rw [tl_leafCatsT_length] at hi ⊢
          omega
        rw [this] at hadm
        exact hadm

/-! ### the tag sum through the caller's category list -/

theorem tl_idxOf_getElem {l : List Cat} (hnd : l.Nodup) {i : Nat} {c : Cat} (h : l[i]? = some c) :
    c ∈ l ∧ l.idxOf c = i := by
  obtain ⟨hi, rfl⟩ := List.getElem?_eq_some_iff.1 h
  exact ⟨List.getElem_mem hi, hnd.idxOf_getElem i hi⟩

theorem tl_tagSum {gF : GSt} {s : Sent} {cfg : Cfg} {tokens : List Token} {categories : List Cat}
    (hnd : categories.Nodup) (htags : ∀ row ∈ s.tags, row.length ≤ categories.length)
    (hpre : categories <+: gF.cats) {d : Deriv} (hl : Licensed (view gF) s cfg d) :
    ∀ t, retrieve (tablesOf gF) tokens d = .ok t →
      tagSumT categories s t (dstart d) = some (tagSum s d) := by
  induction hl with
  | leaf tk cid sc ht hadm =>
    intro t hret
    obtain ⟨cat, tok, hcat, rfl⟩ := tl_retrieve_leaf hret
    have h1 := (mem_admitted hadm).1
    have h2 := lz_getD_len htags tk
    simp only at h1
    have hlt : cid < categories.length := by omega
    have hcat' : categories[cid]? = some cat := by
      obtain ⟨rest, hrest⟩ := hpre
      have : (tablesOf gF).cats cid = gF.cats[cid]? := rfl
      rw [this, ← hrest, List.getElem?_append_left hlt] at hcat
      exact hcat
    obtain ⟨hmem, hidx⟩ := tl_idxOf_getElem hnd hcat'
    simp only [tagSumT, dstart, tagSum, hmem, if_true, hidx]
  | un cid rid d _ _ _ ih =>
    intro t hret
    obtain ⟨child, cat, e, hch, rfl⟩ := tl_retrieve_un hret
    simp only [tagSumT, dstart, tagSum]
    exact ih child hch
  | bin cid rid hd l r hll _ hadj _ ihl ihr =>
    intro t hret
    obtain ⟨tl, tr, cat, e, htl, htr, he, rfl⟩ := tl_retrieve_bin hret
    have hoff : dstart l + tl.numLeaves = dstart r := by
      rw [(tl_mirror hll tl htl).len]; exact hadj
    simp only [tagSumT, dstart, tagSum, hoff, ihl tl htl, ihr tr htr]

/-- the score of a complete tree -/
theorem tl_treeScore {gF : GSt} {s : Sent} {cfg : Cfg} {tokens : List Token} {categories : List Cat}
    (hnd : categories.Nodup) (htags : ∀ row ∈ s.tags, row.length ≤ categories.length)
    (hpre : categories <+: gF.cats) {d : Deriv} (hl : Licensed (view gF) s cfg d) (h0 : dstart d = 0)
    {t : Tree} (hret : retrieve (tablesOf gF) tokens d = .ok t) :
    treeScore categories s cfg t = some (modelScore s cfg d) := by
  have m := tl_mirror hl t hret
  have hts := tl_tagSum hnd htags hpre hl t hret
  have hh := m.head
  have hd := m.dep
  rw [h0] at hts hh hd
  simp only [treeScore, hts, Option.map_some, modelScore, hh, hd, m.nun]

/-! ### the finaliser loop is a map over the results -/

theorem tl_treesOf_scores (gst : GSt) (tokens : List Token) :
    ∀ (rs : List Item) (ts : List (Tree × Int)), treesOf gst tokens rs = .ok ts →
      ts.map (·.2) = rs.map Item.prio := by
  intro rs
  induction rs with
  | nil =>
    intro ts h
    simp only [treesOf] at h
    cases h
    rfl
  | cons r rs ih =>
    intro ts h
    simp only [treesOf] at h
    split at h
    · cases h
    · split at h
      · cases h
      · rename_i ts' hts'
        cases h
        simp only [List.map_cons, ih ts' hts']

/-- each returned pair is the retrieved tree of a result with that result's priority -/
theorem tl_treesOf_mem (gst : GSt) (tokens : List Token) :
    ∀ (rs : List Item) (ts : List (Tree × Int)), treesOf gst tokens rs = .ok ts →
      ∀ p ∈ ts, ∃ r ∈ rs, retrieve (tablesOf gst) tokens r.d = .ok p.1 ∧ p.2 = r.prio := by
  intro rs
  induction rs with
  | nil =>
    intro ts h p hp
    simp only [treesOf] at h
    cases h
    cases hp
  | cons r rs ih =>
    intro ts h p hp
    simp only [treesOf] at h
    split at h
    · cases h
    · rename_i t ht
      split at h
      · cases h
      · rename_i ts' hts'
        cases h
        rcases List.mem_cons.1 hp with rfl | hp
        · exact ⟨r, List.mem_cons_self, ht, rfl⟩
        · obtain ⟨r', hr', h'⟩ := ih ts' hts' p hp
          exact ⟨r', List.mem_cons_of_mem _ hr', h'⟩

/-! ### the per-sentence wrapper -/

theorem tl_sentenceL_go_nonempty {pick : Pick} {G : GlueRun.CatGrammar} {rootIds : List Nat} {cfg : Cfg}
    {gst : GSt} {x : SentIn} {trees : List (Tree × Int)}
    (h : (sentenceL.go pick G rootIds cfg gst x).1 = .ok (.parsed trees)) :
    (runLWith pick G gst (sentOf rootIds x) cfg).1.results ≠ [] := by
  simp only [sentenceL.go] at h
  split at h
  · cases h
  · rename_i hne
    intro hnil
    rw [hnil] at hne
    exact hne rfl

theorem tl_sentenceL_nonempty {pick : Pick} {G : GlueRun.CatGrammar} {rootIds : List Nat} {cfg : Cfg}
    {maxLength : Option Nat} {gst : GSt} {x : SentIn} {trees : List (Tree × Int)}
    (h : (sentenceL pick G rootIds cfg maxLength gst x).1 = .ok (.parsed trees)) :
    (runLWith pick G gst (sentOf rootIds x) cfg).1.results ≠ [] := by
  simp only [sentenceL] at h
  split at h
  · split at h
    · cases h
    · exact tl_sentenceL_go_nonempty h
  · exact tl_sentenceL_go_nonempty h

/-- everything known of one returned pair of a sentence parsed after any history -/
theorem tl_sentence_pair {G : GlueRun.CatGrammar} {categories roots : List Cat} {calls : List Call}
    {cfg : Cfg} {maxLength : Option Nat} {x : SentIn} {trees : List (Tree × Int)}
    (hnd : categories.Nodup) (hlex : LexOK categories x)
    (h : (sentenceL pickHeap G (addRoots categories roots).2 cfg maxLength
        (calls.foldl (GlueRun.step G) (GlueRun.init categories roots)) x).1 = .ok (.parsed trees)) :
    ∀ ts ∈ trees, ∃ (gF : GSt) (d : Deriv),
      categories <+: gF.cats ∧
      LicensedRoot (view gF) (sentOf (addRoots categories roots).2 x) cfg d ∧
      retrieve (tablesOf gF) x.tokens d = .ok ts.1 ∧
      ts.2 = modelScore (sentOf (addRoots categories roots).2 x) cfg d := by
  intro ts hts
  have htr := ow_sentenceL_parsed h
  obtain ⟨r, hr, hret, hprio⟩ := tl_treesOf_mem _ _ _ _ htr ts hts
  have hready := ready_of_history G categories roots calls x hnd hlex
  obtain ⟨hinv0, hpre0⟩ := gr_run_inv' G calls _ (init_inv' G categories roots hnd)
  have hpre : categories <+: (runLWith pickHeap G (calls.foldl (GlueRun.step G) (GlueRun.init categories roots))
      (sentOf (addRoots categories roots).2 x) cfg).2.cats :=
    List.IsPrefix.trans (gr_addRoots_prefix roots categories)
      (List.IsPrefix.trans hpre0 (lazy_inv pickHeap G _ _ cfg hinv0).2)
  have hval := lazy_returned_valid G _ _ cfg hready r hr
  have hsc := lazy_score_accounting G _ _ cfg hready r hr
  exact ⟨_, r.d, hpre, hval.1, hret, by rw [hprio, hsc]⟩

end Depccg.TreeLevel
