/-
  Lemmas for Props/Program.lean, part 1: what `Cat.parse` returns (`ReadWF`), and that every such
  value is read back from its printed text.
-/
import Depccg.Props.ProgramDefs
import Depccg.Proofs.C05Lemmas

namespace Depccg.ProgramProps
open Depccg Cat Str C05

/-! ### tokens -/

theorem pp_tok_plain {t : Str} (h : PlainTok t) : Tok t := Or.inl h

theorem pp_tok_special {c : Nat} (h : Cat.isSpecial c = true) : Tok [c] := Or.inr ⟨c, h, rfl⟩

theorem pp_tok_ne_nil {t : Str} (h : Tok t) : t ≠ [] := by
  rcases h with h | ⟨c, -, rfl⟩
  · exact h.1
  · simp

theorem pp_readName_tok {b : Str} (h : ReadName b) : Tok b := by
  rcases h with h | rfl | rfl
  · exact Or.inl h
  · exact pp_tok_special special_LBr
  · exact pp_tok_special special_RBr

/-- every token the tokenizer hands out is a token -/
theorem pp_tokAux_tok (s : Str) : ∀ (acc : Str), (∀ c ∈ acc, plainChar c = true) →
    ∀ t ∈ tokenizeAux acc s, Tok t := by
  induction s with
  | nil =>
    intro acc hacc t ht
    rw [tokAux_nil] at ht
    split at ht
    · cases ht
    · rename_i hne
      simp only [List.mem_singleton] at ht
      subst ht
      refine Or.inl ⟨?_, ?_⟩
      · intro e
        apply hne
        simpa using e
      · intro c hc
        exact hacc c (by simpa using hc)
  | cons c cs ih =>
    intro acc hacc t ht
    have hrev : acc.isEmpty = false → Tok acc.reverse := by
      intro hne
      refine Or.inl ⟨?_, ?_⟩
      · intro e
        have : acc = [] := by simpa using e
        subst this
        simp at hne
      · intro c hc
        exact hacc c (by simpa using hc)
    have hnil : ∀ c ∈ ([] : Str), plainChar c = true := by
      intro c hc
      cases hc
    by_cases hsp : c = 32
    · subst hsp
      rw [tokAux_space] at ht
      split at ht
      · exact ih [] hnil t ht
      · rename_i hne
        rcases List.mem_cons.1 ht with rfl | ht
        · exact hrev (by simpa using hne)
        · exact ih [] hnil t ht
    · by_cases hs : Cat.isSpecial c = true
      · rw [tokAux_special _ _ hs] at ht
        split at ht
        · rcases List.mem_cons.1 ht with rfl | ht
          · exact pp_tok_special hs
          · exact ih [] hnil t ht
        · rename_i hne
          rcases List.mem_cons.1 ht with rfl | ht
          · exact hrev (by simpa using hne)
          · rcases List.mem_cons.1 ht with rfl | ht
            · exact pp_tok_special hs
            · exact ih [] hnil t ht
      · have hp : plainChar c = true := by
          rw [plainChar_iff]
          exact ⟨by simpa using hs, hsp⟩
        rw [tokAux_plainChar _ _ hp] at ht
        refine ih (c :: acc) ?_ t ht
        intro x hx
        rcases List.mem_cons.1 hx with rfl | hx
        · exact hp
        · exact hacc x hx

theorem pp_tokenize_tok (s : Str) : ∀ t ∈ tokenize s, Tok t :=
  pp_tokAux_tok s [] (by intro c hc; cases hc)

/-! ### `split` -/

theorem pp_splitOnAux_mem (c : Nat) (s : Str) : ∀ (acc : Str), ∀ p ∈ splitOnAux c acc s,
    ∀ x ∈ p, x ∈ acc ∨ x ∈ s := by
  induction s with
  | nil =>
    intro acc p hp x hx
    simp only [splitOnAux, List.mem_singleton] at hp
    subst hp
    exact Or.inl (by simpa using hx)
  | cons y ys ih =>
    intro acc p hp x hx
    simp only [splitOnAux] at hp
    split at hp
    · rcases List.mem_cons.1 hp with rfl | hp
      · exact Or.inl (by simpa using hx)
      · rcases ih [] p hp x hx with h | h
        · cases h
        · exact Or.inr (List.mem_cons_of_mem _ h)
    · rcases ih (y :: acc) p hp x hx with h | h
      · rcases List.mem_cons.1 h with rfl | h
        · exact Or.inr List.mem_cons_self
        · exact Or.inl h
      · exact Or.inr (List.mem_cons_of_mem _ h)

theorem pp_splitOnAux_nosep (c : Nat) (s : Str) : ∀ (acc : Str), c ∉ acc →
    ∀ p ∈ splitOnAux c acc s, c ∉ p := by
  induction s with
  | nil =>
    intro acc hacc p hp
    simp only [splitOnAux, List.mem_singleton] at hp
    subst hp
    simpa using hacc
  | cons y ys ih =>
    intro acc hacc p hp
    simp only [splitOnAux] at hp
    split at hp
    · rcases List.mem_cons.1 hp with rfl | hp
      · simpa using hacc
      · exact ih [] (by simp) p hp
    · rename_i hne
      refine ih (y :: acc) ?_ p hp
      intro h
      rcases List.mem_cons.1 h with h | h
      · exact hne h.symm
      · exact hacc h

theorem pp_splitOn_mem {c : Nat} {s p : Str} (hp : p ∈ splitOn c s) {x : Nat} (hx : x ∈ p) : x ∈ s := by
  rcases pp_splitOnAux_mem c s [] p hp x hx with h | h
  · cases h
  · exact h

theorem pp_splitOn_nosep {c : Nat} {s p : Str} (hp : p ∈ splitOn c s) : c ∉ p :=
  pp_splitOnAux_nosep c s [] (by simp) p hp

/-! ### features -/

/-- a part of a part: a key or a value of a three-part feature read from a plain token -/
theorem pp_triPart {text a k : Str} (ht : ∀ c ∈ text, plainChar c = true)
    (ha : a ∈ splitOn cComma text) (hk : k ∈ splitOn cEq a) : TriPart k := by
  intro x hx
  have hxa : x ∈ a := pp_splitOn_mem hk hx
  refine ⟨ht x (pp_splitOn_mem ha hxa), ?_, ?_⟩
  · rintro rfl
    exact pp_splitOn_nosep hk hx
  · rintro rfl
    exact pp_splitOn_nosep ha hxa

theorem pp_tok_hasEq_plain {text : Str} (ht : Tok text) (h : hasChar cEq text = true) :
    ∀ c ∈ text, plainChar c = true := by
  rcases ht with ht | ⟨c, hc, rfl⟩
  · exact ht.2
  · exfalso
    have : c = cEq := by
      simp only [hasChar, List.elem_eq_mem, List.mem_singleton, decide_eq_true_eq] at h
      exact h.symm
    subst this
    revert hc
    decide

/-- the feature read from a token -/
theorem pp_feat_parse {text : Str} {f : Feat} (ht : Tok text) (h : Feat.parse text = .ok f) :
    ReadFeat f := by
  unfold Feat.parse at h
  split at h
  · rename_i hc
    simp only [Bool.and_eq_true] at hc
    have hpl := pp_tok_hasEq_plain ht hc.1
    split at h
    · rename_i a b c hsplit
      have ha : a ∈ splitOn cComma text := by rw [hsplit]; simp
      have hb : b ∈ splitOn cComma text := by rw [hsplit]; simp
      have hcc : c ∈ splitOn cComma text := by rw [hsplit]; simp
      split at h
      · rename_i k1 v1 k2 v2 k3 v3 h1 h2 h3
        cases h
        refine ⟨pp_triPart hpl ha (by rw [h1]; simp), pp_triPart hpl ha (by rw [h1]; simp),
          pp_triPart hpl hb (by rw [h2]; simp), pp_triPart hpl hb (by rw [h2]; simp),
          pp_triPart hpl hcc (by rw [h3]; simp), pp_triPart hpl hcc (by rw [h3]; simp)⟩
      · cases h
    · cases h
  · rename_i hc
    cases h
    refine ⟨ht, ?_⟩
    intro hh
    apply hc
    simp [hh.1, hh.2]

/-! ### the stack machine -/

/-- what is on the stack: read categories, and symbols -/
def ItemOK : Item → Prop
  | .cat c => ReadWF c
  | .sym _ => True

def StackOK (st : List Item) : Prop := ∀ i ∈ st, ItemOK i

theorem pp_stackOK_nil : StackOK [] := by intro i hi; cases hi

theorem pp_stackOK_cons {i : Item} {st : List Item} (hi : ItemOK i) (hst : StackOK st) :
    StackOK (i :: st) := by
  intro j hj
  rcases List.mem_cons.1 hj with rfl | hj
  · exact hi
  · exact hst j hj

theorem pp_stackOK_head {i : Item} {st : List Item} (h : StackOK (i :: st)) : ItemOK i :=
  h i List.mem_cons_self

theorem pp_stackOK_tail {i : Item} {st : List Item} (h : StackOK (i :: st)) : StackOK st :=
  fun j hj => h j (List.mem_cons_of_mem _ hj)

theorem pp_mkFunctor {x f y : Item} {c : Cat} (h : mkFunctor x f y = .ok c) (hx : ItemOK x)
    (hy : ItemOK y) : ReadWF c := by
  unfold mkFunctor at h
  split at h
  · split at h
    · rename_i hs
      cases h
      exact ⟨hx, hs, hy⟩
    · cases h
  · cases h

theorem pp_closeStep {item : Str} {st st' : List Item} (h : closeStep item st = .ok st')
    (hst : StackOK st) : StackOK st' := by
  unfold closeStep at h
  split at h
  · cases h
  · rename_i y st0
    split at h
    · cases h
    · rename_i top st1
      split at h
      · cases h
        exact pp_stackOK_cons (pp_stackOK_head hst) (pp_stackOK_tail (pp_stackOK_tail hst))
      · split at h
        · cases h
        · rename_i x st2
          split at h
          · cases h
          · cases h
          · rename_i o st3
            split at h
            · split at h
              · rename_i c hc
                cases h
                have hy := pp_stackOK_head hst
                have h1 := pp_stackOK_tail (pp_stackOK_tail hst)
                have hx := pp_stackOK_head h1
                exact pp_stackOK_cons (pp_mkFunctor hc hx hy) (pp_stackOK_tail (pp_stackOK_tail h1))
              · cases h
            · cases h

theorem pp_punct_plain {b : Str} (h : b ∈ Cat.punctuations) : PlainTok b := by
  simp only [Cat.punctuations, List.mem_cons, List.not_mem_nil, or_false] at h
  rcases h with rfl | rfl | rfl | rfl | rfl | rfl | rfl | rfl | rfl <;> exact ⟨by decide, by decide⟩

/-- a token that is not a bracket of the two bracket pairs and not a slash is an atom name -/
theorem pp_name_of_tok {t : Str} (ht : Tok t) (h1 : isOpenTok t = false) (h2 : isCloseTok t = false)
    (h3 : isSlashTok t = false) : ReadName t := by
  rcases ht with ht | ⟨c, hc, rfl⟩
  · exact Or.inl ht
  · rw [isSpecial_iff] at hc
    rcases hc with rfl | rfl | rfl | rfl | rfl | rfl | rfl | rfl | rfl
    · exact Or.inr (Or.inl rfl)
    · exact Or.inr (Or.inr rfl)
    · exact absurd h1 (by decide)
    · exact absurd h2 (by decide)
    · exact absurd h3 (by decide)
    · exact absurd h3 (by decide)
    · exact absurd h3 (by decide)
    · exact absurd h1 (by decide)
    · exact absurd h2 (by decide)

theorem pp_atomStep {item : Str} {buf rest : List Str} {c : Cat}
    (h : atomStep item buf = .ok (c, rest)) (hn : ReadName item) (hp : item ∉ Cat.punctuations)
    (hbuf : ∀ t ∈ buf, Tok t) : ReadWF c ∧ ∀ t ∈ rest, Tok t := by
  have bare : ReadWF (.atom item (.un none)) := ⟨hn, trivial, fun _ => rfl⟩
  unfold atomStep at h
  split at h
  · rename_i b1 b2 b3 rest'
    split at h
    · split at h
      · cases h
      · rename_i f hf
        split at h
        · cases h
          refine ⟨⟨hn, pp_feat_parse (hbuf b2 (by simp)) hf, fun hm => absurd hm hp⟩, ?_⟩
          intro t ht
          exact hbuf t (by simp [ht])
        · cases h
    · cases h
      exact ⟨bare, hbuf⟩
  · cases h
    exact ⟨bare, hbuf⟩

theorem pp_readLoop (fuel : Nat) : ∀ (st : List Item) (buf : List Str) (st' : List Item),
    readLoop fuel st buf = .ok st' → StackOK st → (∀ t ∈ buf, Tok t) → StackOK st' := by
  induction fuel with
  | zero =>
    intro st buf st' h hst _
    cases buf with
    | nil =>
      simp only [readLoop] at h
      cases h
      exact hst
    | cons item buf =>
      simp only [readLoop] at h
      cases h
  | succ fuel ih =>
    intro st buf st' h hst hbuf
    cases buf with
    | nil =>
      simp only [readLoop] at h
      cases h
      exact hst
    | cons item buf =>
      have hbuf' : ∀ t ∈ buf, Tok t := fun t ht => hbuf t (List.mem_cons_of_mem _ ht)
      have hitem : Tok item := hbuf item List.mem_cons_self
      simp only [readLoop] at h
      split at h
      · rename_i hp
        have hp' : item ∈ Cat.punctuations := by simpa using hp
        refine ih _ _ _ h (pp_stackOK_cons ?_ hst) hbuf'
        exact ⟨Or.inl (pp_punct_plain hp'), trivial, fun _ => rfl⟩
      · rename_i hp
        have hp' : item ∉ Cat.punctuations := by simpa using hp
        split at h
        · exact ih _ _ _ h (pp_stackOK_cons trivial hst) hbuf'
        · rename_i ho
          split at h
          · split at h
            · rename_i st1 hcs
              exact ih _ _ _ h (pp_closeStep hcs hst) hbuf'
            · cases h
          · rename_i hcl
            split at h
            · exact ih _ _ _ h (pp_stackOK_cons trivial hst) hbuf'
            · rename_i hsl
              split at h
              · rename_i c rest has
                have hn := pp_name_of_tok hitem (by simpa using ho) (by simpa using hcl)
                  (by simpa using hsl)
                obtain ⟨hc, hrest⟩ := pp_atomStep has hn hp' hbuf'
                exact ih _ _ _ h (pp_stackOK_cons hc hst) hrest
              · cases h

theorem pp_finish {st : List Item} {c : Cat} (h : finish st = .ok c) (hst : StackOK st) :
    ReadWF c := by
  unfold finish at h
  split at h
  · cases h
    exact pp_stackOK_head hst
  · cases h
  · exact pp_mkFunctor h (pp_stackOK_head (pp_stackOK_tail (pp_stackOK_tail hst)))
      (pp_stackOK_head hst)
  · cases h

/-- whatever the reader accepts is `ReadWF` -/
theorem pp_parse_readWF {s : Str} {c : Cat} (h : Cat.parse s = .ok c) : ReadWF c := by
  unfold Cat.parse at h
  split at h
  · rename_i st hst
    exact pp_finish h (pp_readLoop _ _ _ _ hst pp_stackOK_nil (pp_tokenize_tok s))
  · cases h

/-! ### `C05.WF` is `ReadWF` without stray brackets -/

theorem pp_wfFeat_readFeat {f : Feat} (h : WFFeat f) : ReadFeat f := by
  cases f with
  | un v =>
    cases v with
    | none => trivial
    | some v => exact ⟨Or.inl h.1, h.2⟩
  | tri k1 v1 k2 v2 k3 v3 => exact h

theorem pp_wf_readWF {c : Cat} (h : WF c) : ReadWF c := by
  induction c with
  | atom b f => exact ⟨Or.inl h.1, pp_wfFeat_readFeat h.2.1, h.2.2⟩
  | fn l s r ihl ihr => exact ⟨ihl h.1, h.2.1, ihr h.2.2⟩

theorem pp_wf_bracketFree {c : Cat} (h : WF c) : BracketFree c := by
  induction c with
  | atom b f =>
    refine ⟨plain_not_special_tok h.1 special_LBr, plain_not_special_tok h.1 special_RBr, ?_⟩
    intro v c hf hc
    subst hf
    exact plain_not_special_tok h.2.1.1 hc
  | fn l s r ihl ihr => exact ⟨ihl h.1, ihr h.2.2⟩

theorem pp_readWF_bracketFree_wf {c : Cat} (h : ReadWF c) (hb : BracketFree c) : WF c := by
  induction c with
  | atom b f =>
    obtain ⟨hn, hf, hp⟩ := h
    obtain ⟨h1, h2, h3⟩ := hb
    refine ⟨?_, ?_, hp⟩
    · rcases hn with hn | hn | hn
      · exact hn
      · exact absurd hn h1
      · exact absurd hn h2
    · cases f with
      | un v =>
        cases v with
        | none => trivial
        | some v =>
          refine ⟨?_, hf.2⟩
          rcases hf.1 with hv | ⟨c, hc, rfl⟩
          · exact hv
          · exact absurd rfl (h3 _ c rfl hc)
      | tri k1 v1 k2 v2 k3 v3 => exact hf
  | fn l s r ihl ihr => exact ⟨ihl h.1 hb.1, h.2.1, ihr h.2.2 hb.2⟩

theorem pp_wf_iff (c : Cat) : WF c ↔ ReadWF c ∧ BracketFree c :=
  ⟨fun h => ⟨pp_wf_readWF h, pp_wf_bracketFree h⟩, fun h => pp_readWF_bracketFree_wf h.1 h.2⟩

/-! ### printing a `ReadWF` value: the tokens of the text -/

theorem pp_tokenize_tok_app (t rest : Str) (ht : Tok t) (hs : Stop rest) :
    tokenize (t ++ rest) = t :: tokenize rest := by
  rcases ht with ht | ⟨c, hc, rfl⟩
  · exact tokenize_plain t rest ht hs
  · exact tokenize_special c rest hc

theorem pp_feat_str_tok (f : Feat) (hf : ReadFeat f) (hne : f ≠ .un none) : Tok f.str := by
  cases f with
  | un v =>
    cases v with
    | none => exact absurd rfl hne
    | some v => exact hf.1
  | tri k1 v1 k2 v2 k3 v3 =>
    exact Or.inl (C05.Feat.str_plainTok (.tri k1 v1 k2 v2 k3 v3) hf hne)

theorem pp_feat_parse_str (f : Feat) (hf : ReadFeat f) (hne : f ≠ .un none) :
    Feat.parse f.str = .ok f := by
  cases f with
  | un v =>
    cases v with
    | none => exact absurd rfl hne
    | some v =>
      have h := hf.2
      show Feat.parse v = _
      unfold Feat.parse
      rw [if_neg]
      simpa using h
  | tri k1 v1 k2 v2 k3 v3 => exact C05.Feat.parse_str (.tri k1 v1 k2 v2 k3 v3) hf hne

theorem pp_feat_str_length (f : Feat) (hf : ReadFeat f) :
    (f.str.length == 0) = true ↔ f = .un none := by
  cases f with
  | un v =>
    cases v with
    | none => simp [Feat.str]
    | some v =>
      have : v ≠ [] := pp_tok_ne_nil hf.1
      simp [Feat.str, this]
  | tri k1 v1 k2 v2 k3 v3 => simp [Feat.str]

theorem pp_tokenize_atom (b : Str) (f : Feat) (hb : ReadName b) (hf : ReadFeat f) (rest : Str)
    (hs : Stop rest) :
    tokenize ((Cat.atom b f).str ++ rest) = toks (.atom b f) ++ tokenize rest := by
  have hbt := pp_readName_tok hb
  rw [str_atom, toks]
  by_cases h0 : (f.str.length == 0) = true
  · rw [if_pos h0, if_pos h0, pp_tokenize_tok_app b rest hbt hs]; rfl
  · rw [if_neg h0, if_neg h0]
    have hne : f ≠ .un none := fun h => h0 ((pp_feat_str_length f hf).2 h)
    have hfs := pp_feat_str_tok f hf hne
    have e : b ++ cLBr :: f.str ++ [cRBr] ++ rest = b ++ (cLBr :: (f.str ++ (cRBr :: rest))) := by
      simp
    rw [e, pp_tokenize_tok_app b _ hbt (Stop.special _ special_LBr),
      tokenize_special _ _ special_LBr,
      pp_tokenize_tok_app _ _ hfs (Stop.special _ special_RBr), tokenize_special _ _ special_RBr]
    rfl

theorem pp_tokenize_str (c : Cat) (hc : ReadWF c) (rest : Str) (hs : Stop rest) :
    tokenize (c.str ++ rest) = toks c ++ tokenize rest := by
  induction c generalizing rest with
  | atom b f => exact pp_tokenize_atom b f hc.1 hc.2.1 rest hs
  | fn l s r ihl ihr =>
    obtain ⟨hl, hsl, hr⟩ := hc
    have hsp := special_of_slash hsl
    have wrap : ∀ (c : Cat),
        (∀ rest, Stop rest → tokenize (c.str ++ rest) = toks c ++ tokenize rest) →
        ∀ rest, Stop rest → tokenize (wrapS c ++ rest) = wrapT c ++ tokenize rest := by
      intro c ih rest hs
      unfold wrapS wrapT
      by_cases hfun : c.isFunctor = true
      · rw [if_pos hfun, if_pos hfun]
        have e : cLPar :: c.str ++ [cRPar] ++ rest = cLPar :: (c.str ++ (cRPar :: rest)) := by simp
        rw [e, tokenize_special _ _ special_LPar, ih _ (Stop.special _ special_RPar),
          tokenize_special _ _ special_RPar]
        simp
      · rw [if_neg hfun, if_neg hfun]; exact ih rest hs
    rw [str_fn, toks_fn]
    have e : wrapS l ++ s :: wrapS r ++ rest = wrapS l ++ (s :: (wrapS r ++ rest)) := by simp
    rw [e, wrap l (fun rest hs => ihl hl rest hs) _ (Stop.special _ hsp),
      tokenize_special _ _ hsp, wrap r (fun rest hs => ihr hr rest hs) rest hs]
    simp

theorem pp_tokenize_str' (c : Cat) (hc : ReadWF c) : tokenize c.str = toks c := by
  have := pp_tokenize_str c hc [] Stop.nil
  simpa [tokenize_nil] using this

/-! ### reading the tokens of a printed `ReadWF` value -/

theorem pp_name_class {b : Str} (hb : ReadName b) :
    isOpenTok b = false ∧ isCloseTok b = false ∧ isSlashTok b = false := by
  rcases hb with hb | rfl | rfl
  · exact plain_tok_class hb
  · decide
  · decide

theorem pp_run_bare (st : List Item) (b : Str) (buf : List Str) (hb : ReadName b) (h : NoBr buf) :
    run st (b :: buf) = run (.cat (.atom b (.un none)) :: st) buf := by
  by_cases hp : punctuations.elem b = true
  · exact run_punct st b buf hp
  · obtain ⟨h1, h2, h3⟩ := pp_name_class hb
    simp only [run, List.length_cons, readLoop, hp, h1, h2, h3, atomStep_bare b buf h]
    rfl

theorem pp_run_feat (st : List Item) (b fs : Str) (f : Feat) (buf : List Str) (hb : ReadName b)
    (hp : b ∉ punctuations) (hf : Feat.parse fs = .ok f) :
    run st (b :: [cLBr] :: fs :: [cRBr] :: buf) = run (.cat (.atom b f) :: st) buf := by
  obtain ⟨h1, h2, h3⟩ := pp_name_class hb
  have hp' : punctuations.elem b = false := by simpa using hp
  simp only [run, List.length_cons, readLoop, hp', h1, h2, h3, atomStep_feat b fs f buf hf]
  exact readLoop_fuel _ _ _ _ (by omega) (by omega)

theorem pp_wrapT_atom (b : Str) (f : Feat) : wrapT (.atom b f) = toks (.atom b f) := by
  simp [wrapT, Cat.isFunctor]

theorem pp_wrapT_fn (l r : Cat) (s : Nat) :
    wrapT (.fn l s r) = [cLPar] :: (wrapT l ++ [s] :: wrapT r) ++ [[cRPar]] := by
  simp [wrapT, Cat.isFunctor, toks_fn]

theorem pp_reads_atom (b : Str) (f : Feat) (hc : ReadWF (.atom b f)) (st : List Item)
    (rest : List Str) (hr : NoBr rest) :
    run st (toks (.atom b f) ++ rest) = run (.cat (.atom b f) :: st) rest := by
  obtain ⟨hb, hf, hp⟩ := hc
  rw [toks]
  by_cases h0 : (f.str.length == 0) = true
  · rw [if_pos h0]
    have : f = .un none := (pp_feat_str_length f hf).1 h0
    subst this
    exact pp_run_bare st b rest hb hr
  · rw [if_neg h0]
    have hne : f ≠ .un none := fun h => h0 ((pp_feat_str_length f hf).2 h)
    exact pp_run_feat st b f.str f rest hb (fun hm => hne (hp hm)) (pp_feat_parse_str f hf hne)

/-- reading the printed operand pushes its value -/
theorem pp_reads_wrapT (c : Cat) (hc : ReadWF c) : ∀ (st : List Item) (rest : List Str),
    NoBr rest → run st (wrapT c ++ rest) = run (.cat c :: st) rest := by
  induction c with
  | atom b f =>
    intro st rest hr
    rw [pp_wrapT_atom]
    exact pp_reads_atom b f hc st rest hr
  | fn l s r ihl ihr =>
    intro st rest _
    obtain ⟨hl, hs, hr⟩ := hc
    have e : wrapT (.fn l s r) ++ rest =
        [cLPar] :: (wrapT l ++ ([s] :: (wrapT r ++ ([cRPar] :: rest)))) := by
      rw [pp_wrapT_fn]; simp
    rw [e, run_open st cLPar _ (Or.inl rfl), ihl hl _ _ (NoBr.slash _ hs), run_slash _ s _ hs,
      ihr hr _ _ (NoBr.close rest (Or.inl rfl)), run_close _ cRPar rest (Or.inl rfl),
      closeStep_bin cLPar cRPar s l r st (Or.inl rfl) hs]

theorem pp_read_top (c : Cat) (hc : ReadWF c) :
    (match run [] (toks c) with
      | .ok st => finish st
      | .error e => .error e) = .ok c := by
  cases c with
  | atom b f =>
    have := pp_reads_atom b f hc [] [] NoBr.nil
    rw [List.append_nil] at this
    rw [this, run_nil]; rfl
  | fn l s r =>
    obtain ⟨hl, hs, hr⟩ := hc
    have e1 := pp_reads_wrapT l hl [] ([s] :: wrapT r) (NoBr.slash _ hs)
    have e2 := pp_reads_wrapT r hr [.sym s, .cat l] [] NoBr.nil
    rw [List.append_nil] at e2
    rw [toks_fn, e1, run_slash _ s _ hs, e2, run_nil]
    simp [finish, mkFunctor, hs]

/-- print, then read: the same value, for every value the reader returns -/
theorem pp_parse_print (c : Cat) (hc : ReadWF c) : Cat.parse c.str = .ok c := by
  rw [parse_eq, pp_tokenize_str' c hc]
  exact pp_read_top c hc

end Depccg.ProgramProps
