/-
  Helper lemmas for the locality of the search (`Depccg/Props/SearchLocal.lean`): `expand` and
  `stepWith` read the grammar only at the entries named by `AgreeOn`; `loop` unfolds at the end;
  chart items and earlier pops stay in the trace.  Core Lean only.
-/
import Depccg.Props.SearchLocalDefs
import Depccg.Proofs.SearchLemmas

namespace Depccg.SearchProps
open Depccg Search

theorem loc_unaryItems_congr {g g' : Grammar} {cfg : Cfg} {it : Item}
    (h : g'.un it.cat = g.un it.cat) : unaryItems g' cfg it = unaryItems g cfg it := by
  simp only [unaryItems, h]

theorem loc_binaryItems_congr {g g' : Grammar} {s : Sent} {l r : Item}
    (h : g'.bin l.cat r.cat = g.bin l.cat r.cat) : binaryItems g' s l r = binaryItems g s l r := by
  simp only [binaryItems, h]

theorem loc_flatMap_congr {α β : Type} {l : List α} {f f' : α → List β}
    (h : ∀ x ∈ l, f' x = f x) : l.flatMap f' = l.flatMap f := by
  induction l with
  | nil => rfl
  | cons a as ih =>
    simp only [List.flatMap_cons]
    rw [h a (List.mem_cons_self), ih (fun x hx => h x (List.mem_cons_of_mem _ hx))]

theorem loc_expand_congr {g g' : Grammar} {s : Sent} {cfg : Cfg} {chart : List Item} {it : Item}
    (h : AgreeOn g g' s chart it) : expand g' s cfg chart it = expand g s cfg chart it := by
  obtain ⟨hun, hbin⟩ := h
  unfold expand
  have h1 : (if s.n = 1 ∨ it.len ≠ s.n then unaryItems g' cfg it else [])
      = (if s.n = 1 ∨ it.len ≠ s.n then unaryItems g cfg it else []) := by
    split
    · rename_i hc; exact loc_unaryItems_congr (hun hc)
    · rfl
  have h2 : (neighbours chart fun o => o.start == it.stop).flatMap (fun o => binaryItems g' s it o)
      = (neighbours chart fun o => o.start == it.stop).flatMap (fun o => binaryItems g s it o) := by
    apply loc_flatMap_congr
    intro o ho
    obtain ⟨hoc, hp⟩ := mem_neighbours.1 ho
    exact loc_binaryItems_congr ((hbin o hoc).1 (by simpa using hp))
  have h3 : (neighbours chart fun o => o.stop == it.start).flatMap (fun o => binaryItems g' s o it)
      = (neighbours chart fun o => o.stop == it.start).flatMap (fun o => binaryItems g s o it) := by
    apply loc_flatMap_congr
    intro o ho
    obtain ⟨hoc, hp⟩ := mem_neighbours.1 ho
    exact loc_binaryItems_congr ((hbin o hoc).2 (by simpa using hp))
  rw [h1, h2, h3]

/-- one step is the same under the two grammars if they agree where the popped item is expanded -/
theorem loc_stepWith_congr {pick : Pick} {g g' : Grammar} {s : Sent} {cfg : Cfg} {st : St}
    (h : ¬ (cfg.nbest ≤ st.goal.length) →
      ∀ it rest, pick.pop st.agenda = some (it, rest) → it.fin = false →
        ¬ (cfg.nbest ≤ 1 ∧ inChart st.chart it = true) → AgreeOn g g' s st.chart it) :
    stepWith pick g' s cfg st = stepWith pick g s cfg st := by
  unfold stepWith
  split
  · rfl
  · rename_i hlen
    split
    · rfl
    · rename_i it rest hpop
      dsimp only
      cases hf : it.fin
      · simp only [Bool.false_eq_true, if_false]
        split
        · rfl
        · rename_i hc
          rw [loc_expand_congr (h hlen it rest hpop hf hc)]
      · rfl

/-! ### unfolding the loop at the end -/

/-- one more iteration from `st` (stay put if no step is possible) -/
def loc_stepOr (pick : Pick) (g : Grammar) (s : Sent) (cfg : Cfg) (st : St) : St :=
  match stepWith pick g s cfg st with
  | none => st
  | some st' => st'

theorem loc_loop_succ (pick : Pick) (g : Grammar) (s : Sent) (cfg : Cfg) (k : Nat) (st : St) :
    loop pick g s cfg (k + 1) st = loc_stepOr pick g s cfg (loop pick g s cfg k st) := by
  induction k generalizing st with
  | zero =>
    simp only [loop, loc_stepOr]
    cases stepWith pick g s cfg st <;> rfl
  | succ k ih =>
    rw [show loop pick g s cfg (k + 1 + 1) st =
      (match stepWith pick g s cfg st with
       | none => st
       | some st' => loop pick g s cfg (k + 1) st') from rfl]
    rw [show loop pick g s cfg (k + 1) st =
      (match stepWith pick g s cfg st with
       | none => st
       | some st' => loop pick g s cfg k st') from rfl]
    cases hs : stepWith pick g s cfg st with
    | none => simp only [loc_stepOr, hs]
    | some st' => exact ih st'

theorem loc_loop_add (pick : Pick) (g : Grammar) (s : Sent) (cfg : Cfg) (a b : Nat) (st : St) :
    loop pick g s cfg (a + b) st = loop pick g s cfg b (loop pick g s cfg a st) := by
  induction b with
  | zero => rfl
  | succ b ih =>
    rw [← Nat.add_assoc, loc_loop_succ, loc_loop_succ, ih]

/-- the whole state after `k ≤ maxStep` iterations is the same under the two grammars -/
theorem loc_stateAt_eq {pick : Pick} {g g' : Grammar} {s : Sent} {cfg : Cfg}
    (h : AgreeAlongRun pick g g' s cfg) :
    ∀ k, k ≤ cfg.maxStep → stateAt pick g' s cfg k = stateAt pick g s cfg k := by
  intro k
  induction k with
  | zero => intro _; rfl
  | succ k ih =>
    intro hk
    have e := ih (by omega)
    unfold stateAt at e ⊢
    rw [loc_loop_succ, loc_loop_succ, e]
    unfold loc_stepOr
    have hs : stepWith pick g' s cfg (loop pick g s cfg k (init pick s cfg))
        = stepWith pick g s cfg (loop pick g s cfg k (init pick s cfg)) :=
      loc_stepWith_congr (h k (by omega))
    rw [hs]

/-! ### the trace keeps every chart item and every earlier pop -/

theorem loc_step_popped {pick : Pick} {g : Grammar} {s : Sent} {cfg : Cfg} {st st' : St}
    (h : stepWith pick g s cfg st = some st') :
    ∃ it rest, pick.pop st.agenda = some (it, rest) ∧ st'.popped = it :: st.popped ∧
      (st'.chart = st.chart ∨ st'.chart = it :: st.chart) := by
  obtain ⟨-, it, rest, hpop, hc⟩ := stepWith_cases h
  refine ⟨it, rest, hpop, ?_⟩
  rcases hc with ⟨_, _, rfl⟩ | ⟨_, _, rfl⟩ | ⟨_, _, rfl⟩ | ⟨_, _, rfl⟩
  · exact ⟨rfl, Or.inl rfl⟩
  · exact ⟨rfl, Or.inl rfl⟩
  · exact ⟨rfl, Or.inl rfl⟩
  · exact ⟨rfl, Or.inr rfl⟩

theorem loc_chart_sub_popped (pick : Pick) (g : Grammar) (s : Sent) (cfg : Cfg) (k : Nat) :
    ∀ o ∈ (loop pick g s cfg k (init pick s cfg)).chart,
      o ∈ (loop pick g s cfg k (init pick s cfg)).popped := by
  refine loop_inv (fun st => ∀ o ∈ st.chart, o ∈ st.popped) ?_ k _ ?_
  · intro st st' hP hs o ho
    obtain ⟨it, rest, -, hp, hc⟩ := loc_step_popped hs
    rw [hp]
    rcases hc with hc | hc
    · rw [hc] at ho; exact List.mem_cons_of_mem _ (hP o ho)
    · rw [hc] at ho
      rcases List.mem_cons.1 ho with e | ho
      · rw [e]; exact List.mem_cons_self
      · exact List.mem_cons_of_mem _ (hP o ho)
  · intro o ho; cases ho

theorem loc_popped_mono (pick : Pick) (g : Grammar) (s : Sent) (cfg : Cfg) (k : Nat) (st : St) :
    ∀ o ∈ st.popped, o ∈ (loop pick g s cfg k st).popped := by
  refine loop_inv (fun st' => ∀ o ∈ st.popped, o ∈ st'.popped) ?_ k st (fun o ho => ho)
  intro st1 st2 hP hs o ho
  obtain ⟨it, rest, -, hp, -⟩ := loc_step_popped hs
  rw [hp]; exact List.mem_cons_of_mem _ (hP o ho)

/-- the hypotheses of `run_ignores_unseen` give agreement along the run -/
theorem loc_agree_of_unseen {pick : Pick} {g g' : Grammar} {s : Sent} {cfg : Cfg}
    (hun : ∀ x, (∃ it ∈ (runWith pick g s cfg).popped, it.cat = x) → g'.un x = g.un x)
    (hbin : ∀ x y, (∃ it ∈ (runWith pick g s cfg).popped, it.cat = x) →
        (∃ it ∈ (runWith pick g s cfg).popped, it.cat = y) → g'.bin x y = g.bin x y) :
    AgreeAlongRun pick g g' s cfg := by
  intro k hk st hlen it rest hpop hf hdrop
  -- the final state is reached from `st` by `maxStep - k` further iterations
  have hfinal : loop pick g s cfg cfg.maxStep (init pick s cfg)
      = loop pick g s cfg (cfg.maxStep - k) st := by
    have : cfg.maxStep = k + (cfg.maxStep - k) := by omega
    rw [this, loc_loop_add, ← this]
    rfl
  have hmem : ∀ o, o ∈ (loop pick g s cfg cfg.maxStep (init pick s cfg)).popped →
      o ∈ (runWith pick g s cfg).popped := by
    intro o ho
    simp only [runWith, List.mem_reverse]; exact ho
  -- every item in the trace of `st`, and the item popped now, are in the final trace
  have hold : ∀ o ∈ st.popped, o ∈ (runWith pick g s cfg).popped := by
    intro o ho
    apply hmem; rw [hfinal]; exact loc_popped_mono pick g s cfg _ st o ho
  have hit : it ∈ (runWith pick g s cfg).popped := by
    apply hmem; rw [hfinal]
    obtain ⟨m, hm⟩ : ∃ m, cfg.maxStep - k = m + 1 := ⟨cfg.maxStep - k - 1, by omega⟩
    rw [hm]
    cases hs : stepWith pick g s cfg st with
    | none =>
      rcases stepWith_none_iff.1 hs with h | h
      · exact absurd h hlen
      · rw [hpop] at h; cases h
    | some st' =>
      rw [show loop pick g s cfg (m + 1) st =
        (match stepWith pick g s cfg st with
         | none => st
         | some st' => loop pick g s cfg m st') from rfl, hs]
      obtain ⟨it', rest', hpop', hp, -⟩ := loc_step_popped hs
      rw [hpop] at hpop'
      cases hpop'
      exact loc_popped_mono pick g s cfg m st' it (by rw [hp]; exact List.mem_cons_self)
  have hchart : ∀ o ∈ st.chart, o ∈ (runWith pick g s cfg).popped :=
    fun o ho => hold o (loc_chart_sub_popped pick g s cfg k o ho)
  refine ⟨fun _ => hun _ ⟨it, hit, rfl⟩, fun o ho => ⟨fun _ => ?_, fun _ => ?_⟩⟩
  · exact hbin _ _ ⟨it, hit, rfl⟩ ⟨o, hchart o ho, rfl⟩
  · exact hbin _ _ ⟨o, hchart o ho, rfl⟩ ⟨it, hit, rfl⟩

end Depccg.SearchProps
