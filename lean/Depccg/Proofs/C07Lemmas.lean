/-
  C07  helper lemmas: record numbering, the json tree, head words and attachments, the conll
  dependency column, the geometry of the ASCII-art derivation, the extended AUTO line and its
  independent decoder.
-/
import Depccg.Props.C07Defs
import Depccg.Proofs.C08Lemmas

namespace Depccg.C07
open Depccg Str Print TextProps

/-! ### record numbering -/

theorem numbered_fst_aux {α : Type} : ∀ (batch : List (List α)) (n : Nat),
    (((batch.zipIdx n).map fun (p : List α × Nat) => p.1.map fun t => (p.2 + 1, t)).flatten).map (·.1) =
      ((batch.zipIdx n).map fun (p : List α × Nat) => List.replicate p.1.length (p.2 + 1)).flatten
  | [], _ => rfl
  | ts :: rest, n => by
    have ih := numbered_fst_aux rest (n + 1)
    simp only [List.zipIdx_cons, List.map_cons, List.flatten_cons, List.map_append, ih]
    congr 1
    induction ts with
    | nil => rfl
    | cons x xs ihx => simp only [List.map_cons, List.length_cons, List.replicate_succ, ihx]

theorem numbered_snd_aux {α : Type} : ∀ (batch : List (List α)) (n : Nat),
    (((batch.zipIdx n).map fun (p : List α × Nat) => p.1.map fun t => (p.2 + 1, t)).flatten).map (·.2) =
      batch.flatten
  | [], _ => rfl
  | ts :: rest, n => by
    have ih := numbered_snd_aux rest (n + 1)
    simp only [List.zipIdx_cons, List.map_cons, List.flatten_cons, List.map_append, ih]
    congr 1
    induction ts with
    | nil => rfl
    | cons x xs ihx => simp only [List.map_cons, ihx]

theorem numbered_fst {α : Type} (batch : List (List α)) :
    (numbered batch).map (·.1) =
      (batch.zipIdx.map fun (ts, i) => List.replicate ts.length (i + 1)).flatten :=
  numbered_fst_aux batch 0

theorem numbered_snd {α : Type} (batch : List (List α)) :
    (numbered batch).map (·.2) = batch.flatten :=
  numbered_snd_aux batch 0

/-! ### json -/

theorem dict_get?_set_self (d : List (Str × Str)) (k v : Str) :
    Dict.get? (Dict.set d k v) k = some v := by
  induction d with
  | nil => simp [Dict.set, Dict.get?]
  | cons kv rest ih =>
    obtain ⟨k', v'⟩ := kv
    by_cases h : k' = k
    · simp [Dict.set, Dict.get?, h]
    · simp [Dict.set, Dict.get?, h, ih]

theorem dict_set_of_get?_none (d : List (Str × Str)) (k v : Str) (h : Dict.get? d k = none) :
    Dict.set d k v = d ++ [(k, v)] := by
  induction d with
  | nil => rfl
  | cons kv rest ih =>
    obtain ⟨k', v'⟩ := kv
    by_cases hk : k' = k
    · simp [Dict.get?, hk] at h
    · simp only [Dict.get?, hk, if_false] at h
      simp [Dict.set, hk, ih h]

theorem jsonShape_jsonOf : ∀ t : Tree, jsonShape (jsonOf t) t
  | .leaf _ tok _ _ => ⟨dict_get?_set_self tok _ _, fun h => dict_set_of_get?_none tok _ _ h⟩
  | .un _ _ _ ch => ⟨rfl, rfl, jsonShape_jsonOf ch⟩
  | .bin _ _ _ _ l r => ⟨rfl, rfl, jsonShape_jsonOf l, jsonShape_jsonOf r⟩

/-! ### head words and attachments -/

theorem numLeaves_pos : ∀ t : Tree, 1 ≤ t.numLeaves
  | .leaf .. => Nat.le_refl 1
  | .un _ _ _ ch => numLeaves_pos ch
  | .bin _ _ _ _ l r => by
    have := numLeaves_pos l
    simp only [Tree.numLeaves]; omega

theorem headIdx_bounds : ∀ (t : Tree) (off : Nat), off ≤ headIdx t off ∧ headIdx t off < off + t.numLeaves
  | .leaf .., off => by simp [headIdx, Tree.numLeaves]
  | .un _ _ _ ch, off => headIdx_bounds ch off
  | .bin _ _ _ h l r, off => by
    have hl := headIdx_bounds l off
    have hr := headIdx_bounds r (off + l.numLeaves)
    simp only [headIdx, Tree.numLeaves]
    cases h <;> simp <;> omega

theorem attachments_span : ∀ (t : Tree) (off : Nat), ∀ p ∈ attachments t off,
    off ≤ p.1 ∧ p.1 < off + t.numLeaves ∧ off ≤ p.2 ∧ p.2 < off + t.numLeaves ∧ p.1 ≠ p.2
  | .leaf .., _, p, hp => by simp [attachments] at hp
  | .un _ _ _ ch, off, p, hp => attachments_span ch off p hp
  | .bin _ _ _ h l r, off, p, hp => by
    have hl := headIdx_bounds l off
    have hr := headIdx_bounds r (off + l.numLeaves)
    simp only [attachments, List.mem_append, List.mem_singleton] at hp
    simp only [Tree.numLeaves]
    rcases hp with (hp | hp) | hp
    · have := attachments_span l off p hp
      omega
    · have := attachments_span r (off + l.numLeaves) p hp
      omega
    · cases h
      · simp only [Bool.false_eq_true, if_false] at hp
        subst hp
        simp only
        omega
      · simp only [if_true] at hp
        subst hp
        simp only
        omega

/-! ### the conll dependency column -/

theorem resolveDeps_bin (c : Cat) (s y : Str) (h : Bool) (l r : Tree) (res : List (Option Nat)) :
    resolveDeps (.bin c s y h l r) res =
      if h then ((resolveDeps l res).1,
          (resolveDeps r (resolveDeps l res).2).2.set (resolveDeps r (resolveDeps l res).2).1
            (some (resolveDeps l res).1))
      else ((resolveDeps r (resolveDeps l res).2).1,
          (resolveDeps r (resolveDeps l res).2).2.set (resolveDeps l res).1
            (some (resolveDeps r (resolveDeps l res).2).1)) := rfl

/-- number of roots (`None` entries) -/
def roots (l : List (Option Nat)) : Nat := (l.filter (· == none)).length

theorem roots_nil : roots [] = 0 := rfl

theorem roots_cons_none (l : List (Option Nat)) : roots (none :: l) = roots l + 1 := by
  simp [roots]

theorem roots_cons_some (x : Nat) (l : List (Option Nat)) : roots (some x :: l) = roots l := by
  simp [roots]

theorem roots_append (a b : List (Option Nat)) : roots (a ++ b) = roots a + roots b := by
  simp [roots]

theorem roots_set : ∀ (l : List (Option Nat)) (i x : Nat), l[i]? = some none →
    roots (l.set i (some x)) + 1 = roots l
  | [], i, x, h => by simp at h
  | a :: l, 0, x, h => by
    simp only [List.getElem?_cons_zero, Option.some.injEq] at h
    subst h
    simp [roots_cons_none, roots_cons_some]
  | a :: l, i + 1, x, h => by
    simp only [List.getElem?_cons_succ] at h
    have ih := roots_set l i x h
    cases a with
    | none => simp only [List.set_cons_succ, roots_cons_none]; omega
    | some v => simp only [List.set_cons_succ, roots_cons_some]; exact ih

/-- what `_resolve_dependencies` does to its accumulator -/
structure RSpec (t : Tree) (res : List (Option Nat)) : Prop where
  fst : (resolveDeps t res).1 = headIdx t res.length
  len : (resolveDeps t res).2.length = res.length + t.numLeaves
  old : ∀ i, i < res.length → (resolveDeps t res).2[i]? = res[i]?
  head : (resolveDeps t res).2[headIdx t res.length]? = some none
  dep : ∀ i, res.length ≤ i → i < res.length + t.numLeaves → i ≠ headIdx t res.length →
    ∃ j, (resolveDeps t res).2[i]? = some (some j) ∧ (i, j) ∈ attachments t res.length
  cnt : roots (resolveDeps t res).2 = roots res + 1

theorem getElem?_set_other {α : Type} (l : List α) (i j : Nat) (a : α) (h : i ≠ j) :
    (l.set i a)[j]? = l[j]? := by
  rw [List.getElem?_set]
  simp [h]

theorem getElem?_set_same {α : Type} (l : List α) (i : Nat) (a : α) (h : i < l.length) :
    (l.set i a)[i]? = some a := by
  rw [List.getElem?_set]
  simp [h]

theorem resolveDeps_spec : ∀ (t : Tree) (res : List (Option Nat)), RSpec t res
  | .leaf .., res => by
    refine ⟨rfl, by simp [resolveDeps, Tree.numLeaves], ?_, ?_, ?_, ?_⟩
    · intro i hi
      simp [resolveDeps, List.getElem?_append_left hi]
    · simp [resolveDeps, headIdx]
    · intro i h1 h2 h3
      simp only [Tree.numLeaves, headIdx] at h2 h3
      omega
    · simp [resolveDeps, roots_append, roots_cons_none, roots_nil]
  | .un _ _ _ ch, res => by
    have ih := resolveDeps_spec ch res
    exact ⟨ih.fst, ih.len, ih.old, ih.head, ih.dep, ih.cnt⟩
  | .bin c s y h l r, res => by
    have A := resolveDeps_spec l res
    have B := resolveDeps_spec r (resolveDeps l res).2
    have hl := headIdx_bounds l res.length
    have hr := headIdx_bounds r (res.length + l.numLeaves)
    obtain ⟨Af, Al, Ao, Ah, Ad, Ac⟩ := A
    obtain ⟨Bf, Bl, Bo, Bh, Bd, Bc⟩ := B
    rw [Al] at Bf Bl Bo Bh Bd
    rw [Ac] at Bc
    generalize hR1 : (resolveDeps l res).2 = R1 at *
    generalize hR2 : (resolveDeps r R1).2 = R2 at *
    generalize hlh : headIdx l res.length = lh at *
    generalize hrh : headIdx r (res.length + l.numLeaves) = rh at *
    have hne : lh ≠ rh := by omega
    -- entries of the left block as seen in the final list
    have hleft : ∀ i, i < res.length + l.numLeaves → R2[i]? = R1[i]? := Bo
    cases h with
    | true =>
      refine ⟨?_, ?_, ?_, ?_, ?_, ?_⟩
      · simp only [resolveDeps_bin, if_true, headIdx, hR1, hlh]; exact Af
      · simp only [resolveDeps_bin, if_true, hR1, hR2, Tree.numLeaves, List.length_set, Bl]; omega
      · intro i hi
        simp only [resolveDeps_bin, if_true, hR1, hR2, Bf, Af]
        rw [getElem?_set_other _ _ _ _ (by omega), hleft i (by omega), Ao i hi]
      · simp only [resolveDeps_bin, if_true, hR1, hR2, Bf, Af, headIdx, hlh]
        rw [getElem?_set_other _ _ _ _ (by omega), hleft lh (by omega), Ah]
      · intro i h1 h2 h3
        simp only [Tree.numLeaves, headIdx, if_true, hlh] at h2 h3
        simp only [resolveDeps_bin, if_true, hR1, hR2, Bf, Af, attachments, hlh, hrh]
        by_cases hi : i = rh
        · subst hi
          exact ⟨lh, getElem?_set_same _ _ _ (by omega), by simp⟩
        · rw [getElem?_set_other _ _ _ _ (fun e => hi e.symm)]
          by_cases hlt : i < res.length + l.numLeaves
          · obtain ⟨j, hj, hm⟩ := Ad i h1 hlt h3
            exact ⟨j, by rw [hleft i hlt, hj], by simp [hm]⟩
          · obtain ⟨j, hj, hm⟩ := Bd i (by omega) (by omega) hi
            exact ⟨j, hj, by simp [hm]⟩
      · simp only [resolveDeps_bin, if_true, hR1, hR2, Bf, Af]
        have := roots_set R2 rh lh Bh
        omega
    | false =>
      refine ⟨?_, ?_, ?_, ?_, ?_, ?_⟩
      · simp only [resolveDeps_bin, Bool.false_eq_true, if_false, headIdx, hR1, hrh]; exact Bf
      · simp only [resolveDeps_bin, Bool.false_eq_true, if_false, hR1, hR2, Tree.numLeaves,
          List.length_set, Bl]; omega
      · intro i hi
        simp only [resolveDeps_bin, Bool.false_eq_true, if_false, hR1, hR2, Bf, Af]
        rw [getElem?_set_other _ _ _ _ (by omega), hleft i (by omega), Ao i hi]
      · simp only [resolveDeps_bin, Bool.false_eq_true, if_false, hR1, hR2, Bf, Af, headIdx, hrh]
        rw [getElem?_set_other _ _ _ _ hne, Bh]
      · intro i h1 h2 h3
        simp only [Tree.numLeaves, headIdx, Bool.false_eq_true, if_false, hrh] at h2 h3
        simp only [resolveDeps_bin, Bool.false_eq_true, if_false, hR1, hR2, Bf, Af, attachments,
          hlh, hrh]
        by_cases hi : i = lh
        · subst hi
          exact ⟨rh, getElem?_set_same _ _ _ (by omega), by simp⟩
        · rw [getElem?_set_other _ _ _ _ (fun e => hi e.symm)]
          by_cases hlt : i < res.length + l.numLeaves
          · obtain ⟨j, hj, hm⟩ := Ad i h1 hlt hi
            exact ⟨j, by rw [hleft i hlt, hj], by simp [hm]⟩
          · obtain ⟨j, hj, hm⟩ := Bd i (by omega) (by omega) h3
            exact ⟨j, hj, by simp [hm]⟩
      · simp only [resolveDeps_bin, Bool.false_eq_true, if_false, hR1, hR2, Bf, Af]
        have := roots_set R2 lh rh (by rw [hleft lh (by omega), Ah])
        omega

/-! ### deriv: geometry -/

theorem get_getD_of_get? {tok : Token} {k w : Str} (h : Token.get? tok k = some w) :
    Token.get tok k = .ok w ∧ Token.getD tok k [] = w :=
  ⟨C08.get_of_get? h, C08.getD_of_get? h⟩

theorem pad_eq (lw w n : Nat) :
    (((lw + w : Nat) : Int) - (lw : Int) - (n : Int)) / 2 + (lw : Int) = ((w : Int) - (n : Int)) / 2 + (lw : Int) := by
  have : ((lw + w : Nat) : Int) - (lw : Int) - (n : Int) = (w : Int) - (n : Int) := by omega
  rw [this]

theorem derivRec_spec : ∀ (t : Tree) (lw : Nat),
    AllToks (fun tok => ∃ w, Token.get? tok (lit "word") = some w) t →
    derivRec t lw = .ok (lw + width t, ruleLines t lw)
  | .leaf c tok _ _, lw, h => by
    obtain ⟨w, hw⟩ := h
    obtain ⟨h1, h2⟩ := get_getD_of_get? hw
    simp only [derivRec, h1, width, leafWidth, h2, ruleLines]
    congr 2
    omega
  | .un c _ y ch, lw, h => by
    have ih := derivRec_spec ch lw h
    have hmax : max lw (lw + width ch) = lw + width ch := by omega
    have hsub : lw + width ch - lw = width ch := by omega
    simp only [derivRec, ih, width, ruleLines, hmax, hsub, pad_eq]
  | .bin c _ y _ l r, lw, h => by
    have ihl := derivRec_spec l lw h.1
    have hmax1 : max lw (lw + width l) = lw + width l := by omega
    have ihr := derivRec_spec r (lw + width l) h.2
    have hmax2 : max (lw + width l) (lw + width l + width r) = lw + (width l + width r) := by omega
    have hsub : lw + (width l + width r) - lw = width l + width r := by omega
    simp only [derivRec, ihl, hmax1, ihr, hmax2, width, ruleLines, hsub, pad_eq]

/-! ### auto_extended: the fields of a printed line -/

theorem splitOn_joinSep (c : Nat) (fs : List Str) (hne : fs ≠ []) (h : ∀ f ∈ fs, c ∉ f) :
    splitOn c (joinSep c fs) = fs := by
  induction fs with
  | nil => exact absurd rfl hne
  | cons x r ih =>
    cases r with
    | nil => exact C05.splitOn_last c x (h x (by simp))
    | cons y r' =>
      rw [C08.joinSep_cons_of_ne c x (by simp), C05.splitOn_sep c x _ (h x (by simp)),
        ih (by simp) (fun f hf => h f (List.mem_cons_of_mem _ hf))]

/-- the attribute of the extended format, `XX` when absent -/
def attr (tok : Token) (k : String) : Str := Token.getD tok (lit k) (lit "XX")

/-- the blank-separated fields of the extended AUTO line of a tree -/
def extFields : Tree → List Str
  | .leaf c tok _ _ =>
    [lit "(<L", c.str, denormalize (Token.getD tok (lit "word") []), attr tok "lemma", attr tok "pos",
      attr tok "entity", attr tok "chunk", c.str ++ lit ">)"]
  | .un c s _ ch => [lit "(<T", c.str, s, lit "0", lit "1>"] ++ extFields ch ++ [lit ")"]
  | .bin c s _ h l r =>
    [lit "(<T", c.str, s, (if h then lit "0" else lit "1"), lit "2>"] ++ extFields l ++ extFields r ++ [lit ")"]

theorem extFields_ne_nil : ∀ t : Tree, extFields t ≠ []
  | .leaf .. => by simp [extFields]
  | .un .. => by simp [extFields]
  | .bin .. => by simp [extFields]

theorem joinSep_two (sep : Nat) (a b : Str) : joinSep sep [a, b] = a ++ sep :: b := rfl

/-- a printed subtree between a prefix and a suffix of fields -/
theorem joinSep_mid (sep : Nat) (pre : List Str) (x : List Str) (post : List Str) (hx : x ≠ []) (hpost : post ≠ []) :
    joinSep sep (pre ++ joinSep sep x :: post) = joinSep sep (pre ++ x ++ post) := by
  induction pre with
  | nil =>
    simp only [List.nil_append]
    rw [C08.joinSep_cons_of_ne sep _ hpost, C08.joinSep_append sep hx hpost]
  | cons p ps ih =>
    rw [List.cons_append, List.cons_append, List.cons_append, C08.joinSep_cons_of_ne sep p (by simp),
      C08.joinSep_cons_of_ne sep p (by simp [hx]), ih]

theorem autoExtOf_fields : ∀ (t : Tree) (s : Str), autoExtOf t = .ok s → s = joinSep 32 (extFields t)
  | .leaf c tok _ _, s, h => by
    simp only [autoExtOf] at h
    split at h
    · cases h
    · next w hw =>
      cases h
      have hg : Token.getD tok (lit "word") [] = w := C08.getD_of_get? (C08.get_ok_iff.1 hw)
      simp only [extFields, hg, attr, sp, cSpace]
  | .un c a _ ch, s, h => by
    simp only [autoExtOf] at h
    split at h
    · cases h
    · next s1 h1 =>
      cases h
      rw [autoExtOf_fields ch s1 h1]
      exact joinSep_mid 32 [lit "(<T", c.str, a, lit "0", lit "1>"] (extFields ch) [lit ")"]
        (extFields_ne_nil ch) (by simp)
  | .bin c a _ hd l r, s, h => by
    simp only [autoExtOf] at h
    split at h
    · next sl sr hl hr =>
      cases h
      rw [autoExtOf_fields l sl hl, autoExtOf_fields r sr hr]
      have h1 := joinSep_mid 32 [lit "(<T", c.str, a, (if hd then lit "0" else lit "1"), lit "2>"]
        (extFields l) [joinSep 32 (extFields r), lit ")"] (extFields_ne_nil l) (by simp)
      have h2 := joinSep_mid 32
        ([lit "(<T", c.str, a, (if hd then lit "0" else lit "1"), lit "2>"] ++ extFields l)
        (extFields r) [lit ")"] (extFields_ne_nil r) (by simp)
      simp only [sp, cSpace, extFields]
      exact h1.trans h2
    · cases h
    · cases h

/-! ### the fields contain no blank -/

theorem XX_plain : ∀ c ∈ lit "XX", C08.PlainCh c := by simp only [C08.PlainCh]; decide

theorem attr_noSpace {tok : Token} (h : TokOK tok) (k : String) : 32 ∉ attr tok k :=
  C08.notMem_of_all (C08.getD_all (fun kv hkv => (h.2 kv hkv).2) XX_plain) (fun h => h.1 rfl)

theorem word_noSpace {tok : Token} (h : TokOK tok) :
    32 ∉ denormalize (Token.getD tok (lit "word") []) := by
  obtain ⟨w, hw, hp⟩ := C08.TokOK.word h
  rw [C08.getD_of_get? (C08.get_ok_iff.1 hw)]
  exact C08.notMem_of_all (C08.denormalize_plain hp) (fun h => h.1 rfl)

theorem plainWord_noSpace {s : Str} (h : PlainWord s) : 32 ∉ s := fun hm => (h.2 32 hm).1 rfl

theorem head_noSpace (hd : Bool) : 32 ∉ (if hd then lit "0" else lit "1" : Str) := by
  cases hd <;> decide

theorem extFields_noSpace : ∀ (t : Tree), AllCats CatOK t → AllToks TokOK t → LabelsPlain t →
    ∀ f ∈ extFields t, 32 ∉ f
  | .leaf c tok _ _, hc, ht, _, f, hf => by
    have hc : CatOK c := hc
    have ht : TokOK tok := ht
    simp only [extFields, List.mem_cons, List.not_mem_nil, or_false] at hf
    rcases hf with rfl | rfl | rfl | rfl | rfl | rfl | rfl | rfl
    · decide
    · exact C08.catOK_noSpace hc
    · exact word_noSpace ht
    · exact attr_noSpace ht _
    · exact attr_noSpace ht _
    · exact attr_noSpace ht _
    · exact attr_noSpace ht _
    · rw [C08.lit_close]; exact C08.catOK_noSpace' hc
  | .un c s _ ch, hc, ht, hl, f, hf => by
    obtain ⟨hc, hcc⟩ : CatOK c ∧ AllCats CatOK ch := hc
    obtain ⟨hs, hlc⟩ : PlainWord s ∧ LabelsPlain ch := hl
    simp only [extFields, List.mem_append, List.mem_cons, List.not_mem_nil, or_false] at hf
    rcases hf with (((rfl | rfl | rfl | rfl | rfl) | hf) | rfl)
    · decide
    · exact C08.catOK_noSpace hc
    · exact plainWord_noSpace hs
    · decide
    · decide
    · exact extFields_noSpace ch hcc ht hlc f hf
    · decide
  | .bin c s _ hd l r, hc, ht, hl, f, hf => by
    obtain ⟨hc, hcl, hcr⟩ : CatOK c ∧ AllCats CatOK l ∧ AllCats CatOK r := hc
    obtain ⟨hs, hll, hlr⟩ : PlainWord s ∧ LabelsPlain l ∧ LabelsPlain r := hl
    obtain ⟨htl, htr⟩ : AllToks TokOK l ∧ AllToks TokOK r := ht
    simp only [extFields, List.mem_append, List.mem_cons, List.not_mem_nil, or_false] at hf
    rcases hf with ((((rfl | rfl | rfl | rfl | rfl) | hf) | hf) | rfl)
    · decide
    · exact C08.catOK_noSpace hc
    · exact plainWord_noSpace hs
    · exact head_noSpace hd
    · decide
    · exact extFields_noSpace l hcl htl hll f hf
    · exact extFields_noSpace r hcr htr hlr f hf
    · decide

theorem splitOn_autoExtOf (t : Tree) (s : Str) (hc : AllCats CatOK t) (ht : AllToks TokOK t)
    (hl : LabelsPlain t) (hs : autoExtOf t = .ok s) : splitOn cSpace s = extFields t := by
  rw [autoExtOf_fields t s hs]
  exact splitOn_joinSep 32 _ (extFields_ne_nil t) (extFields_noSpace t hc ht hl)

/-! ### the decoder on the fields of a tree -/

theorem decExt_nil (fuel : Nat) : decExt fuel [] = none := by
  cases fuel <;> simp [decExt]

theorem T_ne_L : (lit "(<T" == lit "(<L") = false := by decide
theorem two_ne_one : (lit "2>" == lit "1>") = false := by decide

theorem decExt_leaf (fuel : Nat) (cat a b c d e : Str) (rest : List Str) :
    decExt (fuel + 1) (lit "(<L" :: cat :: a :: b :: c :: d :: e :: (cat ++ lit ">)") :: rest) =
      some (.leaf cat a b c d e, rest) := by
  simp [decExt]


theorem decExt_un (fuel : Nat) (cat a b : Str) (r r2 : List Str) (k : AView)
    (h : decExt fuel r = some (k, lit ")" :: r2)) :
    decExt (fuel + 1) (lit "(<T" :: cat :: a :: b :: lit "1>" :: r) = some (.un cat a (b == lit "0") k, r2) := by
  cases r with
  | nil => rw [decExt_nil] at h; cases h
  | cons d rest =>
    unfold decExt
    simp [T_ne_L, h]

theorem decExt_bin (fuel : Nat) (cat a b : Str) (r r1 r2 : List Str) (k1 k2 : AView)
    (h1 : decExt fuel r = some (k1, r1)) (h2 : decExt fuel r1 = some (k2, lit ")" :: r2)) :
    decExt (fuel + 1) (lit "(<T" :: cat :: a :: b :: lit "2>" :: r) =
      some (.bin cat a (b == lit "0") k1 k2, r2) := by
  cases r with
  | nil => rw [decExt_nil] at h1; cases h1
  | cons d rest =>
    unfold decExt
    simp [T_ne_L, two_ne_one, h1, h2]

theorem head_eq (hd : Bool) : ((if hd then lit "0" else lit "1" : Str) == lit "0") = hd := by
  cases hd <;> decide

theorem zero_eq : (lit "0" == lit "0") = true := by decide

theorem decExt_fields : ∀ (t : Tree) (fuel : Nat) (rest : List Str), nodes t ≤ fuel →
    decExt fuel (extFields t ++ rest) = some (viewExt t, rest)
  | .leaf c tok _ _, fuel, rest, hf => by
    obtain ⟨f, rfl⟩ : ∃ f, fuel = f + 1 := ⟨fuel - 1, by simp only [nodes] at hf; omega⟩
    simp only [extFields, List.cons_append, List.nil_append]
    rw [decExt_leaf]
    rfl
  | .un c s _ ch, fuel, rest, hf => by
    simp only [nodes] at hf
    obtain ⟨f, rfl⟩ : ∃ f, fuel = f + 1 := ⟨fuel - 1, by omega⟩
    have ih := decExt_fields ch f (lit ")" :: rest) (by omega)
    simp only [extFields, List.cons_append, List.nil_append, List.append_assoc]
    rw [decExt_un f c.str s (lit "0") _ rest (viewExt ch) ih, zero_eq]
    rfl
  | .bin c s _ hd l r, fuel, rest, hf => by
    simp only [nodes] at hf
    obtain ⟨f, rfl⟩ : ∃ f, fuel = f + 1 := ⟨fuel - 1, by omega⟩
    have ihr := decExt_fields r f (lit ")" :: rest) (by omega)
    have ihl := decExt_fields l f (extFields r ++ lit ")" :: rest) (by omega)
    simp only [extFields, List.cons_append, List.nil_append, List.append_assoc]
    rw [decExt_bin f c.str s _ _ _ rest (viewExt l) (viewExt r) ihl ihr, head_eq]
    rfl

theorem decExt_printed (t : Tree) (s : Str) (hc : AllCats CatOK t) (ht : AllToks TokOK t)
    (hl : LabelsPlain t) (hs : autoExtOf t = .ok s) :
    decExt (nodes t + 1) (splitOn cSpace s) = some (viewExt t, []) := by
  rw [splitOn_autoExtOf t s hc ht hl hs]
  have := decExt_fields t (nodes t + 1) [] (by omega)
  rwa [List.append_nil] at this

end Depccg.C07
