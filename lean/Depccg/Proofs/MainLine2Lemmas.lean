/-
  Helper lemmas for `Props/MainLine2.lean`: the printed extended AUTO line holds no newline; the
  records of `main_line_reads_back` upgraded by the per-line theorems.
-/
import Depccg.Props.MainLine2Defs
import Depccg.Props.MainLine
import Depccg.Props.C07
import Depccg.Props.C20
import Depccg.Proofs.C07Lemmas
import Depccg.Proofs.FileLemmas
import Depccg.Props.File

namespace Depccg.CliProps
open Depccg Str Search GlueRun Lazy Print Cli LazyProps Read TextProps

/-! ### no newline in an extended AUTO line -/

theorem m2_joinSep_no10 : ∀ (fs : List Str), (∀ f ∈ fs, 10 ∉ f) → 10 ∉ joinSep 32 fs
  | [], _ => by simp [joinSep]
  | [x], h => by simpa [joinSep] using h x (by simp)
  | x :: y :: rest, h => by
    have ih := m2_joinSep_no10 (y :: rest) (fun f hf => h f (List.mem_cons_of_mem _ hf))
    have hx := h x (by simp)
    simp only [joinSep, List.mem_append, List.mem_cons]
    rintro (hm | hm | hm)
    · exact hx hm
    · exact absurd hm (by decide)
    · exact ih hm

theorem m2_attr_no10 {tok : Token} (h : TokOK tok) (k : String) : 10 ∉ C07.attr tok k :=
  C08.no10_of_plain (C08.getD_all (fun kv hkv => (h.2 kv hkv).2) C07.XX_plain)

theorem m2_word_no10 {tok : Token} (h : TokOK tok) :
    10 ∉ denormalize (Token.getD tok (lit "word") []) := by
  obtain ⟨w, hw, hp⟩ := C08.TokOK.word h
  rw [C08.getD_of_get? (C08.get_ok_iff.1 hw)]
  exact C08.no10_of_plain (C08.denormalize_plain hp)

theorem m2_plainWord_no10 {s : Str} (h : PlainWord s) : 10 ∉ s := fun hm => (h.2 10 hm).2.2.1 rfl

theorem m2_head_no10 (hd : Bool) : 10 ∉ (if hd then lit "0" else lit "1" : Str) := by
  cases hd <;> decide

theorem m2_catClose_no10 {c : Cat} (h : CatOK c) : 10 ∉ c.str ++ lit ">)" := by
  intro hm
  rcases List.mem_append.1 hm with hm | hm
  · exact C08.catOK_no10 h hm
  · revert hm; decide

theorem m2_extFields_no10 : ∀ (t : Tree), AllCats CatOK t → AllToks TokOK t → C07.LabelsPlain t →
    ∀ f ∈ C07.extFields t, 10 ∉ f
  | .leaf c tok _ _, hc, ht, _, f, hf => by
    have hc : CatOK c := hc
    have ht : TokOK tok := ht
    simp only [C07.extFields, List.mem_cons, List.not_mem_nil, or_false] at hf
    rcases hf with rfl | rfl | rfl | rfl | rfl | rfl | rfl | rfl
    · decide
    · exact C08.catOK_no10 hc
    · exact m2_word_no10 ht
    · exact m2_attr_no10 ht _
    · exact m2_attr_no10 ht _
    · exact m2_attr_no10 ht _
    · exact m2_attr_no10 ht _
    · exact m2_catClose_no10 hc
  | .un c s _ ch, hc, ht, hl, f, hf => by
    obtain ⟨hc, hcc⟩ : CatOK c ∧ AllCats CatOK ch := hc
    obtain ⟨hs, hlc⟩ : PlainWord s ∧ C07.LabelsPlain ch := hl
    simp only [C07.extFields, List.mem_append, List.mem_cons, List.not_mem_nil, or_false] at hf
    rcases hf with (((rfl | rfl | rfl | rfl | rfl) | hf) | rfl)
    · decide
    · exact C08.catOK_no10 hc
    · exact m2_plainWord_no10 hs
    · decide
    · decide
    · exact m2_extFields_no10 ch hcc ht hlc f hf
    · decide
  | .bin c s _ hd l r, hc, ht, hl, f, hf => by
    obtain ⟨hc, hcl, hcr⟩ : CatOK c ∧ AllCats CatOK l ∧ AllCats CatOK r := hc
    obtain ⟨hs, hll, hlr⟩ : PlainWord s ∧ C07.LabelsPlain l ∧ C07.LabelsPlain r := hl
    obtain ⟨htl, htr⟩ : AllToks TokOK l ∧ AllToks TokOK r := ht
    simp only [C07.extFields, List.mem_append, List.mem_cons, List.not_mem_nil, or_false] at hf
    rcases hf with ((((rfl | rfl | rfl | rfl | rfl) | hf) | hf) | rfl)
    · decide
    · exact C08.catOK_no10 hc
    · exact m2_plainWord_no10 hs
    · exact m2_head_no10 hd
    · decide
    · exact m2_extFields_no10 l hcl htl hll f hf
    · exact m2_extFields_no10 r hcr htr hlr f hf
    · decide

/-- the printed extended AUTO line holds no newline -/
theorem m2_autoExtOf_no10 (t : Tree) (s : Str) (hc : AllCats CatOK t) (ht : AllToks TokOK t)
    (hl : C07.LabelsPlain t) (hs : autoExtOf t = .ok s) : 10 ∉ s := by
  rw [C07.autoExtOf_fields t s hs]
  exact m2_joinSep_no10 _ (m2_extFields_no10 t hc ht hl)

/-! ### the records, upgraded -/

/-- a relation on the records that holds for every printed tree of the batch -/
theorem m2_forall2_upgrade {R S : Nat × (Tree × Str) → Nat × Str × Str → Prop}
    (results : List SentResult)
    (hRS : ∀ p r, (∃ res ∈ results, p.2 ∈ scored res) → R p r → S p r)
    {recs : List (Nat × Str × Str)}
    (h : FileProps.Forall2 R (numbered (results.map scored)) recs) :
    FileProps.Forall2 S (numbered (results.map scored)) recs := by
  have key : ∀ {xs : List (Nat × (Tree × Str))} {ys : List (Nat × Str × Str)},
      (∀ p ∈ xs, ∃ res ∈ results, p.2 ∈ scored res) →
      FileProps.Forall2 R xs ys → FileProps.Forall2 S xs ys := by
    intro xs ys hx hf
    induction hf with
    | nil => exact .nil
    | cons hr _ ih =>
      exact .cons (hRS _ _ (hx _ (by simp)) hr) (ih (fun p hp => hx p (List.mem_cons_of_mem _ hp)))
  refine key ?_ h
  intro p hp
  obtain ⟨trees, htr, hmem⟩ := FileProps.fl_numbered_mem _ p hp
  obtain ⟨res, hres, rfl⟩ := List.mem_map.1 htr
  exact ⟨res, hres, hmem⟩

/-! ### the counterexample for `ja`: a part-of-speech value with a newline inside -/

def m2NlResults : List SentResult := [.parsed [(FileProps.exNlTree, 0)]]

end Depccg.CliProps
