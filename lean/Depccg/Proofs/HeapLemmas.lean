/-
  The binary-heap agenda `pickHeap` (libstdc++'s `std::priority_queue`) is an admissible agenda
  discipline (`PickOK`), it maintains the max-heap invariant, and therefore the fallback branch of
  `popHeap` is dead code in every run of the search loop.
-/
import Depccg.Props.SearchDefs

namespace Depccg.SearchProps
open Depccg Search

/-! ### `popFirstMax` (the fallback branch) -/

theorem heap_foldl_maxPrio_ge_init (l : List Item) (a : Int) :
    a ≤ l.foldl (fun m i => max m i.prio) a := by
  induction l generalizing a with
  | nil => simp
  | cons x xs ih =>
    simp only [List.foldl_cons]
    exact Int.le_trans (Int.le_max_left a x.prio) (ih _)

theorem heap_foldl_maxPrio_ge_mem (l : List Item) (a : Int) (x : Item) (h : x ∈ l) :
    x.prio ≤ l.foldl (fun m i => max m i.prio) a := by
  induction l generalizing a with
  | nil => cases h
  | cons y ys ih =>
    simp only [List.foldl_cons]
    rcases List.mem_cons.1 h with rfl | h
    · exact Int.le_trans (Int.le_max_right a x.prio) (heap_foldl_maxPrio_ge_init _ _)
    · exact ih _ h

theorem heap_foldl_maxPrio_attained (l : List Item) (a : Int) :
    l.foldl (fun m i => max m i.prio) a = a ∨
      ∃ x ∈ l, x.prio = l.foldl (fun m i => max m i.prio) a := by
  induction l generalizing a with
  | nil => exact Or.inl rfl
  | cons y ys ih =>
    simp only [List.foldl_cons]
    rcases ih (max a y.prio) with h | ⟨x, hx, e⟩
    · rw [h]
      rcases Int.le_total a y.prio with hle | hle
      · exact Or.inr ⟨y, List.mem_cons_self .., by rw [Int.max_eq_right hle]⟩
      · exact Or.inl (Int.max_eq_left hle)
    · exact Or.inr ⟨x, List.mem_cons_of_mem _ hx, e⟩

theorem heap_maxPrio_spec {l : List Item} {m : Int} (h : maxPrio l = some m) :
    (∀ o ∈ l, o.prio ≤ m) ∧ ∃ x ∈ l, x.prio = m := by
  cases l with
  | nil => cases h
  | cons y ys =>
    simp only [maxPrio, Option.some.injEq] at h
    subst h
    constructor
    · intro o ho
      rcases List.mem_cons.1 ho with rfl | ho
      · exact heap_foldl_maxPrio_ge_init _ _
      · exact heap_foldl_maxPrio_ge_mem _ _ _ ho
    · rcases heap_foldl_maxPrio_attained ys y.prio with h | ⟨x, hx, e⟩
      · exact ⟨y, List.mem_cons_self .., h.symm⟩
      · exact ⟨x, List.mem_cons_of_mem _ hx, e⟩

theorem heap_removeFirst_spec {p : Item → Bool} {l : List Item} (h : ∃ x ∈ l, p x = true) :
    ∃ y rest, removeFirst p l = some (y, rest) ∧ p y = true ∧ (y :: rest).Perm l := by
  induction l with
  | nil => obtain ⟨x, hx, _⟩ := h; cases hx
  | cons z zs ih =>
    simp only [removeFirst]
    cases hz : p z with
    | true => exact ⟨z, zs, by simp, hz, List.Perm.refl _⟩
    | false =>
      have : ∃ x ∈ zs, p x = true := by
        obtain ⟨x, hx, hpx⟩ := h
        rcases List.mem_cons.1 hx with rfl | hx
        · rw [hz] at hpx; cases hpx
        · exact ⟨x, hx, hpx⟩
      obtain ⟨y, rest, e, hy, hperm⟩ := ih this
      refine ⟨y, z :: rest, by simp [e], hy, ?_⟩
      exact (List.Perm.swap z y rest).trans (List.Perm.cons z hperm)

theorem heap_popFirstMax_spec (l : List Item) (hne : l ≠ []) :
    ∃ it rest, popFirstMax l = some (it, rest) ∧ (it :: rest).Perm l ∧
      ∀ o ∈ l, o.prio ≤ it.prio := by
  cases hm : maxPrio l with
  | none => cases l with
    | nil => exact absurd rfl hne
    | cons y ys => simp [maxPrio] at hm
  | some m =>
    obtain ⟨hmax, x, hx, hxm⟩ := heap_maxPrio_spec hm
    obtain ⟨y, rest, e, hy, hperm⟩ :=
      heap_removeFirst_spec (p := fun i => i.prio == m) (l := l) ⟨x, hx, by simp [hxm]⟩
    refine ⟨y, rest, ?_, hperm, ?_⟩
    · simp only [popFirstMax, hm]; exact e
    · intro o ho
      have : y.prio = m := by simpa using hy
      rw [this]; exact hmax o ho

/-! ### the heap operations only permute -/

theorem heap_swapIfInBounds_perm (a : Array Item) (i j : Nat) :
    (a.swapIfInBounds i j).toList.Perm a.toList := by
  unfold Array.swapIfInBounds
  split
  · split
    · exact Array.perm_iff_toList_perm.1 (Array.swap_perm _ _)
    · exact List.Perm.refl _
  · exact List.Perm.refl _

theorem heap_siftUp_perm (fuel : Nat) : ∀ (a : Array Item) (i : Nat),
    (siftUp a fuel i).toList.Perm a.toList := by
  induction fuel with
  | zero => intro a i; exact List.Perm.refl _
  | succ fuel ih =>
    intro a i
    simp only [siftUp]
    split
    · exact List.Perm.refl _
    · split
      · split
        · exact (ih _ _).trans (heap_swapIfInBounds_perm _ _ _)
        · exact List.Perm.refl _
      · exact List.Perm.refl _

theorem heap_sink_perm (len : Nat) (fuel : Nat) : ∀ (a : Array Item) (h : Nat),
    (sink len a fuel h).1.toList.Perm a.toList := by
  induction fuel with
  | zero => intro a h; exact List.Perm.refl _
  | succ fuel ih =>
    intro a h
    simp only [sink]
    split
    · exact (ih _ _).trans (heap_swapIfInBounds_perm _ _ _)
    · split
      · exact heap_swapIfInBounds_perm _ _ _
      · exact List.Perm.refl _

theorem heap_heapPush_perm (a : Array Item) (v : Item) :
    (heapPush a v).toList.Perm (v :: a.toList) := by
  unfold heapPush
  refine (heap_siftUp_perm _ _ _).trans ?_
  rw [Array.toList_push]
  exact List.perm_append_singleton _ _

theorem heap_swap_pop_perm (a : Array Item) (top : Item) (h0 : a[0]? = some top) :
    (top :: (a.swapIfInBounds 0 (a.size - 1)).pop.toList).Perm a.toList := by
  obtain ⟨hlt, htop⟩ := Array.getElem?_eq_some_iff.1 h0
  have hl : a.size - 1 < a.size := by omega
  have hsw : a.swapIfInBounds 0 (a.size - 1) = a.swap 0 (a.size - 1) hlt hl := by
    simp [Array.swapIfInBounds, hlt, hl]
  rw [hsw, Array.toList_pop]
  have hne : (a.swap 0 (a.size - 1) hlt hl).toList ≠ [] := by
    intro h
    have := congrArg List.length h
    rw [Array.length_toList, Array.size_swap, List.length_nil] at this
    omega
  have hlast : (a.swap 0 (a.size - 1) hlt hl).toList.getLast hne = top := by
    rw [List.getLast_eq_getElem]
    simp only [Array.length_toList, Array.size_swap, Array.getElem_toList]
    rw [Array.getElem_swap]
    split
    · rename_i h
      have : a[a.size - 1] = a[0] := by congr 1
      rw [this]; exact htop
    · simp [htop]
  have hsplit := List.dropLast_concat_getLast hne
  rw [hlast] at hsplit
  have h1 : (top :: (a.swap 0 (a.size - 1) hlt hl).toList.dropLast).Perm
      (a.swap 0 (a.size - 1) hlt hl).toList := by
    conv => rhs; rw [← hsplit]
    exact (List.perm_append_singleton _ _).symm
  exact h1.trans (Array.perm_iff_toList_perm.1 (Array.swap_perm _ _))

theorem heap_heapPop_spec (a : Array Item) (top : Item) (h0 : a[0]? = some top) :
    ∃ b, heapPop a = some (top, b) ∧ (top :: b.toList).Perm a.toList := by
  unfold heapPop
  simp only [h0]
  split
  · rename_i h1
    refine ⟨#[], rfl, ?_⟩
    obtain ⟨hlt, htop⟩ := Array.getElem?_eq_some_iff.1 h0
    have : a.toList = [a[0]] := by
      apply List.ext_getElem
      · simp [h1]
      · intro i hi1 hi2
        simp at hi2
        subst hi2
        simp
    rw [this, htop]
  · refine ⟨_, rfl, ?_⟩
    refine List.Perm.trans (List.Perm.cons _ ?_) (heap_swap_pop_perm a top h0)
    exact (heap_siftUp_perm _ _ _).trans (heap_sink_perm _ _ _ _)

theorem heap_foldl_heapPush_perm (new : List Item) : ∀ (arr : Array Item),
    (new.foldl heapPush arr).toList.Perm (new ++ arr.toList) := by
  induction new with
  | nil => intro arr; exact List.Perm.refl _
  | cons x xs ih =>
    intro arr
    simp only [List.foldl_cons]
    refine (ih _).trans ?_
    refine (List.Perm.append_left xs (heap_heapPush_perm arr x)).trans ?_
    simp

theorem pickHeap_ok : PickOK pickHeap := by
  refine ⟨rfl, ?_, ?_⟩
  · intro l hne
    cases l with
    | nil => exact absurd rfl hne
    | cons top tl =>
      show ∃ it rest, popHeap (top :: tl) = some (it, rest) ∧ _
      unfold popHeap
      simp only
      split
      · rename_i hall
        have h0 : (top :: tl).toArray[0]? = some top := by simp
        obtain ⟨b, hb, hperm⟩ := heap_heapPop_spec _ top h0
        rw [hb]
        refine ⟨top, b.toList, rfl, by simpa using hperm, ?_⟩
        intro o ho
        have := List.all_eq_true.1 hall o ho
        simpa using this
      · exact heap_popFirstMax_spec _ hne
  · intro new old
    show (pushHeap new old).Perm (new ++ old)
    unfold pushHeap
    simpa using heap_foldl_heapPush_perm new old.toArray

/-! ### the heap invariant -/

/-- array `a` is a max-heap w.r.t. `Item.prio` -/
def IsHeap (a : Array Item) : Prop :=
  ∀ i, 0 < i → ∀ x v, a[(i - 1) / 2]? = some x → a[i]? = some v → v.prio ≤ x.prio

/-- "`a[j] ≤ a[i]` whenever both exist" -/
def HeapLe (a : Array Item) (i j : Nat) : Prop :=
  ∀ x v, a[i]? = some x → a[j]? = some v → v.prio ≤ x.prio

/-- heap order on every edge not touching `h`, and the children of `h` are below the parent of `h` -/
def HeapHole (a : Array Item) (h : Nat) : Prop :=
  (∀ j, 0 < j → j ≠ h → (j - 1) / 2 ≠ h → HeapLe a ((j - 1) / 2) j) ∧
  (0 < h → ∀ c, 0 < c → (c - 1) / 2 = h → HeapLe a ((h - 1) / 2) c)

/-- heap order on every edge except the one from `i` to its parent -/
def HeapExcept (a : Array Item) (i : Nat) : Prop :=
  HeapHole a i ∧ ∀ c, 0 < c → (c - 1) / 2 = i → HeapLe a i c

theorem heap_isHeap_iff (a : Array Item) : IsHeap a ↔ ∀ i, 0 < i → HeapLe a ((i - 1) / 2) i :=
  Iff.rfl

theorem heap_swap_get_left (a : Array Item) (i j : Nat) (hi : i < a.size) (hj : j < a.size) :
    (a.swapIfInBounds i j)[i]? = a[j]? := by
  simp only [Array.swapIfInBounds, hi, hj, dite_true, Array.getElem?_swap]
  split
  · rename_i h; subst h; simp
  · simp

theorem heap_swap_get_right (a : Array Item) (i j : Nat) (hi : i < a.size) (hj : j < a.size) :
    (a.swapIfInBounds i j)[j]? = a[i]? := by
  simp [Array.swapIfInBounds, hi, hj]

theorem heap_swap_get_other (a : Array Item) (i j k : Nat) (hi : k ≠ i) (hj : k ≠ j) :
    (a.swapIfInBounds i j)[k]? = a[k]? := by
  unfold Array.swapIfInBounds
  split
  · split
    · rw [Array.getElem?_swap]
      rw [if_neg (fun h => hj h.symm), if_neg (fun h => hi h.symm)]
    · rfl
  · rfl

theorem heap_le_trans {a : Array Item} {i j k : Nat} (hj : j < a.size)
    (h1 : HeapLe a i j) (h2 : HeapLe a j k) : HeapLe a i k := by
  intro x v hx hv
  have hy : a[j]? = some a[j] := by simp [hj]
  exact Int.le_trans (h2 _ _ hy hv) (h1 _ _ hx hy)

theorem heap_lt_size_of_some {a : Array Item} {i : Nat} {x : Item} (h : a[i]? = some x) :
    i < a.size := (Array.getElem?_eq_some_iff.1 h).1

theorem heap_le_of_none_right {a : Array Item} {i j : Nat} (h : a.size ≤ j) : HeapLe a i j := by
  intro x v _ hv
  rw [Array.getElem?_eq_none h] at hv
  cases hv

theorem heap_except_isHeap {a : Array Item} {i : Nat} (h : HeapExcept a i)
    (hi : 0 < i → HeapLe a ((i - 1) / 2) i) : IsHeap a := by
  intro j hj
  by_cases e : j = i
  · subst e; exact hi hj
  · by_cases e2 : (j - 1) / 2 = i
    · have := h.2 j hj e2
      rw [e2]; exact this
    · exact h.1.1 j hj e e2

/-- one climbing step keeps the invariant -/
theorem heap_except_swap {a : Array Item} {i : Nat} {x v : Item} (h : HeapExcept a i) (hi : 0 < i)
    (hx : a[(i - 1) / 2]? = some x) (hv : a[i]? = some v) (hlt : x.prio < v.prio) :
    HeapExcept (a.swapIfInBounds ((i - 1) / 2) i) ((i - 1) / 2) := by
  obtain ⟨⟨H1, H2⟩, H3⟩ := h
  have H2 := H2 hi
  have hps : (i - 1) / 2 < a.size := heap_lt_size_of_some hx
  have his : i < a.size := heap_lt_size_of_some hv
  have hpi : (i - 1) / 2 < i := by omega
  have gl := heap_swap_get_left a _ _ hps his
  have gr := heap_swap_get_right a _ _ hps his
  have go := fun k => heap_swap_get_other a ((i - 1) / 2) i k
  refine ⟨⟨?_, ?_⟩, ?_⟩
  · intro j hj hjp hpj
    have hji : j ≠ i := by intro e; subst e; exact hpj rfl
    unfold HeapLe
    rw [go j hjp hji]
    by_cases e : (j - 1) / 2 = i
    · rw [e, gr]; exact H2 j hj e
    · rw [go _ hpj e]; exact H1 j hj hji e
  · intro hp c hc hcp
    have hcp' : c ≠ (i - 1) / 2 := by omega
    have hpp1 : ((i - 1) / 2 - 1) / 2 ≠ (i - 1) / 2 := by omega
    have hpp2 : ((i - 1) / 2 - 1) / 2 ≠ i := by omega
    have hP : HeapLe a (((i - 1) / 2 - 1) / 2) ((i - 1) / 2) :=
      H1 _ hp (by omega) (by omega)
    unfold HeapLe
    rw [go _ hpp1 hpp2]
    by_cases e : c = i
    · rw [e, gr]; exact hP
    · rw [go c hcp' e]
      have : HeapLe a ((i - 1) / 2) c := by
        have := H1 c hc e (by omega)
        rw [hcp] at this; exact this
      exact heap_le_trans hps hP this
  · intro c hc hcp
    have hcp' : c ≠ (i - 1) / 2 := by omega
    unfold HeapLe
    rw [gl]
    by_cases e : c = i
    · rw [e, gr]
      intro x' v' hx' hv'
      rw [hv] at hx'; rw [hx] at hv'
      cases hx'; cases hv'
      omega
    · rw [go c hcp' e]
      have : HeapLe a ((i - 1) / 2) c := by
        have := H1 c hc e (by omega)
        rw [hcp] at this; exact this
      intro x' v' hx' hv'
      rw [hv] at hx'; cases hx'
      have := this _ _ hx hv'
      omega

theorem heap_siftUp_isHeap (fuel : Nat) : ∀ (a : Array Item) (i : Nat), i < fuel →
    HeapExcept a i → IsHeap (siftUp a fuel i) := by
  induction fuel with
  | zero => intro a i hi; omega
  | succ fuel ih =>
    intro a i hi h
    simp only [siftUp]
    split
    · rename_i h0
      exact heap_except_isHeap h (by omega)
    · rename_i h0
      split
      · rename_i x v hx hv
        split
        · rename_i hlt
          exact ih _ _ (by omega) (heap_except_swap h (by omega) hx hv hlt)
        · rename_i hlt
          refine heap_except_isHeap h ?_
          intro _ x' v' hx' hv'
          rw [hx] at hx'; rw [hv] at hv'
          cases hx'; cases hv'
          omega
      · rename_i hnone
        refine heap_except_isHeap h ?_
        intro _ x' v' hx' hv'
        exact absurd hv' (by intro hv'; exact hnone _ _ hx' hv')

theorem heap_isHeap_empty : IsHeap #[] := by
  intro i _ x v hx _
  simp at hx

theorem heapPush_isHeap (a : Array Item) (v : Item) : IsHeap a → IsHeap (heapPush a v) := by
  intro h
  unfold heapPush
  refine heap_siftUp_isHeap _ _ _ (by omega) ?_
  have hsome : ∀ {k : Nat} {y : Item}, (a.push v)[k]? = some y → k ≠ a.size → a[k]? = some y := by
    intro k y hk hne
    rw [Array.getElem?_push, if_neg hne] at hk; exact hk
  have hout : ∀ c, 0 < c → (c - 1) / 2 = a.size → (a.push v).size ≤ c := by
    intro c _ hcp
    rw [Array.size_push]; omega
  refine ⟨⟨?_, ?_⟩, ?_⟩
  · intro j hj hjn hpn x y hx hy
    exact h j hj x y (hsome hx hpn) (hsome hy hjn)
  · intro _ c hc hcp
    exact heap_le_of_none_right (hout c hc hcp)
  · intro c hc hcp
    exact heap_le_of_none_right (hout c hc hcp)

/-! ### `sink` -/

/-- the child the hole moves to when both children exist -/
def heap_childIdx (a : Array Item) (h : Nat) : Nat :=
  match a[2 * (h + 1)]?, a[2 * (h + 1) - 1]? with
  | some r, some l => if r.prio < l.prio then 2 * (h + 1) - 1 else 2 * (h + 1)
  | _, _ => 2 * (h + 1)

theorem heap_sink_succ (len : Nat) (a : Array Item) (fuel h : Nat) :
    sink len a (fuel + 1) h =
      if h < (len - 1) / 2 then
        sink len (a.swapIfInBounds h (heap_childIdx a h)) fuel (heap_childIdx a h)
      else if len % 2 = 0 ∧ h = (len - 2) / 2 then
        (a.swapIfInBounds h (2 * (h + 1) - 1), 2 * (h + 1) - 1)
      else (a, h) := rfl

/-- moving the hole to a child that dominates its sibling keeps the invariant -/
theorem heap_hole_step {a : Array Item} {h c : Nat} (H : HeapHole a h) (hc : 0 < c)
    (hcp : (c - 1) / 2 = h) (hcs : c < a.size)
    (hsib : ∀ s, 0 < s → (s - 1) / 2 = h → s ≠ c → HeapLe a c s) :
    HeapHole (a.swapIfInBounds h c) c := by
  obtain ⟨H1, H2⟩ := H
  have hhc : h < c := by omega
  have hhs : h < a.size := by omega
  have gl := heap_swap_get_left a _ _ hhs hcs
  have gr := heap_swap_get_right a _ _ hhs hcs
  have go := fun k => heap_swap_get_other a h c k
  refine ⟨?_, ?_⟩
  · intro j hj hjc hpc
    unfold HeapLe
    by_cases e : j = h
    · subst e
      rw [gl, go _ (by omega) (by omega)]
      exact H2 hj c hc hcp
    · rw [go j e hjc]
      by_cases e2 : (j - 1) / 2 = h
      · rw [e2, gl]
        exact hsib j hj e2 hjc
      · rw [go _ e2 hpc]
        exact H1 j hj e e2
  · intro _ g hg hgp
    unfold HeapLe
    rw [hcp, gl, go g (by omega) (by omega)]
    have := H1 g hg (by omega) (by omega)
    rw [hgp] at this; exact this

theorem heap_child_spec (a : Array Item) (h : Nat) (hs : 2 * (h + 1) < a.size) :
    0 < heap_childIdx a h ∧ (heap_childIdx a h - 1) / 2 = h ∧ heap_childIdx a h < a.size ∧
    h < heap_childIdx a h ∧
    ∀ s, 0 < s → (s - 1) / 2 = h → s ≠ heap_childIdx a h → HeapLe a (heap_childIdx a h) s := by
  have hr : a[2 * (h + 1)]? = some a[2 * (h + 1)] := by simp [hs]
  have hl : a[2 * (h + 1) - 1]? = some (a[2 * (h + 1) - 1]'(by omega)) := by
    have : 2 * (h + 1) - 1 < a.size := by omega
    simp [this]
  unfold heap_childIdx
  rw [hr, hl]
  simp only
  split
  · rename_i hlt
    refine ⟨by omega, by omega, by omega, by omega, ?_⟩
    intro s hs0 hsp hne
    have : s = 2 * (h + 1) := by omega
    subst this
    intro x v hx hv
    rw [hl] at hx; rw [hr] at hv
    cases hx; cases hv
    omega
  · rename_i hlt
    refine ⟨by omega, by omega, by omega, by omega, ?_⟩
    intro s hs0 hsp hne
    have : s = 2 * (h + 1) - 1 := by omega
    subst this
    intro x v hx hv
    rw [hr] at hx; rw [hl] at hv
    cases hx; cases hv
    omega

theorem heap_sink_spec (len : Nat) (fuel : Nat) : ∀ (a : Array Item) (h : Nat),
    a.size = len → 0 < len → len ≤ fuel + h → HeapHole a h →
    HeapHole (sink len a fuel h).1 (sink len a fuel h).2 ∧
      (sink len a fuel h).1.size ≤ 2 * (sink len a fuel h).2 + 1 := by
  induction fuel with
  | zero =>
    intro a h hs hl hf H
    simp only [sink]
    exact ⟨H, by omega⟩
  | succ fuel ih =>
    intro a h hs hl hf H
    rw [heap_sink_succ]
    split
    · rename_i hlt
      obtain ⟨c0, cp, cs, hc, sib⟩ := heap_child_spec a h (by omega)
      refine ih _ _ (by rw [Array.size_swapIfInBounds]; exact hs) hl (by omega) ?_
      exact heap_hole_step H c0 cp cs sib
    · split
      · rename_i hnlt heven
        refine ⟨?_, ?_⟩
        · refine heap_hole_step H (by omega) (by omega) (by omega) ?_
          intro s hs0 hsp hne
          exact heap_le_of_none_right (by omega)
        · simp only [Array.size_swapIfInBounds]; omega
      · rename_i hnlt hnev
        refine ⟨H, ?_⟩
        show a.size ≤ 2 * h + 1
        omega

theorem heap_hole_leaf {a : Array Item} {h : Nat} (H : HeapHole a h) (hleaf : a.size ≤ 2 * h + 1) :
    HeapExcept a h := by
  refine ⟨H, ?_⟩
  intro c hc hcp
  exact heap_le_of_none_right (by omega)

theorem heap_heapPop_eq (a : Array Item) (top : Item) (h0 : a[0]? = some top) (h1 : a.size ≠ 1) :
    heapPop a = some (top,
      siftUp (sink (a.swapIfInBounds 0 (a.size - 1)).pop.size (a.swapIfInBounds 0 (a.size - 1)).pop
          (a.swapIfInBounds 0 (a.size - 1)).pop.size 0).1
        ((sink (a.swapIfInBounds 0 (a.size - 1)).pop.size (a.swapIfInBounds 0 (a.size - 1)).pop
          (a.swapIfInBounds 0 (a.size - 1)).pop.size 0).2 + 1)
        (sink (a.swapIfInBounds 0 (a.size - 1)).pop.size (a.swapIfInBounds 0 (a.size - 1)).pop
          (a.swapIfInBounds 0 (a.size - 1)).pop.size 0).2) := by
  unfold heapPop
  simp only [h0, if_neg h1]

theorem heapPop_isHeap (a : Array Item) (it : Item) (b : Array Item) :
    IsHeap a → heapPop a = some (it, b) → IsHeap b := by
  intro H hp
  cases h0 : a[0]? with
  | none => simp [heapPop, h0] at hp
  | some top =>
    by_cases h1 : a.size = 1
    · simp only [heapPop, h0, if_pos h1, Option.some.injEq, Prod.mk.injEq] at hp
      rw [← hp.2]; exact heap_isHeap_empty
    · rw [heap_heapPop_eq a top h0 h1] at hp
      simp only [Option.some.injEq, Prod.mk.injEq] at hp
      rw [← hp.2]
      have hsz : 0 < a.size := heap_lt_size_of_some h0
      have hn1 : a.size - 1 < a.size := by omega
      have hbsz : (a.swapIfInBounds 0 (a.size - 1)).pop.size = a.size - 1 := by
        simp [Array.size_swapIfInBounds]
      have hole : HeapHole (a.swapIfInBounds 0 (a.size - 1)).pop 0 := by
        refine ⟨?_, fun h => absurd h (by omega)⟩
        intro j hj _ hpj x v hx hv
        rw [Array.getElem?_pop, Array.size_swapIfInBounds] at hx hv
        split at hv
        · rename_i hjlt
          rw [if_pos (by omega)] at hx
          rw [heap_swap_get_other _ _ _ _ (by omega) (by omega)] at hx hv
          exact H j hj x v hx hv
        · cases hv
      obtain ⟨hh, hleaf⟩ := heap_sink_spec _ (a.swapIfInBounds 0 (a.size - 1)).pop.size _ 0 rfl (by omega)
        (Nat.le_refl _) hole
      exact heap_siftUp_isHeap _ _ _ (Nat.lt_succ_self _) (heap_hole_leaf hh hleaf)

theorem isHeap_front_max (a : Array Item) (x : Item) :
    IsHeap a → a[0]? = some x → ∀ o ∈ a.toList, o.prio ≤ x.prio := by
  intro H h0
  have key : ∀ (k : Nat) (o : Item), a[k]? = some o → o.prio ≤ x.prio := by
    intro k
    induction k using Nat.strongRecOn with
    | _ k ih =>
      intro o ho
      by_cases hk : k = 0
      · subst hk
        rw [h0] at ho; cases ho
        exact Int.le_refl _
      · have hks := heap_lt_size_of_some ho
        have hps : (k - 1) / 2 < a.size := by omega
        have hy : a[(k - 1) / 2]? = some a[(k - 1) / 2] := by simp [hps]
        exact Int.le_trans (H k (by omega) _ _ hy ho) (ih _ (by omega) _ hy)
  intro o ho
  obtain ⟨k, hk⟩ := List.mem_iff_getElem?.1 ho
  rw [Array.getElem?_toList] at hk
  exact key k o hk

/-! ### the agenda of the search loop is always a heap -/

theorem popHeap_eq_heapPop (l : List Item) : IsHeap l.toArray →
    popHeap l = (heapPop l.toArray).map (fun p => (p.1, p.2.toList)) := by
  intro H
  cases l with
  | nil => simp [popHeap, heapPop]
  | cons top tl =>
    have h0 : (top :: tl).toArray[0]? = some top := by simp
    have hall : (top :: tl).all (fun o => decide (o.prio ≤ top.prio)) = true := by
      rw [List.all_eq_true]
      intro o ho
      have := isHeap_front_max _ top H h0 o (by simpa using ho)
      simpa using this
    unfold popHeap
    simp only [hall, if_true]
    cases heapPop (top :: tl).toArray with
    | none => rfl
    | some p => rfl

theorem heap_foldl_heapPush_isHeap (new : List Item) : ∀ (arr : Array Item), IsHeap arr →
    IsHeap (new.foldl heapPush arr) := by
  induction new with
  | nil => intro arr h; exact h
  | cons x xs ih =>
    intro arr h
    simp only [List.foldl_cons]
    exact ih _ (heapPush_isHeap _ _ h)

theorem heap_pushHeap_isHeap (new old : List Item) (h : IsHeap old.toArray) :
    IsHeap (pushHeap new old).toArray := by
  unfold pushHeap
  simpa using heap_foldl_heapPush_isHeap new _ h

theorem heap_popHeap_isHeap {l rest : List Item} {it : Item} (h : IsHeap l.toArray)
    (hp : popHeap l = some (it, rest)) : IsHeap rest.toArray := by
  rw [popHeap_eq_heapPop l h] at hp
  cases hq : heapPop l.toArray with
  | none => rw [hq] at hp; cases hp
  | some p =>
    rw [hq] at hp
    simp only [Option.map_some, Option.some.injEq, Prod.mk.injEq] at hp
    rw [← hp.2]
    simpa using heapPop_isHeap _ p.1 p.2 h hq

theorem heap_stepWith_isHeap (g : Grammar) (s : Sent) (cfg : Cfg) (st st' : St)
    (h : IsHeap st.agenda.toArray) (hs : stepWith pickHeap g s cfg st = some st') :
    IsHeap st'.agenda.toArray := by
  unfold stepWith at hs
  split at hs
  · cases hs
  · split at hs
    · cases hs
    · rename_i it rest hpop
      have hrest : IsHeap rest.toArray := heap_popHeap_isHeap h hpop
      have hpush : ∀ new, IsHeap (pickHeap.push new rest).toArray :=
        fun new => heap_pushHeap_isHeap new rest hrest
      simp only at hs
      split at hs
      · split at hs <;> (cases hs; exact hrest)
      · split at hs
        · cases hs; exact hrest
        · cases hs; exact hpush _

/-- the fallback branch of `popHeap` is dead code in every run: in every state reachable by the
    search loop with `pickHeap` the agenda is a heap -/
theorem loop_agenda_isHeap (g : Grammar) (s : Sent) (cfg : Cfg) (fuel : Nat) (st : St) :
    IsHeap st.agenda.toArray → IsHeap (loop pickHeap g s cfg fuel st).agenda.toArray := by
  induction fuel generalizing st with
  | zero => intro h; exact h
  | succ fuel ih =>
    intro h
    simp only [loop]
    split
    · exact h
    · rename_i st' hs
      exact ih st' (heap_stepWith_isHeap g s cfg st st' h hs)

theorem init_agenda_isHeap (s : Sent) (cfg : Cfg) : IsHeap (init pickHeap s cfg).agenda.toArray := by
  show IsHeap (pushHeap (leafItems s cfg) []).toArray
  exact heap_pushHeap_isHeap _ _ heap_isHeap_empty

end Depccg.SearchProps
