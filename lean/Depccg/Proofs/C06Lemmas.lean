/-
  Helper lemmas for C06 (pattern matching of categories).  Core Lean only.
-/
import Depccg.Props.C06Defs

namespace Depccg.C06
open Depccg Cat Str Unify

/-! ### association lists -/

section DictLemmas
variable {κ α : Type} [DecidableEq κ]

theorem get?_set_self (d : Dict κ α) (k : κ) (v : α) : Dict.get? (Dict.set d k v) k = some v := by
  induction d with
  | nil => simp [Dict.set, Dict.get?]
  | cons e rest ih =>
    obtain ⟨k', v'⟩ := e
    by_cases h : k' = k
    · simp [Dict.set, Dict.get?, h]
    · simp [Dict.set, Dict.get?, h, ih]

theorem get?_set_ne (d : Dict κ α) {k k' : κ} (v : α) (hne : k ≠ k') :
    Dict.get? (Dict.set d k v) k' = Dict.get? d k' := by
  induction d with
  | nil => simp [Dict.set, Dict.get?, hne]
  | cons e rest ih =>
    obtain ⟨k₀, v₀⟩ := e
    by_cases h : k₀ = k
    · subst h; simp [Dict.set, Dict.get?, hne]
    · by_cases h' : k₀ = k'
      · subst h'; simp [Dict.set, Dict.get?, h]
      · simp [Dict.set, Dict.get?, h, h', ih]

theorem mem_of_get? {d : Dict κ α} {k : κ} {v : α} (h : Dict.get? d k = some v) : (k, v) ∈ d := by
  induction d with
  | nil => simp [Dict.get?] at h
  | cons e rest ih =>
    obtain ⟨k₀, v₀⟩ := e
    by_cases h' : k₀ = k
    · simp [Dict.get?, h'] at h; subst h; subst h'; exact List.mem_cons_self
    · simp [Dict.get?, h'] at h; exact List.mem_cons_of_mem _ (ih h)

theorem get?_isSome_of_mem {d : Dict κ α} {k : κ} {v : α} (h : (k, v) ∈ d) :
    ∃ v', Dict.get? d k = some v' := by
  induction d with
  | nil => cases h
  | cons e rest ih =>
    obtain ⟨k₀, v₀⟩ := e
    by_cases h' : k₀ = k
    · exact ⟨v₀, by simp [Dict.get?, h']⟩
    · rcases List.mem_cons.1 h with h | h
      · cases h; exact absurd rfl h'
      · obtain ⟨v', hv'⟩ := ih h
        exact ⟨v', by simp [Dict.get?, h', hv']⟩

theorem get?_eq_none_iff {d : Dict κ α} {k : κ} : Dict.get? d k = none ↔ ∀ v, (k, v) ∉ d := by
  constructor
  · intro h v hv
    obtain ⟨v', hv'⟩ := get?_isSome_of_mem hv
    rw [h] at hv'; cases hv'
  · intro h
    cases hg : Dict.get? d k with
    | none => rfl
    | some v => exact absurd (mem_of_get? hg) (h v)

/-- all entries under one key carry the same value -/
def Functional (d : List (κ × α)) : Prop := ∀ k v v', (k, v) ∈ d → (k, v') ∈ d → v = v'

omit [DecidableEq κ] in
theorem Functional.tail {e : κ × α} {d : List (κ × α)} (h : Functional (e :: d)) : Functional d :=
  fun k v v' h1 h2 => h k v v' (List.mem_cons_of_mem _ h1) (List.mem_cons_of_mem _ h2)

theorem Functional.get?_iff {d : Dict κ α} (hf : Functional d) {k : κ} {v : α} :
    Dict.get? d k = some v ↔ (k, v) ∈ d := by
  constructor
  · exact mem_of_get?
  · intro h
    obtain ⟨v', hv'⟩ := get?_isSome_of_mem h
    rw [hv', hf k v' v (mem_of_get? hv') h]

theorem mem_keys_iff {d : Dict κ α} {k : κ} : k ∈ Dict.keys d ↔ ∃ v, Dict.get? d k = some v := by
  constructor
  · intro h
    obtain ⟨e, he, hk⟩ := List.mem_map.1 h
    obtain ⟨k₀, v₀⟩ := e
    cases hk
    exact get?_isSome_of_mem he
  · rintro ⟨v, hv⟩
    exact List.mem_map.2 ⟨(k, v), mem_of_get? hv, rfl⟩

/-- a sequence of writes -/
def setAll (d : Dict κ α) (W : List (κ × α)) : Dict κ α :=
  W.foldl (fun d e => Dict.set d e.1 e.2) d

@[simp] theorem setAll_nil (d : Dict κ α) : setAll d [] = d := rfl

@[simp] theorem setAll_cons (d : Dict κ α) (e : κ × α) (W : List (κ × α)) :
    setAll d (e :: W) = setAll (Dict.set d e.1 e.2) W := rfl

theorem setAll_append (d : Dict κ α) (W₁ W₂ : List (κ × α)) :
    setAll d (W₁ ++ W₂) = setAll (setAll d W₁) W₂ := by
  simp [setAll, List.foldl_append]

/-- whatever is read after the writes was written or was there before -/
theorem get?_setAll_sub (W : List (κ × α)) (d : Dict κ α) {k : κ} {v : α}
    (h : Dict.get? (setAll d W) k = some v) : (k, v) ∈ W ∨ Dict.get? d k = some v := by
  induction W generalizing d with
  | nil => exact Or.inr h
  | cons e W ih =>
    rcases ih _ h with h' | h'
    · exact Or.inl (List.mem_cons_of_mem _ h')
    · by_cases hk : e.1 = k
      · subst hk
        rw [get?_set_self] at h'
        cases h'
        exact Or.inl List.mem_cons_self
      · rw [get?_set_ne _ _ hk] at h'
        exact Or.inr h'

theorem get?_setAll_notin (W : List (κ × α)) (d : Dict κ α) {k : κ}
    (hk : ∀ v, (k, v) ∉ W) : Dict.get? (setAll d W) k = Dict.get? d k := by
  induction W generalizing d with
  | nil => rfl
  | cons e W ih =>
    rw [setAll_cons, ih _ (fun v hv => hk v (List.mem_cons_of_mem _ hv))]
    apply get?_set_ne
    intro he
    exact hk e.2 (by rw [← he]; exact List.mem_cons_self)

/-- reading after functional writes -/
theorem get?_setAll (W : List (κ × α)) (hf : Functional W) (d : Dict κ α) (k : κ) (v : α) :
    Dict.get? (setAll d W) k = some v ↔
      (k, v) ∈ W ∨ ((∀ v', (k, v') ∉ W) ∧ Dict.get? d k = some v) := by
  induction W generalizing d with
  | nil => simp
  | cons e W ih =>
    obtain ⟨k₀, v₀⟩ := e
    rw [setAll_cons, ih hf.tail]
    by_cases hk : k₀ = k
    · subst hk
      simp only [get?_set_self]
      constructor
      · rintro (h | ⟨_, h⟩)
        · exact Or.inl (List.mem_cons_of_mem _ h)
        · cases h; exact Or.inl List.mem_cons_self
      · rintro (h | ⟨h, _⟩)
        · rcases List.mem_cons.1 h with h | h
          · have hv : v = v₀ := (Prod.mk.inj h).2
            subst hv
            by_cases hex : ∃ v', (k₀, v') ∈ W
            · obtain ⟨v', hv'⟩ := hex
              have := hf k₀ v v' List.mem_cons_self (List.mem_cons_of_mem _ hv')
              subst this
              exact Or.inl hv'
            · exact Or.inr ⟨fun v' hv' => hex ⟨v', hv'⟩, rfl⟩
          · exact Or.inl h
        · exact absurd List.mem_cons_self (h v₀)
    · simp only [get?_set_ne _ _ hk]
      constructor
      · rintro (h | ⟨h1, h2⟩)
        · exact Or.inl (List.mem_cons_of_mem _ h)
        · refine Or.inr ⟨fun v' hv' => ?_, h2⟩
          rcases List.mem_cons.1 hv' with h | h
          · cases h; exact hk rfl
          · exact h1 v' h
      · rintro (h | ⟨h1, h2⟩)
        · rcases List.mem_cons.1 h with h | h
          · cases h; exact absurd rfl hk
          · exact Or.inl h
        · exact Or.inr ⟨fun v' hv' => h1 v' (List.mem_cons_of_mem _ hv'), h2⟩

theorem get?_setAll_nil (W : List (κ × α)) (hf : Functional W) (k : κ) (v : α) :
    Dict.get? (setAll ([] : Dict κ α) W) k = some v ↔ (k, v) ∈ W := by
  rw [get?_setAll W hf]
  simp [Dict.get?]

end DictLemmas

/-! ### decimal digits are injective -/

def decode (a : Nat) (s : Str) : Nat := s.foldl (fun a c => 10 * a + (c - 48)) a

theorem decode_natDigitsAux : ∀ (fuel n : Nat) (acc : Str), n < fuel →
    decode 0 (natDigitsAux fuel n acc) = decode n acc := by
  intro fuel
  induction fuel with
  | zero => intro n acc h; omega
  | succ fuel ih =>
    intro n acc h
    unfold natDigitsAux
    by_cases h10 : n < 10
    · simp only [h10, if_true, decode, List.foldl_cons]
      congr 1; omega
    · simp only [h10, if_false]
      rw [ih (n / 10) _ (by omega)]
      simp only [decode, List.foldl_cons]
      congr 1; omega

theorem decode_ofNat (n : Nat) : decode 0 (Str.ofNat n) = n := by
  unfold Str.ofNat
  rw [decode_natDigitsAux _ _ _ (by omega)]
  rfl

theorem ofNat_inj {i j : Nat} (h : Str.ofNat i = Str.ofNat j) : i = j := by
  have := congrArg (decode 0) h
  rwa [decode_ofNat, decode_ofNat] at this

/-! ### what the two traversals write -/

/-- the writes of `scanDeep t v i` -/
def deepW : Cat → Str → Nat → List (Str × Feat)
  | .fn l _ r, v, i => deepW l v i ++ deepW r v (i + (feats l).length)
  | .atom _ f, v, i => [(v ++ Str.ofNat i, f)]

/-- the writes into `results` at a pattern atom `v` matched with `t` -/
def atomW (v : Str) : Cat → List (Str × Feat)
  | .atom _ f => [(v, f)]
  | .fn l s r => deepW (.fn l s r) v 0

/-- the writes into `results` of a successful `scan p t` -/
def writes : Cat → Cat → List (Str × Feat)
  | .atom v _, t => atomW v t
  | .fn pl _ pr, .fn tl _ tr => writes pl tl ++ writes pr tr
  | .fn _ _ _, .atom _ _ => []

theorem scanDeep_eq (t : Cat) (v : Str) (i : Nat) (res : Dict Str Feat) :
    scanDeep t v i res = (i + (feats t).length, setAll res (deepW t v i)) := by
  induction t generalizing i res with
  | atom b f => simp [scanDeep, feats, deepW]
  | fn l s r ihl ihr =>
    simp only [scanDeep, ihl, ihr, feats, deepW, setAll_append, List.length_append, Nat.add_assoc]

theorem mem_deepW {t : Cat} {v : Str} {i : Nat} {k : Str} {f : Feat} :
    (k, f) ∈ deepW t v i ↔ ∃ j, (feats t)[j]? = some f ∧ k = v ++ Str.ofNat (i + j) := by
  induction t generalizing i with
  | atom b g =>
    simp only [deepW, feats, List.mem_singleton, Prod.mk.injEq]
    constructor
    · rintro ⟨rfl, rfl⟩; exact ⟨0, rfl, rfl⟩
    · rintro ⟨j, hj, rfl⟩
      cases j with
      | zero => simp at hj; exact ⟨rfl, hj.symm⟩
      | succ j => simp at hj
  | fn l s r ihl ihr =>
    simp only [deepW, feats, List.mem_append, ihl, ihr]
    constructor
    · rintro (⟨j, hj, rfl⟩ | ⟨j, hj, rfl⟩)
      · refine ⟨j, ?_, rfl⟩
        rw [List.getElem?_append_left (List.getElem?_eq_some_iff.1 hj).1]; exact hj
      · refine ⟨(feats l).length + j, ?_, by rw [Nat.add_assoc]⟩
        rw [List.getElem?_append_right (Nat.le_add_right _ _)]
        simpa using hj
    · rintro ⟨j, hj, rfl⟩
      by_cases hlt : j < (feats l).length
      · rw [List.getElem?_append_left hlt] at hj
        exact Or.inl ⟨j, hj, rfl⟩
      · rw [List.getElem?_append_right (Nat.le_of_not_lt hlt)] at hj
        refine Or.inr ⟨j - (feats l).length, hj, ?_⟩
        congr 2; omega

theorem mem_atomW_feats {v : Str} {t : Cat} {k : Str} {f : Feat} (h : (k, f) ∈ atomW v t) :
    f ∈ feats t := by
  cases t with
  | atom b g => simp [atomW, feats] at h ⊢; exact h.2
  | fn l s r =>
    simp only [atomW] at h
    obtain ⟨j, hj, _⟩ := mem_deepW.1 h
    exact List.mem_of_getElem? hj

theorem mem_writes_feats {p t : Cat} {k : Str} {f : Feat} (h : (k, f) ∈ writes p t) :
    f ∈ feats t := by
  induction p generalizing t with
  | atom v g => exact mem_atomW_feats h
  | fn pl ps pr ihl ihr =>
    cases t with
    | atom b g => simp [writes] at h
    | fn tl ts tr =>
      simp only [writes, List.mem_append] at h
      simp only [feats, List.mem_append]
      exact h.imp ihl ihr

theorem mem_writes {p t : Cat} {k : Str} {f : Feat} :
    (k, f) ∈ writes p t ↔ ∃ v t', (v, t') ∈ matched p t ∧ (k, f) ∈ atomW v t' := by
  induction p generalizing t with
  | atom v g =>
    simp only [writes, matched, List.mem_singleton, Prod.mk.injEq]
    constructor
    · intro h; exact ⟨v, t, ⟨rfl, rfl⟩, h⟩
    · rintro ⟨v', t', ⟨rfl, rfl⟩, h⟩; exact h
  | fn pl ps pr ihl ihr =>
    cases t with
    | atom b g => simp [writes, matched]
    | fn tl ts tr =>
      simp only [writes, matched, List.mem_append, ihl, ihr]
      constructor
      · rintro (⟨v, t', h1, h2⟩ | ⟨v, t', h1, h2⟩)
        · exact ⟨v, t', Or.inl h1, h2⟩
        · exact ⟨v, t', Or.inr h1, h2⟩
      · rintro ⟨v, t', h1 | h1, h2⟩
        · exact Or.inl ⟨v, t', h1, h2⟩
        · exact Or.inr ⟨v, t', h1, h2⟩

/-! ### `matched` and `vars` -/

theorem mem_matched_vars {p t : Cat} {v : Str} {c : Cat} (h : (v, c) ∈ matched p t) :
    v ∈ vars p := by
  induction p generalizing t with
  | atom w g => simp [matched] at h; simp [vars, h.1]
  | fn pl ps pr ihl ihr =>
    cases t with
    | atom b g => simp [matched] at h
    | fn tl ts tr =>
      simp only [matched, List.mem_append] at h
      simp only [vars, List.mem_append]
      exact h.imp ihl ihr

theorem mem_matched_feats {p t : Cat} {v : Str} {c : Cat} (h : (v, c) ∈ matched p t) :
    ∀ f ∈ feats c, f ∈ feats t := by
  induction p generalizing t with
  | atom w g => simp [matched] at h; rw [h.2]; exact fun f hf => hf
  | fn pl ps pr ihl ihr =>
    cases t with
    | atom b g => simp [matched] at h
    | fn tl ts tr =>
      simp only [matched, List.mem_append] at h
      intro f hf
      simp only [feats, List.mem_append]
      rcases h with h | h
      · exact Or.inl (ihl h f hf)
      · exact Or.inr (ihr h f hf)

theorem matched_of_shape {p t : Cat} (hs : Shape p t) {v : Str} (hv : v ∈ vars p) :
    ∃ c, (v, c) ∈ matched p t := by
  induction p generalizing t with
  | atom w g => simp [vars] at hv; subst hv; exact ⟨t, by simp [matched]⟩
  | fn pl ps pr ihl ihr =>
    cases t with
    | atom b g => simp [Shape] at hs
    | fn tl ts tr =>
      simp only [Shape] at hs
      simp only [vars, List.mem_append] at hv
      simp only [matched, List.mem_append]
      rcases hv with hv | hv
      · obtain ⟨c, hc⟩ := ihl hs.2.1 hv; exact ⟨c, Or.inl hc⟩
      · obtain ⟨c, hc⟩ := ihr hs.2.2 hv; exact ⟨c, Or.inr hc⟩

theorem linear_fn {pl pr : Cat} {ps : Nat} (h : Linear (.fn pl ps pr)) :
    Linear pl ∧ Linear pr ∧ ∀ v, v ∈ vars pl → v ∉ vars pr := by
  unfold Linear at h ⊢
  simp only [vars] at h
  rw [List.nodup_append] at h
  exact ⟨h.1, h.2.1, fun v h1 h2 => h.2.2 v h1 v h2 rfl⟩

theorem matched_functional {p : Cat} (hl : Linear p) (t : Cat) : Functional (matched p t) := by
  induction p generalizing t with
  | atom w g =>
    intro k v v' h1 h2
    simp [matched] at h1 h2
    rw [h1.2, h2.2]
  | fn pl ps pr ihl ihr =>
    cases t with
    | atom b g => intro k v v' h1; simp [matched] at h1
    | fn tl ts tr =>
      obtain ⟨hll, hlr, hd⟩ := linear_fn hl
      intro k v v' h1 h2
      simp only [matched, List.mem_append] at h1 h2
      rcases h1 with h1 | h1 <;> rcases h2 with h2 | h2
      · exact ihl hll tl k v v' h1 h2
      · exact absurd (mem_matched_vars h2) (hd k (mem_matched_vars h1))
      · exact absurd (mem_matched_vars h1) (hd k (mem_matched_vars h2))
      · exact ihr hlr tr k v v' h1 h2

/-! ### `scan` -/

/-- the clash test at a pattern atom -/
def clashB (cats : Dict Str Cat) (b : Str) (t : Cat) : Bool :=
  match Dict.get? cats b with
  | some c => !(Cat.xorEq t c)
  | none => false

theorem clashB_false_iff (cats : Dict Str Cat) (b : Str) (t : Cat) :
    clashB cats b t = false ↔ ∀ c, Dict.get? cats b = some c → Cat.xorEq t c = true := by
  unfold clashB
  cases Dict.get? cats b with
  | none => simp
  | some c => simp

theorem scan_atom_eq (b : Str) (f : Feat) (t : Cat) (cats : Dict Str Cat) (res : Dict Str Feat) :
    scan (.atom b f) t cats res =
      if clashB cats b t then (false, cats, res)
      else (true, Dict.set cats b t, setAll res (atomW b t)) := by
  cases t with
  | atom tb tf => rfl
  | fn l s r =>
    have h : (scanDeep (.fn l s r) b 0 res).2 = setAll res (deepW (.fn l s r) b 0) := by
      rw [scanDeep_eq]
    simp only [atomW, ← h]
    rfl

theorem scan_atom_fst (b : Str) (f : Feat) (t : Cat) (cats : Dict Str Cat) (res : Dict Str Feat) :
    (scan (.atom b f) t cats res).1 = true ↔
      ∀ c, Dict.get? cats b = some c → Cat.xorEq t c = true := by
  rw [scan_atom_eq, ← clashB_false_iff]
  cases clashB cats b t <;> simp

theorem scan_atom_ok {b : Str} {f : Feat} {t : Cat} {cats cats' : Dict Str Cat}
    {res res' : Dict Str Feat} (h : scan (.atom b f) t cats res = (true, cats', res')) :
    cats' = Dict.set cats b t ∧ res' = setAll res (atomW b t) := by
  rw [scan_atom_eq] at h
  cases hc : clashB cats b t
  · rw [hc] at h
    simp only [Bool.false_eq_true, if_false, Prod.mk.injEq, true_and] at h
    exact ⟨h.1.symm, h.2.symm⟩
  · rw [hc] at h
    simp at h

theorem scan_atom_cats (b : Str) (f : Feat) (t : Cat) (cats : Dict Str Cat) (res : Dict Str Feat) :
    (scan (.atom b f) t cats res).2.1 = cats ∨ (scan (.atom b f) t cats res).2.1 = Dict.set cats b t := by
  rw [scan_atom_eq]
  cases clashB cats b t
  · exact Or.inr rfl
  · exact Or.inl rfl

def slashOK (ss ts : Nat) : Bool := ss == ts || ss == cBar || ts == cBar

theorem slashOK_iff (ss ts : Nat) : slashOK ss ts = true ↔ (ss = ts ∨ ss = cBar ∨ ts = cBar) := by
  simp [slashOK, or_assoc]

theorem scan_fn_atom (sl sr : Cat) (ss : Nat) (b : Str) (f : Feat) (cats : Dict Str Cat)
    (res : Dict Str Feat) : scan (.fn sl ss sr) (.atom b f) cats res = (false, cats, res) := by
  simp [scan]

theorem scan_fn_fn (sl sr tl tr : Cat) (ss ts : Nat) (cats : Dict Str Cat) (res : Dict Str Feat) :
    scan (.fn sl ss sr) (.fn tl ts tr) cats res =
      if slashOK ss ts then
        (if (scan sl tl cats res).1 then scan sr tr (scan sl tl cats res).2.1 (scan sl tl cats res).2.2
         else (false, (scan sl tl cats res).2.1, (scan sl tl cats res).2.2))
      else (false, cats, res) := by
  rw [scan]
  by_cases hs : slashOK ss ts = true
  · have hs' : (ss == ts || ss == cBar || ts == cBar) = true := hs
    rw [if_pos hs]
    simp only [hs', if_true]
    rcases scan sl tl cats res with ⟨b, c1, r1⟩
    cases b <;> rfl
  · have hs' : ¬ (ss == ts || ss == cBar || ts == cBar) = true := hs
    rw [if_neg hs]
    simp [hs']

/-- variables not in the pattern keep their `cats` entry -/
theorem scan_cats_notin {p : Cat} {k : Str} (hk : k ∉ vars p) (t : Cat) (cats : Dict Str Cat)
    (res : Dict Str Feat) : Dict.get? (scan p t cats res).2.1 k = Dict.get? cats k := by
  induction p generalizing t cats res with
  | atom b f =>
    rcases scan_atom_cats b f t cats res with h | h
    · rw [h]
    · rw [h]
      apply get?_set_ne
      intro hb; exact hk (by simp [vars, hb])
  | fn pl ps pr ihl ihr =>
    simp only [vars, List.mem_append, not_or] at hk
    cases t with
    | atom b f => rw [scan_fn_atom]
    | fn tl ts tr =>
      rw [scan_fn_fn]
      split
      · split
        · rw [ihr hk.2, ihl hk.1]
        · exact ihl hk.1 _ _ _
      · rfl

/-- a successful `scan` wrote exactly `matched` into `cats` and `writes` into `results` -/
theorem scan_ok {p t : Cat} {cats cats' : Dict Str Cat} {res res' : Dict Str Feat}
    (h : scan p t cats res = (true, cats', res')) :
    Shape p t ∧ cats' = setAll cats (matched p t) ∧ res' = setAll res (writes p t) := by
  induction p generalizing t cats res cats' res' with
  | atom b f =>
    obtain ⟨h1, h2⟩ := scan_atom_ok h
    exact ⟨by simp [Shape], by rw [h1]; rfl, by rw [h2]; rfl⟩
  | fn pl ps pr ihl ihr =>
    cases t with
    | atom b f => rw [scan_fn_atom] at h; cases h
    | fn tl ts tr =>
      rw [scan_fn_fn] at h
      split at h
      next hs =>
        split at h
        next h1 =>
          rcases hsc : scan pl tl cats res with ⟨b1, c1, r1⟩
          rw [hsc] at h h1
          simp only at h1 h
          subst h1
          obtain ⟨s1, e1, e2⟩ := ihl hsc
          obtain ⟨s2, e3, e4⟩ := ihr h
          refine ⟨?_, ?_, ?_⟩
          · simp only [Shape]; exact ⟨(slashOK_iff _ _).1 hs, s1, s2⟩
          · simp only [matched, setAll_append]; rw [e3, e1]
          · simp only [writes, setAll_append]; rw [e4, e2]
        · cases h
      · cases h

/-- on a linear pattern the traversal succeeds iff the shape fits and no variable clashes with
    what `cats` held before -/
theorem scan_true_iff {p : Cat} (hl : Linear p) (t : Cat) (cats : Dict Str Cat)
    (res : Dict Str Feat) :
    (scan p t cats res).1 = true ↔
      Shape p t ∧ ∀ v t' c, (v, t') ∈ matched p t → Dict.get? cats v = some c →
        Cat.xorEq t' c = true := by
  induction p generalizing t cats res with
  | atom b f =>
    rw [scan_atom_fst]
    simp only [Shape, matched, List.mem_singleton, Prod.mk.injEq, true_and]
    constructor
    · rintro h v t' c ⟨rfl, rfl⟩ hc; exact h c hc
    · intro h c hc; exact h b t c ⟨rfl, rfl⟩ hc
  | fn pl ps pr ihl ihr =>
    obtain ⟨hll, hlr, hd⟩ := linear_fn hl
    cases t with
    | atom b f => rw [scan_fn_atom]; simp [Shape]
    | fn tl ts tr =>
      rw [scan_fn_fn]
      simp only [Shape, matched, List.mem_append]
      have hsi := slashOK_iff ps ts
      by_cases hs : slashOK ps ts = true
      · rw [if_pos hs]
        have hs' := hsi.1 hs
        have ih1 := ihl hll tl cats res
        by_cases h1 : (scan pl tl cats res).1 = true
        · rw [if_pos h1, ihr hlr]
          obtain ⟨s1, n1⟩ := ih1.1 h1
          have hget : ∀ v t', (v, t') ∈ matched pr tr →
              Dict.get? (scan pl tl cats res).2.1 v = Dict.get? cats v := by
            intro v t' hv
            apply scan_cats_notin
            intro hv'
            exact hd v hv' (mem_matched_vars hv)
          constructor
          · rintro ⟨s2, n2⟩
            refine ⟨⟨hs', s1, s2⟩, ?_⟩
            rintro v t' c (hv | hv) hc
            · exact n1 v t' c hv hc
            · exact n2 v t' c hv (by rw [hget v t' hv]; exact hc)
          · rintro ⟨⟨_, _, s2⟩, n⟩
            refine ⟨s2, ?_⟩
            intro v t' c hv hc
            rw [hget v t' hv] at hc
            exact n v t' c (Or.inr hv) hc
        · rw [if_neg h1]
          constructor
          · intro h; cases h
          · rintro ⟨⟨_, s1, _⟩, n⟩
            exact absurd (ih1.2 ⟨s1, fun v t' c hv hc => n v t' c (Or.inl hv) hc⟩) h1
      · rw [if_neg hs]
        constructor
        · intro h; cases h
        · rintro ⟨⟨h, _⟩, _⟩
          exact absurd (hsi.2 h) hs

/-! ### features: `unifies` against `Compat` -/

/-- two features of one feature system -/
def NoErr (f g : Feat) : Prop :=
  (∃ a b, f = .un a ∧ g = .un b) ∨
  (∃ k1 v1 k2 v2 k3 v3 c1 d1 c2 d2 c3 d3, f = .tri k1 v1 k2 v2 k3 v3 ∧ g = .tri c1 d1 c2 d2 c3 d3)

theorem NoErr.symm {f g : Feat} (h : NoErr f g) : NoErr g f := by
  rcases h with ⟨a, b, rfl, rfl⟩ | ⟨k1, v1, k2, v2, k3, v3, c1, d1, c2, d2, c3, d3, rfl, rfl⟩
  · exact Or.inl ⟨b, a, rfl, rfl⟩
  · exact Or.inr ⟨c1, d1, c2, d2, c3, d3, k1, v1, k2, v2, k3, v3, rfl, rfl⟩

theorem noErr_of_sameKind {x y : Cat} (h : SameKind x y) {f g : Feat} (hf : f ∈ feats x)
    (hg : g ∈ feats y) : NoErr f g := by
  rcases h with h | h
  · obtain ⟨a, rfl⟩ := h f (List.mem_append_left _ hf)
    obtain ⟨b, rfl⟩ := h g (List.mem_append_right _ hg)
    exact Or.inl ⟨a, b, rfl, rfl⟩
  · obtain ⟨k1, v1, k2, v2, k3, v3, rfl⟩ := h f (List.mem_append_left _ hf)
    obtain ⟨c1, d1, c2, d2, c3, d3, rfl⟩ := h g (List.mem_append_right _ hg)
    exact Or.inr ⟨k1, v1, k2, v2, k3, v3, c1, d1, c2, d2, c3, d3, rfl, rfl⟩

theorem unifies_tri_tri (k1 v1 k2 v2 k3 v3 c1 d1 c2 d2 c3 d3 : Str) :
    Feat.unifies (.tri k1 v1 k2 v2 k3 v3) (.tri c1 d1 c2 d2 c3 d3) =
      .ok (decide ((k1 = c1 ∧ k2 = c2 ∧ k3 = c3) ∧
        (v1 = d1 ∨ startsWith v1 [88] = true) ∧ (v2 = d2 ∨ startsWith v2 [88] = true) ∧
        (v3 = d3 ∨ startsWith v3 [88] = true))) := by
  simp only [Feat.unifies]
  by_cases hp : Feat.pyEq (.tri k1 v1 k2 v2 k3 v3) (.tri c1 d1 c2 d2 c3 d3) = true
  · rw [if_pos hp]
    simp only [Feat.pyEq, Bool.and_eq_true, beq_iff_eq] at hp
    obtain ⟨⟨⟨rfl, rfl⟩, ⟨rfl, rfl⟩⟩, ⟨rfl, rfl⟩⟩ := hp
    simp
  · rw [if_neg hp]
    by_cases hk : k1 = c1 ∧ k2 = c2 ∧ k3 = c3
    · obtain ⟨rfl, rfl, rfl⟩ := hk
      simp only [beq_self_eq_true, Bool.and_self, Bool.not_true, Bool.false_eq_true, if_false,
        Except.ok.injEq, and_self, true_and]
      rw [Bool.eq_iff_iff]
      simp [and_assoc]
    · have : (!(k1 == c1 && k2 == c2 && k3 == c3)) = true := by
        simp only [Bool.not_eq_true', Bool.and_eq_false_iff, beq_eq_false_iff_ne, ne_eq]
        by_cases h1 : k1 = c1
        · by_cases h2 : k2 = c2
          · exact Or.inr fun h3 => hk ⟨h1, h2, h3⟩
          · exact Or.inl (Or.inr h2)
        · exact Or.inl (Or.inl h1)
      rw [if_pos this]
      simp [hk]

theorem unifies_un_un (a b : Option Str) :
    Feat.unifies (.un a) (.un b) =
      .ok (decide (a = some (lit "X") ∨ a = none ∨ a = some (lit "nb") ∨ a = b)) := by
  simp only [Feat.unifies, Feat.isVariable, Feat.isIgnorable, Feat.pyEq, Except.ok.injEq]
  rw [Bool.eq_iff_iff]
  simp [or_assoc]

theorem unifies_noErr {f g : Feat} (h : NoErr f g) : ∃ b, Feat.unifies f g = .ok b := by
  rcases h with ⟨a, b, rfl, rfl⟩ | ⟨k1, v1, k2, v2, k3, v3, c1, d1, c2, d2, c3, d3, rfl, rfl⟩
  · exact ⟨_, unifies_un_un a b⟩
  · exact ⟨_, unifies_tri_tri ..⟩

theorem compat_iff {f g : Feat} (h : NoErr f g) :
    Compat f g ↔ (Feat.unifies f g = .ok true ∨ Feat.unifies g f = .ok true) := by
  rcases h with ⟨a, b, rfl, rfl⟩ | ⟨k1, v1, k2, v2, k3, v3, c1, d1, c2, d2, c3, d3, rfl, rfl⟩
  · rw [unifies_un_un, unifies_un_un]
    simp only [Compat, Except.ok.injEq, decide_eq_true_eq]
    constructor
    · rintro (h | h | h | h | h | h | h)
      · exact Or.inl (Or.inr (Or.inr (Or.inr h)))
      · exact Or.inl (Or.inr (Or.inl h))
      · exact Or.inl (Or.inr (Or.inr (Or.inl h)))
      · exact Or.inl (Or.inl h)
      · exact Or.inr (Or.inr (Or.inl h))
      · exact Or.inr (Or.inr (Or.inr (Or.inl h)))
      · exact Or.inr (Or.inl h)
    · rintro ((h | h | h | h) | (h | h | h | h))
      · exact Or.inr (Or.inr (Or.inr (Or.inl h)))
      · exact Or.inr (Or.inl h)
      · exact Or.inr (Or.inr (Or.inl h))
      · exact Or.inl h
      · exact Or.inr (Or.inr (Or.inr (Or.inr (Or.inr (Or.inr h)))))
      · exact Or.inr (Or.inr (Or.inr (Or.inr (Or.inl h))))
      · exact Or.inr (Or.inr (Or.inr (Or.inr (Or.inr (Or.inl h)))))
      · exact Or.inl h.symm
  · rw [unifies_tri_tri, unifies_tri_tri]
    simp only [Compat, Except.ok.injEq, decide_eq_true_eq]
    constructor
    · rintro ⟨hk, h | h⟩
      · exact Or.inl ⟨hk, h⟩
      · exact Or.inr ⟨⟨hk.1.symm, hk.2.1.symm, hk.2.2.symm⟩, h⟩
    · rintro (⟨hk, h⟩ | ⟨hk, h⟩)
      · exact ⟨hk, Or.inl h⟩
      · exact ⟨⟨hk.1.symm, hk.2.1.symm, hk.2.2.symm⟩, Or.inr h⟩

/-! ### the agreement loop -/

/-- every key visited is present on both sides with features of one system -/
def Visitable (xf yf : Dict Str Feat) (l : List Str) : Prop :=
  ∀ k ∈ l, ∃ fx fy, Dict.get? xf k = some fx ∧ Dict.get? yf k = some fy ∧ NoErr fx fy

theorem Visitable.tail {xf yf : Dict Str Feat} {k : Str} {l : List Str}
    (h : Visitable xf yf (k :: l)) : Visitable xf yf l :=
  fun k' hk' => h k' (List.mem_cons_of_mem _ hk')

theorem agree_cons {xf yf : Dict Str Feat} {k : Str} {l : List Str} {fx fy : Feat}
    (hx : Dict.get? xf k = some fx) (hy : Dict.get? yf k = some fy) {b1 b2 : Bool}
    (h1 : Feat.unifies fx fy = .ok b1) (h2 : Feat.unifies fy fx = .ok b2) (m : Dict Feat Feat) :
    agree xf yf (k :: l) m =
      if b1 then agree xf yf l (if fx.isVariable then Dict.set m fx fy else m)
      else if b2 then agree xf yf l (if fy.isVariable then Dict.set m fy fx else m)
      else .ok none := by
  rw [agree]
  simp only [hx, hy, h1, h2]
  cases b1 <;> cases b2 <;> rfl

theorem agree_total {xf yf : Dict Str Feat} {l : List Str} (hv : Visitable xf yf l)
    (m : Dict Feat Feat) : ∃ r, agree xf yf l m = .ok r := by
  induction l generalizing m with
  | nil => exact ⟨_, rfl⟩
  | cons k l ih =>
    obtain ⟨fx, fy, hx, hy, hn⟩ := hv k List.mem_cons_self
    obtain ⟨b1, h1⟩ := unifies_noErr hn
    obtain ⟨b2, h2⟩ := unifies_noErr hn.symm
    rw [agree_cons hx hy h1 h2]
    cases b1
    · cases b2
      · exact ⟨_, rfl⟩
      · exact ih hv.tail _
    · exact ih hv.tail _

theorem agree_ok_iff {xf yf : Dict Str Feat} {l : List Str} (hv : Visitable xf yf l)
    (m : Dict Feat Feat) :
    (∃ m', agree xf yf l m = .ok (some m')) ↔
      ∀ k ∈ l, ∀ fx fy, Dict.get? xf k = some fx → Dict.get? yf k = some fy → Compat fx fy := by
  induction l generalizing m with
  | nil => simp [agree]
  | cons k l ih =>
    obtain ⟨fx, fy, hx, hy, hn⟩ := hv k List.mem_cons_self
    obtain ⟨b1, h1⟩ := unifies_noErr hn
    obtain ⟨b2, h2⟩ := unifies_noErr hn.symm
    rw [agree_cons hx hy h1 h2]
    have hc := compat_iff hn
    rw [h1, h2] at hc
    have key : ∀ m₀, ((∃ m', agree xf yf l m₀ = .ok (some m')) ∧ Compat fx fy) ↔
        ∀ k' ∈ k :: l, ∀ fx' fy', Dict.get? xf k' = some fx' → Dict.get? yf k' = some fy' →
          Compat fx' fy' := by
      intro m₀
      rw [ih hv.tail]
      constructor
      · rintro ⟨h, hc'⟩ k' hk' fx' fy' hx' hy'
        rcases List.mem_cons.1 hk' with rfl | hk'
        · rw [hx] at hx'; rw [hy] at hy'; cases hx'; cases hy'; exact hc'
        · exact h k' hk' fx' fy' hx' hy'
      · intro h
        exact ⟨fun k' hk' => h k' (List.mem_cons_of_mem _ hk'), h k List.mem_cons_self fx fy hx hy⟩
    cases b1
    · cases b2
      · simp only [Bool.false_eq_true, if_false]
        constructor
        · rintro ⟨m', hm'⟩; cases hm'
        · intro h
          have := hc.1 (h k List.mem_cons_self fx fy hx hy)
          simp at this
      · simp only [Bool.false_eq_true, if_false, if_true]
        rw [← key]
        exact ⟨fun h => ⟨h, hc.2 (Or.inr rfl)⟩, fun h => h.1⟩
    · simp only [if_true]
      rw [← key]
      exact ⟨fun h => ⟨h, hc.2 (Or.inl rfl)⟩, fun h => h.1⟩

/-- what the mapping may contain: variable features mapped to features of the pool -/
def MapOK (pool : List Feat) (m : Dict Feat Feat) : Prop :=
  ∀ f g, Dict.get? m f = some g → f.isVariable = true ∧ g ∈ pool

theorem MapOK.nil (pool : List Feat) : MapOK pool [] := by
  intro f g h; simp [Dict.get?] at h

theorem MapOK.set {pool : List Feat} {m : Dict Feat Feat} (hm : MapOK pool m) {f g : Feat}
    (hf : f.isVariable = true) (hg : g ∈ pool) : MapOK pool (Dict.set m f g) := by
  intro f' g' h
  by_cases hff : f = f'
  · subst hff
    rw [get?_set_self] at h
    cases h
    exact ⟨hf, hg⟩
  · rw [get?_set_ne _ _ hff] at h
    exact hm f' g' h

theorem agree_mapOK {pool : List Feat} {xf yf : Dict Str Feat}
    (hxf : ∀ k f, Dict.get? xf k = some f → f ∈ pool)
    (hyf : ∀ k f, Dict.get? yf k = some f → f ∈ pool) {l : List Str} {m m' : Dict Feat Feat}
    (hm : MapOK pool m) (h : agree xf yf l m = .ok (some m')) : MapOK pool m' := by
  induction l generalizing m with
  | nil => simp only [agree, Except.ok.injEq, Option.some.injEq] at h; rw [← h]; exact hm
  | cons k l ih =>
    rw [agree] at h
    cases hx : Dict.get? xf k with
    | none => rw [hx] at h; cases h
    | some fx =>
      cases hy : Dict.get? yf k with
      | none => rw [hx, hy] at h; cases h
      | some fy =>
        rw [hx, hy] at h
        have hfx := hxf k fx hx
        have hfy := hyf k fy hy
        simp only at h
        cases h1 : Feat.unifies fx fy with
        | error e => rw [h1] at h; cases h
        | ok b1 =>
          rw [h1] at h
          cases b1
          · simp only at h
            cases h2 : Feat.unifies fy fx with
            | error e => rw [h2] at h; cases h
            | ok b2 =>
              rw [h2] at h
              cases b2
              · cases h
              · simp only at h
                refine ih ?_ h
                split
                next hv => exact hm.set hv hfx
                · exact hm
          · simp only at h
            refine ih ?_ h
            split
            next hv => exact hm.set hv hfy
            · exact hm

/-! ### substitution -/

theorem xorEq_subst (m : Dict Feat Feat) (c : Cat) : Cat.xorEq (subst m c) c = true := by
  induction c with
  | atom b f =>
    simp only [subst]
    split <;> simp [Cat.xorEq]
  | fn l s r ihl ihr => simp [subst, Cat.xorEq, ihl, ihr]

theorem instanceOf_subst {pool : List Feat} {m : Dict Feat Feat} (hm : MapOK pool m) (c : Cat) :
    InstanceOf pool (subst m c) c := by
  induction c with
  | atom b f =>
    simp only [subst]
    split
    next g hg =>
      simp only [InstanceOf, true_and]
      exact Or.inr ((hm f g hg).symm.imp id id |> fun h => ⟨h.2, h.1⟩)
    next => simp [InstanceOf]
  | fn l s r ihl ihr => exact ⟨ihl, rfl, ihr⟩

/-! ### the top-level call -/

theorem unify_some_iff {px py x y : Cat} {σ : Bindings} :
    unify px py x y = .ok (some σ) ↔
      ∃ cats1 xf cats2 yf m, scan px x [] [] = (true, cats1, xf) ∧
        scan py y cats1 [] = (true, cats2, yf) ∧
        agree xf yf (sharedVars xf yf) [] = .ok (some m) ∧ σ = ⟨cats2, m⟩ := by
  unfold unify unifyOrd
  rcases h1 : scan px x [] [] with ⟨b1, cats1, xf⟩
  cases b1
  · simp only
    constructor
    · intro h; cases h
    · rintro ⟨c1, x1, c2, y1, m', e, _⟩; cases e
  · simp only
    rcases h2 : scan py y cats1 [] with ⟨b2, cats2, yf⟩
    have key : ∀ {c1 x1 c2 y1}, (true, cats1, xf) = (true, c1, x1) →
        scan py y c1 [] = (true, c2, y1) → b2 = true ∧ c1 = cats1 ∧ x1 = xf ∧ c2 = cats2 ∧ y1 = yf := by
      intro c1 x1 c2 y1 e h2'
      cases e
      rw [h2] at h2'
      cases h2'
      exact ⟨rfl, rfl, rfl, rfl, rfl⟩
    cases b2
    · simp only
      constructor
      · intro h; cases h
      · rintro ⟨c1, x1, c2, y1, m', e, h2', _⟩
        cases (key e h2').1
    · simp only [id]
      cases ha : agree xf yf (sharedVars xf yf) [] with
      | error e =>
        simp only
        constructor
        · intro h; cases h
        · rintro ⟨c1, x1, c2, y1, m', e, h2', ha', _⟩
          obtain ⟨_, rfl, rfl, rfl, rfl⟩ := key e h2'
          rw [ha] at ha'; cases ha'
      | ok r =>
        cases r with
        | none =>
          simp only
          constructor
          · intro h; cases h
          · rintro ⟨c1, x1, c2, y1, m', e, h2', ha', _⟩
            obtain ⟨_, rfl, rfl, rfl, rfl⟩ := key e h2'
            rw [ha] at ha'; cases ha'
        | some m =>
          simp only [Except.ok.injEq, Option.some.injEq]
          constructor
          · intro h; exact ⟨cats1, xf, cats2, yf, m, rfl, h2, ha, h.symm⟩
          · rintro ⟨c1, x1, c2, y1, m', e, h2', ha', rfl⟩
            obtain ⟨_, rfl, rfl, rfl, rfl⟩ := key e h2'
            rw [ha] at ha'
            cases ha'
            rfl

theorem unify_cases (px py x y : Cat) :
    unify px py x y = .ok none ∨
    ∃ cats1 xf cats2 yf, scan px x [] [] = (true, cats1, xf) ∧
      scan py y cats1 [] = (true, cats2, yf) ∧
      unify px py x y =
        match agree xf yf (sharedVars xf yf) [] with
        | .error e => .error e
        | .ok none => .ok none
        | .ok (some m) => .ok (some ⟨cats2, m⟩) := by
  unfold unify unifyOrd
  rcases h1 : scan px x [] [] with ⟨b1, cats1, xf⟩
  cases b1
  · exact Or.inl rfl
  · simp only
    rcases h2 : scan py y cats1 [] with ⟨b2, cats2, yf⟩
    cases b2
    · exact Or.inl rfl
    · exact Or.inr ⟨cats1, xf, cats2, yf, rfl, h2, rfl⟩

/-! ### keys never collide -/

theorem atomW_key {v : Str} {t : Cat} {k : Str} {f : Feat} (h : (k, f) ∈ atomW v t) :
    ∃ s, k = v ++ s := by
  cases t with
  | atom b g => simp [atomW] at h; exact ⟨[], by simp [h.1]⟩
  | fn l s r =>
    simp only [atomW] at h
    obtain ⟨j, _, hk⟩ := mem_deepW.1 h
    exact ⟨_, hk⟩

theorem atomW_functional (v : Str) (t : Cat) : Functional (atomW v t) := by
  intro k f f' h1 h2
  cases t with
  | atom b g => simp [atomW] at h1 h2; rw [h1.2, h2.2]
  | fn l s r =>
    simp only [atomW] at h1 h2
    obtain ⟨j, hj, hk⟩ := mem_deepW.1 h1
    obtain ⟨j', hj', hk'⟩ := mem_deepW.1 h2
    rw [hk] at hk'
    have := ofNat_inj (List.append_cancel_left hk')
    have : j = j' := by omega
    subst this
    rw [hj] at hj'
    exact Option.some.inj hj'

theorem varsOK_key {px py : Cat} (vx : VarsOK px) (vy : VarsOK py) {v v' s s' : Str}
    (hv : v ∈ vars px) (hv' : v' ∈ vars py) (h : v ++ s = v' ++ s') : v = v' := by
  obtain ⟨c, rfl, _⟩ := vx v hv
  obtain ⟨c', rfl, _⟩ := vy v' hv'
  simp only [List.cons_append, List.nil_append, List.cons.injEq] at h
  rw [h.1]

theorem writes_functional {p : Cat} (hl : Linear p) (hv : VarsOK p) (t : Cat) :
    Functional (writes p t) := by
  intro k f f' h1 h2
  obtain ⟨v, t1, hm1, ha1⟩ := mem_writes.1 h1
  obtain ⟨v', t2, hm2, ha2⟩ := mem_writes.1 h2
  obtain ⟨s, hs⟩ := atomW_key ha1
  obtain ⟨s', hs'⟩ := atomW_key ha2
  have hvv : v = v' :=
    varsOK_key hv hv (mem_matched_vars hm1) (mem_matched_vars hm2) (hs.symm.trans hs')
  subst hvv
  have := matched_functional hl t v t1 t2 hm1 hm2
  subst this
  exact atomW_functional v t1 k f f' ha1 ha2

/-! ### feature lists -/

theorem allCompat_iff (l1 l2 : List Feat) :
    AllCompat l1 l2 ↔ l1.length = l2.length ∧
      ∀ (j : Nat) (f g : Feat), l1[j]? = some f → l2[j]? = some g → Compat f g := by
  induction l1 generalizing l2 with
  | nil =>
    cases l2 with
    | nil => simp [AllCompat]
    | cons g gs => simp [AllCompat]
  | cons f fs ih =>
    cases l2 with
    | nil => simp [AllCompat]
    | cons g gs =>
      simp only [AllCompat, ih, List.length_cons, Nat.add_right_cancel_iff]
      constructor
      · rintro ⟨hc, hl, h⟩
        refine ⟨hl, ?_⟩
        intro j f' g' hf hg
        cases j with
        | zero => simp at hf hg; subst hf; subst hg; exact hc
        | succ j => simp at hf hg; exact h j f' g' hf hg
      · rintro ⟨hl, h⟩
        exact ⟨h 0 f g rfl rfl, hl, fun j f' g' hf hg => h (j + 1) f' g' (by simpa using hf) (by simpa using hg)⟩

theorem xorEq_feats_length {a b : Cat} (h : Cat.xorEq a b = true) :
    (feats a).length = (feats b).length := by
  induction a generalizing b with
  | atom ba fa =>
    cases b with
    | atom bb fb => rfl
    | fn l s r => simp [Cat.xorEq] at h
  | fn l s r ihl ihr =>
    cases b with
    | atom bb fb => simp [Cat.xorEq] at h
    | fn l' s' r' =>
      simp only [Cat.xorEq, Bool.and_eq_true] at h
      simp only [feats, List.length_append, ihl h.1.1, ihr h.2]

/-- compatibility of everything written under a common key is `FeatCompat` -/
theorem featCompat_iff {px py x y : Cat} (vx : VarsOK px) (vy : VarsOK py)
    (hb : SharedBlind px py x y) :
    (∀ k fx fy, (k, fx) ∈ writes px x → (k, fy) ∈ writes py y → Compat fx fy) ↔
      FeatCompat px py x y := by
  constructor
  · intro h v tx ty hx hy
    have hxe := hb v tx ty hx hy
    cases tx with
    | atom bx gx =>
      cases ty with
      | atom by' gy =>
        simp only [feats, AllCompat, and_true]
        exact h v gx gy (mem_writes.2 ⟨v, _, hx, by simp [atomW]⟩)
          (mem_writes.2 ⟨v, _, hy, by simp [atomW]⟩)
      | fn l s r => simp [Cat.xorEq] at hxe
    | fn lx sx rx =>
      cases ty with
      | atom by' gy => simp [Cat.xorEq] at hxe
      | fn ly sy ry =>
        rw [allCompat_iff]
        refine ⟨(xorEq_feats_length hxe).symm, ?_⟩
        intro j f g hf hg
        exact h (v ++ Str.ofNat (0 + j)) f g
          (mem_writes.2 ⟨v, _, hx, mem_deepW.2 ⟨j, hf, rfl⟩⟩)
          (mem_writes.2 ⟨v, _, hy, mem_deepW.2 ⟨j, hg, rfl⟩⟩)
  · intro h k fx fy hkx hky
    obtain ⟨v, tx, hx, hax⟩ := mem_writes.1 hkx
    obtain ⟨v', ty, hy, hay⟩ := mem_writes.1 hky
    obtain ⟨s, hs⟩ := atomW_key hax
    obtain ⟨s', hs'⟩ := atomW_key hay
    have hvv : v = v' :=
      varsOK_key vx vy (mem_matched_vars hx) (mem_matched_vars hy) (hs.symm.trans hs')
    subst hvv
    have hxe := hb v tx ty hx hy
    have hc := h v tx ty hx hy
    cases tx with
    | atom bx gx =>
      cases ty with
      | atom by' gy =>
        simp [atomW] at hax hay
        simp only [feats, AllCompat, and_true] at hc
        rw [hax.2, hay.2]; exact hc
      | fn l s r => simp [Cat.xorEq] at hxe
    | fn lx sx rx =>
      cases ty with
      | atom by' gy => simp [Cat.xorEq] at hxe
      | fn ly sy ry =>
        simp only [atomW] at hax hay
        obtain ⟨j, hj, hk⟩ := mem_deepW.1 hax
        obtain ⟨j', hj', hk'⟩ := mem_deepW.1 hay
        rw [hk] at hk'
        have := ofNat_inj (List.append_cancel_left hk')
        have : j = j' := by omega
        subst this
        exact ((allCompat_iff _ _).1 hc).2 j fx fy hj hj'

/-! ### the shared keys -/

theorem mem_sharedVars {xf yf : Dict Str Feat} {k : Str} :
    k ∈ sharedVars xf yf ↔
      (∃ fx, Dict.get? xf k = some fx) ∧ (∃ fy, Dict.get? yf k = some fy) := by
  unfold sharedVars
  rw [List.mem_filter, mem_keys_iff]
  simp only [Dict.contains, Option.isSome_iff_exists]

theorem visitable_shared {x y : Cat} (sk : SameKind x y) {xf yf : Dict Str Feat}
    (hx : ∀ k f, Dict.get? xf k = some f → f ∈ feats x)
    (hy : ∀ k f, Dict.get? yf k = some f → f ∈ feats y) :
    Visitable xf yf (sharedVars xf yf) := by
  intro k hk
  obtain ⟨⟨fx, hfx⟩, ⟨fy, hfy⟩⟩ := mem_sharedVars.1 hk
  exact ⟨fx, fy, hfx, hfy, noErr_of_sameKind sk (hx k fx hfx) (hy k fy hfy)⟩

theorem writes_values {p t : Cat} {k : Str} {f : Feat}
    (h : Dict.get? (setAll ([] : Dict Str Feat) (writes p t)) k = some f) : f ∈ feats t := by
  rcases get?_setAll_sub _ _ h with h | h
  · exact mem_writes_feats h
  · simp [Dict.get?] at h

/-! ### `lastMatched` -/

theorem get?_eq_find? (d : Dict Str Cat) (k : Str) :
    Dict.get? d k = (d.find? (·.1 == k)).map (·.2) := by
  induction d with
  | nil => rfl
  | cons e d ih =>
    obtain ⟨k₀, c₀⟩ := e
    by_cases h : k₀ = k
    · simp [Dict.get?, List.find?, h]
    · have : (k₀ == k) = false := by simpa using h
      simp [Dict.get?, List.find?, h, this, ih]

theorem lastMatched_eq (px py x y : Cat) (v : Str) :
    lastMatched px py x y v =
      match Dict.get? (matched py y) v with
      | some c => some c
      | none => Dict.get? (matched px x) v := by
  unfold lastMatched
  rw [get?_eq_find?, get?_eq_find?]
  cases List.find? (fun p => p.1 == v) (matched py y) <;> rfl

end Depccg.C06
