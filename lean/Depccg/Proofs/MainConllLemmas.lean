/-
  Lemmas for `--format conll` at the level of the whole output: the lines of the printed text, the
  run of `Read.decConllDoc` over the lines of one record and of all records.
-/
import Depccg.Props.MainConllDefs
import Depccg.Props.C07Conll
import Depccg.Proofs.CliLemmas

namespace Depccg.CliProps
open Depccg Str Search GlueRun Lazy Print Cli LazyProps Read C07 TextProps FileProps

/-! ### prefixes -/

theorem mc_stripPrefix_append : ∀ (p s : Str), stripPrefix (p ++ s) p = some s
  | [], s => by cases s <;> rfl
  | x :: p, s => by
    simp only [List.cons_append, stripPrefix, if_true]
    exact mc_stripPrefix_append p s

theorem mc_idPrefix_eq : conllIdPrefix = 35 :: lit " ID=" := by decide

theorem mc_stripPrefix_digit {c : Nat} (rest : Str) (h1 : 48 ≤ c) :
    stripPrefix (c :: rest) conllIdPrefix = none := by
  rw [mc_idPrefix_eq]
  have : c ≠ 35 := by omega
  simp [stripPrefix, this]

/-! ### a row begins with a digit -/

theorem mc_splitOnAux_head (c : Nat) : ∀ (s acc : Str),
    ∃ f tl, splitOnAux c acc s = (acc.reverse ++ f) :: tl ∧ f <+: s
  | [], acc => ⟨[], [], by simp [splitOnAux], List.prefix_refl _⟩
  | x :: xs, acc => by
    simp only [splitOnAux]
    split
    · exact ⟨[], splitOnAux c [] xs, by simp, List.nil_prefix⟩
    · obtain ⟨f, tl, h, hp⟩ := mc_splitOnAux_head c xs (x :: acc)
      refine ⟨x :: f, tl, by rw [h]; simp, ?_⟩
      obtain ⟨t, rfl⟩ := hp
      exact ⟨t, by simp⟩

theorem mc_conllNat_head {a : Str} {i : Nat} (h : conllNat a = some i) :
    ∃ c a', a = c :: a' ∧ 48 ≤ c ∧ c ≤ 57 := by
  match a, h with
  | [c], h =>
    simp only [conllNat, conllDigits] at h
    split at h
    · next hc => exact ⟨c, [], rfl, hc.1, hc.2⟩
    · cases h
  | c :: d :: r, h =>
    simp only [conllNat] at h
    split at h
    · cases h
    · simp only [conllDigits] at h
      split at h
      · next hc => exact ⟨c, d :: r, rfl, hc.1, hc.2⟩
      · cases h

theorem mc_decRow_head {l : Str} {r : ConllRow} (h : decConllRow l = some r) :
    ∃ c rest, l = c :: rest ∧ 48 ≤ c ∧ c ≤ 57 := by
  obtain ⟨f, tl, hs, hp⟩ := mc_splitOnAux_head 9 l []
  unfold decConllRow at h
  split at h
  · next a w l' p q u1 h' c' u2 f' heq =>
    have hs' : splitOn 9 l = f :: tl := by simpa [splitOn] using hs
    rw [hs'] at heq
    have hfa : f = a := (List.cons.inj heq).1
    subst hfa
    split at h
    · split at h
      · next i j hi hj =>
        obtain ⟨c, a', rfl, h1, h2⟩ := mc_conllNat_head hi
        obtain ⟨t, rfl⟩ := hp
        exact ⟨c, a' ++ t, by simp, h1, h2⟩
      · cases h
    · cases h
  · cases h

/-! ### the run over the lines of one record -/

/-- a state in which a record may end -/
def Closable : ConllDocSt → Prop
  | .between => True
  | .afterId _ => False
  | .table _ _ rows => rows ≠ []

/-- the finished records after the current one is closed -/
def closeAcc : ConllDocSt → List ConllRecord → List ConllRecord
  | .table n s rows, acc => (n, s, rows.reverse) :: acc
  | _, acc => acc

theorem mc_step_empty {st : ConllDocSt} (h : Closable st) (acc : List ConllRecord) :
    conllDocStep st acc [] = some (.between, closeAcc st acc) := by
  match st, h with
  | .between, _ => rfl
  | .table n s (r :: rows), _ => rfl

theorem mc_start_id (n : Nat) (acc : List ConllRecord) :
    conllDocStart (conllIdPrefix ++ Str.ofNat n) acc = some (.afterId n, acc) := by
  have hne : (conllIdPrefix ++ Str.ofNat n).isEmpty = false := by
    rw [mc_idPrefix_eq]; rfl
  simp only [conllDocStart, hne, mc_stripPrefix_append, cn_conllNat_ofNat]
  rfl

theorem mc_step_id {st : ConllDocSt} (h : Closable st) (n : Nat) (acc : List ConllRecord) :
    conllDocStep st acc (conllIdPrefix ++ Str.ofNat n) = some (.afterId n, closeAcc st acc) := by
  match st, h with
  | .between, _ => exact mc_start_id n acc
  | .table m s (r :: rows), _ =>
    simp only [conllDocStep, mc_stripPrefix_append, Option.isSome_some, Bool.or_true, if_true,
      closeAcc]
    exact mc_start_id n _

theorem mc_step_prob (n : Nat) (s : Str) (acc : List ConllRecord) :
    conllDocStep (.afterId n) acc (conllProbPrefix ++ s) = some (.table n s [], acc) := by
  simp only [conllDocStep, mc_stripPrefix_append]

theorem mc_step_row {l : Str} {r : ConllRow} (h : decConllRow l = some r) (n : Nat) (s : Str)
    (rows : List ConllRow) (acc : List ConllRecord) :
    conllDocStep (.table n s rows) acc l = some (.table n s (r :: rows), acc) := by
  obtain ⟨c, rest, rfl, h1, _⟩ := mc_decRow_head h
  simp only [conllDocStep, mc_stripPrefix_digit rest h1, List.isEmpty_cons, Option.isSome_none,
    Bool.or_self, h]
  rfl

theorem mc_run_rows : ∀ (ls : List Str) (rs : List ConllRow), decConllRows ls = some rs →
    ∀ (n : Nat) (s : Str) (rows : List ConllRow) (acc : List ConllRecord) (more : List Str),
    conllDocRun (.table n s rows) acc (ls ++ more) =
      conllDocRun (.table n s (rs.reverse ++ rows)) acc more
  | [], rs, h => by
    intro n s rows acc more
    simp only [decConllRows, Option.some.injEq] at h
    subst h
    rfl
  | l :: ls, rs, h => by
    intro n s rows acc more
    simp only [decConllRows] at h
    split at h
    · next r rs' h1 h2 =>
      cases h
      simp only [List.cons_append, conllDocRun, mc_step_row h1]
      rw [mc_run_rows ls rs' h2]
      simp
    · cases h

/-- the lines of one record: header, score, rows -/
theorem mc_run_record {st : ConllDocSt} (hst : Closable st) (acc : List ConllRecord) (n : Nat)
    (sc : Str) (ls : List Str) (rs : List ConllRow) (hd : decConllRows ls = some rs)
    (more : List Str) :
    conllDocRun st acc ((conllIdPrefix ++ Str.ofNat n) :: (conllProbPrefix ++ sc) :: (ls ++ more)) =
      conllDocRun (.table n sc rs.reverse) (closeAcc st acc) more := by
  simp only [conllDocRun, mc_step_id hst, mc_step_prob]
  rw [mc_run_rows ls rs hd]
  simp

theorem mc_decRows_ne_nil {ls : List Str} {rs : List ConllRow} (hne : ls ≠ [])
    (h : decConllRows ls = some rs) : rs ≠ [] := by
  intro h0
  have := (cn_decRows_length ls rs h).1
  rw [h0] at this
  exact hne (List.length_eq_zero_iff.1 this)

/-! ### the lines of the printed text -/

theorem mc_idPrefix_no10 : 10 ∉ conllIdPrefix := by decide
theorem mc_probPrefix_no10 : 10 ∉ conllProbPrefix := by decide

theorem mc_ofNat_no10 (n : Nat) : 10 ∉ Str.ofNat n := (cn_cell_digits n).2

/-- the lines of the header and the table of one record, followed by the rest of the text -/
theorem mc_lines_record (n : Nat) (sc s rest : Str) (hsc : 10 ∉ sc) :
    splitOn 10 (header true n sc ++ [10] ++ s ++ [10] ++ rest) =
      (conllIdPrefix ++ Str.ofNat n) :: (conllProbPrefix ++ sc) :: (splitOn 10 s ++ splitOn 10 rest) := by
  have h1 : header true n sc ++ [10] ++ s ++ [10] ++ rest =
      (conllIdPrefix ++ Str.ofNat n) ++ 10 :: ((conllProbPrefix ++ sc) ++ 10 :: (s ++ 10 :: rest)) := by
    have hl : lit "\n# log probability=" = 10 :: conllProbPrefix := by decide
    simp only [header, if_true, hl]
    simp [conllIdPrefix]
  rw [h1, C05.splitOn_sep 10 _ _ (by
      intro h
      rcases List.mem_append.1 h with h | h
      · exact mc_idPrefix_no10 h
      · exact mc_ofNat_no10 n h),
    C05.splitOn_sep 10 _ _ (by
      intro h
      rcases List.mem_append.1 h with h | h
      · exact mc_probPrefix_no10 h
      · exact hsc h),
    C08.splitOn_append_sep]

/-- the condition on one record -/
def RecOK (p : Nat × (Tree × Str)) : Prop :=
  AllCats (fun c => Cell c.str) p.2.1 ∧ AllToks TokCells p.2.1 ∧ 10 ∉ p.2.2

/-- what is read of the records -/
def recView (recs : List (Nat × (Tree × Str))) : List ConllRecord :=
  recs.map fun p => (p.1, p.2.2, viewConll p.2.1)

/-- the run over the lines of the printed records (the last line is the empty one after the last
    newline): the reader is between two records again and has collected the views -/
theorem mc_run_recs : ∀ (recs : List (Nat × (Tree × Str))) (text : Str),
    (∀ p ∈ recs, RecOK p) →
    catExcept (fun (p : Nat × (Tree × Str)) =>
      (conllOf p.2.1).map fun s => header true p.1 p.2.2 ++ [10] ++ s ++ [10]) recs = .ok text →
    ∀ (st : ConllDocSt) (acc : List ConllRecord) (tail : List Str), Closable st →
    conllDocRun st acc (splitOn 10 text ++ tail) =
      conllDocRun .between ((recView recs).reverse ++ closeAcc st acc) tail
  | [], text, _, h => by
    intro st acc tail hst
    simp only [catExcept, Except.ok.injEq] at h
    subst h
    simp only [fl_splitOn_nil, List.cons_append, List.nil_append, conllDocRun, mc_step_empty hst]
    rfl
  | p :: recs, text, hok, h => by
    intro st acc tail hst
    simp only [catExcept] at h
    cases hc : conllOf p.2.1 with
    | error e => rw [hc] at h; cases h
    | ok s =>
      rw [hc] at h
      simp only [Except.map] at h
      split at h
      · cases h
      · next rtext hr =>
        cases h
        obtain ⟨h1, h2, h3⟩ := hok p (by simp)
        have hdec : decConllRows (splitOn 10 s) = some (viewConll p.2.1) :=
          conll_decode p.2.1 s h1 h2 hc
        have hne : (viewConll p.2.1).reverse ≠ [] := by
          intro h0
          exact mc_decRows_ne_nil (C08.splitOn_ne_nil 10 s) hdec (List.reverse_eq_nil_iff.1 h0)
        rw [mc_lines_record p.1 p.2.2 s rtext h3, List.cons_append, List.cons_append,
          List.append_assoc, mc_run_record hst acc p.1 p.2.2 _ _ hdec,
          mc_run_recs recs rtext (fun q hq => hok q (by simp [hq])) hr
            (.table p.1 p.2.2 (viewConll p.2.1).reverse) _ tail hne]
        simp [recView, closeAcc]

theorem mc_recOK_numbered (batch : List (List (Tree × Str)))
    (h : ∀ ts ∈ batch, ∀ p ∈ ts,
      AllCats (fun c => Cell c.str) p.1 ∧ AllToks TokCells p.1 ∧ 10 ∉ p.2) :
    ∀ p ∈ numbered batch, RecOK p := by
  intro p hp
  obtain ⟨ts, hts, hm⟩ := fl_numbered_mem batch p hp
  exact h ts hts p.2 hm

/-- the run over the whole printed text, with the empty lines that may follow -/
theorem mc_run_doc (batch : List (List (Tree × Str))) (text : Str)
    (h : ∀ ts ∈ batch, ∀ p ∈ ts,
      AllCats (fun c => Cell c.str) p.1 ∧ AllToks TokCells p.1 ∧ 10 ∉ p.2)
    (hp : toStringLines conllOf true batch = .ok text) (tail : List Str) :
    conllDocRun .between [] (splitOn 10 text ++ tail) =
      conllDocRun .between (recView (numbered batch)).reverse tail := by
  have := mc_run_recs (numbered batch) text (mc_recOK_numbered batch h) hp .between [] tail trivial
  simpa [closeAcc] using this

/-! ### the score texts of the program -/

theorem mc_scoreText_no10 (k : Option Int) : 10 ∉ scoreText k := (cli_scoreText_ok k).1

theorem mc_scored_no10 (r : SentResult) : ∀ ts ∈ scored r, 10 ∉ ts.2 := by
  intro ts hts
  cases r with
  | failed =>
    simp only [scored, List.mem_singleton] at hts
    rw [hts]
    exact mc_scoreText_no10 none
  | parsed l =>
    simp only [scored] at hts
    obtain ⟨tk, _, rfl⟩ := List.mem_map.1 hts
    exact mc_scoreText_no10 (some tk.2)

end Depccg.CliProps
