/-
  Lemmas for the one-line-per-tree formats at the level of the whole output: the header line is read
  back by `Read.decLineHeader`, the lines of the printed text, the run of `Read.decLineDoc` over
  the lines of all records.
-/
import Depccg.Props.MainLineDefs
import Depccg.Proofs.MainConllLemmas

namespace Depccg.CliProps
open Depccg Str Search GlueRun Lazy Print Cli LazyProps Read C07 FileProps

/-! ### the header line -/

theorem ml_stripPrefix_append : ∀ (p s : Str), lineStripPrefix (p ++ s) p = some s
  | [], s => by cases s <;> rfl
  | x :: p, s => by
    simp only [List.cons_append, lineStripPrefix, if_true]
    exact ml_stripPrefix_append p s

theorem ml_ofNat_digits (n : Nat) : ∀ c ∈ Str.ofNat n, 48 ≤ c ∧ c ≤ 57 :=
  C08.natDigitsAux_digits (n + 1) n [] (fun _ h => by cases h)

theorem ml_takeWhile_digits : ∀ (d rest : Str), (∀ c ∈ d, 48 ≤ c ∧ c ≤ 57) →
    (d ++ cComma :: rest).takeWhile (fun c => c != cComma) = d
  | [], rest, _ => by simp
  | x :: d, rest, h => by
    have hx : x ≠ cComma := by
      have := h x (by simp)
      simp only [cComma]
      omega
    have ih := ml_takeWhile_digits d rest (fun c hc => h c (by simp [hc]))
    simp only [List.cons_append, List.takeWhile_cons, bne_iff_ne, ne_eq, hx, not_false_eq_true,
      if_true, ih]

theorem ml_probSep_eq : lineProbSep = cComma :: lit " log probability=" := by decide

/-- the header the printer writes, as the reader sees it -/
theorem ml_header_eq (n : Nat) (sc : Str) :
    header false n sc = lineIdPrefix ++ (Str.ofNat n ++ cComma :: (lit " log probability=" ++ sc)) := by
  have hl : lit ", log probability=" = cComma :: lit " log probability=" := by decide
  have hi : lit "ID=" = lineIdPrefix := rfl
  simp only [header, Bool.false_eq_true, if_false, hl, hi]
  simp

theorem ml_decHeader (n : Nat) (sc : Str) : decLineHeader (header false n sc) = some (n, sc) := by
  rw [ml_header_eq]
  have h1 := ml_takeWhile_digits (Str.ofNat n) (lit " log probability=" ++ sc) (ml_ofNat_digits n)
  have h2 : (Str.ofNat n ++ cComma :: (lit " log probability=" ++ sc)).drop (Str.ofNat n).length =
      lineProbSep ++ sc := by
    rw [List.drop_left, ml_probSep_eq]
    rfl
  simp only [decLineHeader, ml_stripPrefix_append, h1, cn_conllNat_ofNat, h2]

theorem ml_header_ne_nil (n : Nat) (sc : Str) : (header false n sc).isEmpty = false := by
  rw [ml_header_eq]
  rfl

theorem ml_header_no10 (n : Nat) (sc : Str) (hsc : 10 ∉ sc) : 10 ∉ header false n sc := by
  rw [ml_header_eq]
  intro h
  rcases List.mem_append.1 h with h | h
  · revert h; decide
  · rcases List.mem_append.1 h with h | h
    · exact mc_ofNat_no10 n h
    · rcases List.mem_cons.1 h with h | h
      · revert h; decide
      · rcases List.mem_append.1 h with h | h
        · revert h; decide
        · exact hsc h

/-! ### the lines of the printed text -/

/-- the header line and the tree line of one record, followed by the rest of the text -/
theorem ml_lines_record (n : Nat) (sc s rest : Str) (hsc : 10 ∉ sc) (hs : 10 ∉ s) :
    splitOn 10 (header false n sc ++ [10] ++ s ++ [10] ++ rest) =
      header false n sc :: s :: splitOn 10 rest := by
  have h1 : header false n sc ++ [10] ++ s ++ [10] ++ rest =
      header false n sc ++ 10 :: (s ++ 10 :: rest) := by simp
  rw [h1, C05.splitOn_sep 10 _ _ (ml_header_no10 n sc hsc), C05.splitOn_sep 10 _ _ hs]

/-! ### the run over the lines -/

theorem ml_run_end (tail : List Str) (acc : List LineRecord)
    (ht : tail.all (fun l => l.isEmpty) = true) :
    lineDocRun ([] :: tail) acc = some acc.reverse := by
  simp only [lineDocRun, List.isEmpty_nil, if_true, ht]

theorem ml_run_record (n : Nat) (sc s : Str) (more : List Str) (acc : List LineRecord) :
    lineDocRun (header false n sc :: s :: more) acc = lineDocRun more ((n, sc, s) :: acc) := by
  simp only [lineDocRun, ml_header_ne_nil, Bool.false_eq_true, if_false, ml_decHeader]

/-- the condition on one record -/
def LineOK (fmt : Tree → Except Err Str) (p : Nat × (Tree × Str)) : Prop :=
  10 ∉ p.2.2 ∧ ∀ s, fmt p.2.1 = .ok s → 10 ∉ s

/-- the run over the lines of the printed records (the last line is the empty one after the last
    newline): the reader has collected one record per printed tree -/
theorem ml_run_recs (fmt : Tree → Except Err Str) : ∀ (recs : List (Nat × (Tree × Str))) (text : Str),
    (∀ p ∈ recs, LineOK fmt p) →
    catExcept (fun (p : Nat × (Tree × Str)) =>
      (fmt p.2.1).map fun s => header false p.1 p.2.2 ++ [10] ++ s ++ [10]) recs = .ok text →
    ∃ out, Forall2 (LineRecOf fmt) recs out ∧
      ∀ (acc : List LineRecord) (tail : List Str),
        lineDocRun (splitOn 10 text ++ tail) acc = lineDocRun ([] :: tail) (out.reverse ++ acc)
  | [], text, _, h => by
    simp only [catExcept, Except.ok.injEq] at h
    subst h
    exact ⟨[], .nil, fun acc tail => rfl⟩
  | p :: recs, text, hok, h => by
    simp only [catExcept] at h
    cases hc : fmt p.2.1 with
    | error e => rw [hc] at h; cases h
    | ok s =>
      rw [hc] at h
      simp only [Except.map] at h
      split at h
      · cases h
      · next rtext hr =>
        cases h
        obtain ⟨h3, h4⟩ := hok p (by simp)
        obtain ⟨out, hf, hrun⟩ := ml_run_recs fmt recs rtext (fun q hq => hok q (by simp [hq])) hr
        refine ⟨(p.1, p.2.2, s) :: out, .cons ⟨rfl, rfl, hc⟩ hf, fun acc tail => ?_⟩
        rw [ml_lines_record p.1 p.2.2 s rtext h3 (h4 s hc), List.cons_append, List.cons_append,
          ml_run_record, hrun]
        simp

theorem ml_lineOK_numbered (fmt : Tree → Except Err Str) (batch : List (List (Tree × Str)))
    (h : ∀ ts ∈ batch, ∀ p ∈ ts, 10 ∉ p.2 ∧ ∀ s, fmt p.1 = .ok s → 10 ∉ s) :
    ∀ p ∈ numbered batch, LineOK fmt p := by
  intro p hp
  obtain ⟨ts, hts, hm⟩ := fl_numbered_mem batch p hp
  exact h ts hts p.2 hm

/-- the run over the whole printed text, with the empty lines that may follow -/
theorem ml_run_doc (fmt : Tree → Except Err Str) (batch : List (List (Tree × Str))) (text : Str)
    (h : ∀ ts ∈ batch, ∀ p ∈ ts, 10 ∉ p.2 ∧ ∀ s, fmt p.1 = .ok s → 10 ∉ s)
    (hp : toStringLines fmt false batch = .ok text) :
    ∃ out, Forall2 (LineRecOf fmt) (numbered batch) out ∧
      ∀ (tail : List Str), tail.all (fun l => l.isEmpty) = true →
        lineDocRun (splitOn 10 text ++ tail) [] = some out := by
  obtain ⟨out, hf, hrun⟩ := ml_run_recs fmt (numbered batch) text (ml_lineOK_numbered fmt batch h) hp
  refine ⟨out, hf, fun tail ht => ?_⟩
  rw [hrun, ml_run_end _ _ ht]
  simp

end Depccg.CliProps
