/-
  Helper lemmas for C20 (PTB and Japanese-bank text written by depccg reads back to the same tree).
  Part 1: strings, category text, words, the annotation lemmas (`cutSuffix`, `stripDeps`).
  Part 2: the PTB printer / reader pair (fields of a printed tree, the reader as a stream of
          open / word / close operations, the round trip).
  Part 3: truncated PTB lines are rejected (counting unclosed parentheses).
  Part 4: the Japanese CCGbank printer / cursor reader pair.
-/
import Depccg.Props.C20Defs
import Depccg.Props.C05
import Depccg.Props.C14

namespace Depccg.C20
open Depccg Str Print Read TextProps

/-! ## Part 1: strings, category text, the words the formats carry, the annotation lemmas -/
/-! ### `join`, `split`, `find` -/

theorem joinSep_cons (c : Nat) (x : Str) (fs : List Str) (h : fs ≠ []) :
    joinSep c (x :: fs) = x ++ c :: joinSep c fs := by
  cases fs with
  | nil => exact absurd rfl h
  | cons y r => rfl

theorem joinSep_append (c : Nat) (a b : List Str) (ha : a ≠ []) (hb : b ≠ []) :
    joinSep c (a ++ b) = joinSep c a ++ c :: joinSep c b := by
  induction a with
  | nil => exact absurd rfl ha
  | cons x r ih =>
    cases r with
    | nil => simp only [List.cons_append, List.nil_append]; rw [joinSep_cons c x b hb]; rfl
    | cons y r' =>
      have h1 : (y :: r') ++ b ≠ [] := by simp
      rw [List.cons_append, joinSep_cons c x _ h1, ih (by simp), joinSep_cons c x _ (by simp)]
      simp

theorem splitOn_joinSep (c : Nat) (fs : List Str) (hne : fs ≠ []) (h : ∀ f ∈ fs, c ∉ f) :
    splitOn c (joinSep c fs) = fs := by
  induction fs with
  | nil => exact absurd rfl hne
  | cons x r ih =>
    cases r with
    | nil => exact C05.splitOn_last c x (h x (by simp))
    | cons y r' =>
      rw [joinSep_cons c x _ (by simp), C05.splitOn_sep c x _ (h x (by simp)),
        ih (by simp) (fun f hf => h f (List.mem_cons_of_mem _ hf))]

theorem findChar_none (c : Nat) (s : Str) (h : c ∉ s) : findChar c s = none := by
  induction s with
  | nil => rfl
  | cons x r ih =>
    have hx : x ≠ c := fun e => h (by simp [e])
    have hr : c ∉ r := fun e => h (by simp [e])
    simp [findChar, hx, ih hr]

theorem findChar_append (c : Nat) (f rest : Str) (h : c ∉ f) :
    findChar c (f ++ c :: rest) = some f.length := by
  induction f with
  | nil => simp [findChar]
  | cons x r ih =>
    have hx : x ≠ c := fun e => h (by simp [e])
    have hr : c ∉ r := fun e => h (by simp [e])
    simp [findChar, hx, ih hr]

theorem startsWith_append (p s : Str) : startsWith (p ++ s) p = true := by
  induction p with
  | nil => cases s <;> rfl
  | cons x r ih => simp [startsWith, ih]

/-! ### category text -/

theorem featStr_noSpace (f : Feat) (hf : C05.WFFeat f) : cSpace ∉ f.str := by
  intro hm
  cases f with
  | un v =>
    cases v with
    | none => simp [Feat.str] at hm
    | some v =>
      have := hf.1.2 _ hm
      simp [C05.plainChar] at this
  | tri k1 v1 k2 v2 k3 v3 =>
    have := (C05.Feat.str_plainTok _ hf (by simp)).2 _ hm
    simp [C05.plainChar] at this

theorem catStr_noSpace (c : Cat) (hc : C05.WF c) : cSpace ∉ c.str := by
  induction c with
  | atom b f =>
    obtain ⟨hb, hf, _⟩ := hc
    have h1 : cSpace ∉ b := fun hm => by
      have := hb.2 _ hm
      simp [C05.plainChar] at this
    have h2 := featStr_noSpace f hf
    rw [C05.str_atom]
    split
    · exact h1
    · intro hm
      simp only [List.mem_append, List.mem_cons, List.not_mem_nil, or_false, or_assoc] at hm
      rcases hm with hm | hm | hm | hm
      · exact h1 hm
      · simp [cSpace, cLBr] at hm
      · exact h2 hm
      · simp [cSpace, cRBr] at hm
  | fn l s r ihl ihr =>
    obtain ⟨hl, hs, hr⟩ := hc
    have wl : cSpace ∉ C05.wrapS l := by
      unfold C05.wrapS
      split
      · intro hm
        simp only [List.mem_append, List.mem_cons, List.not_mem_nil, or_false, or_assoc] at hm
        rcases hm with hm | hm | hm
        · simp [cSpace, cLPar] at hm
        · exact ihl hl hm
        · simp [cSpace, cRPar] at hm
      · exact ihl hl
    have wr : cSpace ∉ C05.wrapS r := by
      unfold C05.wrapS
      split
      · intro hm
        simp only [List.mem_append, List.mem_cons, List.not_mem_nil, or_false, or_assoc] at hm
        rcases hm with hm | hm | hm
        · simp [cSpace, cLPar] at hm
        · exact ihr hr hm
        · simp [cSpace, cRPar] at hm
      · exact ihr hr
    rw [C05.str_fn]
    intro hm
    simp only [List.mem_append, List.mem_cons] at hm
    rcases hm with hm | hm | hm
    · exact wl hm
    · rw [C05.isSlashCode_iff] at hs
      simp only [cSpace] at hm
      omega
    · exact wr hm

theorem catStr_ne_nil (c : Cat) (hc : C05.WF c) : c.str ≠ [] := by
  cases c with
  | atom b f =>
    obtain ⟨hb, _, _⟩ := hc
    rw [C05.str_atom]
    split
    · exact hb.1
    · have := hb.1
      simp
  | fn l s r => rw [C05.str_fn]; simp

theorem nonEmptyBases_of_wf (c : Cat) (hc : C05.WF c) : C14.NonEmptyBases c := by
  induction c with
  | atom b f => exact hc.1.1
  | fn l s r ihl ihr => exact ⟨ihl hc.1, ihr hc.2.2⟩

/-- the label guesser succeeds on categories of one feature system -/
theorem guess_ok (lang : Lang) (c x y : Cat) (hx : C05.WF x) (hy : C05.WF y)
    (sx : OneSystem lang x) (sy : OneSystem lang y) : ∃ r, guess lang c x y = .ok r := by
  unfold guess
  have h : ∃ rs, binaryRules lang x y = .ok rs := by
    cases lang with
    | en => exact C14.total_en none x y sx sy (nonEmptyBases_of_wf x hx) (nonEmptyBases_of_wf y hy)
    | ja => exact C14.total_ja none x y sx sy
  obtain ⟨rs, hrs⟩ := h
  rw [hrs]
  simp only []
  split
  · exact ⟨_, rfl⟩
  · exact ⟨_, rfl⟩

/-! ### tokens -/

theorem Token.get_of_get? {t : Token} {k w : Str} (h : Token.get? t k = some w) :
    Token.get t k = .ok w := by
  unfold Token.get? at h
  unfold Token.get
  rw [h]

theorem Token.getD_of_get? {t : Token} {k w d : Str} (h : Token.get? t k = some w) :
    Token.getD t k d = w := by
  unfold Token.get? at h
  unfold Token.getD
  rw [h]; rfl

/-! ### escaped words -/

theorem replaceChar_ne_nil (old : Nat) (new w : Str) (hn : new ≠ []) (hw : w ≠ []) :
    replaceChar old new w ≠ [] := by
  cases w with
  | nil => exact absurd rfl hw
  | cons x r =>
    unfold replaceChar
    split
    · simp [hn]
    · simp

theorem replaceChar_mem (old : Nat) (new w : Str) (c : Nat) (h : c ∈ replaceChar old new w) :
    c ∈ new ∨ c ∈ w := by
  induction w with
  | nil => simp [replaceChar] at h
  | cons x r ih =>
    unfold replaceChar at h
    split at h
    · simp only [List.mem_append] at h
      rcases h with h | h
      · exact Or.inl h
      · rcases ih h with h | h
        · exact Or.inl h
        · exact Or.inr (List.mem_cons_of_mem _ h)
    · simp only [List.mem_cons] at h
      rcases h with h | h
      · exact Or.inr (by simp [h])
      · rcases ih h with h | h
        · exact Or.inl h
        · exact Or.inr (List.mem_cons_of_mem _ h)

theorem denormalize_ne_nil (w : Str) (hw : w ≠ []) : denormalize w ≠ [] := by
  unfold denormalize
  repeat' split
  all_goals first
    | (intro h; exact absurd h (by decide))
    | exact replaceChar_ne_nil _ _ _ (by decide) (replaceChar_ne_nil _ _ _ (by decide) hw)

theorem denormalize_noSpace (w : Str) (hw : cSpace ∉ w) : cSpace ∉ denormalize w := by
  unfold denormalize
  repeat' split
  all_goals first
    | decide
    | (intro h
       rcases replaceChar_mem _ _ _ _ h with h | h
       · exact absurd h (by decide)
       · rcases replaceChar_mem _ _ _ _ h with h | h
         · exact absurd h (by decide)
         · exact hw h)

theorem plainWord_noSpace {w : Str} (h : PlainWord w) : cSpace ∉ w :=
  fun hm => (h.2 _ hm).1 rfl

/-! ### the dependency annotations of the Japanese bank -/

theorem cutSuffix_suffix (cs suf : Str) (h : noneOf [cUnderscore] cs) :
    cutSuffix (cs ++ cUnderscore :: suf) = cs := by
  have hn : cUnderscore ∉ cs := fun hm => h _ hm (by simp)
  unfold cutSuffix
  rw [findChar_append _ _ _ hn]
  simp

theorem cutSuffix_id (cs : Str) (h : noneOf [cUnderscore] cs) : cutSuffix cs = cs := by
  have hn : cUnderscore ∉ cs := fun hm => h _ hm (by simp)
  unfold cutSuffix
  rw [findChar_none _ _ hn]

theorem findChar_lt (c : Nat) (s : Str) (k : Nat) (h : findChar c s = some k) : k < s.length := by
  induction s generalizing k with
  | nil => simp [findChar] at h
  | cons x r ih =>
    unfold findChar at h
    split at h
    · simp at h; subst h; simp
    · cases hr : findChar c r with
      | none => simp [hr] at h
      | some j =>
        simp [hr] at h
        have := ih j hr
        subst h; simp; omega

/-- enough fuel: the result does not depend on it -/
theorem stripDepsAux_fuel : ∀ (f1 f2 : Nat) (s : Str), s.length ≤ f1 → s.length ≤ f2 →
    stripDepsAux f1 s = stripDepsAux f2 s := by
  intro f1
  induction f1 with
  | zero =>
    intro f2 s h1 _
    have : s = [] := List.eq_nil_of_length_eq_zero (by omega)
    subst this
    cases f2 <;> simp [stripDepsAux]
  | succ n ih =>
    intro f2 s h1 h2
    cases s with
    | nil => cases f2 <;> simp [stripDepsAux]
    | cons c cs =>
      cases f2 with
      | zero => simp at h2
      | succ m =>
        simp only [List.length_cons] at h1 h2
        simp only [stripDepsAux]
        split
        · cases cs with
          | nil => rfl
          | cons d ds =>
            simp only []
            cases hk : findChar cRBrace ds with
            | none =>
              simp only []
              rw [ih m (d :: ds) (by simp at h1 ⊢; omega) (by simp at h2 ⊢; omega)]
            | some k =>
              simp only []
              simp only [List.length_cons] at h1 h2
              exact ih m _ (by simp; omega) (by simp; omega)
        · rw [ih m cs (by omega) (by omega)]

theorem stripDepsAux_plain (a rest : Str) (h : noneOf [cLBrace] a) : ∀ (f : Nat),
    a.length ≤ f → stripDepsAux f (a ++ rest) = a ++ stripDepsAux (f - a.length) rest := by
  induction a with
  | nil => intro f _; simp
  | cons x r ih =>
    intro f hf
    have hx : x ≠ cLBrace := fun e => h x (by simp) (by simp [e])
    have hr : noneOf [cLBrace] r := fun c hc => h c (List.mem_cons_of_mem _ hc)
    cases f with
    | zero => simp at hf
    | succ n =>
      simp only [List.length_cons] at hf
      simp only [List.cons_append, stripDepsAux, beq_iff_eq, hx, if_false]
      rw [ih hr n (by omega)]
      simp

theorem stripDeps_group (a b g : Str) (ha : noneOf [cLBrace] a) (hg : g ≠ [])
    (hgn : noneOf [cRBrace] g) :
    stripDeps (a ++ cLBrace :: g ++ cRBrace :: b) = a ++ stripDeps b := by
  cases g with
  | nil => exact absurd rfl hg
  | cons d ds =>
    have hds : cRBrace ∉ ds := fun hm => hgn _ (List.mem_cons_of_mem _ hm) (by simp)
    unfold stripDeps
    have e : a ++ cLBrace :: (d :: ds) ++ cRBrace :: b = a ++ (cLBrace :: d :: (ds ++ cRBrace :: b)) := by
      simp
    rw [e, stripDepsAux_plain a _ ha _ (by simp; omega)]
    congr 1
    have hlen : (a ++ cLBrace :: d :: (ds ++ cRBrace :: b)).length + 1 - a.length
        = (ds.length + b.length + 3) + 1 := by
      simp; omega
    rw [hlen]
    simp only [stripDepsAux, beq_self_eq_true, if_true, findChar_append _ _ _ hds]
    have : (ds ++ cRBrace :: b).drop (ds.length + 1) = b := by
      rw [show ds ++ cRBrace :: b = (ds ++ [cRBrace]) ++ b by simp]
      rw [List.drop_append]
      simp
    rw [this]
    exact stripDepsAux_fuel _ _ _ (by omega) (by omega)

theorem stripDeps_id (a : Str) (h : noneOf [cLBrace] a) : stripDeps a = a := by
  unfold stripDeps
  have := stripDepsAux_plain a [] h (a.length + 1) (by omega)
  simp only [List.append_nil] at this
  rw [this]
  cases (a.length + 1 - a.length) <;> simp [stripDepsAux]

/-! ## Part 2: the PTB printer / reader pair -/
/-! ### the blank-separated fields of a printed tree -/

/-- the escaped word a leaf prints -/
def wordOf (tok : Token) : Str := denormalize (Token.getD tok (lit "word") [])

def closers (k : Nat) : Str := List.replicate k cRPar

@[simp] theorem closers_length (k : Nat) : (closers k).length = k := by simp [closers]
theorem closers_succ (k : Nat) : closers (k + 1) = cRPar :: closers k := rfl
theorem closers_succ' (k : Nat) : closers (k + 1) = closers k ++ [cRPar] := by
  simp [closers, List.replicate_succ']

/-- the fields of a printed subtree, with `k` further closing parentheses on the last one -/
def ptbFields : Tree → Nat → List Str
  | .leaf c tok _ _, k => [cLPar :: c.str, wordOf tok ++ closers (k + 1)]
  | .un c _ _ ch, k => (cLPar :: c.str) :: ptbFields ch (k + 1)
  | .bin c _ _ _ l r, k => (cLPar :: c.str) :: (ptbFields l 0 ++ ptbFields r (k + 1))

theorem ptbFields_ne_nil (t : Tree) (k : Nat) : ptbFields t k ≠ [] := by
  cases t <;> simp [ptbFields]

theorem allCats_cat {p : Cat → Prop} : ∀ {t : Tree}, AllCats p t → p t.cat
  | .leaf .., h => h
  | .un .., h => h.1
  | .bin .., h => h.1

theorem ptbTok_word {tok : Token} (h : PtbTokOK tok) :
    ∃ w, Token.get tok (lit "word") = .ok w ∧ wordOf tok = denormalize w ∧ PtbWordOK w := by
  obtain ⟨w, hw, hok⟩ := h
  exact ⟨w, Token.get_of_get? hw, by unfold wordOf; rw [Token.getD_of_get? hw], hok⟩

theorem ptbRec_fields : ∀ (t : Tree) (s : Str), AllToks PtbTokOK t → ptbRec t = .ok s →
    ∀ k, joinSep cSpace (ptbFields t k) = s ++ closers k := by
  intro t
  induction t with
  | leaf c tok sS sY =>
    intro s htok h k
    obtain ⟨w, hw, hwo, _⟩ := ptbTok_word htok
    simp only [ptbRec, hw] at h
    injection h with h
    subst h
    simp [ptbFields, joinSep, hwo, closers_succ]
  | un c sS sY ch ih =>
    intro s htok h k
    simp only [ptbRec] at h
    cases hch : ptbRec ch with
    | error e => simp [hch] at h
    | ok a =>
      simp only [hch] at h
      injection h with h
      subst h
      simp only [ptbFields]
      rw [joinSep_cons _ _ _ (ptbFields_ne_nil _ _), ih a htok hch (k + 1)]
      simp [closers_succ]
  | bin c sS sY hd l r ihl ihr =>
    intro s htok h k
    simp only [ptbRec] at h
    cases hl : ptbRec l with
    | error e => simp [hl] at h
    | ok a =>
      cases hr : ptbRec r with
      | error e => simp [hl, hr] at h
      | ok b =>
        simp only [hl, hr] at h
        injection h with h
        subst h
        simp only [ptbFields]
        rw [joinSep_cons _ _ _ (by simp [ptbFields_ne_nil]),
          joinSep_append _ _ _ (ptbFields_ne_nil _ _) (ptbFields_ne_nil _ _),
          ihl a htok.1 hl 0, ihr b htok.2 hr (k + 1)]
        simp [closers, List.replicate_succ]

/-- the two kinds of fields -/
def FieldKind (x : Str) : Prop :=
  (∃ cs, cs ≠ [] ∧ x = cLPar :: cs) ∨
  (∃ w m, w ≠ [] ∧ w.head? ≠ some cLPar ∧ w.getLast? ≠ some cRPar ∧ x = w ++ closers (m + 1))

theorem ptbWord_facts {w : Str} (h : PtbWordOK w) :
    denormalize w ≠ [] ∧ cSpace ∉ denormalize w ∧ (denormalize w).head? ≠ some cLPar ∧
      (denormalize w).getLast? ≠ some cRPar :=
  ⟨denormalize_ne_nil w h.1.1, denormalize_noSpace w (plainWord_noSpace h.1), h.2.1, h.2.2⟩

theorem closers_noSpace (k : Nat) : cSpace ∉ closers k := by
  intro h
  have := List.eq_of_mem_replicate h
  exact absurd this (by decide)

theorem ptbFields_kind : ∀ (t : Tree), AllCats CatOK t → AllToks PtbTokOK t →
    ∀ k, ∀ x ∈ ptbFields t k, FieldKind x ∧ cSpace ∉ x := by
  intro t
  have hcat : ∀ c : Cat, CatOK c → FieldKind (cLPar :: c.str) ∧ cSpace ∉ cLPar :: c.str := by
    intro c hc
    refine ⟨Or.inl ⟨c.str, catStr_ne_nil c hc.1, rfl⟩, ?_⟩
    intro hm
    simp only [List.mem_cons] at hm
    rcases hm with hm | hm
    · exact absurd hm (by decide)
    · exact catStr_noSpace c hc.1 hm
  induction t with
  | leaf c tok sS sY =>
    intro hc htok k x hx
    obtain ⟨w, _, hwo, hok⟩ := ptbTok_word htok
    obtain ⟨h1, h2, h3, h4⟩ := ptbWord_facts hok
    simp only [ptbFields, List.mem_cons, List.not_mem_nil, or_false] at hx
    rcases hx with rfl | rfl
    · exact hcat c hc
    · rw [hwo]
      refine ⟨Or.inr ⟨_, k, h1, h3, h4, rfl⟩, ?_⟩
      intro hm
      rcases List.mem_append.1 hm with hm | hm
      · exact h2 hm
      · exact closers_noSpace _ hm
  | un c sS sY ch ih =>
    intro hc htok k x hx
    simp only [ptbFields, List.mem_cons] at hx
    rcases hx with rfl | hx
    · exact hcat c hc.1
    · exact ih hc.2 htok _ x hx
  | bin c sS sY hd l r ihl ihr =>
    intro hc htok k x hx
    simp only [ptbFields, List.mem_cons, List.mem_append] at hx
    rcases hx with rfl | hx | hx
    · exact hcat c hc.1
    · exact ihl hc.2.1 htok.1 _ x hx
    · exact ihr hc.2.2 htok.2 _ x hx

/-! ### the reader, one operation at a time -/

/-- the work `reduce` does for one closing parenthesis -/
def closeOnce (lang : Lang) (st1 : PState) : Except Err PState :=
  match st1.stack with
  | [] => .error .indexError
  | .word w :: rest =>
    match rest with
    | [] => .error .indexError
    | .cat c :: rest2 =>
      .ok { st1 with stack := .tree (Tree.mkTerminal [(lit "word", w)] c) :: rest2 }
    | _ :: _ => .error .unsupported
  | .cat _ :: _ => .error .runtime
  | .tree t :: rest =>
    match popTrees (.tree t :: rest) [] with
    | .error e => .error e
    | .ok (children, rest2) =>
      match rest2 with
      | [] => .error .indexError
      | .cat c :: rest3 =>
        match children with
        | [ch] => .ok { st1 with stack := .tree (Tree.mkUnary c ch) :: rest3 }
        | [r, l] =>
          match guess lang c l.cat r.cat with
          | .error e => .error e
          | .ok rule =>
            .ok { st1 with stack := .tree (.bin c rule.opString rule.opSymbol rule.headLeft l r) :: rest3 }
        | _ => .error .runtime
      | _ :: _ => .error .unsupported

def closeN (lang : Lang) : Nat → PState → Except Err PState
  | 0, st => .ok st
  | k + 1, st =>
    match closeN lang k st with
    | .error e => .error e
    | .ok st1 => closeOnce lang st1

theorem closeN_succ' (lang : Lang) (k : Nat) (st : PState) :
    closeN lang (k + 1) st =
      match closeOnce lang st with
      | .error e => .error e
      | .ok st1 => closeN lang k st1 := by
  induction k with
  | zero =>
    simp only [closeN]
    cases closeOnce lang st <;> rfl
  | succ k ih =>
    rw [closeN, ih]
    cases h : closeOnce lang st with
    | error e => rfl
    | ok st1 => simp only [closeN]

theorem ptbReduce_close (lang : Lang) (fuel : Nat) (item : Str) (st : PState)
    (h : item.getLast? = some cRPar) :
    ptbReduce lang (fuel + 1) item st =
      match ptbReduce lang fuel item.dropLast st with
      | .error e => .error e
      | .ok st1 => closeOnce lang st1 := by
  rw [ptbReduce]
  simp only [h, bne_self_eq_false, Bool.false_eq_true, if_false]
  cases ptbReduce lang fuel item.dropLast st with
  | error e => rfl
  | ok st1 => rfl

theorem ptbReduce_word (lang : Lang) (w : Str) (st : PState) (hne : w ≠ [])
    (hl : w.getLast? ≠ some cRPar) : ∀ (k fuel : Nat), k < fuel →
    ptbReduce lang fuel (w ++ closers k) st =
      closeN lang k { stack := .word w :: st.stack, tokens := st.tokens ++ [[(lit "word", w)]] } := by
  intro k
  induction k with
  | zero =>
    intro fuel hf
    cases fuel with
    | zero => omega
    | succ f =>
      simp only [closers, List.replicate_zero, List.append_nil, closeN]
      rw [ptbReduce]
      cases hg : w.getLast? with
      | none => exact absurd (List.getLast?_eq_none_iff.1 hg) hne
      | some c =>
        have hc : c ≠ cRPar := fun e => hl (by rw [hg, e])
        simp [hc]
  | succ k ih =>
    intro fuel hf
    cases fuel with
    | zero => omega
    | succ f =>
      have e : w ++ closers (k + 1) = (w ++ closers k) ++ [cRPar] := by
        rw [closers_succ']; simp
      rw [e, ptbReduce_close lang f _ st (by simp), List.dropLast_concat, ih f (by omega)]
      rfl

theorem ptbLoop_open (lang : Lang) (cs : Str) (c : Cat) (rest : List Str) (st : PState)
    (h : Cat.parse cs = .ok c) :
    ptbLoop lang ((cLPar :: cs) :: rest) st =
      ptbLoop lang rest { stack := .cat c :: st.stack, tokens := st.tokens } := by
  rw [ptbLoop]
  simp [h]

theorem getLast?_append_closers (w : Str) (k : Nat) :
    (w ++ closers (k + 1)).getLast? = some cRPar := by
  rw [closers_succ', ← List.append_assoc]
  simp

theorem ptbLoop_word (lang : Lang) (w : Str) (k : Nat) (rest : List Str) (st : PState)
    (hne : w ≠ []) (hh : w.head? ≠ some cLPar) (hl : w.getLast? ≠ some cRPar) :
    ptbLoop lang ((w ++ closers (k + 1)) :: rest) st =
      match closeN lang (k + 1)
        { stack := .word w :: st.stack, tokens := st.tokens ++ [[(lit "word", w)]] } with
      | .error e => .error e
      | .ok st' => ptbLoop lang rest st' := by
  cases w with
  | nil => exact absurd rfl hne
  | cons c0 tl =>
    have hc0 : c0 ≠ cLPar := fun e => hh (by simp [e])
    have hlast := getLast?_append_closers (c0 :: tl) k
    simp only [List.cons_append] at hlast ⊢
    rw [ptbLoop]
    simp only [beq_iff_eq, hc0, if_false, hlast, if_true]
    have := ptbReduce_word lang (c0 :: tl) st hne hl (k + 1)
      ((c0 :: (tl ++ closers (k + 1))).length + 1) (by simp; omega)
    simp only [List.cons_append] at this
    rw [this]
    rfl

theorem closeOnce_leaf (lang : Lang) (w : Str) (c : Cat) (rest : List PItem) (tk : List Token) :
    closeOnce lang { stack := .word w :: .cat c :: rest, tokens := tk } =
      .ok { stack := .tree (Tree.mkTerminal [(lit "word", w)] c) :: rest, tokens := tk } := rfl

theorem closeOnce_un (lang : Lang) (ch : Tree) (c : Cat) (rest : List PItem) (tk : List Token) :
    closeOnce lang { stack := .tree ch :: .cat c :: rest, tokens := tk } =
      .ok { stack := .tree (Tree.mkUnary c ch) :: rest, tokens := tk } := rfl

theorem closeOnce_bin (lang : Lang) (l r : Tree) (c : Cat) (rule : RuleRes) (rest : List PItem)
    (tk : List Token) (h : guess lang c l.cat r.cat = .ok rule) :
    closeOnce lang { stack := .tree r :: .tree l :: .cat c :: rest, tokens := tk } =
      .ok { stack := .tree (.bin c rule.opString rule.opSymbol rule.headLeft l r) :: rest,
            tokens := tk } := by
  simp only [closeOnce, popTrees, List.nil_append, List.cons_append, h]

/-! ### the round trip -/

theorem catOK_parse {c : Cat} (h : CatOK c) : Cat.parse c.str = .ok c := C05.parse_print c h.1

theorem ptbLoop_tree (lang : Lang) : ∀ (t : Tree), AllCats CatOK t → AllCats (OneSystem lang) t →
    AllToks PtbTokOK t →
    ∃ t', ptbImage lang t = .ok t' ∧ t'.cat = t.cat ∧ ∀ (k : Nat) (st : PState) (rest : List Str),
      ptbLoop lang (ptbFields t k ++ rest) st =
        match closeN lang k { stack := .tree t' :: st.stack, tokens := st.tokens ++ t'.tokens } with
        | .error e => .error e
        | .ok st' => ptbLoop lang rest st' := by
  intro t
  induction t with
  | leaf c tok sS sY =>
    intro hc _ htok
    obtain ⟨w, hw, hwo, hok⟩ := ptbTok_word htok
    obtain ⟨h1, _, h3, h4⟩ := ptbWord_facts hok
    refine ⟨Tree.mkTerminal [(lit "word", denormalize w)] c, by simp [ptbImage, hw], rfl, ?_⟩
    intro k st rest
    simp only [ptbFields, List.cons_append, List.nil_append, hwo]
    rw [ptbLoop_open lang _ c _ _ (catOK_parse hc), ptbLoop_word lang _ k _ _ h1 h3 h4,
      closeN_succ', closeOnce_leaf]
    rfl
  | un c sS sY ch ih =>
    intro hc hs htok
    obtain ⟨ch', him, hcat, hloop⟩ := ih hc.2 hs.2 htok
    refine ⟨Tree.mkUnary c ch', by simp [ptbImage, him], rfl, ?_⟩
    intro k st rest
    simp only [ptbFields, List.cons_append]
    rw [ptbLoop_open lang _ c _ _ (catOK_parse hc.1), hloop, closeN_succ', closeOnce_un]
    rfl
  | bin c sS sY hd l r ihl ihr =>
    intro hc hs htok
    obtain ⟨l', himl, hcatl, hloopl⟩ := ihl hc.2.1 hs.2.1 htok.1
    obtain ⟨r', himr, hcatr, hloopr⟩ := ihr hc.2.2 hs.2.2 htok.2
    obtain ⟨rule, hrule⟩ := guess_ok lang c l'.cat r'.cat
      (by rw [hcatl]; exact (allCats_cat hc.2.1).1) (by rw [hcatr]; exact (allCats_cat hc.2.2).1)
      (by rw [hcatl]; exact allCats_cat hs.2.1) (by rw [hcatr]; exact allCats_cat hs.2.2)
    refine ⟨.bin c rule.opString rule.opSymbol rule.headLeft l' r',
      by simp [ptbImage, himl, himr, hrule], rfl, ?_⟩
    intro k st rest
    simp only [ptbFields, List.cons_append, List.append_assoc]
    rw [ptbLoop_open lang _ c _ _ (catOK_parse hc.1), hloopl]
    simp only [closeN]
    rw [hloopr, closeN_succ', closeOnce_bin lang l' r' c rule _ _ hrule]
    simp only [Tree.tokens, List.append_assoc]

theorem lit_root : lit "(ROOT " = [40, 82, 79, 79, 84, 32] := by decide

theorem parsePtb_body (lang : Lang) (body : Str) (z : Nat) :
    parsePtb lang (lit "(ROOT " ++ body ++ [z]) =
      match ptbLoop lang (splitOn cSpace body) { stack := [], tokens := [] } with
      | .error .assertion => .error .runtime
      | .error e => .error e
      | .ok st =>
        match st.stack with
        | [.tree t] => .ok (t, st.tokens)
        | _ => .error .runtime := by
  unfold parsePtb
  have h1 : startsWith (lit "(ROOT " ++ body ++ [z]) (lit "(ROOT ") = true := by
    rw [List.append_assoc]; exact startsWith_append _ _
  have h2 : ((lit "(ROOT " ++ body ++ [z]).take ((lit "(ROOT " ++ body ++ [z]).length - 1)).drop 6
      = body := by
    rw [← List.dropLast_eq_take, List.dropLast_concat, lit_root]
    rfl
  simp only [h1, Bool.not_true, Bool.false_eq_true, if_false, h2]
  rfl

theorem ptb_roundtrip_main (lang : Lang) (t : Tree) (s : Str)
    (hc : AllCats CatOK t) (hs : AllCats (OneSystem lang) t) (htok : AllToks PtbTokOK t)
    (h : ptbOf t = .ok s) :
    ∃ t', ptbImage lang t = .ok t' ∧ parsePtb lang s = .ok (t', t'.tokens) := by
  obtain ⟨t', him, _, hloop⟩ := ptbLoop_tree lang t hc hs htok
  refine ⟨t', him, ?_⟩
  unfold ptbOf at h
  cases hb : ptbRec t with
  | error e => simp [hb] at h
  | ok body =>
    simp only [hb] at h
    injection h with h
    subst h
    have hf := ptbRec_fields t body htok hb 0
    simp only [closers, List.replicate_zero, List.append_nil] at hf
    have hsplit : splitOn cSpace body = ptbFields t 0 := by
      rw [← hf]
      exact splitOn_joinSep _ _ (ptbFields_ne_nil _ _)
        (fun f hfm => (ptbFields_kind t hc htok 0 f hfm).2)
    rw [parsePtb_body, hsplit]
    have := hloop 0 { stack := [], tokens := [] } []
    simp only [List.append_nil, closeN, List.nil_append] at this
    rw [this]
    simp [ptbLoop]

/-! ## Part 3: truncated PTB lines are rejected -/
/-! ### counting -/

/-- number of category items on the stack -/
def cats : List PItem → Nat
  | [] => 0
  | .cat _ :: r => cats r + 1
  | _ :: r => cats r

/-- number of trailing `)` of a reversed string -/
def trailR : Str → Nat
  | [] => 0
  | x :: r => if x = cRPar then trailR r + 1 else 0

def trail (s : Str) : Nat := trailR s.reverse

/-- the weight of a field: `+1` for an opening field, minus the closing parentheses otherwise -/
def wt : Str → Int
  | [] => 0
  | c0 :: r => if c0 = cLPar then 1 else - (trail (c0 :: r) : Int)

def bal : List Str → Int
  | [] => 0
  | x :: r => wt x + bal r

theorem bal_append (a b : List Str) : bal (a ++ b) = bal a + bal b := by
  induction a with
  | nil => simp [bal]
  | cons x r ih => simp only [List.cons_append, bal, ih]; omega

theorem trail_concat_close (s : Str) : trail (s ++ [cRPar]) = trail s + 1 := by
  simp [trail, trailR]

theorem trail_concat_other (s : Str) (c : Nat) (h : c ≠ cRPar) : trail (s ++ [c]) = 0 := by
  simp [trail, trailR, h]

theorem eq_nil_or_snoc {α : Type} (l : List α) : l = [] ∨ ∃ p x, l = p ++ [x] := by
  rcases List.eq_nil_or_concat l with h | ⟨p, x, h⟩
  · exact Or.inl h
  · exact Or.inr ⟨p, x, by rw [h, List.concat_eq_append]⟩

theorem trail_of_last_ne (s : Str) (c : Nat) (h : s.getLast? = some c) (hc : c ≠ cRPar) :
    trail s = 0 := by
  rcases eq_nil_or_snoc s with rfl | ⟨init, x, rfl⟩
  · rfl
  · simp at h; subst h; exact trail_concat_other _ _ hc

theorem trail_of_last_close (s : Str) (h : s.getLast? = some cRPar) :
    trail s = trail s.dropLast + 1 := by
  rcases eq_nil_or_snoc s with rfl | ⟨init, x, rfl⟩
  · simp at h
  · simp at h; subst h
    rw [List.dropLast_concat]; exact trail_concat_close _

theorem trail_word (w : Str) (hl : w.getLast? ≠ some cRPar) : ∀ m, trail (w ++ closers m) = m := by
  intro m
  induction m with
  | zero =>
    simp only [closers, List.replicate_zero, List.append_nil]
    cases h : w.getLast? with
    | none => rw [List.getLast?_eq_none_iff.1 h]; rfl
    | some c => exact trail_of_last_ne w c h (fun e => hl (by rw [h, e]))
  | succ m ih =>
    rw [closers_succ', ← List.append_assoc, trail_concat_close, ih]

theorem wt_open (cs : Str) : wt (cLPar :: cs) = 1 := by simp [wt]

theorem wt_word (w : Str) (m : Nat) (hne : w ≠ []) (hh : w.head? ≠ some cLPar)
    (hl : w.getLast? ≠ some cRPar) : wt (w ++ closers m) = - (m : Int) := by
  cases w with
  | nil => exact absurd rfl hne
  | cons c0 tl =>
    have hc0 : c0 ≠ cLPar := fun e => hh (by simp [e])
    have := trail_word (c0 :: tl) hl m
    simp only [List.cons_append] at this
    simp only [List.cons_append, wt, hc0, if_false, this]

/-! ### the reader only removes a category item when it closes a parenthesis -/

theorem popTrees_cats : ∀ (st : List PItem) (acc ch : List Tree) (rest : List PItem),
    popTrees st acc = .ok (ch, rest) → cats rest = cats st := by
  intro st
  induction st with
  | nil => intro acc ch rest h; simp [popTrees] at h
  | cons x r ih =>
    intro acc ch rest h
    cases x with
    | tree t =>
      simp only [popTrees] at h
      rw [ih _ _ _ h]; rfl
    | cat c =>
      simp only [popTrees] at h
      injection h with h
      injection h with _ h
      rw [← h]
    | word w =>
      simp only [popTrees] at h
      injection h with h
      injection h with _ h
      rw [← h]

theorem closeOnce_cats (lang : Lang) (st st' : PState) (h : closeOnce lang st = .ok st') :
    cats st'.stack + 1 = cats st.stack := by
  unfold closeOnce at h
  split at h
  · exact absurd h (by simp)
  · next w rest hst =>
    split at h
    · exact absurd h (by simp)
    · next c rest2 =>
      injection h with h
      subst h
      simp [hst, cats]
    · exact absurd h (by simp)
  · exact absurd h (by simp)
  · next t rest hst =>
    split at h
    · exact absurd h (by simp)
    · next children rest2 hpop =>
      have hc := popTrees_cats _ _ _ _ hpop
      split at h
      · exact absurd h (by simp)
      · next c rest3 =>
        split at h
        · injection h with h
          subst h
          simp only [hst, ← hc, cats]
        · split at h
          · exact absurd h (by simp)
          · injection h with h
            subst h
            simp only [hst, ← hc, cats]
        · exact absurd h (by simp)
      · exact absurd h (by simp)

theorem ptbReduce_cats (lang : Lang) : ∀ (fuel : Nat) (item : Str) (st st' : PState),
    ptbReduce lang fuel item st = .ok st' → cats st'.stack + trail item = cats st.stack := by
  intro fuel
  induction fuel with
  | zero => intro item st st' h; simp [ptbReduce] at h
  | succ f ih =>
    intro item st st' h
    cases hg : item.getLast? with
    | none => simp [ptbReduce, hg] at h
    | some c =>
      by_cases hc : c = cRPar
      · subst hc
        rw [ptbReduce_close lang f item st hg] at h
        cases hr : ptbReduce lang f item.dropLast st with
        | error e => simp [hr] at h
        | ok st1 =>
          simp only [hr] at h
          have h1 := ih _ _ _ hr
          have h2 := closeOnce_cats lang _ _ h
          rw [trail_of_last_close item hg]
          omega
      · rw [ptbReduce] at h
        simp only [hg, bne_iff_ne, ne_eq, hc, not_false_eq_true, if_true] at h
        injection h with h
        subst h
        rw [trail_of_last_ne item c hg hc]
        simp [cats]

theorem ptbLoop_cats (lang : Lang) : ∀ (items : List Str) (st st' : PState),
    ptbLoop lang items st = .ok st' → (cats st'.stack : Int) = cats st.stack + bal items := by
  intro items
  induction items with
  | nil =>
    intro st st' h
    simp only [ptbLoop] at h
    injection h with h
    subst h
    simp [bal]
  | cons item rest ih =>
    intro st st' h
    cases item with
    | nil => simp [ptbLoop] at h
    | cons c0 tl =>
      rw [ptbLoop] at h
      by_cases hc0 : c0 = cLPar
      · subst hc0
        simp only [beq_self_eq_true, if_true] at h
        cases hp : Cat.parse tl with
        | error e => simp [hp] at h
        | ok c =>
          simp only [hp] at h
          have := ih _ _ h
          simp only [cats] at this
          simp only [bal, wt_open]
          omega
      · simp only [beq_iff_eq, hc0, if_false] at h
        split at h
        · cases hr : ptbReduce lang ((c0 :: tl).length + 1) (c0 :: tl) st with
          | error e => rw [hr] at h; exact absurd h (by simp)
          | ok st1 =>
            rw [hr] at h
            simp only [] at h
            have h1 := ih _ _ h
            have h2 := ptbReduce_cats lang _ _ _ _ hr
            simp only [bal, wt, hc0, if_false]
            omega
        · exact absurd h (by simp)

/-! ### the balance of the fields of a printed tree -/

theorem bal_fields : ∀ (t : Tree), AllCats CatOK t → AllToks PtbTokOK t →
    ∀ k, bal (ptbFields t k) = - (k : Int) := by
  intro t
  induction t with
  | leaf c tok sS sY =>
    intro _ htok k
    obtain ⟨w, _, hwo, hok⟩ := ptbTok_word htok
    obtain ⟨h1, _, h3, h4⟩ := ptbWord_facts hok
    simp only [ptbFields, bal, wt_open, hwo, wt_word _ _ h1 h3 h4]
    omega
  | un c sS sY ch ih =>
    intro hc htok k
    simp only [ptbFields, bal, wt_open, ih hc.2 htok]
    omega
  | bin c sS sY hd l r ihl ihr =>
    intro hc htok k
    simp only [ptbFields, bal, bal_append, wt_open, ihl hc.2.1 htok.1, ihr hc.2.2 htok.2]
    omega

theorem ptbFields_length_pos (t : Tree) (k : Nat) : 0 < (ptbFields t k).length :=
  List.length_pos_iff.2 (ptbFields_ne_nil t k)

theorem bal_prefix : ∀ (t : Tree), AllCats CatOK t → AllToks PtbTokOK t →
    ∀ k j, j < (ptbFields t k).length →
      0 ≤ bal ((ptbFields t k).take j) ∧ (0 < j → 1 ≤ bal ((ptbFields t k).take j)) := by
  intro t
  induction t with
  | leaf c tok sS sY =>
    intro _ _ k j hj
    simp only [ptbFields, List.length_cons, List.length_nil] at hj
    match j, hj with
    | 0, _ => simp [bal]
    | 1, _ => simp [ptbFields, bal, wt_open]
  | un c sS sY ch ih =>
    intro hc htok k j hj
    cases j with
    | zero => simp [bal]
    | succ j =>
      simp only [ptbFields, List.length_cons] at hj
      have := (ih hc.2 htok (k + 1) j (by omega)).1
      simp only [ptbFields, List.take_succ_cons, bal, wt_open]
      omega
  | bin c sS sY hd l r ihl ihr =>
    intro hc htok k j hj
    cases j with
    | zero => simp [bal]
    | succ j =>
      simp only [ptbFields, List.length_cons, List.length_append] at hj
      simp only [ptbFields, List.take_succ_cons, bal, wt_open, List.take_append, bal_append]
      by_cases hlt : j < (ptbFields l 0).length
      · have h1 := (ihl hc.2.1 htok.1 0 j hlt).1
        have h2 : j - (ptbFields l 0).length = 0 := by omega
        rw [h2]
        simp only [List.take_zero, bal]
        omega
      · have h1 : (ptbFields l 0).take j = ptbFields l 0 := List.take_of_length_le (by omega)
        have h2 := bal_fields l hc.2.1 htok.1 0
        have h3 := (ihr hc.2.2 htok.2 (k + 1) (j - (ptbFields l 0).length) (by omega)).1
        rw [h1, h2]
        omega

/-! ### chopping the last character -/

theorem joinSep_dropLast (c : Nat) (p : List Str) (x : Str) (hx : x ≠ []) :
    (joinSep c (p ++ [x])).dropLast = joinSep c (p ++ [x.dropLast]) := by
  by_cases hp : p = []
  · subst hp; simp [joinSep]
  · rw [joinSep_append c p [x] hp (by simp), joinSep_append c p [x.dropLast] hp (by simp)]
    simp only [joinSep]
    rw [List.dropLast_append_of_ne_nil (by simp), List.dropLast_cons_of_ne_nil hx]

theorem wt_dropLast_of_kind (x : Str) (h : FieldKind x) : wt x ≤ wt x.dropLast := by
  rcases h with ⟨cs, hcs, rfl⟩ | ⟨w, m, hne, hh, hl, rfl⟩
  · rw [List.dropLast_cons_of_ne_nil hcs, wt_open, wt_open]
    omega
  · rw [closers_succ', ← List.append_assoc, List.dropLast_concat, List.append_assoc,
      ← closers_succ', wt_word _ _ hne hh hl, wt_word _ _ hne hh hl]
    omega

theorem kind_ne_nil (x : Str) (h : FieldKind x) : x ≠ [] := by
  rcases h with ⟨cs, _, rfl⟩ | ⟨w, m, hne, _, _, rfl⟩
  · simp
  · simp [hne]

theorem lit_root' : lit "(ROOT" = [40, 82, 79, 79, 84] := by decide

theorem parsePtb_short1 (lang : Lang) : ∃ e, parsePtb lang [] = .error e := ⟨_, rfl⟩
theorem parsePtb_short2 (lang : Lang) : ∃ e, parsePtb lang (lit "(ROOT") = .error e := ⟨_, rfl⟩

/-- a body whose fields leave an unclosed parenthesis is rejected -/
theorem parsePtb_unbalanced (lang : Lang) (body : Str) (z : Nat)
    (h : 1 ≤ bal (splitOn cSpace body)) :
    ∃ e, parsePtb lang (lit "(ROOT " ++ body ++ [z]) = .error e := by
  rw [parsePtb_body]
  cases hl : ptbLoop lang (splitOn cSpace body) { stack := [], tokens := [] } with
  | error e => cases e <;> exact ⟨_, rfl⟩
  | ok st =>
    have hc := ptbLoop_cats lang _ _ _ hl
    simp only [cats] at hc
    have hpos : 1 ≤ cats st.stack := by omega
    simp only []
    split
    · next t hst => rw [hst] at hpos; simp [cats] at hpos
    · exact ⟨_, rfl⟩

theorem ptb_incomplete_main (lang : Lang) (t : Tree) (s : Str) (k : Nat)
    (hc : AllCats CatOK t) (htok : AllToks PtbTokOK t)
    (h : ptbOf t = .ok s) (hk : k < (splitOn cSpace s).length) :
    ∃ e, parsePtb lang (joinSep cSpace ((splitOn cSpace s).take k)) = .error e := by
  unfold ptbOf at h
  cases hb : ptbRec t with
  | error e => simp [hb] at h
  | ok body =>
    simp only [hb] at h
    injection h with h
    subst h
    -- the fields of the whole line
    have hf := ptbRec_fields t body htok hb 1
    have hkind := ptbFields_kind t hc htok 1
    have hs : lit "(ROOT " ++ body ++ [cRPar] = joinSep cSpace (lit "(ROOT" :: ptbFields t 1) := by
      rw [joinSep_cons _ _ _ (ptbFields_ne_nil _ _), hf, lit_root, lit_root']
      simp [closers, cSpace]
    have hsplit : splitOn cSpace (lit "(ROOT " ++ body ++ [cRPar]) = lit "(ROOT" :: ptbFields t 1 := by
      rw [hs]
      apply splitOn_joinSep _ _ (by simp)
      intro f hfm
      rcases List.mem_cons.1 hfm with rfl | hfm
      · decide
      · exact (hkind f hfm).2
    rw [hsplit] at hk ⊢
    cases k with
    | zero => exact parsePtb_short1 lang
    | succ j =>
      simp only [List.length_cons] at hk
      rw [List.take_succ_cons]
      cases j with
      | zero => exact parsePtb_short2 lang
      | succ i =>
        -- at least one field of the tree is kept, at least one is missing
        have hne : (ptbFields t 1).take (i + 1) ≠ [] := by
          have := ptbFields_length_pos t 1
          intro e
          have := congrArg List.length e
          simp only [List.length_take, List.length_nil] at this
          omega
        rcases eq_nil_or_snoc ((ptbFields t 1).take (i + 1)) with e | ⟨p, x, e⟩
        · exact absurd e hne
        · have hmem : ∀ y ∈ p ++ [x], y ∈ ptbFields t 1 := by
            intro y hy; rw [← e] at hy; exact List.mem_of_mem_take hy
          have hx := hkind x (hmem x (by simp))
          have hxne := kind_ne_nil x hx.1
          have hbal := (bal_prefix t hc htok 1 (i + 1) (by omega)).2 (by omega)
          rw [e]
          rw [e, bal_append] at hbal
          simp only [bal] at hbal
          have hJne : joinSep cSpace (p ++ [x]) ≠ [] := by
            by_cases hp : p = []
            · subst hp; simpa [joinSep] using hxne
            · rw [joinSep_append _ _ _ hp (by simp)]; simp
          have hline : joinSep cSpace (lit "(ROOT" :: (p ++ [x])) =
              lit "(ROOT " ++ joinSep cSpace (p ++ [x.dropLast]) ++
                [(joinSep cSpace (p ++ [x])).getLast hJne] := by
            rw [joinSep_cons _ _ _ (by simp), ← joinSep_dropLast _ _ _ hxne, List.append_assoc,
              List.dropLast_concat_getLast, lit_root, lit_root']
            rfl
          rw [hline]
          apply parsePtb_unbalanced
          have hsp : splitOn cSpace (joinSep cSpace (p ++ [x.dropLast])) = p ++ [x.dropLast] := by
            apply splitOn_joinSep _ _ (by simp)
            intro f hfm
            rcases List.mem_append.1 hfm with hfm | hfm
            · exact (hkind f (hmem f (List.mem_append_left _ hfm))).2
            · rw [List.mem_singleton] at hfm
              subst hfm
              exact fun hm => hx.2 (List.dropLast_subset _ hm)
          rw [hsp, bal_append]
          have := wt_dropLast_of_kind x hx.1
          simp only [bal]
          omega

/-! ## Part 4: the Japanese CCGbank printer / cursor reader pair -/
/-! ### the cursor -/

theorem drop_at (line pre rest : Str) (idx : Nat) (h : line = pre ++ rest) (hi : idx = pre.length) :
    line.drop idx = rest := by
  subst h hi; exact List.drop_left

theorem charAt_at (line pre rest : Str) (c idx : Nat) (h : line = pre ++ c :: rest)
    (hi : idx = pre.length) : charAt line idx = .ok c := by
  subst h hi
  simp [charAt]

theorem jaNext_at (line pre f rest : Str) (target idx : Nat)
    (h : line = pre ++ (f ++ target :: rest)) (hi : idx = pre.length) (hf : target ∉ f) :
    jaNext line idx target = (f, idx + f.length + 1) := by
  unfold jaNext
  rw [drop_at line pre _ idx h hi, findChar_append _ _ _ hf]
  simp

theorem combinators_noSpace : ∀ y ∈ jaCombinators, cSpace ∉ y := by decide

theorem elem_combinators (y : Str) : jaCombinators.elem y = true ↔ y ∈ jaCombinators := by
  simp

/-! ### `next_node`, one case at a time -/

/-- `parse_leaf` on `{cat body}` -/
theorem jaNode_leaf (line pre cs body post : Str) (idx fuel : Nat) (toks : List Token) (cat : Cat)
    (a b c d : Str)
    (hline : line = pre ++ (cLBrace :: cs ++ cSpace :: (body ++ cRBrace :: post)))
    (hidx : idx = pre.length) (hcs : cSpace ∉ cs) (hnc : cs ∉ jaCombinators)
    (hparse : Cat.parse (stripDeps (cutSuffix cs)) = .ok cat) (hbody : cRBrace ∉ body)
    (hsplit : splitOn cSlash body.dropLast = [a, b, c, d]) :
    jaNode line (fuel + 1) idx toks =
      .ok (Tree.mkTerminal [(lit "word", a)] cat, idx + (cs.length + body.length + 3),
        toks ++ [[(lit "surf", a), (lit "base", b), (lit "pos1", c), (lit "pos2", d)]]) := by
  have hsp : cSpace ∉ cLBrace :: cs := by
    intro hm
    rcases List.mem_cons.1 hm with hm | hm
    · exact absurd hm (by decide)
    · exact hcs hm
  have hdrop : line.drop idx = (cLBrace :: cs) ++ cSpace :: (body ++ cRBrace :: post) :=
    drop_at line pre _ idx hline hidx
  have hfind : findChar cSpace (line.drop idx) = some (cs.length + 1) := by
    rw [hdrop, findChar_append _ _ _ hsp]; rfl
  have hdrop1 : line.drop (idx + 1) = cs ++ cSpace :: (body ++ cRBrace :: post) :=
    drop_at line (pre ++ [cLBrace]) (cs ++ cSpace :: (body ++ cRBrace :: post)) (idx + 1)
      (by rw [hline]; simp) (by simp [hidx])
  have hhead : ((line.drop (idx + 1)).take (cs.length + 1 - 1)) = cs := by
    rw [hdrop1]; simp
  have helem : jaCombinators.elem cs = false := by
    cases h : jaCombinators.elem cs with
    | false => rfl
    | true => exact absurd ((elem_combinators cs).1 h) hnc
  have hc0 : charAt line idx = .ok cLBrace :=
    charAt_at line pre (cs ++ cSpace :: (body ++ cRBrace :: post)) _ idx (by rw [hline]; simp) hidx
  have hn1 : jaNext line idx cSpace = (cLBrace :: cs, idx + (cLBrace :: cs).length + 1) :=
    jaNext_at line pre _ _ _ idx hline hidx hsp
  have hn2 : jaNext line (idx + (cLBrace :: cs).length + 1) cRBrace =
      (body, idx + (cLBrace :: cs).length + 1 + body.length + 1) :=
    jaNext_at line (pre ++ (cLBrace :: cs) ++ [cSpace]) body post _ _
      (by rw [hline]; simp) (by simp [hidx]; omega) hbody
  rw [jaNode]
  simp only [hfind, hhead, helem, Bool.false_eq_true, if_false, hc0, bne_self_eq_false, hn1,
    List.drop_succ_cons, List.drop_zero, hparse, hn2, hsplit]
  simp only [List.length_cons]
  congr 3
  omega

/-- `parse_tree` on `{sym cat {…`, up to the children -/
theorem jaNode_tree (line pre y cs rest : Str) (idx fuel : Nat) (toks : List Token) (cat : Cat)
    (children : List Tree) (i3 : Nat) (toks' : List Token) (pre3 post3 : Str)
    (hline : line = pre ++ (cLBrace :: y ++ cSpace :: (cs ++ cSpace :: cLBrace :: rest)))
    (hidx : idx = pre.length) (hy : y ∈ jaCombinators) (hcs : cSpace ∉ cs)
    (hparse : Cat.parse (stripDeps cs) = .ok cat)
    (hch : jaChildren line fuel (idx + (y.length + cs.length + 3)) toks [] = .ok (children, i3, toks'))
    (hline3 : line = pre3 ++ cRBrace :: post3) (hi3 : i3 = pre3.length) :
    jaNode line (fuel + 1) idx toks =
      match (generalizing := false) children with
      | [ch] => .ok (.un cat y y ch, i3 + 1, toks')
      | [l, r] => .ok (.bin cat y y true l r, i3 + 1, toks')
      | _ => .error .assertion := by
  have hsp : cSpace ∉ cLBrace :: y := by
    intro hm
    rcases List.mem_cons.1 hm with hm | hm
    · exact absurd hm (by decide)
    · exact combinators_noSpace y hy hm
  have hdrop : line.drop idx = (cLBrace :: y) ++ cSpace :: (cs ++ cSpace :: cLBrace :: rest) :=
    drop_at line pre _ idx hline hidx
  have hfind : findChar cSpace (line.drop idx) = some (y.length + 1) := by
    rw [hdrop, findChar_append _ _ _ hsp]; rfl
  have hdrop1 : line.drop (idx + 1) = y ++ cSpace :: (cs ++ cSpace :: cLBrace :: rest) :=
    drop_at line (pre ++ [cLBrace]) (y ++ cSpace :: (cs ++ cSpace :: cLBrace :: rest)) (idx + 1)
      (by rw [hline]; simp) (by simp [hidx])
  have hhead : ((line.drop (idx + 1)).take (y.length + 1 - 1)) = y := by
    rw [hdrop1]; simp
  have helem : jaCombinators.elem y = true := (elem_combinators y).2 hy
  have hc0 : charAt line idx = .ok cLBrace :=
    charAt_at line pre (y ++ cSpace :: (cs ++ cSpace :: cLBrace :: rest)) _ idx
      (by rw [hline]; simp) hidx
  have hn1 : jaNext line idx cSpace = (cLBrace :: y, idx + (cLBrace :: y).length + 1) :=
    jaNext_at line pre _ _ _ idx hline hidx hsp
  have hn2 : jaNext line (idx + (cLBrace :: y).length + 1) cSpace =
      (cs, idx + (cLBrace :: y).length + 1 + cs.length + 1) :=
    jaNext_at line (pre ++ (cLBrace :: y) ++ [cSpace]) cs (cLBrace :: rest) _ _
      (by rw [hline]; simp) (by simp [hidx]; omega) hcs
  have hi2 : idx + (cLBrace :: y).length + 1 + cs.length + 1 = idx + (y.length + cs.length + 3) := by
    simp only [List.length_cons]; omega
  have hc1 : charAt line (idx + (y.length + cs.length + 3)) = .ok cLBrace :=
    charAt_at line (pre ++ (cLBrace :: y) ++ [cSpace] ++ cs ++ [cSpace]) rest _ _
      (by rw [hline]; simp) (by simp [hidx]; omega)
  have hn3 : jaNext line i3 cRBrace = ([], i3 + 1) := by
    have := jaNext_at line pre3 [] post3 cRBrace i3 (by simpa using hline3) hi3 (by simp)
    simpa using this
  rw [jaNode]
  simp only [hfind, hhead, helem, if_true, hc0, bne_self_eq_false, Bool.false_eq_true, if_false,
    hn1, List.drop_succ_cons, List.drop_zero, hn2, hparse, hi2, hc1, hch, hn3]
  rfl

/-! ### the children loop -/

theorem jaChildren_end (line pre post : Str) (idx fuel : Nat) (toks : List Token)
    (acc : List Tree) (hline : line = pre ++ cRBrace :: post) (hidx : idx = pre.length) :
    jaChildren line (fuel + 1) idx toks acc = .ok (acc, idx, toks) := by
  rw [jaChildren, charAt_at line pre post _ idx hline hidx]
  simp

theorem jaChildren_step (line : Str) (fuel idx : Nat) (toks : List Token) (acc : List Tree)
    (c : Nat) (t : Tree) (idx' : Nat) (toks' : List Token) (c' : Nat)
    (h0 : charAt line idx = .ok c) (hc : c ≠ cRBrace)
    (hn : jaNode line fuel idx toks = .ok (t, idx', toks'))
    (h1 : charAt line idx' = .ok c') :
    jaChildren line (fuel + 1) idx toks acc =
      jaChildren line fuel (if c' == cSpace then (jaNext line idx' cSpace).2 else idx') toks'
        (acc ++ [t]) := by
  rw [jaChildren, h0]
  simp only [beq_iff_eq, hc, if_false, hn, h1]

/-! ### the printed text -/

def nodes : Tree → Nat
  | .leaf .. => 1
  | .un _ _ _ ch => nodes ch + 1
  | .bin _ _ _ _ l r => nodes l + nodes r + 1

theorem nodes_pos (t : Tree) : 1 ≤ nodes t := by
  cases t <;> simp [nodes]

theorem jaOf_head : ∀ (t : Tree) (s : Str), jaOf t = .ok s → ∃ r, s = cLBrace :: r := by
  intro t s h
  cases t with
  | leaf c tok sS sY =>
    simp only [jaOf] at h
    split at h
    · exact absurd h (by simp)
    · injection h with h; subst h; exact ⟨_, rfl⟩
  | un c sS sY ch =>
    simp only [jaOf] at h
    split at h
    · exact absurd h (by simp)
    · injection h with h; subst h; exact ⟨_, rfl⟩
  | bin c sS sY hd l r =>
    simp only [jaOf] at h
    split at h
    · injection h with h; subst h; exact ⟨_, rfl⟩
    · exact absurd h (by simp)
    · exact absurd h (by simp)

theorem nodes_le_length : ∀ (t : Tree) (s : Str), jaOf t = .ok s → nodes t ≤ s.length := by
  intro t
  induction t with
  | leaf c tok sS sY =>
    intro s h
    obtain ⟨r, rfl⟩ := jaOf_head _ s h
    simp [nodes]
  | un c sS sY ch ih =>
    intro s h
    simp only [jaOf] at h
    cases hch : jaOf ch with
    | error e => simp [hch] at h
    | ok a =>
      simp only [hch] at h
      injection h with h
      have := ih a hch
      subst h
      simp [nodes]; omega
  | bin c sS sY hd l r ihl ihr =>
    intro s h
    simp only [jaOf] at h
    cases hl : jaOf l with
    | error e => simp [hl] at h
    | ok a =>
      cases hr : jaOf r with
      | error e => simp [hl, hr] at h
      | ok b =>
        simp only [hl, hr] at h
        injection h with h
        have := ihl a hl
        have := ihr b hr
        subst h
        simp [nodes]; omega

/-! ### the tokens the reader collects -/

def jaTokOf (tok : Token) : Token :=
  [(lit "surf", normalize (Token.getD tok (lit "word") [])),
   (lit "base", normalize (Token.getD tok (lit "word") [])),
   (lit "pos1", jaField tok ["pos", "pos1", "pos2", "pos3"]),
   (lit "pos2", (jaField tok ["inflectionForm", "inflectionType"]).dropLast)]

def jaToks : Tree → List Token
  | .leaf _ tok _ _ => [jaTokOf tok]
  | .un _ _ _ ch => jaToks ch
  | .bin _ _ _ _ l r => jaToks l ++ jaToks r

theorem splitOn_four (w1 w2 p i : Str) (h1 : cSlash ∉ w1) (h2 : cSlash ∉ w2) (h3 : cSlash ∉ p)
    (h4 : cSlash ∉ i) :
    splitOn cSlash (w1 ++ cSlash :: (w2 ++ cSlash :: (p ++ cSlash :: i))) = [w1, w2, p, i] := by
  rw [C05.splitOn_sep _ _ _ h1, C05.splitOn_sep _ _ _ h2, C05.splitOn_sep _ _ _ h3,
    C05.splitOn_last _ _ h4]

theorem dropLast_four (w1 w2 p i : Str) (x y z : Nat) (hi : i ≠ []) :
    (w1 ++ x :: (w2 ++ y :: (p ++ z :: i))).dropLast = w1 ++ x :: (w2 ++ y :: (p ++ z :: i.dropLast)) := by
  rw [List.dropLast_append_of_ne_nil (by simp), List.dropLast_cons_of_ne_nil (by simp),
    List.dropLast_append_of_ne_nil (by simp), List.dropLast_cons_of_ne_nil (by simp),
    List.dropLast_append_of_ne_nil (by simp), List.dropLast_cons_of_ne_nil hi]

theorem noneOf_notMem {bad : List Nat} {w : Str} (h : noneOf bad w) (c : Nat) (hc : c ∈ bad) :
    c ∉ w := fun hm => h c hm hc

/-! ### the round trip -/

theorem jaNode_spec : ∀ (t : Tree), AllCats JaCatOK t → AllToks JaTokOK t → AllToks JaInflOK t →
    SymOK t → ∀ s, jaOf t = .ok s →
    ∃ t', jaImage t = .ok t' ∧
      ∀ (fuel : Nat) (line pre post : Str) (idx : Nat) (toks : List Token),
        2 * nodes t ≤ fuel → line = pre ++ (s ++ post) → idx = pre.length →
        jaNode line fuel idx toks = .ok (t', idx + s.length, toks ++ jaToks t) := by
  intro t
  induction t with
  | leaf c tok sS sY =>
    intro hc htok hinfl _ s h
    obtain ⟨⟨w, hw, hwok⟩, hpos, hin⟩ := htok
    have hget := Token.get_of_get? hw
    simp only [jaOf, hget] at h
    injection h with h
    refine ⟨Tree.mkTerminal [(lit "word", normalize w)] c, by simp [jaImage, hget], ?_⟩
    intro fuel line pre post idx toks hfuel hline hidx
    obtain ⟨f, rfl⟩ : ∃ f, fuel = f + 1 := ⟨fuel - 1, by simp only [nodes] at hfuel; omega⟩
    have hcs := hc.2.1
    have hstrip : stripDeps (cutSuffix c.str) = c.str := by
      rw [cutSuffix_id _ (fun x hx hb => hcs x hx (by simp at hb; simp [hb])),
        stripDeps_id _ (fun x hx hb => hcs x hx (by simp at hb; simp [hb]))]
    have hparse : Cat.parse (stripDeps (cutSuffix c.str)) = .ok c := by
      rw [hstrip]; exact C05.parse_print c hc.1
    have hinfl' : jaField tok ["inflectionForm", "inflectionType"] ≠ [] := hinfl
    have hbody : cRBrace ∉ normalize w ++ cSlash :: (normalize w ++ cSlash ::
        (jaField tok ["pos", "pos1", "pos2", "pos3"] ++ cSlash ::
          jaField tok ["inflectionForm", "inflectionType"])) := by
      have a1 := noneOf_notMem hwok.2 cRBrace (by simp)
      have a2 := noneOf_notMem hpos cRBrace (by simp)
      have a3 := noneOf_notMem hin cRBrace (by simp)
      simp only [List.mem_append, List.mem_cons, not_or]
      exact ⟨a1, by decide, a1, by decide, a2, by decide, a3⟩
    have hsplit := splitOn_four (normalize w) (normalize w) (jaField tok ["pos", "pos1", "pos2", "pos3"])
      (jaField tok ["inflectionForm", "inflectionType"]).dropLast
      (noneOf_notMem hwok.2 cSlash (by simp)) (noneOf_notMem hwok.2 cSlash (by simp))
      (noneOf_notMem hpos cSlash (by simp))
      (fun hm => noneOf_notMem hin cSlash (by simp) (List.dropLast_subset _ hm))
    rw [← dropLast_four _ _ _ _ _ _ _ hinfl'] at hsplit
    have := jaNode_leaf line pre c.str _ post idx f toks c _ _ _ _
      (by rw [hline, ← h]; simp) hidx (catStr_noSpace c hc.1) hc.2.2 hparse hbody hsplit
    rw [this, ← h]
    simp only [jaToks, jaTokOf, Token.getD_of_get? hw]
    congr 2
    simp; omega
  | un c sS sY ch ih =>
    intro hc htok hinfl hsym s h
    simp only [jaOf] at h
    cases hch : jaOf ch with
    | error e => simp [hch] at h
    | ok a =>
      simp only [hch] at h
      injection h with h
      obtain ⟨ch', him, hspec⟩ := ih hc.2 htok hinfl hsym.2 a hch
      obtain ⟨ra, hra⟩ := jaOf_head ch a hch
      refine ⟨.un c sY sY ch', by simp [jaImage, him], ?_⟩
      intro fuel line pre post idx toks hfuel hline hidx
      simp only [nodes] at hfuel
      have hnp := nodes_pos ch
      obtain ⟨f, rfl⟩ : ∃ f, fuel = f + 1 + 1 + 1 := ⟨fuel - 3, by omega⟩
      have hcs := hc.1.2.1
      have hparse : Cat.parse (stripDeps c.str) = .ok c := by
        rw [stripDeps_id _ (fun x hx hb => hcs x hx (by simp at hb; simp [hb]))]
        exact C05.parse_print c hc.1.1
      -- positions
      let P2 := pre ++ (cLBrace :: sY ++ cSpace :: (c.str ++ [cSpace]))
      have hP2 : idx + (sY.length + c.str.length + 3) = P2.length := by
        simp [P2, hidx]; omega
      have hl2 : line = P2 ++ (a ++ (cRBrace :: post)) := by
        rw [hline, ← h]; simp [P2]
      -- the only child
      have hchild := hspec (f + 1) line P2 (cRBrace :: post) _ toks (by omega) hl2 hP2
      have hl3 : line = (P2 ++ a) ++ cRBrace :: post := by rw [hl2]; simp
      have hP3 : idx + (sY.length + c.str.length + 3) + a.length = (P2 ++ a).length := by
        rw [hP2]; simp
      have hstep := jaChildren_step line (f + 1) _ toks [] cLBrace ch' _ _ cRBrace
        (charAt_at line P2 (ra ++ cRBrace :: post) _ _ (by rw [hl2, hra]; simp) hP2)
        (by decide) hchild (charAt_at line (P2 ++ a) post _ _ hl3 hP3)
      have hend := jaChildren_end line (P2 ++ a) post _ f (toks ++ jaToks ch) ([] ++ [ch']) hl3 hP3
      have hcond : (if (cRBrace == cSpace) = true then
          (jaNext line (idx + (sY.length + c.str.length + 3) + a.length) cSpace).2
          else idx + (sY.length + c.str.length + 3) + a.length) =
          idx + (sY.length + c.str.length + 3) + a.length := by
        rw [if_neg (by decide)]
      rw [hcond, hend] at hstep
      have := jaNode_tree line pre sY c.str (ra ++ cRBrace :: post) idx (f + 1 + 1) toks c _ _ _
        (P2 ++ a) post (by rw [hline, ← h, hra]; simp) hidx hsym.1 (catStr_noSpace c hc.1.1)
        hparse hstep hl3 hP3
      rw [this]
      simp only [List.nil_append, jaToks]
      congr 2
      rw [← h]; simp; omega
  | bin c sS sY hd l r ihl ihr =>
    intro hc htok hinfl hsym s h
    simp only [jaOf] at h
    cases hl : jaOf l with
    | error e => simp [hl] at h
    | ok a =>
      cases hr : jaOf r with
      | error e => simp [hl, hr] at h
      | ok b =>
        simp only [hl, hr] at h
        injection h with h
        obtain ⟨l', himl, hspecl⟩ := ihl hc.2.1 htok.1 hinfl.1 hsym.2.1 a hl
        obtain ⟨r', himr, hspecr⟩ := ihr hc.2.2 htok.2 hinfl.2 hsym.2.2 b hr
        obtain ⟨ra, hra⟩ := jaOf_head l a hl
        obtain ⟨rb, hrb⟩ := jaOf_head r b hr
        refine ⟨.bin c sY sY true l' r', by simp [jaImage, himl, himr], ?_⟩
        intro fuel line pre post idx toks hfuel hline hidx
        simp only [nodes] at hfuel
        have hnl := nodes_pos l
        have hnr := nodes_pos r
        obtain ⟨f, rfl⟩ : ∃ f, fuel = f + 1 + 1 + 1 + 1 := ⟨fuel - 4, by omega⟩
        have hcs := hc.1.2.1
        have hparse : Cat.parse (stripDeps c.str) = .ok c := by
          rw [stripDeps_id _ (fun x hx hb => hcs x hx (by simp at hb; simp [hb]))]
          exact C05.parse_print c hc.1.1
        -- positions
        let P2 := pre ++ (cLBrace :: sY ++ cSpace :: (c.str ++ [cSpace]))
        have hP2 : idx + (sY.length + c.str.length + 3) = P2.length := by
          simp [P2, hidx]; omega
        have hl2 : line = P2 ++ (a ++ (cSpace :: b ++ cRBrace :: post)) := by
          rw [hline, ← h]; simp [P2]
        -- first child
        have hchild1 := hspecl (f + 1 + 1) line P2 (cSpace :: b ++ cRBrace :: post) _ toks
          (by omega) hl2 hP2
        have hl3 : line = (P2 ++ a) ++ cSpace :: (b ++ cRBrace :: post) := by rw [hl2]; simp
        have hP3 : idx + (sY.length + c.str.length + 3) + a.length = (P2 ++ a).length := by
          rw [hP2]; simp
        have hstep1 := jaChildren_step line (f + 1 + 1) _ toks [] cLBrace l' _ _ cSpace
          (charAt_at line P2 (ra ++ cSpace :: b ++ cRBrace :: post) _ _ (by rw [hl2, hra]; simp) hP2)
          (by decide) hchild1 (charAt_at line (P2 ++ a) _ _ _ hl3 hP3)
        have hnx : jaNext line (idx + (sY.length + c.str.length + 3) + a.length) cSpace =
            ([], idx + (sY.length + c.str.length + 3) + a.length + 1) := by
          have := jaNext_at line (P2 ++ a) [] (b ++ cRBrace :: post) cSpace _
            (by rw [hl3]; simp) hP3 (by simp)
          simpa using this
        have hcond : (if (cSpace == cSpace) = true then
            (jaNext line (idx + (sY.length + c.str.length + 3) + a.length) cSpace).2
            else idx + (sY.length + c.str.length + 3) + a.length) =
            idx + (sY.length + c.str.length + 3) + a.length + 1 := by
          rw [if_pos (by decide), hnx]
        rw [hcond] at hstep1
        -- second child
        have hl4 : line = (P2 ++ a ++ [cSpace]) ++ (b ++ (cRBrace :: post)) := by rw [hl2]; simp
        have hP4 : idx + (sY.length + c.str.length + 3) + a.length + 1 = (P2 ++ a ++ [cSpace]).length := by
          rw [hP3]; simp; omega
        have hchild2 := hspecr (f + 1) line (P2 ++ a ++ [cSpace]) (cRBrace :: post) _
          (toks ++ jaToks l) (by omega) hl4 hP4
        have hl5 : line = (P2 ++ a ++ [cSpace] ++ b) ++ cRBrace :: post := by rw [hl2]; simp
        have hP5 : idx + (sY.length + c.str.length + 3) + a.length + 1 + b.length =
            (P2 ++ a ++ [cSpace] ++ b).length := by
          rw [hP4]; simp; omega
        have hstep2 := jaChildren_step line (f + 1) _ (toks ++ jaToks l) ([] ++ [l']) cLBrace r' _ _
          cRBrace
          (charAt_at line (P2 ++ a ++ [cSpace]) (rb ++ cRBrace :: post) _ _ (by rw [hl4, hrb]; simp) hP4)
          (by decide) hchild2 (charAt_at line (P2 ++ a ++ [cSpace] ++ b) post _ _ hl5 hP5)
        have hcond2 : (if (cRBrace == cSpace) = true then
            (jaNext line (idx + (sY.length + c.str.length + 3) + a.length + 1 + b.length) cSpace).2
            else idx + (sY.length + c.str.length + 3) + a.length + 1 + b.length) =
            idx + (sY.length + c.str.length + 3) + a.length + 1 + b.length := by
          rw [if_neg (by decide)]
        have hend := jaChildren_end line (P2 ++ a ++ [cSpace] ++ b) post _ f
          (toks ++ jaToks l ++ jaToks r) ([] ++ [l'] ++ [r']) hl5 hP5
        rw [hcond2, hend] at hstep2
        rw [hstep2] at hstep1
        have := jaNode_tree line pre sY c.str (ra ++ cSpace :: b ++ cRBrace :: post) idx
          (f + 1 + 1 + 1) toks c _ _ _ (P2 ++ a ++ [cSpace] ++ b) post
          (by rw [hline, ← h, hra]; simp) hidx hsym.1 (catStr_noSpace c hc.1.1) hparse hstep1 hl5 hP5
        rw [this]
        simp only [List.nil_append, List.cons_append, jaToks, List.append_assoc]
        congr 2
        rw [← h]; simp; omega

theorem jaToks_surf : ∀ (t t' : Tree), AllToks JaTokOK t → jaImage t = .ok t' →
    (jaToks t).map (fun tok => Token.getD tok (lit "surf") []) =
      t'.tokens.map (fun tok => Token.getD tok (lit "word") []) := by
  intro t
  induction t with
  | leaf c tok sS sY =>
    intro t' htok h
    obtain ⟨⟨w, hw, _⟩, _, _⟩ := htok
    simp only [jaImage, Token.get_of_get? hw] at h
    injection h with h
    subst h
    simp only [jaToks, jaTokOf, Token.getD_of_get? hw, Tree.mkTerminal, Tree.tokens, List.map]
    rfl
  | un c sS sY ch ih =>
    intro t' htok h
    simp only [jaImage] at h
    cases hch : jaImage ch with
    | error e => simp [hch] at h
    | ok ch' =>
      simp only [hch] at h
      injection h with h
      subst h
      exact ih ch' htok hch
  | bin c sS sY hd l r ihl ihr =>
    intro t' htok h
    simp only [jaImage] at h
    cases hl : jaImage l with
    | error e => simp [hl] at h
    | ok l' =>
      cases hr : jaImage r with
      | error e => simp [hl, hr] at h
      | ok r' =>
        simp only [hl, hr] at h
        injection h with h
        subst h
        simp only [jaToks, Tree.tokens, List.map_append, ihl l' htok.1 hl, ihr r' htok.2 hr]

theorem ja_roundtrip_main (t : Tree) (s : Str) (hc : AllCats JaCatOK t) (htok : AllToks JaTokOK t)
    (hinfl : AllToks JaInflOK t) (hsym : SymOK t) (h : jaOf t = .ok s) :
    ∃ t' toks, jaImage t = .ok t' ∧ readJaLine s = .ok (t', toks) ∧
      toks.map (fun tok => Token.getD tok (lit "surf") []) =
        t'.tokens.map (fun tok => Token.getD tok (lit "word") []) := by
  obtain ⟨t', him, hspec⟩ := jaNode_spec t hc htok hinfl hsym s h
  refine ⟨t', jaToks t, him, ?_, jaToks_surf t t' htok him⟩
  have hn := nodes_le_length t s h
  have := hspec (2 * s.length + 2) s [] [] 0 [] (by omega) (by simp) rfl
  unfold readJaLine
  rw [this]
  simp

end Depccg.C20
