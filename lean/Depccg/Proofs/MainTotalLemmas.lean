/-
  Helper lemmas for `Depccg/Props/MainTotal.lean` (C19 at the level of the program): the tokens the
  input side builds have a word, the trees of a lazy run over a shipped grammar carry only labels
  the Prolog printers know, every sentence of a call gets a result, and `printText` is total on
  such results.
-/
import Depccg.Props.MainTotalDefs
import Depccg.Props.MainTotalDefs2
import Depccg.Props.Cli
import Depccg.Props.C19
import Depccg.Props.C03
import Depccg.Props.C04
import Depccg.Props.OutputWF
import Depccg.Props.Closure
import Depccg.Props.LazySearch
import Depccg.Props.C07Html

namespace Depccg.CliProps
open Depccg Str Search SearchProps GlueTree GlueRun Lazy Print Cli LazyProps GlueRunProps TextProps

/-! ### tokens with a word -/

theorem mt_hasWord_ofWord (w : Str) : C19.HasWord (Token.ofWord w) := ⟨w, rfl⟩

theorem mt_hasWord_ofPiped {s : Str} {tok : Token} (h : ofPiped s = .ok tok) : C19.HasWord tok := by
  unfold ofPiped at h
  split at h
  · cases h; exact ⟨_, rfl⟩
  · cases h; exact ⟨_, rfl⟩
  · cases h; exact ⟨_, rfl⟩
  · cases h

/-- `mapExcept` succeeds with results that all come from elements of the list -/
theorem mt_mapExcept_mem {α β : Type} (f : α → Except Err β) :
    ∀ (l : List α) (ys : List β), Cli.mapExcept f l = .ok ys → ∀ y ∈ ys, ∃ x ∈ l, f x = .ok y
  | [], ys, h, y, hy => by
    simp only [Cli.mapExcept, Except.ok.injEq] at h
    subst h
    cases hy
  | x :: xs, ys, h, y, hy => by
    simp only [Cli.mapExcept] at h
    split at h
    · cases h
    · rename_i y0 hy0
      split at h
      · cases h
      · rename_i ys0 hys0
        simp only [Except.ok.injEq] at h
        subst h
        rcases List.mem_cons.1 hy with rfl | hy
        · exact ⟨x, List.mem_cons_self, hy0⟩
        · obtain ⟨x', hx', h'⟩ := mt_mapExcept_mem f xs ys0 hys0 y hy
          exact ⟨x', List.mem_cons_of_mem _ hx', h'⟩

/-- `mapExcept` succeeds as soon as the function does on every element -/
theorem mt_mapExcept_total {α β : Type} (f : α → Except Err β) :
    ∀ (l : List α), (∀ x ∈ l, ∃ y, f x = .ok y) → ∃ ys, Cli.mapExcept f l = .ok ys
  | [], _ => ⟨_, rfl⟩
  | x :: xs, h => by
    obtain ⟨y, hy⟩ := h x List.mem_cons_self
    obtain ⟨ys, hys⟩ := mt_mapExcept_total f xs fun z hz => h z (List.mem_cons_of_mem _ hz)
    simp only [Cli.mapExcept, hy, hys]
    exact ⟨_, rfl⟩

theorem mt_tokensOfLine_hasWord {piped : Bool} {line : Str} {toks : List Token}
    (h : tokensOfLine piped line = .ok toks) : ∀ tok ∈ toks, C19.HasWord tok := by
  intro tok htok
  obtain ⟨w, -, hw⟩ := mt_mapExcept_mem _ _ _ h tok htok
  cases piped
  · simp only [Bool.false_eq_true, if_false, Except.ok.injEq] at hw
    subst hw
    exact mt_hasWord_ofWord w
  · simp only [if_true] at hw
    exact mt_hasWord_ofPiped hw

theorem mt_doc_hasWord {piped : Bool} {lines : List Str} {doc : List (List Token)}
    (h : Cli.mapExcept (tokensOfLine piped) lines = .ok doc) :
    ∀ toks ∈ doc, ∀ tok ∈ toks, C19.HasWord tok := by
  intro toks htoks
  obtain ⟨line, -, hl⟩ := mt_mapExcept_mem _ _ _ h toks htoks
  exact mt_tokensOfLine_hasWord hl

theorem mt_zipSents_tokens : ∀ (doc : List (List Token)) (scores : List Scores),
    ∀ x ∈ zipSents doc scores, x.tokens ∈ doc
  | [], _, x, hx => by simp [zipSents] at hx
  | _ :: _, [], x, hx => by simp [zipSents] at hx
  | toks :: ts, s :: ss, x, hx => by
    simp only [zipSents, List.mem_cons] at hx
    rcases hx with rfl | hx
    · exact List.mem_cons_self
    · exact List.mem_cons_of_mem _ (mt_zipSents_tokens ts ss x hx)

/-- a property of all tokens of the leaves is a property of the tree -/
theorem mt_allToks_of_tokens {p : Token → Prop} : ∀ (t : Tree), (∀ tok ∈ t.tokens, p tok) → AllToks p t
  | .leaf _ tok _ _, h => h tok (by simp [Tree.tokens])
  | .un _ _ _ ch, h => mt_allToks_of_tokens ch h
  | .bin _ _ _ _ l r, h =>
    ⟨mt_allToks_of_tokens l fun tok ht => h tok (by simp [Tree.tokens, ht]),
     mt_allToks_of_tokens r fun tok ht => h tok (by simp [Tree.tokens, ht])⟩

/-! ### the labels of the English grammar and the English Prolog printer -/

/-- a well-formed category that prints as `NP\NP` is the functor, not an atom of that name -/
theorem mt_wf_str_npnp : ∀ {c : Cat}, C05.WF c → c.str = lit "NP\\NP" → c.isFunctor = true
  | .fn .., _, _ => rfl
  | .atom b f, hwf, h => by
    exfalso
    simp only [Cat.str] at h
    split at h
    · subst h
      have := hwf.1.2 cBSlash (by decide)
      revert this
      decide
    · have : cLBr ∈ lit "NP\\NP" := by
        rw [← h]
        simp
      revert this
      decide

theorem mt_conj_functor {x y : Cat} {r : RuleRes} (h : En.conjunction x y = .ok (some r)) :
    r.cat.isFunctor = true := by
  unfold En.conjunction at h
  split at h
  · cases h
  · split at h
    · rw [C03.mk_inv h]
      rfl
    · cases h

theorem mt_conj2_cat {x y : Cat} {r : RuleRes} (h : En.conjunction2 x y = .ok (some r)) :
    r.cat.str = lit "NP\\NP" := by
  unfold En.conjunction2 at h
  split at h
  · rename_i hc
    simp only [Bool.and_eq_true, C03.pyEqStr_iff] at hc
    rw [C03.mk_inv h]
    exact hc.2
  · cases h

/-- a result labelled `conj` has a functor category as soon as its category is well-formed -/
theorem mt_comb_conj {c : En.Comb} (hc : c ∈ En.combinators) {x y : Cat} {r : RuleRes}
    (h : c x y = .ok (some r)) (hl : r.opString = lit "conj") (hwf : C05.WF r.cat) :
    r.cat.isFunctor = true := by
  rcases C03.mem_combinators hc with rfl | rfl | rfl | rfl | rfl | rfl | rfl | rfl | rfl | rfl | rfl | rfl | rfl
  · obtain ⟨k, rfl⟩ := C03.label_fa _ _ _ h
    exact absurd (show lit "fa" = lit "conj" from hl) (by decide)
  · obtain ⟨k, rfl⟩ := C03.label_ba _ _ _ h
    exact absurd (show lit "ba" = lit "conj" from hl) (by decide)
  · obtain ⟨k, rfl⟩ := C03.label_fc _ _ _ h
    exact absurd (show lit "fc" = lit "conj" from hl) (by decide)
  · obtain ⟨k, rfl⟩ := C03.label_bx _ _ _ h
    exact absurd (show lit "bx" = lit "conj" from hl) (by decide)
  · obtain ⟨k, rfl⟩ := C03.label_gfc _ _ _ h
    exact absurd (show lit "gfc" = lit "conj" from hl) (by decide)
  · obtain ⟨k, rfl⟩ := C03.label_gbx _ _ _ h
    exact absurd (show lit "gbx" = lit "conj" from hl) (by decide)
  · exact mt_conj_functor h
  · exact mt_wf_str_npnp hwf (mt_conj2_cat h)
  · obtain ⟨k, rfl⟩ := C03.label_rp1 _ _ _ h
    exact absurd (show lit "lp" = lit "conj" from hl) (by decide)
  · obtain ⟨k, rfl⟩ := C03.label_rp2 _ _ _ h
    exact absurd (show lit "rp" = lit "conj" from hl) (by decide)
  · obtain ⟨k, rfl⟩ := C03.label_rpl _ _ _ h
    exact absurd (show lit "lp" = lit "conj" from hl) (by decide)
  · obtain ⟨k, rfl⟩ := C03.label_comma _ _ _ h
    exact absurd (show lit "lp" = lit "conj" from hl) (by decide)
  · obtain ⟨k, rfl⟩ := C03.label_pds _ _ _ h
    exact absurd (show lit "lp" = lit "conj" from hl) (by decide)

/-- what the English Prolog printer asks of a binary node, for a result of the English grammar -/
theorem mt_en_res_ok {seen : Option (List (Cat × Cat))} {x y : Cat} {rs : List RuleRes}
    (h : En.applyBinary seen x y = .ok rs) {r : RuleRes} (hr : r ∈ rs) :
    (Dict.get? Print.opMapping r.opString).isSome ∧
      (r.opString = lit "conj" → C05.WF r.cat → r.cat.isFunctor = true) := by
  constructor
  · apply C19.en_labels_ok
    exact List.mem_map.2 ⟨_, C03.en_labels_closed seen x y rs h r hr, rfl⟩
  · intro hl hwf
    obtain ⟨c, hc, hcr⟩ := C03.applyBinary_mem (C14.clear_nb_eq x) (C14.clear_nb_eq y) h hr
    exact mt_comb_conj hc hcr hl hwf

/-- a tree licensed by the English grammar whose categories are well-formed is acceptable to the
    English Prolog printer -/
theorem mt_en_prologOK {seen : Option (List (Cat × Cat))} {table : List (Cat × List Cat)} {t : Tree}
    (hl : EndToEnd.TreeLicensed (EndToEnd.enGrammar seen table) t) :
    AllCats C05.WF t → C19.EnPrologOK t := by
  induction hl with
  | leaf c tok => intro _; trivial
  | un c opS opY ch r _ _ _ _ _ ih => intro hw; exact ih hw.2
  | bin c opS opY hd l r res _ _ hmem hcat hos _ _ ihl ihr =>
    intro hw
    simp only [EndToEnd.enGrammar] at hmem
    split at hmem
    · rename_i rs hrs
      obtain ⟨h1, h2⟩ := mt_en_res_ok hrs hmem
      subst hcat hos
      exact ⟨h1, fun e => h2 e hw.1, ihl hw.2.1, ihr hw.2.2⟩
    · cases hmem

/-! ### the symbols of the Japanese grammar and the Japanese Prolog printer -/

theorem mt_ja_prologOK {seen : Option (List (Cat × Cat))} {table : List (Cat × List Cat)} {t : Tree}
    (hl : EndToEnd.TreeLicensed (EndToEnd.jaGrammar seen table) t) : C19.JaPrologOK t := by
  induction hl with
  | leaf c tok => trivial
  | un c opS opY ch r _ hmem _ _ hoy ih =>
    simp only [EndToEnd.jaGrammar] at hmem
    split at hmem
    · rename_i rs hrs
      subst hoy
      refine ⟨C19.ja_symbols_ok _ ?_, ih⟩
      exact List.mem_append_right _ (C04.ja_unary_labels_closed table _ rs hrs r hmem).1
    · cases hmem
  | bin c opS opY hd l r res _ _ hmem _ _ hoy _ ihl ihr =>
    simp only [EndToEnd.jaGrammar] at hmem
    split at hmem
    · rename_i rs hrs
      subst hoy
      refine ⟨C19.ja_symbols_ok _ ?_, ihl, ihr⟩
      exact List.mem_append_left _ (List.mem_map.2 ⟨_, C04.ja_labels_closed seen _ _ rs hrs res hmem, rfl⟩)
    · cases hmem

/-! ### the trees of a sentence -/

/-- every tree of a parsed sentence, after any history: licensed by the rule functions, over the
    sentence's tokens, its lexical categories among the caller's -/
theorem mt_sentence_trees {G : GlueRun.CatGrammar} {categories roots : List Cat} {calls : List Call}
    {cfg : Cfg} {maxLength : Option Nat} {x : SentIn} {trees : List (Tree × Int)}
    (hnd : categories.Nodup) (hlex : LexOK categories x)
    (h : (sentenceL pickHeap G (addRoots categories roots).2 cfg maxLength
        (calls.foldl (GlueRun.step G) (GlueRun.init categories roots)) x).1 = .ok (.parsed trees)) :
    ∀ ts ∈ trees, EndToEnd.TreeLicensed (toE2E G) ts.1 ∧ ts.1.tokens = x.tokens ∧
      ∀ c ∈ Closure.leafCats ts.1, c ∈ categories := by
  intro ts hts
  obtain ⟨h1, h3⟩ := OutputWF.ow_sentence_trees hnd hlex h ts hts
  refine ⟨h1, ?_, h3⟩
  have htr := OutputWF.ow_sentenceL_parsed h
  obtain ⟨r, hr, hret⟩ := OutputWF.ow_treesOf_mem _ _ _ _ htr ts hts
  obtain ⟨hinv0, -⟩ := gr_run_inv' G calls _ (init_inv' G categories roots hnd)
  exact (lazy_trees_licensed pickHeap G _ (sentOf (addRoots categories roots).2 x) cfg x.tokens
    pickHeap_ok hinv0 rfl r hr ts.1 hret).2.1

/-- `ResultsRenderStatement'` -/
theorem mt_results_render : ResultsRenderStatement' := by
  intro en seen table categories roots calls cfg maxLength x r hnd hlex hword h ts hts
  cases r with
  | failed =>
    simp only [scored, List.mem_singleton] at hts
    subst hts
    exact ⟨C19.placeholder_renders.1, fun _ _ _ => C19.placeholder_renders.2.1,
      fun _ => C19.placeholder_renders.2.2⟩
  | parsed trees =>
    simp only [scored, List.mem_map] at hts
    obtain ⟨p, hp, rfl⟩ := hts
    obtain ⟨hlic, htok, hleaf⟩ := mt_sentence_trees hnd hlex h p hp
    rw [OutputWF.ow_toE2E_shipped] at hlic
    refine ⟨mt_allToks_of_tokens _ (by rw [htok]; exact hword), ?_, ?_⟩
    · intro hen htab hcats
      subst hen
      have hwf : AllCats C05.WF p.1 :=
        Closure.licensed_tree_wf _ p.1 (Closure.shipped_closed seen table htab).1 hlic
          (fun c hc => hcats c (hleaf c hc))
      exact mt_en_prologOK hlic hwf
    · intro hen
      subst hen
      exact mt_ja_prologOK hlic

/-! ### every sentence gets a result -/

theorem mt_sentenceL_go_ok {G : GlueRun.CatGrammar} {rootIds : List Nat} {cfg : Cfg} {gst : GSt} {x : SentIn}
    (h : Ready G gst (sentOf rootIds x)) : ∃ r, (sentenceL.go pickHeap G rootIds cfg gst x).1 = .ok r := by
  obtain ⟨ts, hts⟩ := lazy_retrieve_total pickHeap G gst (sentOf rootIds x) cfg x.tokens pickHeap_ok h.inv rfl h.lex
  simp only [sentenceL.go]
  split
  · exact ⟨_, rfl⟩
  · simp only [hts]
    exact ⟨_, rfl⟩

theorem mt_sentenceL_ok {G : GlueRun.CatGrammar} {rootIds : List Nat} {cfg : Cfg} {maxLength : Option Nat}
    {gst : GSt} {x : SentIn} (h : Ready G gst (sentOf rootIds x)) :
    ∃ r, (sentenceL pickHeap G rootIds cfg maxLength gst x).1 = .ok r := by
  simp only [sentenceL]
  split
  · split
    · exact ⟨_, rfl⟩
    · exact mt_sentenceL_go_ok h
  · exact mt_sentenceL_go_ok h

/-! ### no sentence comes back with an empty list of trees -/

/-- the finaliser makes one tree per goal item -/
theorem mt_treesOf_length (gst : GSt) (tokens : List Token) :
    ∀ (rs : List Item) (ts : List (Tree × Int)), treesOf gst tokens rs = .ok ts → ts.length = rs.length := by
  intro rs
  induction rs with
  | nil =>
    intro ts h
    simp only [treesOf] at h
    cases h
    rfl
  | cons r rs ih =>
    intro ts h
    simp only [treesOf] at h
    split at h
    · cases h
    · split at h
      · cases h
      · rename_i ts' hts'
        cases h
        simp only [List.length_cons, ih ts' hts']

theorem mt_sentenceL_go_nonempty {pick : Pick} {G : GlueRun.CatGrammar} {rootIds : List Nat} {cfg : Cfg}
    {gst : GSt} {x : SentIn} {r : SentResult}
    (h : (sentenceL.go pick G rootIds cfg gst x).1 = .ok r) : r ≠ .parsed [] := by
  simp only [sentenceL.go] at h
  split at h
  · cases h
    intro e
    cases e
  · rename_i hne
    split at h
    · cases h
    · rename_i ts hts
      cases h
      intro e
      simp only [SentResult.parsed.injEq] at e
      subst e
      have hl := mt_treesOf_length _ _ _ _ hts
      apply hne
      rw [List.isEmpty_iff]
      exact List.eq_nil_of_length_eq_zero hl.symm

/-- whatever the grammar, the history and the sentence: a result of `sentenceL` is the placeholder
    or a non-empty list of trees (`run` never appends an empty list) -/
theorem mt_sentenceL_nonempty {pick : Pick} {G : GlueRun.CatGrammar} {rootIds : List Nat} {cfg : Cfg}
    {maxLength : Option Nat} {gst : GSt} {x : SentIn} {r : SentResult}
    (h : (sentenceL pick G rootIds cfg maxLength gst x).1 = .ok r) : r ≠ .parsed [] := by
  simp only [sentenceL] at h
  split at h
  · split at h
    · cases h
      intro e
      cases e
    · exact mt_sentenceL_go_nonempty h
  · exact mt_sentenceL_go_nonempty h

theorem mt_scoredK_ne {r : SentResult} (h : r ≠ .parsed []) : scoredK r ≠ [] := by
  cases r with
  | failed => simp [scoredK]
  | parsed ts =>
    cases ts with
    | nil => exact absurd rfl h
    | cons p ps => simp [scoredK]

/-- the trees `json` and `html` see are the trees the record formats see -/
theorem mt_mem_scoredK {r : SentResult} {p : Tree × Option Int} (h : p ∈ scoredK r) :
    ∃ ts ∈ scored r, ts.1 = p.1 := by
  cases r with
  | failed =>
    simp only [scoredK, List.mem_singleton] at h
    subst h
    exact ⟨_, List.mem_singleton.2 rfl, rfl⟩
  | parsed trees =>
    simp only [scoredK, List.mem_map] at h
    obtain ⟨q, hq, rfl⟩ := h
    exact ⟨_, List.mem_map.2 ⟨q, hq, rfl⟩, rfl⟩

/-! ### the html format -/

theorem mt_tokens_of_allToks {p : Token → Prop} : ∀ (t : Tree), AllToks p t → ∀ tok ∈ t.tokens, p tok
  | .leaf _ _ _ _, h, tok, hm => by
    simp only [Tree.tokens, List.mem_singleton] at hm
    rw [hm]
    exact h
  | .un _ _ _ ch, h, tok, hm => mt_tokens_of_allToks ch h tok hm
  | .bin _ _ _ _ l r, h, tok, hm => by
    rcases List.mem_append.1 hm with hm | hm
    · exact mt_tokens_of_allToks l h.1 tok hm
    · exact mt_tokens_of_allToks r h.2 tok hm

theorem mt_words_total : ∀ (toks : List Token), (∀ tok ∈ toks, C19.HasWord tok) →
    ∃ ws, Tree.words toks = .ok ws
  | [], _ => ⟨_, rfl⟩
  | t :: ts, h => by
    obtain ⟨w, hw⟩ := C19.get_of_hasWord (h t List.mem_cons_self)
    obtain ⟨ws, hws⟩ := mt_words_total ts fun z hz => h z (List.mem_cons_of_mem _ hz)
    simp only [Tree.words, hw, hws]
    exact ⟨_, rfl⟩

/-- `tree.word` (the sentence line of the html page) -/
theorem mt_word_total (t : Tree) (h : AllToks C19.HasWord t) : ∃ s, Tree.word t = .ok s := by
  obtain ⟨ws, hws⟩ := mt_words_total _ (mt_tokens_of_allToks t h)
  simp only [Tree.word, hws]
  exact ⟨_, rfl⟩

/-- C07 `html_total` in the terms of this file -/
theorem mt_mathmlSubtree_total (t : Tree) (h : AllToks C19.HasWord t) : ∃ s, mathmlSubtree t = .ok s :=
  C07.html_total t fun tok ht => by
    obtain ⟨w, hw⟩ := mt_tokens_of_allToks t h tok ht
    rw [hw]
    rfl

theorem mt_mathmlSentence_total (p : Nat × List (Tree × Option Str)) (hne : p.2 ≠ [])
    (hw : ∀ q ∈ p.2, AllToks C19.HasWord q.1) : ∃ s, mathmlSentence p = .ok s := by
  obtain ⟨i, l⟩ := p
  cases l with
  | nil => exact absurd rfl hne
  | cons q qs =>
    obtain ⟨t0, pr⟩ := q
    obtain ⟨ws, hws⟩ := mt_word_total t0 (hw _ List.mem_cons_self)
    obtain ⟨body, hb⟩ := C19.catExcept_total mathmlEntry ((t0, pr) :: qs) (by
      intro q hq
      obtain ⟨s, hs⟩ := mt_mathmlSubtree_total q.1 (hw q hq)
      simp only [mathmlEntry, hs]
      exact ⟨_, rfl⟩)
    simp only [mathmlSentence, hws, hb]
    exact ⟨_, rfl⟩

theorem mt_mem_numberFrom {α : Type} : ∀ (i : Nat) (xs : List α) (p : Nat × α), p ∈ numberFrom i xs → p.2 ∈ xs
  | _, [], p, h => by simp [numberFrom] at h
  | i, x :: xs, p, h => by
    simp only [numberFrom, List.mem_cons] at h
    rcases h with rfl | h
    · exact List.mem_cons_self
    · exact List.mem_cons_of_mem _ (mt_mem_numberFrom (i + 1) xs p h)

/-- `to_mathml` is total on a batch without empty sentences whose tokens all have a word -/
theorem mt_toMathml_total (batch : List (List (Tree × Option Str)))
    (h : ∀ l ∈ batch, l ≠ [] ∧ ∀ q ∈ l, AllToks C19.HasWord q.1) : ∃ s, toMathml batch = .ok s := by
  obtain ⟨body, hb⟩ := C19.catExcept_total mathmlSentence (numberFrom 1 batch) (by
    intro p hp
    obtain ⟨h1, h2⟩ := h p.2 (mt_mem_numberFrom _ _ p hp)
    exact mt_mathmlSentence_total p h1 h2)
  simp only [toMathml, hb]
  exact ⟨_, rfl⟩

/-! ### `printText` on results that render -/

theorem mt_fmt_total (f : Fmt) (t : Tree) (h : AllToks C19.HasWord t) : ∃ s, f.fn t = .ok s := by
  obtain ⟨h1, h2, h3, h4, h5, h6⟩ := C19.text_render_total t h
  cases f
  · exact h1
  · exact h2
  · exact h3
  · exact h4
  · exact h6
  · exact h5
  · exact ⟨_, rfl⟩
  · exact ⟨_, rfl⟩
  · exact ⟨_, rfl⟩
  · exact ⟨_, rfl⟩
  · exact ⟨_, rfl⟩
  · exact ⟨_, rfl⟩
  · exact ⟨_, rfl⟩

theorem mt_addNewline_ok {r : Except Err Str} (h : ∃ s, r = .ok s) : ∃ s, addNewline r = .ok s := by
  obtain ⟨s, rfl⟩ := h
  exact ⟨_, rfl⟩

theorem mt_mem_treesOnly {results : List SentResult} {trees : List Tree} (h : trees ∈ treesOnly results)
    {t : Tree} (ht : t ∈ trees) : ∃ r ∈ results, ∃ ts ∈ scored r, ts.1 = t := by
  simp only [treesOnly, List.mem_map] at h
  obtain ⟨r, hr, rfl⟩ := h
  simp only [List.mem_map] at ht
  obtain ⟨ts, hts, rfl⟩ := ht
  exact ⟨r, hr, ts, hts, rfl⟩

/-- `print_` is total on results whose trees have words and, for the two Prolog formats, labels
    the printer knows; no result is an empty list of trees (`to_mathml` indexes `trees[0]`) -/
theorem mt_printText_total (f : Fmt) (results : List SentResult)
    (hx : f ≠ Fmt.xml ∧ f ≠ Fmt.jiggEn ∧ f ≠ Fmt.jiggJa)
    (hne : ∀ r ∈ results, r ≠ .parsed [])
    (hw : ∀ r ∈ results, ∀ ts ∈ scored r, AllToks C19.HasWord ts.1)
    (hen : f = Fmt.prologEn → ∀ r ∈ results, ∀ ts ∈ scored r, C19.EnPrologOK ts.1)
    (hja : f = Fmt.prologJa → ∀ r ∈ results, ∀ ts ∈ scored r, C19.JaPrologOK ts.1) :
    ∃ text, printText f results = .ok text := by
  have hrec : ∀ g : Fmt, ∃ text, (match toStringLines g.fn (g == Fmt.conll) (results.map scored) with
      | .error e => (.error e : Except Err Str)
      | .ok s => .ok (s ++ [10])) = .ok text := by
    intro g
    obtain ⟨s, hs⟩ := C19.batch_total g.fn (g == Fmt.conll) (results.map scored) (by
      intro trees htrees p hp
      obtain ⟨r, hr, rfl⟩ := List.mem_map.1 htrees
      exact mt_fmt_total g p.1 (hw r hr p hp))
    rw [hs]
    exact ⟨_, rfl⟩
  cases f
  case prologEn =>
    simp only [printText]
    apply mt_addNewline_ok
    apply C19.prolog_en_total
    intro trees htrees t ht
    obtain ⟨r, hr, ts, hts, rfl⟩ := mt_mem_treesOnly htrees ht
    exact ⟨hw r hr ts hts, hen rfl r hr ts hts⟩
  case prologJa =>
    simp only [printText]
    apply mt_addNewline_ok
    apply C19.prolog_ja_total
    intro trees htrees t ht
    obtain ⟨r, hr, ts, hts, rfl⟩ := mt_mem_treesOnly htrees ht
    exact ⟨hw r hr ts hts, hja rfl r hr ts hts⟩
  case json => exact ⟨_, rfl⟩
  case xml => exact absurd rfl hx.1
  case jiggEn => exact absurd rfl hx.2.1
  case jiggJa => exact absurd rfl hx.2.2
  case html =>
    simp only [printText]
    apply mt_addNewline_ok
    apply mt_toMathml_total
    intro l hl
    obtain ⟨r, hr, rfl⟩ := List.mem_map.1 hl
    refine ⟨fun e => mt_scoredK_ne (hne r hr) (List.map_eq_nil_iff.1 e), ?_⟩
    intro q hq
    obtain ⟨p, hp, rfl⟩ := List.mem_map.1 hq
    obtain ⟨ts, hts, e⟩ := mt_mem_scoredK hp
    show AllToks C19.HasWord p.1
    rw [← e]
    exact hw r hr ts hts
  all_goals (simp only [printText]; exact hrec _)

/-! ### the whole program -/

/-- `MainTotalStatement'` -/
theorem mt_main_total : MainTotalStatement' := by
  intro en seen table o lines tagCats scores roots categories doc hr hd hc hnd hlex hfit hwf
  have hready : ∀ x ∈ zipSents doc scores, ∃ r,
      (sentenceL pickHeap (OutputWF.shipped en seen table) (addRoots categories roots).2 o.cfg (some o.maxLength)
        (GlueRun.init categories roots) x).1 = .ok r := fun x hx =>
    mt_sentenceL_ok (ready_of_history _ categories roots [] x hnd (hlex x hx))
  obtain ⟨results, hres⟩ := mt_mapExcept_total _ _ hready
  rw [main_eq_map_solo _ o lines tagCats scores roots categories doc hr hd hc hnd hlex results hres]
  have hall : ∀ r ∈ results, ∀ ts ∈ scored r, AllToks C19.HasWord ts.1 ∧
      (en = true → Closure.TableWF table → (∀ c ∈ categories, C05.WF c) → C19.EnPrologOK ts.1) ∧
      (en = false → C19.JaPrologOK ts.1) := by
    intro r hr'
    obtain ⟨x, hx, hxr⟩ := mt_mapExcept_mem _ _ _ hres r hr'
    exact mt_results_render en seen table categories roots [] o.cfg (some o.maxLength) x r hnd (hlex x hx)
      (mt_doc_hasWord hd _ (mt_zipSents_tokens doc scores x hx)) hxr
  apply mt_printText_total
  · refine ⟨?_, ?_, ?_⟩ <;> (intro h; rw [h] at hfit; simp [fmtFits] at hfit)
  · intro r hr'
    obtain ⟨x, -, hxr⟩ := mt_mapExcept_mem _ _ _ hres r hr'
    exact mt_sentenceL_nonempty hxr
  · exact fun r hr' ts hts => (hall r hr' ts hts).1
  · intro hf r hr' ts hts
    rw [hf] at hfit
    obtain ⟨htab, hcats⟩ := hwf hf
    exact (hall r hr' ts hts).2.1 hfit htab hcats
  · intro hf r hr' ts hts
    rw [hf] at hfit
    refine (hall r hr' ts hts).2.2 ?_
    simpa [fmtFits] using hfit

end Depccg.CliProps
