/-
  Helper lemmas for C03 (the English combinatory rules are sound / complete on identical parts).
  Core Lean only.
-/
import Depccg.Props.C03Defs
import Depccg.Props.C06
import Depccg.Props.C14
import Depccg.Props.C13

namespace Depccg.C03
open Depccg Cat Str Unify C06

/-! ### running the combinators in order -/

theorem applyAll_mem {cs : List En.Comb} {x y : Cat} {rs : List RuleRes}
    (h : En.applyAll cs x y = .ok rs) {r : RuleRes} :
    r ∈ rs ↔ ∃ c ∈ cs, c x y = .ok (some r) := by
  induction cs generalizing rs with
  | nil =>
    simp only [En.applyAll, Except.ok.injEq] at h
    subst h
    simp
  | cons c cs ih =>
    simp only [En.applyAll] at h
    cases hc : c x y with
    | error e => rw [hc] at h; cases h
    | ok o =>
      rw [hc] at h
      simp only at h
      cases hrs : En.applyAll cs x y with
      | error e => rw [hrs] at h; cases h
      | ok rs' =>
        rw [hrs] at h
        simp only [Except.ok.injEq] at h
        subst h
        have ih' := ih hrs
        constructor
        · intro hr
          cases o with
          | none =>
            obtain ⟨c', hc', h'⟩ := ih'.1 hr
            exact ⟨c', List.mem_cons_of_mem _ hc', h'⟩
          | some v =>
            rcases List.mem_cons.1 hr with rfl | hr
            · exact ⟨c, List.mem_cons_self, hc⟩
            · obtain ⟨c', hc', h'⟩ := ih'.1 hr
              exact ⟨c', List.mem_cons_of_mem _ hc', h'⟩
        · rintro ⟨c', hc', h'⟩
          rcases List.mem_cons.1 hc' with rfl | hc'
          · rw [hc] at h'
            simp only [Except.ok.injEq] at h'
            subst h'
            exact List.mem_cons_self
          · have := ih'.2 ⟨c', hc', h'⟩
            cases o with
            | none => exact this
            | some v => exact List.mem_cons_of_mem _ this

/-- the seen-rule gate either closes (no result) or runs the combinators on the erased pair -/
theorem applyBinary_cases {seen : Option (List (Cat × Cat))} {x y : Cat} {rs : List RuleRes}
    (h : En.applyBinary seen x y = .ok rs) :
    rs = [] ∨ En.applyAll En.combinators (C14.erase C14.isNb x) (C14.erase C14.isNb y) = .ok rs := by
  rw [C14.applyBinary_eq] at h
  cases seen with
  | none => exact Or.inr h
  | some S =>
    simp only at h
    by_cases hg : C14.inSeen S (C14.erase C14.isNbX x) (C14.erase C14.isNbX y) = true
    · rw [if_pos hg] at h
      exact Or.inr h
    · rw [if_neg hg] at h
      simp only [Except.ok.injEq] at h
      exact Or.inl h.symm

theorem clear_nb_inv {x x' : Cat} (h : Cat.clear C14.nb x = .ok x') : x' = C14.erase C14.isNb x := by
  rw [C14.clear_nb_eq] at h
  simp only [Except.ok.injEq] at h
  exact h.symm

/-- every result of the grammar comes from one combinator, run on the inputs with `nb` erased -/
theorem applyBinary_mem {seen : Option (List (Cat × Cat))} {x y x' y' : Cat} {rs : List RuleRes}
    (hx : Cat.clear C14.nb x = .ok x') (hy : Cat.clear C14.nb y = .ok y')
    (h : En.applyBinary seen x y = .ok rs) {r : RuleRes} (hr : r ∈ rs) :
    ∃ c ∈ En.combinators, c x' y' = .ok (some r) := by
  rw [clear_nb_inv hx, clear_nb_inv hy]
  rcases applyBinary_cases h with rfl | h
  · cases hr
  · exact (applyAll_mem h).1 hr

/-! ### one feature system -/

theorem allUnary_feats {c : Cat} (h : C14.AllUnary c) : ∀ f ∈ feats c, ∃ v, f = .un v := by
  induction c with
  | atom b f =>
    intro g hg
    simp only [feats, List.mem_singleton] at hg
    subst hg
    cases g with
    | un v => exact ⟨v, rfl⟩
    | tri => exact h.elim
  | fn l s r ihl ihr =>
    intro g hg
    simp only [feats, List.mem_append] at hg
    rcases hg with hg | hg
    · exact ihl h.1 g hg
    · exact ihr h.2 g hg

theorem sameKind_of_allUnary {x y : Cat} (hx : C14.AllUnary x) (hy : C14.AllUnary y) : SameKind x y := by
  refine Or.inl fun f hf => ?_
  rcases List.mem_append.1 hf with h | h
  · exact allUnary_feats hx f h
  · exact allUnary_feats hy f h

theorem allUnary_erase (p : Feat → Bool) {c : Cat} (h : C14.AllUnary c) : C14.AllUnary (C14.erase p c) := by
  induction c with
  | atom b f =>
    simp only [C14.erase]
    split
    · trivial
    · exact h
  | fn l s r ihl ihr => exact ⟨ihl h.1, ihr h.2⟩

theorem allUnary_clear {x x' : Cat} (h : C14.AllUnary x) (hx : Cat.clear C14.nb x = .ok x') :
    C14.AllUnary x' := by
  rw [clear_nb_inv hx]
  exact allUnary_erase _ h

/-! ### compatibility is symmetric and reflexive -/

theorem compat_symm {f g : Feat} (h : Compat f g) : Compat g f := by
  cases f with
  | un a =>
    cases g with
    | un b =>
      simp only [Compat] at h ⊢
      rcases h with h | h | h | h | h | h | h
      · exact Or.inl h.symm
      · exact Or.inr (Or.inr (Or.inr (Or.inr (Or.inl h))))
      · exact Or.inr (Or.inr (Or.inr (Or.inr (Or.inr (Or.inl h)))))
      · exact Or.inr (Or.inr (Or.inr (Or.inr (Or.inr (Or.inr h)))))
      · exact Or.inr (Or.inl h)
      · exact Or.inr (Or.inr (Or.inl h))
      · exact Or.inr (Or.inr (Or.inr (Or.inl h)))
    | tri => exact h.elim
  | tri k1 v1 k2 v2 k3 v3 =>
    cases g with
    | un b => exact h.elim
    | tri c1 d1 c2 d2 c3 d3 =>
      simp only [Compat] at h ⊢
      obtain ⟨⟨h1, h2, h3⟩, h⟩ := h
      exact ⟨⟨h1.symm, h2.symm, h3.symm⟩, h.symm⟩

theorem compat_refl (f : Feat) : Compat f f := by
  cases f with
  | un a => exact Or.inl rfl
  | tri k1 v1 k2 v2 k3 v3 => exact ⟨⟨rfl, rfl, rfl⟩, Or.inl ⟨Or.inl rfl, Or.inl rfl, Or.inl rfl⟩⟩

theorem allCompat_symm {l1 l2 : List Feat} (h : AllCompat l1 l2) : AllCompat l2 l1 := by
  induction l1 generalizing l2 with
  | nil =>
    cases l2 with
    | nil => trivial
    | cons g gs => exact h.elim
  | cons f fs ih =>
    cases l2 with
    | nil => exact h.elim
    | cons g gs => exact ⟨compat_symm h.1, ih h.2⟩

theorem allCompat_refl (l : List Feat) : AllCompat l l := by
  induction l with
  | nil => trivial
  | cons f fs ih => exact ⟨compat_refl f, ih⟩

/-! ### instances -/

theorem instanceOf_feats {pool : List Feat} {r t : Cat} (h : InstanceOf pool r t) :
    ∀ f ∈ feats r, f ∈ feats t ∨ f ∈ pool := by
  induction r generalizing t with
  | atom b f =>
    cases t with
    | atom b' f' =>
      intro g hg
      simp only [feats, List.mem_singleton] at hg ⊢
      subst hg
      rcases h.2 with h | h
      · exact Or.inl h
      · exact Or.inr h.2
    | fn => exact h.elim
  | fn l s r ihl ihr =>
    cases t with
    | atom => exact h.elim
    | fn l' s' r' =>
      intro g hg
      simp only [feats, List.mem_append] at hg ⊢
      rcases hg with hg | hg
      · rcases ihl h.1 g hg with h' | h'
        · exact Or.inl (Or.inl h')
        · exact Or.inr h'
      · rcases ihr h.2.2 g hg with h' | h'
        · exact Or.inl (Or.inr h')
        · exact Or.inr h'

/-- nothing to instantiate: the category has no variable feature -/
theorem instanceOf_eq {pool : List Feat} {r t : Cat} (h : InstanceOf pool r t)
    (hv : ∀ f ∈ feats t, f.isVariable = false) : r = t := by
  induction r generalizing t with
  | atom b f =>
    cases t with
    | atom b' f' =>
      obtain ⟨hb, h | h⟩ := h
      · rw [hb, h]
      · have := hv f' (by simp [feats])
        rw [this] at h
        cases h.1
    | fn => exact h.elim
  | fn l s r ihl ihr =>
    cases t with
    | atom => exact h.elim
    | fn l' s' r' =>
      obtain ⟨h1, h2, h3⟩ := h
      rw [ihl h1 (fun f hf => hv f (by simp [feats, hf])), h2,
        ihr h3 (fun f hf => hv f (by simp [feats, hf]))]

/-- features of an instance of a part of the inputs are features of the inputs -/
theorem inst_feats {x y r t : Cat} (h : Inst x y r t) (ht : ∀ f ∈ feats t, f ∈ feats x ++ feats y) :
    ∀ f ∈ feats r, f ∈ feats x ++ feats y := by
  intro f hf
  rcases instanceOf_feats h f hf with h' | h'
  · exact ht f h'
  · exact h'

/-! ### categories printing without `[` carry no variable feature -/

theorem feat_str_nil {f : Feat} (h : f.str = []) : f.isVariable = false := by
  cases f with
  | un v =>
    cases v with
    | none => rfl
    | some s =>
      simp only [Feat.str] at h
      subst h
      decide
  | tri k1 v1 k2 v2 k3 v3 =>
    simp [Feat.str] at h

theorem str_noLBr {c : Cat} (h : cLBr ∉ c.str) : ∀ f ∈ feats c, f.str = [] := by
  induction c with
  | atom b f =>
    intro g hg
    simp only [feats, List.mem_singleton] at hg
    subst hg
    simp only [Cat.str] at h
    by_cases hl : (g.str.length == 0) = true
    · simpa using hl
    · rw [if_neg hl] at h
      exact absurd (by simp) h
  | fn l s r ihl ihr =>
    intro g hg
    simp only [feats, List.mem_append] at hg
    simp only [Cat.str] at h
    have wrapMem : ∀ (c : Cat), cLBr ∈ c.str →
        cLBr ∈ (if c.isFunctor = true then cLPar :: c.str ++ [cRPar] else c.str) := by
      intro c hc
      split
      · simp [hc]
      · exact hc
    rcases hg with hg | hg
    · refine ihl (fun hc => h ?_) g hg
      exact List.mem_append_left _ (wrapMem l hc)
    · refine ihr (fun hc => h ?_) g hg
      exact List.mem_append_right _ (List.mem_cons_of_mem _ (wrapMem r hc))

theorem bareNorNP_nonvar {b : Cat} (h : BareNorNP b) : ∀ f ∈ feats b, f.isVariable = false := by
  intro f hf
  apply feat_str_nil
  apply str_noLBr _ f hf
  rcases h with h | h <;> rw [h] <;> decide

theorem isNorNP_iff (b : Cat) : En.isNorNP b = true ↔ BareNorNP b := by
  simp [En.isNorNP, BareNorNP]


/-! ### labels -/

theorem mk_inv {c : Cat} {os sym : String} {r : RuleRes} (h : En.mk c os sym = .ok (some r)) :
    r = lab os sym c := by
  simp only [En.mk, Except.ok.injEq, Option.some.injEq] at h
  exact h.symm

/-- every result of the combinator carries the label `os`, `sym` -/
def LabelOf (c : En.Comb) (os sym : String) : Prop :=
  ∀ x y r, c x y = .ok (some r) → ∃ k, r = lab os sym k

macro "label_tac" d:ident : tactic =>
  `(tactic| (intro x y r h; unfold $d at h; (repeat' (split at h)) <;> first | (exact ⟨_, mk_inv h⟩) | (cases h)))

theorem label_fa : LabelOf En.forwardApplication "fa" ">" := by
  label_tac En.forwardApplication
theorem label_ba : LabelOf En.backwardApplication "ba" "<" := by
  label_tac En.backwardApplication
theorem label_fc : LabelOf En.forwardComposition "fc" ">B" := by
  label_tac En.forwardComposition
theorem label_bx : LabelOf En.backwardComposition "bx" "<B" := by
  label_tac En.backwardComposition
theorem label_gfc : LabelOf En.generalizedForwardComposition "gfc" ">B" := by
  label_tac En.generalizedForwardComposition
theorem label_gbx : LabelOf En.generalizedBackwardComposition "gbx" "<B" := by
  label_tac En.generalizedBackwardComposition
theorem label_conj : LabelOf En.conjunction "conj" "<Φ>" := by
  label_tac En.conjunction
theorem label_conj2 : LabelOf En.conjunction2 "conj" "<Φ>" := by
  label_tac En.conjunction2
theorem label_rp1 : LabelOf En.removePunctuation1 "lp" "<lp>" := by
  label_tac En.removePunctuation1
theorem label_rp2 : LabelOf En.removePunctuation2 "rp" "<rp>" := by
  label_tac En.removePunctuation2
theorem label_rpl : LabelOf En.removePunctuationLeft "lp" "<lp>" := by
  label_tac En.removePunctuationLeft
theorem label_comma : LabelOf En.commaVpToAdv "lp" "<*>" := by
  label_tac En.commaVpToAdv
theorem label_pds : LabelOf En.parentheticalDirectSpeech "lp" "<*>" := by
  label_tac En.parentheticalDirectSpeech


/-! ### what a successful match of two grammar patterns says -/

/-- the binding of a variable is the last matched sub-category with the mapping applied -/
theorem binding_subst {px py x y : Cat} {σ : Bindings} (lx : Linear px) (ly : Linear py)
    (h : unify px py x y = .ok (some σ)) {v : Str} (hv : v ∈ vars px ++ vars py) :
    ∃ c, lastMatched px py x y v = some c ∧ σ.get v = .ok (subst σ.mapping c) ∧
      MapOK (feats x ++ feats y) σ.mapping := by
  obtain ⟨cats1, xf, cats2, yf, m, h1, h2, ha, rfl⟩ := unify_some_iff.1 h
  obtain ⟨s1, rfl, rfl⟩ := scan_ok h1
  obtain ⟨s2, rfl, rfl⟩ := scan_ok h2
  have hm : MapOK (feats x ++ feats y) m :=
    agree_mapOK (fun k f hf => List.mem_append_left _ (writes_values hf))
      (fun k f hf => List.mem_append_right _ (writes_values hf)) (MapOK.nil _) ha
  have fmx := matched_functional lx x
  have fmy := matched_functional ly y
  have key : ∃ c, lastMatched px py x y v = some c ∧
      Dict.get? (setAll (setAll ([] : Dict Str Cat) (matched px x)) (matched py y)) v = some c := by
    rw [lastMatched_eq]
    by_cases hpy : v ∈ vars py
    · obtain ⟨c, hc⟩ := matched_of_shape s2 hpy
      refine ⟨c, ?_, ?_⟩
      · rw [fmy.get?_iff.2 hc]
      · exact (get?_setAll _ fmy _ _ _).2 (Or.inl hc)
    · have hpx : v ∈ vars px := by
        rcases List.mem_append.1 hv with h | h
        · exact h
        · exact absurd h hpy
      have hn : ∀ c, (v, c) ∉ matched py y := fun c hc => hpy (mem_matched_vars hc)
      obtain ⟨c, hc⟩ := matched_of_shape s1 hpx
      refine ⟨c, ?_, ?_⟩
      · rw [get?_eq_none_iff.2 hn, fmx.get?_iff.2 hc]
      · exact (get?_setAll _ fmy _ _ _).2 (Or.inr ⟨hn, (get?_setAll_nil _ fmx _ _).2 hc⟩)
  obtain ⟨c, hl, hg⟩ := key
  refine ⟨c, hl, ?_, hm⟩
  simp only [Bindings.get, hg]

/-- the facts used about a successful match of a pair of grammar patterns -/
structure MatchFacts (px py x y : Cat) (σ : Bindings) : Prop where
  shapeX : Shape px x
  shapeY : Shape py y
  blind : SharedBlind px py x y
  compat : FeatCompat px py x y
  get : ∀ v ∈ vars px ++ vars py, ∃ c b, lastMatched px py x y v = some c ∧ σ.get v = .ok b ∧
    InstanceOf (feats x ++ feats y) b c

theorem matchFacts {px py x y : Cat} {σ : Bindings} (hp : (px, py) ∈ grammarPatterns)
    (hx : C14.AllUnary x) (hy : C14.AllUnary y) (h : unify px py x y = .ok (some σ)) :
    MatchFacts px py x y σ := by
  obtain ⟨lx, ly, vx, vy⟩ := grammar_patterns_ok _ hp
  obtain ⟨s1, s2, hb, hc⟩ :=
    (unify_ok_iff px py x y lx ly vx vy (sameKind_of_allUnary hx hy)).1 ⟨σ, h⟩
  refine ⟨s1, s2, hb, hc, ?_⟩
  intro v hv
  obtain ⟨c, hl, hg, hm⟩ := binding_subst lx ly h hv
  exact ⟨c, _, hl, hg, instanceOf_subst hm c⟩

/-- without any assumption on the feature system: the bindings -/
theorem match_get {px py x y : Cat} {σ : Bindings} (hp : (px, py) ∈ grammarPatterns)
    (h : unify px py x y = .ok (some σ)) {v : Str} (hv : v ∈ vars px ++ vars py) :
    ∃ c b, lastMatched px py x y v = some c ∧ σ.get v = .ok b ∧
      InstanceOf (feats x ++ feats y) b c := by
  obtain ⟨lx, ly, -, -⟩ := grammar_patterns_ok _ hp
  obtain ⟨c, hl, hg, hm⟩ := binding_subst lx ly h hv
  exact ⟨c, _, hl, hg, instanceOf_subst hm c⟩

/-! ### identical matched parts: the mapping is the identity -/

def IdMap (m : Dict Feat Feat) : Prop := ∀ f g, Dict.get? m f = some g → f = g

theorem IdMap.nil : IdMap [] := by
  intro f g h; simp [Dict.get?] at h

theorem IdMap.set {m : Dict Feat Feat} (hm : IdMap m) (f : Feat) : IdMap (Dict.set m f f) := by
  intro f' g' h
  by_cases hff : f = f'
  · subst hff
    rw [get?_set_self] at h
    cases h
    rfl
  · rw [get?_set_ne _ _ hff] at h
    exact hm f' g' h

theorem agree_idMap {xf yf : Dict Str Feat} {l : List Str} {m m' : Dict Feat Feat}
    (hs : ∀ k ∈ l, ∀ fx fy, Dict.get? xf k = some fx → Dict.get? yf k = some fy → fx = fy)
    (hm : IdMap m) (h : agree xf yf l m = .ok (some m')) : IdMap m' := by
  induction l generalizing m with
  | nil => simp only [agree, Except.ok.injEq, Option.some.injEq] at h; rw [← h]; exact hm
  | cons k l ih =>
    have hs' : ∀ k' ∈ l, ∀ fx fy, Dict.get? xf k' = some fx → Dict.get? yf k' = some fy → fx = fy :=
      fun k' hk' => hs k' (List.mem_cons_of_mem _ hk')
    rw [agree] at h
    cases hx : Dict.get? xf k with
    | none => rw [hx] at h; cases h
    | some fx =>
      cases hy : Dict.get? yf k with
      | none => rw [hx, hy] at h; cases h
      | some fy =>
        rw [hx, hy] at h
        have e : fx = fy := hs k List.mem_cons_self fx fy hx hy
        subst e
        simp only at h
        cases h1 : Feat.unifies fx fx with
        | error e => rw [h1] at h; cases h
        | ok b1 =>
          rw [h1] at h
          cases b1
          · simp only at h
            cases h
          · simp only at h
            refine ih hs' ?_ h
            split
            · exact hm.set fx
            · exact hm

theorem subst_idMap {m : Dict Feat Feat} (hm : IdMap m) (c : Cat) : subst m c = c := by
  induction c with
  | atom b f =>
    simp only [subst]
    split
    next g hg => rw [hm f g hg]
    next => rfl
  | fn l s r ihl ihr => simp only [subst, ihl, ihr]

/-- every variable shared by the two patterns stands for the same sub-category -/
def SharedSame (px py x y : Cat) : Prop :=
  ∀ v tx ty, (v, tx) ∈ matched px x → (v, ty) ∈ matched py y → tx = ty

theorem writes_same {px py x y : Cat} (vx : VarsOK px) (vy : VarsOK py) (hs : SharedSame px py x y)
    {k : Str} {fx fy : Feat} (hkx : (k, fx) ∈ writes px x) (hky : (k, fy) ∈ writes py y) : fx = fy := by
  obtain ⟨v, tx, hx, hax⟩ := mem_writes.1 hkx
  obtain ⟨v', ty, hy, hay⟩ := mem_writes.1 hky
  obtain ⟨s, hs1⟩ := atomW_key hax
  obtain ⟨s', hs2⟩ := atomW_key hay
  have hvv : v = v' :=
    varsOK_key vx vy (mem_matched_vars hx) (mem_matched_vars hy) (hs1.symm.trans hs2)
  subst hvv
  have := hs v tx ty hx hy
  subst this
  exact atomW_functional v tx k fx fy hax hay

/-- on identical shared parts a pair of grammar patterns matches and binds every variable to the
    matched sub-category itself -/
theorem unify_same {px py x y : Cat} (hp : (px, py) ∈ grammarPatterns)
    (hx : C14.AllUnary x) (hy : C14.AllUnary y) (sx : Shape px x) (sy : Shape py y)
    (hs : SharedSame px py x y) :
    ∃ σ, unify px py x y = .ok (some σ) ∧
      ∀ v ∈ vars px ++ vars py, ∃ c, lastMatched px py x y v = some c ∧ σ.get v = .ok c := by
  obtain ⟨lx, ly, vx, vy⟩ := grammar_patterns_ok _ hp
  have hb : SharedBlind px py x y := by
    intro v tx ty h1 h2
    rw [hs v tx ty h1 h2]
    exact C13.xor_refl _
  have hc : FeatCompat px py x y := by
    intro v tx ty h1 h2
    rw [hs v tx ty h1 h2]
    exact allCompat_refl _
  obtain ⟨σ, h⟩ :=
    (unify_ok_iff px py x y lx ly vx vy (sameKind_of_allUnary hx hy)).2 ⟨sx, sy, hb, hc⟩
  refine ⟨σ, h, ?_⟩
  have hid : IdMap σ.mapping := by
    obtain ⟨cats1, xf, cats2, yf, m, h1, h2, ha, rfl⟩ := unify_some_iff.1 h
    obtain ⟨-, -, rfl⟩ := scan_ok h1
    obtain ⟨-, -, rfl⟩ := scan_ok h2
    refine agree_idMap ?_ IdMap.nil ha
    intro k _ fx fy hfx hfy
    exact writes_same vx vy hs
      ((get?_setAll_nil _ (writes_functional lx vx x) k fx).1 hfx)
      ((get?_setAll_nil _ (writes_functional ly vy y) k fy).1 hfy)
  intro v hv
  obtain ⟨c, hl, hg, -⟩ := binding_subst lx ly h hv
  rw [subst_idMap hid] at hg
  exact ⟨c, hl, hg⟩

/-! ### soundness, combinator by combinator -/

theorem fwdSlash_of {s : Nat} (h : cSlash = s ∨ cSlash = cBar ∨ s = cBar) : fwdSlash s := by
  rcases h with h | h | h
  · exact Or.inl h.symm
  · exact absurd h (by decide)
  · exact Or.inr h

theorem bwdSlash_of {s : Nat} (h : cBSlash = s ∨ cBSlash = cBar ∨ s = cBar) : bwdSlash s := by
  rcases h with h | h | h
  · exact Or.inl h.symm
  · exact absurd h (by decide)
  · exact Or.inr h

theorem isModifier_fn (l r : Cat) (s : Nat) : isModifier (.fn l s r) = true ↔ l = r :=
  C13.pyEq_iff l r

theorem fa_sound {x y : Cat} {r : RuleRes} (hx : C14.AllUnary x) (hy : C14.AllUnary y)
    (h : En.forwardApplication x y = .ok (some r)) : Justified x y r := by
  unfold En.forwardApplication at h
  split at h
  · cases h
  · cases h
  · rename_i σ hu
    have mf := matchFacts (by decide) hx hy hu
    cases x with
    | atom bx fx => exact mf.shapeX.elim
    | fn xa s xb =>
      have hs := fwdSlash_of mf.shapeX.1
      have hpm : PartsMatch xb y :=
        ⟨mf.blind [98] xb y (by simp [matched, Pat.fwd, Pat.a, Pat.b]) (by simp [matched, Pat.b]),
         mf.compat [98] xb y (by simp [matched, Pat.fwd, Pat.a, Pat.b]) (by simp [matched, Pat.b])⟩
      split at h
      · rename_i hm
        rw [mk_inv h]
        exact Justified.fa_mod xa xb s rfl hs hpm ((isModifier_fn ..).1 hm)
      · rename_i hm
        obtain ⟨c, ra, hl, hg, hi⟩ := mf.get [97] (by decide)
        have : c = xa := by
          simpa [lastMatched, matched, Pat.fwd, Pat.a, Pat.b] using hl.symm
        subst this
        rw [hg] at h
        rw [mk_inv h]
        exact Justified.fa c xb ra s rfl hs hpm (fun e => hm ((isModifier_fn ..).2 e)) hi

theorem pyEqStr_iff (c : Cat) (s : Str) : Cat.pyEqStr c s = true ↔ c.str = s := by
  simp [Cat.pyEqStr]

theorem ba_sound {x y : Cat} {r : RuleRes} (hx : C14.AllUnary x) (hy : C14.AllUnary y)
    (h : En.backwardApplication x y = .ok (some r)) : Justified x y r := by
  unfold En.backwardApplication at h
  split at h
  · rename_i hem
    simp only [Bool.and_eq_true, pyEqStr_iff] at hem
    rw [mk_inv h]
    exact Justified.ba_em hem.1 hem.2
  split at h
  · cases h
  · cases h
  · rename_i σ hu
    have mf := matchFacts (by decide) hx hy hu
    cases y with
    | atom b' f' => exact mf.shapeY.elim
    | fn ya s yb =>
      have hs := bwdSlash_of mf.shapeY.1
      have hpm : PartsMatch yb x :=
        ⟨C13.xor_symm _ _ (mf.blind [98] x yb (by simp [matched, Pat.b])
            (by simp [matched, Pat.bwd, Pat.a, Pat.b])),
         allCompat_symm (mf.compat [98] x yb (by simp [matched, Pat.b])
            (by simp [matched, Pat.bwd, Pat.a, Pat.b]))⟩
      split at h
      · rename_i hm
        rw [mk_inv h]
        exact Justified.ba_mod ya yb s rfl hs hpm ((isModifier_fn ..).1 hm)
      · rename_i hm
        obtain ⟨c, ra, hl, hg, hi⟩ := mf.get [97] (by decide)
        have : c = ya := by
          simpa [lastMatched, matched, Pat.bwd, Pat.a, Pat.b] using hl.symm
        subst this
        rw [hg] at h
        rw [mk_inv h]
        exact Justified.ba c yb ra s rfl hs hpm (fun e => hm ((isModifier_fn ..).2 e)) hi

theorem fc_sound {x y : Cat} {r : RuleRes} (hx : C14.AllUnary x) (hy : C14.AllUnary y)
    (h : En.forwardComposition x y = .ok (some r)) : Justified x y r := by
  unfold En.forwardComposition at h
  split at h
  · cases h
  · cases h
  · rename_i σ hu
    have mf := matchFacts (by decide) hx hy hu
    cases x with
    | atom bx fx => exact mf.shapeX.elim
    | fn xa s1 xb =>
    cases y with
    | atom b' f' => exact mf.shapeY.elim
    | fn yb s2 yc =>
      have hs1 := fwdSlash_of mf.shapeX.1
      have hs2 := fwdSlash_of mf.shapeY.1
      have hpm : PartsMatch xb yb :=
        ⟨mf.blind [98] xb yb (by simp [matched, Pat.fwd, Pat.a, Pat.b])
            (by simp [matched, Pat.fwd, Pat.c, Pat.b]),
         mf.compat [98] xb yb (by simp [matched, Pat.fwd, Pat.a, Pat.b])
            (by simp [matched, Pat.fwd, Pat.c, Pat.b])⟩
      split at h
      · rename_i hm
        rw [mk_inv h]
        exact Justified.fc_mod xa xb yb yc s1 s2 rfl rfl hs1 hs2 hpm ((isModifier_fn ..).1 hm)
      · rename_i hm
        obtain ⟨ca, ra, hla, hga, hia⟩ := mf.get [97] (by decide)
        obtain ⟨cc, rc, hlc, hgc, hic⟩ := mf.get [99] (by decide)
        have : ca = xa := by
          simpa [lastMatched, matched, Pat.fwd, Pat.a, Pat.b, Pat.c] using hla.symm
        subst this
        have : cc = yc := by
          simpa [lastMatched, matched, Pat.fwd, Pat.a, Pat.b, Pat.c] using hlc.symm
        subst this
        rw [hga, hgc] at h
        rw [mk_inv h]
        exact Justified.fc ca xb yb cc ra rc s1 s2 rfl rfl hs1 hs2 hpm
          (fun e => hm ((isModifier_fn ..).2 e)) hia hic

theorem bx_sound {x y : Cat} {r : RuleRes} (hx : C14.AllUnary x) (hy : C14.AllUnary y)
    (h : En.backwardComposition x y = .ok (some r)) : Justified x y r := by
  unfold En.backwardComposition at h
  split at h
  · cases h
  · cases h
  · rename_i σ hu
    have mf := matchFacts (by decide) hx hy hu
    cases x with
    | atom bx fx => exact mf.shapeX.elim
    | fn xb s1 xc =>
    cases y with
    | atom b' f' => exact mf.shapeY.elim
    | fn ya s2 yb =>
      have hs1 := fwdSlash_of mf.shapeX.1
      have hs2 := bwdSlash_of mf.shapeY.1
      have hpm : PartsMatch xb yb :=
        ⟨mf.blind [98] xb yb (by simp [matched, Pat.fwd, Pat.c, Pat.b])
            (by simp [matched, Pat.bwd, Pat.a, Pat.b]),
         mf.compat [98] xb yb (by simp [matched, Pat.fwd, Pat.c, Pat.b])
            (by simp [matched, Pat.bwd, Pat.a, Pat.b])⟩
      split at h
      · cases h
      split at h
      · cases h
      split at h
      · rename_i hm
        rw [mk_inv h]
        exact Justified.bx_mod ya xb yb xc s1 s2 rfl rfl hs1 hs2 hpm ((isModifier_fn ..).1 hm)
      · rename_i hm
        obtain ⟨ca, ra, hla, hga, hia⟩ := mf.get [97] (by decide)
        obtain ⟨cc, rc, hlc, hgc, hic⟩ := mf.get [99] (by decide)
        have : ca = ya := by
          simpa [lastMatched, matched, Pat.fwd, Pat.bwd, Pat.a, Pat.b, Pat.c] using hla.symm
        subst this
        have : cc = xc := by
          simpa [lastMatched, matched, Pat.fwd, Pat.bwd, Pat.a, Pat.b, Pat.c] using hlc.symm
        subst this
        rw [hga, hgc] at h
        rw [mk_inv h]
        exact Justified.bx ca xb yb cc ra rc s1 s2 rfl rfl hs1 hs2 hpm
          (fun e => hm ((isModifier_fn ..).2 e)) hia hic

theorem gfc_sound {x y : Cat} {r : RuleRes} (hx : C14.AllUnary x) (hy : C14.AllUnary y)
    (h : En.generalizedForwardComposition x y = .ok (some r)) : Justified x y r := by
  unfold En.generalizedForwardComposition at h
  split at h
  · cases h
  · cases h
  · rename_i σ hu
    have mf := matchFacts (by decide) hx hy hu
    cases x with
    | atom bx fx => exact mf.shapeX.elim
    | fn xa s1 xb =>
    cases y with
    | atom b' f' => exact mf.shapeY.elim
    | fn y1 s3 yd =>
    cases y1 with
    | atom b' f' => exact mf.shapeY.2.1.elim
    | fn yb s2 yc =>
      have hs1 := fwdSlash_of mf.shapeX.1
      have hs2 := fwdSlash_of mf.shapeY.2.1.1
      have hpm : PartsMatch xb yb :=
        ⟨mf.blind [98] xb yb (by simp [matched, Pat.fwd, Pat.a, Pat.b])
            (by simp [matched, Pat.any, Pat.fwd, Pat.c, Pat.b, Pat.d]),
         mf.compat [98] xb yb (by simp [matched, Pat.fwd, Pat.a, Pat.b])
            (by simp [matched, Pat.any, Pat.fwd, Pat.c, Pat.b, Pat.d])⟩
      split at h
      · rename_i hm
        rw [mk_inv h]
        exact Justified.gfc_mod xa xb yb yc yd s1 s2 s3 rfl rfl hs1 hs2 hpm ((isModifier_fn ..).1 hm)
      · rename_i hm
        obtain ⟨ca, ra, hla, hga, hia⟩ := mf.get [97] (by decide)
        obtain ⟨cc, rc, hlc, hgc, hic⟩ := mf.get [99] (by decide)
        obtain ⟨cd, rd, hld, hgd, hid⟩ := mf.get [100] (by decide)
        have : ca = xa := by
          simpa [lastMatched, matched, Pat.any, Pat.fwd, Pat.a, Pat.b, Pat.c, Pat.d] using hla.symm
        subst this
        have : cc = yc := by
          simpa [lastMatched, matched, Pat.any, Pat.fwd, Pat.a, Pat.b, Pat.c, Pat.d] using hlc.symm
        subst this
        have : cd = yd := by
          simpa [lastMatched, matched, Pat.any, Pat.fwd, Pat.a, Pat.b, Pat.c, Pat.d] using hld.symm
        subst this
        rw [hga, hgc, hgd] at h
        simp only [En.functorOf] at h
        rw [mk_inv h]
        exact Justified.gfc ca xb yb cc cd ra rc rd s1 s2 s3 rfl rfl hs1 hs2 hpm
          (fun e => hm ((isModifier_fn ..).2 e)) hia hic hid

theorem gbx_sound {x y : Cat} {r : RuleRes} (hx : C14.AllUnary x) (hy : C14.AllUnary y)
    (h : En.generalizedBackwardComposition x y = .ok (some r)) : Justified x y r := by
  unfold En.generalizedBackwardComposition at h
  split at h
  · cases h
  · cases h
  · rename_i σ hu
    have mf := matchFacts (by decide) hx hy hu
    cases y with
    | atom b' f' => exact mf.shapeY.elim
    | fn ya s1 yb =>
    cases x with
    | atom bx fx => exact mf.shapeX.elim
    | fn x1 s3 xd =>
    cases x1 with
    | atom b' f' => exact mf.shapeX.2.1.elim
    | fn xb s2 xc =>
      have hs1 := fwdSlash_of mf.shapeY.1
      have hs2 := fwdSlash_of mf.shapeX.2.1.1
      have hpm : PartsMatch xb yb :=
        ⟨mf.blind [98] xb yb (by simp [matched, Pat.any, Pat.fwd, Pat.c, Pat.b, Pat.d])
            (by simp [matched, Pat.fwd, Pat.a, Pat.b]),
         mf.compat [98] xb yb (by simp [matched, Pat.any, Pat.fwd, Pat.c, Pat.b, Pat.d])
            (by simp [matched, Pat.fwd, Pat.a, Pat.b])⟩
      split at h
      · cases h
      split at h
      · cases h
      split at h
      · rename_i hm
        rw [mk_inv h]
        exact Justified.gbx_mod ya xb yb xc xd s1 s2 s3 rfl rfl hs1 hs2 hpm ((isModifier_fn ..).1 hm)
      · rename_i hm
        obtain ⟨ca, ra, hla, hga, hia⟩ := mf.get [97] (by decide)
        obtain ⟨cc, rc, hlc, hgc, hic⟩ := mf.get [99] (by decide)
        obtain ⟨cd, rd, hld, hgd, hid⟩ := mf.get [100] (by decide)
        have : ca = ya := by
          simpa [lastMatched, matched, Pat.any, Pat.fwd, Pat.a, Pat.b, Pat.c, Pat.d] using hla.symm
        subst this
        have : cc = xc := by
          simpa [lastMatched, matched, Pat.any, Pat.fwd, Pat.a, Pat.b, Pat.c, Pat.d] using hlc.symm
        subst this
        have : cd = xd := by
          simpa [lastMatched, matched, Pat.any, Pat.fwd, Pat.a, Pat.b, Pat.c, Pat.d] using hld.symm
        subst this
        rw [hga, hgc, hgd] at h
        simp only [En.functorOf] at h
        rw [mk_inv h]
        exact Justified.gbx ca xb yb cc cd ra rc rd s1 s2 s3 rfl rfl hs1 hs2 hpm
          (fun e => hm ((isModifier_fn ..).2 e)) hia hic hid

theorem catInStrs_two (x : Cat) (s1 s2 : Str) :
    En.catInStrs x [s1, s2] = true ↔ (x.str = s1 ∨ x.str = s2) := by
  simp [En.catInStrs, Cat.pyEqStr]

theorem catInStrs_three (x : Cat) (s1 s2 s3 : Str) :
    En.catInStrs x [s1, s2, s3] = true ↔ (x.str = s1 ∨ x.str = s2 ∨ x.str = s3) := by
  simp [En.catInStrs, Cat.pyEqStr]

theorem conj_sound {x y : Cat} {r : RuleRes} (h : En.conjunction x y = .ok (some r)) :
    Justified x y r := by
  unfold En.conjunction at h
  split at h
  · cases h
  · rename_i py hp
    split at h
    · rename_i hc
      simp only [Bool.and_eq_true, Bool.not_eq_true', catInStrs_three] at hc
      obtain ⟨⟨h1, h2⟩, h3⟩ := hc
      subst h1
      rw [mk_inv h]
      exact Justified.conj h3 hp h2
    · cases h

theorem conj2_sound {x y : Cat} {r : RuleRes} (h : En.conjunction2 x y = .ok (some r)) :
    Justified x y r := by
  unfold En.conjunction2 at h
  split at h
  · rename_i hc
    simp only [Bool.and_eq_true, pyEqStr_iff] at hc
    rw [mk_inv h]
    exact Justified.conj2 hc.1 hc.2
  · cases h

theorem rp1_sound {x y : Cat} {r : RuleRes} (h : En.removePunctuation1 x y = .ok (some r)) :
    Justified x y r := by
  unfold En.removePunctuation1 at h
  split at h
  · cases h
  · rename_i hp
    rw [mk_inv h]
    exact Justified.lp hp
  · cases h

theorem rp2_sound {x y : Cat} {r : RuleRes} (h : En.removePunctuation2 x y = .ok (some r)) :
    Justified x y r := by
  unfold En.removePunctuation2 at h
  split at h
  · cases h
  · rename_i hp
    rw [mk_inv h]
    exact Justified.rp hp
  · cases h

theorem rpl_sound {x y : Cat} {r : RuleRes} (h : En.removePunctuationLeft x y = .ok (some r)) :
    Justified x y r := by
  unfold En.removePunctuationLeft at h
  split at h
  · rename_i hc
    rw [catInStrs_two] at hc
    rw [mk_inv h]
    exact Justified.lp_left hc
  · cases h

theorem comma_sound {x y : Cat} {r : RuleRes} (h : En.commaVpToAdv x y = .ok (some r)) :
    Justified x y r := by
  unfold En.commaVpToAdv at h
  split at h
  · rename_i hc
    simp only [Bool.and_eq_true, pyEqStr_iff, catInStrs_two] at hc
    rw [mk_inv h]
    exact Justified.comma_vp hc.1 hc.2
  · cases h

theorem pds_sound {x y : Cat} {r : RuleRes} (h : En.parentheticalDirectSpeech x y = .ok (some r)) :
    Justified x y r := by
  unfold En.parentheticalDirectSpeech at h
  split at h
  · rename_i hc
    simp only [Bool.and_eq_true, pyEqStr_iff] at hc
    rw [mk_inv h]
    exact Justified.direct_speech hc.1 hc.2
  · cases h

/-- a member of the combinator list is one of the thirteen -/
theorem mem_combinators {c : En.Comb} (h : c ∈ En.combinators) :
    c = En.forwardApplication ∨ c = En.backwardApplication ∨ c = En.forwardComposition ∨
    c = En.backwardComposition ∨ c = En.generalizedForwardComposition ∨
    c = En.generalizedBackwardComposition ∨ c = En.conjunction ∨ c = En.conjunction2 ∨
    c = En.removePunctuation1 ∨ c = En.removePunctuation2 ∨ c = En.removePunctuationLeft ∨
    c = En.commaVpToAdv ∨ c = En.parentheticalDirectSpeech := by
  simpa only [En.combinators, List.mem_cons, List.not_mem_nil, or_false] using h

theorem comb_sound {c : En.Comb} (hc : c ∈ En.combinators) {x y : Cat} {r : RuleRes}
    (hx : C14.AllUnary x) (hy : C14.AllUnary y) (h : c x y = .ok (some r)) : Justified x y r := by
  rcases mem_combinators hc with rfl | rfl | rfl | rfl | rfl | rfl | rfl | rfl | rfl | rfl | rfl | rfl | rfl
  · exact fa_sound hx hy h
  · exact ba_sound hx hy h
  · exact fc_sound hx hy h
  · exact bx_sound hx hy h
  · exact gfc_sound hx hy h
  · exact gbx_sound hx hy h
  · exact conj_sound h
  · exact conj2_sound h
  · exact rp1_sound h
  · exact rp2_sound h
  · exact rpl_sound h
  · exact comma_sound h
  · exact pds_sound h

theorem comb_label {c : En.Comb} (hc : c ∈ En.combinators) {x y : Cat} {r : RuleRes}
    (h : c x y = .ok (some r)) :
    r.headLeft = true ∧ (r.opString, r.opSymbol) ∈ enLabels ∧
      (r.opString = lit "bx" → c = En.backwardComposition) ∧
      (r.opString = lit "gbx" → c = En.generalizedBackwardComposition) := by
  rcases mem_combinators hc with rfl | rfl | rfl | rfl | rfl | rfl | rfl | rfl | rfl | rfl | rfl | rfl | rfl
  · obtain ⟨k, rfl⟩ := label_fa _ _ _ h
    exact ⟨rfl, show (lit "fa", lit ">") ∈ enLabels by decide,
      fun e => absurd (show lit "fa" = lit "bx" from e) (by decide),
      fun e => absurd (show lit "fa" = lit "gbx" from e) (by decide)⟩
  · obtain ⟨k, rfl⟩ := label_ba _ _ _ h
    exact ⟨rfl, show (lit "ba", lit "<") ∈ enLabels by decide,
      fun e => absurd (show lit "ba" = lit "bx" from e) (by decide),
      fun e => absurd (show lit "ba" = lit "gbx" from e) (by decide)⟩
  · obtain ⟨k, rfl⟩ := label_fc _ _ _ h
    exact ⟨rfl, show (lit "fc", lit ">B") ∈ enLabels by decide,
      fun e => absurd (show lit "fc" = lit "bx" from e) (by decide),
      fun e => absurd (show lit "fc" = lit "gbx" from e) (by decide)⟩
  · obtain ⟨k, rfl⟩ := label_bx _ _ _ h
    exact ⟨rfl, show (lit "bx", lit "<B") ∈ enLabels by decide,
      fun _ => rfl,
      fun e => absurd (show lit "bx" = lit "gbx" from e) (by decide)⟩
  · obtain ⟨k, rfl⟩ := label_gfc _ _ _ h
    exact ⟨rfl, show (lit "gfc", lit ">B") ∈ enLabels by decide,
      fun e => absurd (show lit "gfc" = lit "bx" from e) (by decide),
      fun e => absurd (show lit "gfc" = lit "gbx" from e) (by decide)⟩
  · obtain ⟨k, rfl⟩ := label_gbx _ _ _ h
    exact ⟨rfl, show (lit "gbx", lit "<B") ∈ enLabels by decide,
      fun e => absurd (show lit "gbx" = lit "bx" from e) (by decide),
      fun _ => rfl⟩
  · obtain ⟨k, rfl⟩ := label_conj _ _ _ h
    exact ⟨rfl, show (lit "conj", lit "<Φ>") ∈ enLabels by decide,
      fun e => absurd (show lit "conj" = lit "bx" from e) (by decide),
      fun e => absurd (show lit "conj" = lit "gbx" from e) (by decide)⟩
  · obtain ⟨k, rfl⟩ := label_conj2 _ _ _ h
    exact ⟨rfl, show (lit "conj", lit "<Φ>") ∈ enLabels by decide,
      fun e => absurd (show lit "conj" = lit "bx" from e) (by decide),
      fun e => absurd (show lit "conj" = lit "gbx" from e) (by decide)⟩
  · obtain ⟨k, rfl⟩ := label_rp1 _ _ _ h
    exact ⟨rfl, show (lit "lp", lit "<lp>") ∈ enLabels by decide,
      fun e => absurd (show lit "lp" = lit "bx" from e) (by decide),
      fun e => absurd (show lit "lp" = lit "gbx" from e) (by decide)⟩
  · obtain ⟨k, rfl⟩ := label_rp2 _ _ _ h
    exact ⟨rfl, show (lit "rp", lit "<rp>") ∈ enLabels by decide,
      fun e => absurd (show lit "rp" = lit "bx" from e) (by decide),
      fun e => absurd (show lit "rp" = lit "gbx" from e) (by decide)⟩
  · obtain ⟨k, rfl⟩ := label_rpl _ _ _ h
    exact ⟨rfl, show (lit "lp", lit "<lp>") ∈ enLabels by decide,
      fun e => absurd (show lit "lp" = lit "bx" from e) (by decide),
      fun e => absurd (show lit "lp" = lit "gbx" from e) (by decide)⟩
  · obtain ⟨k, rfl⟩ := label_comma _ _ _ h
    exact ⟨rfl, show (lit "lp", lit "<*>") ∈ enLabels by decide,
      fun e => absurd (show lit "lp" = lit "bx" from e) (by decide),
      fun e => absurd (show lit "lp" = lit "gbx" from e) (by decide)⟩
  · obtain ⟨k, rfl⟩ := label_pds _ _ _ h
    exact ⟨rfl, show (lit "lp", lit "<*>") ∈ enLabels by decide,
      fun e => absurd (show lit "lp" = lit "bx" from e) (by decide),
      fun e => absurd (show lit "lp" = lit "gbx" from e) (by decide)⟩

/-! ### the `N`/`NP` guard of backward crossed composition -/

theorem bx_guard {a b c : Cat} {s1 s2 : Nat} (hb : BareNorNP b) (r : RuleRes) :
    En.backwardComposition (.fn b s1 c) (.fn a s2 b) ≠ .ok (some r) := by
  intro h
  unfold En.backwardComposition at h
  split at h
  · cases h
  · cases h
  · rename_i σ hu
    obtain ⟨cb, rb, hl, hg, hi⟩ := match_get (by decide) hu (v := [98]) (by decide)
    have : cb = b := by
      simpa [lastMatched, matched, Pat.fwd, Pat.bwd, Pat.a, Pat.b, Pat.c] using hl.symm
    subst this
    have : rb = cb := instanceOf_eq hi (bareNorNP_nonvar hb)
    subst this
    rw [hg] at h
    simp only [(isNorNP_iff rb).2 hb, if_true] at h
    cases h

theorem gbx_guard {a b c d : Cat} {s1 s2 s3 : Nat} (hb : BareNorNP b) (r : RuleRes) :
    En.generalizedBackwardComposition (.fn (.fn b s2 c) s3 d) (.fn a s1 b) ≠ .ok (some r) := by
  intro h
  unfold En.generalizedBackwardComposition at h
  split at h
  · cases h
  · cases h
  · rename_i σ hu
    obtain ⟨cb, rb, hl, hg, hi⟩ := match_get (by decide) hu (v := [98]) (by decide)
    have : cb = b := by
      simpa [lastMatched, matched, Pat.any, Pat.fwd, Pat.a, Pat.b, Pat.c, Pat.d] using hl.symm
    subst this
    have : rb = cb := instanceOf_eq hi (bareNorNP_nonvar hb)
    subst this
    rw [hg] at h
    simp only [(isNorNP_iff rb).2 hb, if_true] at h
    cases h

/-! ### features of a justified result -/

theorem justified_feats {x y : Cat} {r : RuleRes} (hj : Justified x y r) (hr : r.opSymbol ≠ lit "<*>") :
    ∀ f ∈ feats r.cat, f ∈ feats x ++ feats y := by
  have left : ∀ f ∈ feats x, f ∈ feats x ++ feats y := fun f hf => List.mem_append_left _ hf
  have right : ∀ f ∈ feats y, f ∈ feats x ++ feats y := fun f hf => List.mem_append_right _ hf
  have yy : ∀ f ∈ feats (Cat.fn y cBSlash y), f ∈ feats x ++ feats y := by
    intro f hf
    simp only [feats, List.mem_append, or_self] at hf
    exact right f hf
  cases hj with
  | fa_mod a b s hx hs hp he => exact right
  | fa a b c s hx hs hp hne hi =>
    subst hx
    exact inst_feats hi fun f hf => left f (by simp [feats, hf])
  | ba_em h1 h2 => exact left
  | ba_mod a b s hy hs hp he => exact left
  | ba a b c s hy hs hp hne hi =>
    subst hy
    exact inst_feats hi fun f hf => right f (by simp [feats, hf])
  | fc_mod a b b' c s1 s2 hx hy h1 h2 hp he => exact right
  | fc a b b' c ra rc s1 s2 hx hy h1 h2 hp hne hia hic =>
    subst hx; subst hy
    intro f hf
    simp only [lab, feats, List.mem_append] at hf
    rcases hf with hf | hf
    · exact inst_feats hia (fun f hf => left f (by simp [feats, hf])) f hf
    · exact inst_feats hic (fun f hf => right f (by simp [feats, hf])) f hf
  | bx_mod a b b' c s1 s2 hx hy h1 h2 hp he => exact left
  | bx a b b' c ra rc s1 s2 hx hy h1 h2 hp hne hia hic =>
    subst hx; subst hy
    intro f hf
    simp only [lab, feats, List.mem_append] at hf
    rcases hf with hf | hf
    · exact inst_feats hia (fun f hf => right f (by simp [feats, hf])) f hf
    · exact inst_feats hic (fun f hf => left f (by simp [feats, hf])) f hf
  | gfc_mod a b b' c d s1 s2 s3 hx hy h1 h2 hp he => exact right
  | gfc a b b' c d ra rc rd s1 s2 s3 hx hy h1 h2 hp hne hia hic hid =>
    subst hx; subst hy
    intro f hf
    simp only [lab, feats, List.mem_append] at hf
    rcases hf with (hf | hf) | hf
    · exact inst_feats hia (fun f hf => left f (by simp [feats, hf])) f hf
    · exact inst_feats hic (fun f hf => right f (by simp [feats, hf])) f hf
    · exact inst_feats hid (fun f hf => right f (by simp [feats, hf])) f hf
  | gbx_mod a b b' c d s1 s2 s3 hx hy h1 h2 hp he => exact left
  | gbx a b b' c d ra rc rd s1 s2 s3 hx hy h1 h2 hp hne hia hic hid =>
    subst hx; subst hy
    intro f hf
    simp only [lab, feats, List.mem_append] at hf
    rcases hf with (hf | hf) | hf
    · exact inst_feats hia (fun f hf => right f (by simp [feats, hf])) f hf
    · exact inst_feats hic (fun f hf => left f (by simp [feats, hf])) f hf
    · exact inst_feats hid (fun f hf => left f (by simp [feats, hf])) f hf
  | conj h1 h2 h3 => exact yy
  | conj2 h1 h2 => exact right
  | lp h1 => exact right
  | rp h1 => exact left
  | lp_left h1 => exact yy
  | comma_vp h1 h2 => exact absurd rfl hr
  | direct_speech h1 h2 => exact absurd rfl hr

/-! ### unary rules -/

theorem unary_labels (T : List (Cat × List Cat)) (x : Cat) : ∀ r ∈ En.applyUnary T x,
    (r.opString = lit "tr" ∨ r.opString = lit "lex") ∧ r.opSymbol = lit "<un>" ∧ r.headLeft = true := by
  intro r hr
  unfold En.applyUnary at hr
  split at hr
  · cases hr
  · obtain ⟨t, -, rfl⟩ := List.mem_map.1 hr
    have key : ∀ b : Bool, ((if b = true then lit "tr" else lit "lex") = lit "tr" ∨
        (if b = true then lit "tr" else lit "lex") = lit "lex") := by
      intro b
      cases b
      · exact Or.inr rfl
      · exact Or.inl rfl
    exact ⟨key _, rfl, rfl⟩

/-! ### completeness on identical parts -/

theorem noNb_erase {c : Cat} (h : NoNb c) : C14.erase C14.isNb c = c := by
  induction c with
  | atom b f =>
    have : C14.isNb f = false := by
      cases hb : C14.isNb f with
      | false => rfl
      | true => exact absurd ((C13.feat_pyEq_iff _ _).1 hb) (h f (by simp [feats]))
    simp [C14.erase, this]
  | fn l s r ihl ihr =>
    simp only [C14.erase]
    rw [ihl (fun f hf => h f (by simp [feats, hf])), ihr (fun f hf => h f (by simp [feats, hf]))]

theorem noNb_fn {l r : Cat} (s : Nat) (hl : NoNb l) (hr : NoNb r) : NoNb (.fn l s r) := by
  intro f hf
  simp only [feats, List.mem_append] at hf
  rcases hf with hf | hf
  · exact hl f hf
  · exact hr f hf

theorem fa_complete {a b : Cat} (ha : C14.AllUnary a) (hb : C14.AllUnary b) :
    En.forwardApplication (.fn a cSlash b) b = .ok (some (lab "fa" ">" a)) := by
  obtain ⟨σ, hu, hg⟩ := unify_same (px := Pat.fwd Pat.a Pat.b) (py := Pat.b)
    (x := .fn a cSlash b) (y := b) (by decide) ⟨ha, hb⟩ hb ⟨Or.inl rfl, trivial, trivial⟩ trivial
    (by
      intro v tx ty h1 h2
      simp [matched, Pat.fwd, Pat.a, Pat.b] at h1 h2
      rcases h1 with ⟨rfl, rfl⟩ | ⟨rfl, rfl⟩ <;> simp_all)
  obtain ⟨ca, hla, hga⟩ := hg [97] (by decide)
  have : ca = a := by
    simpa [lastMatched, matched, Pat.fwd, Pat.a, Pat.b] using hla.symm
  subst this
  unfold En.forwardApplication
  rw [hu]
  simp only [hga]
  by_cases e : ca = b
  · subst e
    rw [if_pos ((isModifier_fn ..).2 rfl)]
    rfl
  · rw [if_neg (fun h => e ((isModifier_fn ..).1 h))]
    rfl

theorem ba_complete {a b : Cat} (ha : C14.AllUnary a) (hb : C14.AllUnary b)
    (hne : b.str ≠ lit "S[dcl]") :
    En.backwardApplication b (.fn a cBSlash b) = .ok (some (lab "ba" "<" a)) := by
  obtain ⟨σ, hu, hg⟩ := unify_same (px := Pat.b) (py := Pat.bwd Pat.a Pat.b)
    (x := b) (y := .fn a cBSlash b) (by decide) hb ⟨ha, hb⟩ trivial ⟨Or.inl rfl, trivial, trivial⟩
    (by
      intro v tx ty h1 h2
      simp [matched, Pat.bwd, Pat.a, Pat.b] at h1 h2
      rcases h2 with ⟨rfl, rfl⟩ | ⟨rfl, rfl⟩ <;> simp_all)
  obtain ⟨ca, hla, hga⟩ := hg [97] (by decide)
  have : ca = a := by
    simpa [lastMatched, matched, Pat.bwd, Pat.a, Pat.b] using hla.symm
  subst this
  unfold En.backwardApplication
  have hem : ¬ ((Cat.pyEqStr b (lit "S[dcl]") && Cat.pyEqStr (.fn ca cBSlash b) (lit "S[em]\\S[em]")) = true) := by
    simp only [Bool.and_eq_true, pyEqStr_iff]
    exact fun h => hne h.1
  rw [if_neg hem, hu]
  simp only [hga]
  by_cases e : ca = b
  · subst e
    rw [if_pos ((isModifier_fn ..).2 rfl)]
    rfl
  · rw [if_neg (fun h => e ((isModifier_fn ..).1 h))]
    rfl

theorem fc_complete {a b c : Cat} (ha : C14.AllUnary a) (hb : C14.AllUnary b) (hc : C14.AllUnary c) :
    En.forwardComposition (.fn a cSlash b) (.fn b cSlash c) =
      .ok (some (lab "fc" ">B" (if a = b then .fn b cSlash c else .fn a cSlash c))) := by
  obtain ⟨σ, hu, hg⟩ := unify_same (px := Pat.fwd Pat.a Pat.b) (py := Pat.fwd Pat.b Pat.c)
    (x := .fn a cSlash b) (y := .fn b cSlash c) (by decide) ⟨ha, hb⟩ ⟨hb, hc⟩
    ⟨Or.inl rfl, trivial, trivial⟩ ⟨Or.inl rfl, trivial, trivial⟩
    (by
      intro v tx ty h1 h2
      simp [matched, Pat.fwd, Pat.a, Pat.b, Pat.c] at h1 h2
      rcases h1 with ⟨rfl, rfl⟩ | ⟨rfl, rfl⟩ <;> simp_all)
  obtain ⟨ca, hla, hga⟩ := hg [97] (by decide)
  obtain ⟨cc, hlc, hgc⟩ := hg [99] (by decide)
  have : ca = a := by
    simpa [lastMatched, matched, Pat.fwd, Pat.a, Pat.b, Pat.c] using hla.symm
  subst this
  have : cc = c := by
    simpa [lastMatched, matched, Pat.fwd, Pat.a, Pat.b, Pat.c] using hlc.symm
  subst this
  unfold En.forwardComposition
  rw [hu]
  simp only [hga, hgc]
  by_cases e : ca = b
  · subst e
    rw [if_pos ((isModifier_fn ..).2 rfl), if_pos rfl]
    rfl
  · rw [if_neg (fun h => e ((isModifier_fn ..).1 h)), if_neg e]
    rfl

theorem bx_complete {a b c : Cat} (ha : C14.AllUnary a) (hb : C14.AllUnary b) (hc : C14.AllUnary c)
    (hn : ¬ BareNorNP b) :
    En.backwardComposition (.fn b cSlash c) (.fn a cBSlash b) =
      .ok (some (lab "bx" "<B" (if a = b then .fn b cSlash c else .fn a cSlash c))) := by
  obtain ⟨σ, hu, hg⟩ := unify_same (px := Pat.fwd Pat.b Pat.c) (py := Pat.bwd Pat.a Pat.b)
    (x := .fn b cSlash c) (y := .fn a cBSlash b) (by decide) ⟨hb, hc⟩ ⟨ha, hb⟩
    ⟨Or.inl rfl, trivial, trivial⟩ ⟨Or.inl rfl, trivial, trivial⟩
    (by
      intro v tx ty h1 h2
      simp [matched, Pat.fwd, Pat.bwd, Pat.a, Pat.b, Pat.c] at h1 h2
      rcases h1 with ⟨rfl, rfl⟩ | ⟨rfl, rfl⟩ <;> simp_all)
  obtain ⟨ca, hla, hga⟩ := hg [97] (by decide)
  obtain ⟨cb, hlb, hgb⟩ := hg [98] (by decide)
  obtain ⟨cc, hlc, hgc⟩ := hg [99] (by decide)
  have : ca = a := by
    simpa [lastMatched, matched, Pat.fwd, Pat.bwd, Pat.a, Pat.b, Pat.c] using hla.symm
  subst this
  have : cb = b := by
    simpa [lastMatched, matched, Pat.fwd, Pat.bwd, Pat.a, Pat.b, Pat.c] using hlb.symm
  subst this
  have : cc = c := by
    simpa [lastMatched, matched, Pat.fwd, Pat.bwd, Pat.a, Pat.b, Pat.c] using hlc.symm
  subst this
  unfold En.backwardComposition
  rw [hu]
  simp only [hga, hgb, hgc]
  rw [if_neg (fun h => hn ((isNorNP_iff cb).1 h))]
  by_cases e : ca = cb
  · subst e
    rw [if_pos ((isModifier_fn ..).2 rfl), if_pos rfl]
    rfl
  · rw [if_neg (fun h => e ((isModifier_fn ..).1 h)), if_neg e]
    rfl

theorem gfc_complete {a b c d : Cat} (s3 : Nat) (ha : C14.AllUnary a) (hb : C14.AllUnary b)
    (hc : C14.AllUnary c) (hd : C14.AllUnary d) :
    En.generalizedForwardComposition (.fn a cSlash b) (.fn (.fn b cSlash c) s3 d) =
      .ok (some (lab "gfc" ">B"
        (if a = b then .fn (.fn b cSlash c) s3 d else .fn (.fn a cSlash c) s3 d))) := by
  obtain ⟨σ, hu, hg⟩ := unify_same (px := Pat.fwd Pat.a Pat.b) (py := Pat.any (Pat.fwd Pat.b Pat.c) Pat.d)
    (x := .fn a cSlash b) (y := .fn (.fn b cSlash c) s3 d) (by decide) ⟨ha, hb⟩ ⟨⟨hb, hc⟩, hd⟩
    ⟨Or.inl rfl, trivial, trivial⟩ ⟨Or.inr (Or.inl rfl), ⟨Or.inl rfl, trivial, trivial⟩, trivial⟩
    (by
      intro v tx ty h1 h2
      simp [matched, Pat.any, Pat.fwd, Pat.a, Pat.b, Pat.c, Pat.d] at h1 h2
      rcases h1 with ⟨rfl, rfl⟩ | ⟨rfl, rfl⟩ <;> simp_all)
  obtain ⟨ca, hla, hga⟩ := hg [97] (by decide)
  obtain ⟨cc, hlc, hgc⟩ := hg [99] (by decide)
  obtain ⟨cd, hld, hgd⟩ := hg [100] (by decide)
  have : ca = a := by
    simpa [lastMatched, matched, Pat.any, Pat.fwd, Pat.a, Pat.b, Pat.c, Pat.d] using hla.symm
  subst this
  have : cc = c := by
    simpa [lastMatched, matched, Pat.any, Pat.fwd, Pat.a, Pat.b, Pat.c, Pat.d] using hlc.symm
  subst this
  have : cd = d := by
    simpa [lastMatched, matched, Pat.any, Pat.fwd, Pat.a, Pat.b, Pat.c, Pat.d] using hld.symm
  subst this
  unfold En.generalizedForwardComposition
  rw [hu]
  simp only [hga, hgc, hgd, En.functorOf]
  by_cases e : ca = b
  · subst e
    rw [if_pos ((isModifier_fn ..).2 rfl), if_pos rfl]
    rfl
  · rw [if_neg (fun h => e ((isModifier_fn ..).1 h)), if_neg e]
    rfl

theorem gbx_complete {a b c d : Cat} (s3 : Nat) (ha : C14.AllUnary a) (hb : C14.AllUnary b)
    (hc : C14.AllUnary c) (hd : C14.AllUnary d) (hn : ¬ BareNorNP b) :
    En.generalizedBackwardComposition (.fn (.fn b cSlash c) s3 d) (.fn a cSlash b) =
      .ok (some (lab "gbx" "<B"
        (if a = b then .fn (.fn b cSlash c) s3 d else .fn (.fn a cSlash c) s3 d))) := by
  obtain ⟨σ, hu, hg⟩ := unify_same (px := Pat.any (Pat.fwd Pat.b Pat.c) Pat.d) (py := Pat.fwd Pat.a Pat.b)
    (x := .fn (.fn b cSlash c) s3 d) (y := .fn a cSlash b) (by decide) ⟨⟨hb, hc⟩, hd⟩ ⟨ha, hb⟩
    ⟨Or.inr (Or.inl rfl), ⟨Or.inl rfl, trivial, trivial⟩, trivial⟩ ⟨Or.inl rfl, trivial, trivial⟩
    (by
      intro v tx ty h1 h2
      simp [matched, Pat.any, Pat.fwd, Pat.a, Pat.b, Pat.c, Pat.d] at h1 h2
      rcases h2 with ⟨rfl, rfl⟩ | ⟨rfl, rfl⟩ <;> simp_all)
  obtain ⟨ca, hla, hga⟩ := hg [97] (by decide)
  obtain ⟨cb, hlb, hgb⟩ := hg [98] (by decide)
  obtain ⟨cc, hlc, hgc⟩ := hg [99] (by decide)
  obtain ⟨cd, hld, hgd⟩ := hg [100] (by decide)
  have : ca = a := by
    simpa [lastMatched, matched, Pat.any, Pat.fwd, Pat.a, Pat.b, Pat.c, Pat.d] using hla.symm
  subst this
  have : cb = b := by
    simpa [lastMatched, matched, Pat.any, Pat.fwd, Pat.a, Pat.b, Pat.c, Pat.d] using hlb.symm
  subst this
  have : cc = c := by
    simpa [lastMatched, matched, Pat.any, Pat.fwd, Pat.a, Pat.b, Pat.c, Pat.d] using hlc.symm
  subst this
  have : cd = d := by
    simpa [lastMatched, matched, Pat.any, Pat.fwd, Pat.a, Pat.b, Pat.c, Pat.d] using hld.symm
  subst this
  unfold En.generalizedBackwardComposition
  rw [hu]
  simp only [hga, hgb, hgc, hgd, En.functorOf]
  rw [if_neg (fun h => hn ((isNorNP_iff cb).1 h))]
  by_cases e : ca = cb
  · subst e
    rw [if_pos ((isModifier_fn ..).2 rfl), if_pos rfl]
    rfl
  · rw [if_neg (fun h => e ((isModifier_fn ..).1 h)), if_neg e]
    rfl

/-- the grammar, run without a seen-rule filter on inputs that carry no `nb`, returns the result
    of each of its combinators -/
theorem applyBinary_complete {x y : Cat} {c : En.Comb} {r : RuleRes} (hc : c ∈ En.combinators)
    (hx : C14.AllUnary x) (hy : C14.AllUnary y) (nx : C14.NonEmptyBases x) (ny : C14.NonEmptyBases y)
    (bx : NoNb x) (by' : NoNb y) (h : c x y = .ok (some r)) :
    ∃ rs, En.applyBinary none x y = .ok rs ∧ r ∈ rs := by
  obtain ⟨rs, hrs⟩ := C14.total_en none x y hx hy nx ny
  refine ⟨rs, hrs, ?_⟩
  rcases applyBinary_cases hrs with rfl | h'
  · rw [C14.applyBinary_eq] at hrs
    simp only [if_true, noNb_erase bx, noNb_erase by'] at hrs
    exact (applyAll_mem hrs).2 ⟨c, hc, h⟩
  · rw [noNb_erase bx, noNb_erase by'] at h'
    exact (applyAll_mem h').2 ⟨c, hc, h⟩
end Depccg.C03
