/-
  Lemmas for C07 / json: the reader `Read.parseJson` on the text `JVal.render` writes (blanks,
  `\uXXXX` escapes and surrogate pairs, the decimal expansion of `k/64`, the recursive descent),
  the output is ASCII, and the way back from the value to the trees and scores.
-/
import Depccg.Props.C07JsonDefs
import Depccg.Proofs.C07ConllLemmas
import Depccg.Proofs.C15Lemmas
import Depccg.Proofs.C06Lemmas

namespace Depccg.C07Json
open Depccg Str Print Read

/-! ### blanks -/

theorem js_skipWs_replicate (n : Nat) (s : Str) :
    jsonSkipWs (List.replicate n cSpace ++ s) = jsonSkipWs s := by
  induction n with
  | zero => rfl
  | succ n ih =>
    rw [List.replicate_succ, List.cons_append]
    show (if jsonWs cSpace then jsonSkipWs (List.replicate n cSpace ++ s) else _) = _
    rw [if_pos (by decide), ih]

theorem js_skipWs_newlineIndent (n : Nat) (s : Str) :
    jsonSkipWs (newlineIndent n ++ s) = jsonSkipWs s := by
  unfold newlineIndent
  rw [List.cons_append]
  show (if jsonWs 10 then jsonSkipWs (List.replicate n cSpace ++ s) else _) = _
  rw [if_pos (by decide), js_skipWs_replicate]

theorem js_skipWs_cons {c : Nat} (r : Str) (h : jsonWs c = false) : jsonSkipWs (c :: r) = c :: r := by
  show (if jsonWs c then _ else _) = _
  rw [h]; rfl

theorem js_skipWs_space (s : Str) : jsonSkipWs (32 :: s) = jsonSkipWs s := by
  show (if jsonWs 32 then _ else _) = _
  rw [if_pos (by decide)]

/-- the first character of a value -/
def ValStart (d : Nat) : Prop := d = 34 ∨ d = 91 ∨ d = 123 ∨ d = 45 ∨ (48 ≤ d ∧ d ≤ 57)

theorem js_valStart_notWs {d : Nat} (h : ValStart d) : jsonWs d = false := by
  rcases h with h | h | h | h | h
  · subst h; decide
  · subst h; decide
  · subst h; decide
  · subst h; decide
  · simp only [jsonWs, Bool.or_eq_false_iff, beq_eq_false_iff_ne]
    omega

/-! ### hex digits -/

theorem js_hexVal_hexDigit : ∀ d, d < 16 → jsonHexVal (hexDigit d) = some d := by decide

theorem js_hex4 (n : Nat) (h : n < 65536) (rest : Str) : jsonHex4 (hex4 n ++ rest) = some (n, rest) := by
  unfold hex4
  simp only [List.cons_append, List.nil_append, jsonHex4,
    js_hexVal_hexDigit _ (Nat.mod_lt _ (by decide : 0 < 16))]
  congr 2
  omega

theorem js_hexDigit_ascii (d : Nat) (h : d < 16) : 32 ≤ hexDigit d ∧ hexDigit d ≤ 126 := by
  unfold hexDigit
  split <;> omega

theorem js_hex4_ascii (n : Nat) : ∀ c ∈ hex4 n, 32 ≤ c ∧ c ≤ 126 := by
  intro c hc
  simp only [hex4, List.mem_cons, List.not_mem_nil, or_false] at hc
  rcases hc with rfl | rfl | rfl | rfl <;> exact js_hexDigit_ascii _ (Nat.mod_lt _ (by decide))

/-! ### strings -/

theorem js_escChar_length (c : Nat) : 1 ≤ (jsonEscChar c).length := by
  unfold jsonEscChar
  repeat' split
  all_goals simp

/-- one character of a string, read back -/
theorem js_readStr_step (c : Nat) (hc : c < 55296 ∨ (57344 ≤ c ∧ c < 1114112)) (fuel : Nat) (acc tail : Str) :
    jsonReadStr (fuel + 1) acc (jsonEscChar c ++ tail) = jsonReadStr fuel (c :: acc) tail := by
  unfold jsonEscChar
  split
  · next h => subst h; simp [jsonReadStr, jsonUnescape]
  split
  · next h => subst h; simp [jsonReadStr, jsonUnescape]
  split
  · next h => subst h; simp [jsonReadStr, jsonUnescape]
  split
  · next h => subst h; simp [jsonReadStr, jsonUnescape]
  split
  · next h => subst h; simp [jsonReadStr, jsonUnescape]
  split
  · next h => subst h; simp [jsonReadStr, jsonUnescape]
  split
  · next h => subst h; simp [jsonReadStr, jsonUnescape]
  split
  · next h1 h2 h =>
    have h3 : ¬ c < 32 := by omega
    have a34 : ¬ c = 34 := by assumption
    have a92 : ¬ c = 92 := by assumption
    simp only [List.cons_append, List.nil_append, jsonReadStr, a34, a92, h3, if_false]
  split
  · next h =>
    have h3 : ¬ (55296 ≤ c ∧ c ≤ 56319) := by omega
    simp only [List.cons_append, List.nil_append, jsonReadStr, js_hex4 c h,
      h3, if_false, if_true, (by decide : (92:Nat) ≠ 34)]
  · next h =>
    have hv : c - 65536 < 1048576 := by omega
    have hhi : 55296 + (c - 65536) / 1024 % 1024 < 65536 := by omega
    have hlo : 56320 + (c - 65536) % 1024 < 65536 := by omega
    have h3 : 55296 ≤ 55296 + (c - 65536) / 1024 % 1024 ∧ 55296 + (c - 65536) / 1024 % 1024 ≤ 56319 := by omega
    have h4 : 56320 ≤ 56320 + (c - 65536) % 1024 ∧ 56320 + (c - 65536) % 1024 ≤ 57343 := by omega
    have h5 : 65536 + (55296 + (c - 65536) / 1024 % 1024 - 55296) * 1024 + (56320 + (c - 65536) % 1024 - 56320) = c := by
      omega
    simp only [List.cons_append, List.nil_append, List.append_assoc, jsonReadStr, js_hex4 _ hhi, js_hex4 _ hlo,
      h3, h4, h5, and_self, if_false, if_true, (by decide : (92:Nat) ≠ 34)]

theorem js_readStr_aux : ∀ (s : Str), ScalarStr s → ∀ (fuel : Nat) (acc rest : Str), s.length < fuel →
    jsonReadStr fuel acc (jsonEsc s ++ 34 :: rest) = some (acc.reverse ++ s, rest)
  | [], _, fuel, acc, rest, hf => by
    obtain ⟨f, rfl⟩ : ∃ f, fuel = f + 1 := ⟨fuel - 1, by simp at hf; omega⟩
    simp [jsonEsc, jsonReadStr]
  | c :: cs, hs, fuel, acc, rest, hf => by
    obtain ⟨f, rfl⟩ : ∃ f, fuel = f + 1 := ⟨fuel - 1, by simp at hf; omega⟩
    have hc := hs c (List.mem_cons_self ..)
    have hcs : ScalarStr cs := fun x hx => hs x (List.mem_cons_of_mem _ hx)
    rw [jsonEsc, List.append_assoc, js_readStr_step c hc,
      js_readStr_aux cs hcs f (c :: acc) rest (by simp at hf; omega)]
    simp

theorem js_esc_length : ∀ (s : Str), s.length ≤ (jsonEsc s).length
  | [] => by simp [jsonEsc]
  | c :: cs => by
    have := js_esc_length cs
    have := js_escChar_length c
    simp only [jsonEsc, List.length_cons, List.length_append]
    omega

/-- a printed string (after its opening quote) reads back -/
theorem js_readStr (s : Str) (hs : ScalarStr s) (rest : Str) :
    jsonReadStr ((jsonEsc s ++ 34 :: rest).length + 1) [] (jsonEsc s ++ 34 :: rest) = some (s, rest) := by
  rw [js_readStr_aux s hs _ [] rest]
  · simp
  · have := js_esc_length s
    simp only [List.length_append, List.length_cons]
    omega

/-! ### numbers -/

/-- the text ends a number: it does not go on with a digit -/
def NoDigitHead : Str → Prop
  | [] => True
  | c :: _ => jsonDigit c = false

theorem js_span_digits : ∀ (ds rest : Str), (∀ c ∈ ds, jsonDigit c = true) → NoDigitHead rest →
    (ds ++ rest).takeWhile jsonDigit = ds ∧ (ds ++ rest).dropWhile jsonDigit = rest
  | [], [], _, _ => by simp
  | [], c :: r, _, hr => by
    have : jsonDigit c = false := hr
    simp [this]
  | d :: ds, rest, hd, hr => by
    have h1 := hd d (List.mem_cons_self ..)
    have ih := js_span_digits ds rest (fun x hx => hd x (List.mem_cons_of_mem _ hx)) hr
    simp [h1, ih.1, ih.2]

/-- the digits after the point of `r/64` -/
def fracStr (r : Nat) : Str :=
  let frac := stripZeros (List.replicate (6 - (Str.ofNat (r * 15625)).length) 48 ++ Str.ofNat (r * 15625))
  if frac = [] then [48] else frac

theorem js_float_eq (k : Int) :
    jsonFloat k = (if k < 0 then [45] else []) ++ (Str.ofNat (k.natAbs / 64) ++ 46 :: fracStr (k.natAbs % 64)) := by
  simp [jsonFloat, fracStr]

/-- all 64 fractions: digits, at least one, and their value is `r/64` exactly -/
theorem js_frac_table : ∀ r, r < 64 →
    (∀ c ∈ fracStr r, jsonDigit c = true) ∧ (fracStr r).isEmpty = false ∧
      64 * jsonDigitsVal (fracStr r) = r * 10 ^ (fracStr r).length := by
  decide +kernel

theorem js_ofNat_digit (n : Nat) : ∀ c ∈ Str.ofNat n, jsonDigit c = true := by
  intro c hc
  have := C15.ofNat_digits n c hc
  simp [jsonDigit, this.1, this.2]

/-- a sign, the integer part, the point, the fraction -/
theorem js_readNumber_signed (sgn : Bool) (n r : Nat) (hr : r < 64) (rest : Str) (hrest : NoDigitHead rest) :
    jsonReadNumber ((if sgn then [45] else []) ++ (Str.ofNat n ++ 46 :: (fracStr r ++ rest))) =
      some (.num (if sgn then - ((64 * n + r : Nat) : Int) else ((64 * n + r : Nat) : Int)), rest) := by
  obtain ⟨d, tl, hd, hd1, hd2⟩ := C15.ofNat_head n
  obtain ⟨t1, t2, t3⟩ := js_frac_table r hr
  have s1 := js_span_digits (Str.ofNat n) (46 :: (fracStr r ++ rest)) (js_ofNat_digit n)
    (show jsonDigit 46 = false by decide)
  have s2 := js_span_digits (fracStr r) rest t1 hrest
  have hpos : 0 < 10 ^ (fracStr r).length := Nat.pow_pos (by decide)
  have hnum : 64 * (n * 10 ^ (fracStr r).length + jsonDigitsVal (fracStr r)) = (64 * n + r) * 10 ^ (fracStr r).length := by
    rw [Nat.mul_add, t3, Nat.add_mul, Nat.mul_assoc]
  cases sgn with
  | false =>
    have hneg : ((Str.ofNat n ++ 46 :: (fracStr r ++ rest)).head? == some 45) = false := by
      rw [hd]
      simp only [List.cons_append, List.head?_cons, beq_eq_false_iff_ne, ne_eq, Option.some.injEq]
      omega
    unfold jsonReadNumber
    simp only [Bool.false_eq_true, if_false, List.nil_append, hneg, s1.1, s1.2, s2.1, s2.2, if_true,
      C07.cn_conllNat_ofNat, t2, hnum, Nat.mul_mod_left, Nat.mul_div_cancel _ hpos]
  | true =>
    unfold jsonReadNumber
    simp only [if_true, List.cons_append, List.nil_append, List.head?_cons, beq_self_eq_true, List.drop_succ_cons,
      List.drop_zero, s1.1, s1.2, s2.1, s2.2, C07.cn_conllNat_ofNat, t2, Bool.false_eq_true, if_false, hnum,
      Nat.mul_mod_left, Nat.mul_div_cancel _ hpos]

/-- `repr(k/64)` read back -/
theorem js_readNumber (k : Int) (rest : Str) (hrest : NoDigitHead rest) :
    jsonReadNumber (jsonFloat k ++ rest) = some (.num k, rest) := by
  have h := js_readNumber_signed (decide (k < 0)) (k.natAbs / 64) (k.natAbs % 64) (Nat.mod_lt _ (by decide)) rest hrest
  rw [js_float_eq, List.append_assoc, List.append_assoc]
  simp only [decide_eq_true_eq, List.cons_append] at h ⊢
  rw [h]
  congr 3
  split <;> omega

/-- a printed number starts with `-` or a digit, and is not the beginning of `-Infinity` -/
theorem js_float_head (k : Int) (rest : Str) :
    ∃ d tl, jsonFloat k ++ rest = d :: tl ∧ (d = 45 ∨ (48 ≤ d ∧ d ≤ 57)) ∧
      jsonDropPrefix jsonNegInfLit (d :: tl) = none := by
  obtain ⟨d, tl, hd, hd1, hd2⟩ := C15.ofNat_head (k.natAbs / 64)
  rw [js_float_eq, hd]
  by_cases hk : k < 0
  · refine ⟨45, _, by simp only [hk, if_true]; rfl, Or.inl rfl, ?_⟩
    have : ¬ d = 73 := by omega
    simp [jsonNegInfLit, jsonDropPrefix, this]
  · refine ⟨d, _, by simp only [hk, if_false]; rfl, Or.inr ⟨hd1, hd2⟩, ?_⟩
    have : ¬ d = 45 := by omega
    simp [jsonNegInfLit, jsonDropPrefix, this]

/-! ### the recursive descent, one step at a time -/

theorem js_parseVal_skip {s s' : Str} (h : jsonSkipWs s = jsonSkipWs s') (fuel : Nat) :
    parseVal fuel s = parseVal fuel s' := by
  cases fuel with
  | zero => rfl
  | succ f => simp only [parseVal, h]

theorem js_parseVal_str {s r t r1 : Str} (f : Nat) (h1 : jsonSkipWs s = 34 :: r)
    (h2 : jsonReadStr (r.length + 1) [] r = some (t, r1)) : parseVal (f + 1) s = some (.str t, r1) := by
  simp only [parseVal, h1, h2, if_true]

theorem js_parseVal_arr_nil {s r r1 : Str} (f : Nat) (h1 : jsonSkipWs s = 91 :: r)
    (h2 : jsonSkipWs r = 93 :: r1) : parseVal (f + 1) s = some (.arr [], r1) := by
  simp only [parseVal, h1, h2, if_true, (by decide : ¬ (91 : Nat) = 34)]
  rfl

theorem js_parseVal_arr_cons {s r r1 r2 r3 : Str} {d : Nat} {x : JVal} {xs : List JVal} (f : Nat)
    (h1 : jsonSkipWs s = 91 :: r) (h2 : jsonSkipWs r = d :: r1) (hd : d ≠ 93)
    (h3 : parseVal f (d :: r1) = some (x, r2)) (h4 : parseItems f r2 = some (xs, r3)) :
    parseVal (f + 1) s = some (.arr (x :: xs), r3) := by
  simp only [parseVal, h1, h2, h3, h4, hd, if_true, if_false, (by decide : ¬ (91 : Nat) = 34)]

theorem js_parseVal_obj_nil {s r r1 : Str} (f : Nat) (h1 : jsonSkipWs s = 123 :: r)
    (h2 : jsonSkipWs r = 125 :: r1) : parseVal (f + 1) s = some (.obj [], r1) := by
  simp only [parseVal, h1, h2, if_true, if_false, (by decide : ¬ (123 : Nat) = 34), (by decide : ¬ (123 : Nat) = 91)]

theorem js_parseVal_obj_cons {s r r1 r2 r3 : Str} {d : Nat} {m : Str × JVal} {ms : List (Str × JVal)} (f : Nat)
    (h1 : jsonSkipWs s = 123 :: r) (h2 : jsonSkipWs r = d :: r1) (hd : d ≠ 125)
    (h3 : parseMember f (d :: r1) = some (m, r2)) (h4 : parseMembers f r2 = some (ms, r3)) :
    parseVal (f + 1) s = some (.obj (m :: ms), r3) := by
  simp only [parseVal, h1, h2, h3, h4, hd, if_true, if_false, (by decide : ¬ (123 : Nat) = 34),
    (by decide : ¬ (123 : Nat) = 91)]

theorem js_parseVal_negInf {s r1 : Str} (f : Nat) (h1 : jsonSkipWs s = jsonNegInfLit ++ r1) :
    parseVal (f + 1) s = some (.negInf, r1) := by
  simp only [parseVal, h1, jsonNegInfLit, List.cons_append, List.nil_append, jsonDropPrefix, if_true, if_false,
    (by decide : ¬ (45 : Nat) = 34), (by decide : ¬ (45 : Nat) = 91), (by decide : ¬ (45 : Nat) = 123)]

theorem js_parseVal_num {s r : Str} {c : Nat} {res : JVal × Str} (f : Nat) (h1 : jsonSkipWs s = c :: r)
    (hc : c = 45 ∨ (48 ≤ c ∧ c ≤ 57)) (h2 : jsonDropPrefix jsonNegInfLit (c :: r) = none)
    (h3 : jsonReadNumber (c :: r) = some res) : parseVal (f + 1) s = some res := by
  have a : ¬ c = 34 := by omega
  have b : ¬ c = 91 := by omega
  have d : ¬ c = 123 := by omega
  simp only [parseVal, h1, h2, h3, a, b, d, if_false]

theorem js_parseItems_nil {s r : Str} (f : Nat) (h1 : jsonSkipWs s = 93 :: r) :
    parseItems (f + 1) s = some ([], r) := by
  simp only [parseItems, h1, if_true]

theorem js_parseItems_cons {s r r1 r2 : Str} {x : JVal} {xs : List JVal} (f : Nat)
    (h1 : jsonSkipWs s = 44 :: r) (h2 : parseVal f r = some (x, r1)) (h3 : parseItems f r1 = some (xs, r2)) :
    parseItems (f + 1) s = some (x :: xs, r2) := by
  simp only [parseItems, h1, h2, h3, if_true, if_false, (by decide : ¬ (44 : Nat) = 93)]

theorem js_parseMember_ok {s r k r1 r2 r3 : Str} {v : JVal} (f : Nat) (h1 : jsonSkipWs s = 34 :: r)
    (h2 : jsonReadStr (r.length + 1) [] r = some (k, r1)) (h3 : jsonSkipWs r1 = 58 :: r2)
    (h4 : parseVal f r2 = some (v, r3)) : parseMember (f + 1) s = some ((k, v), r3) := by
  simp only [parseMember, h1, h2, h3, h4, if_true]

theorem js_parseMembers_nil {s r : Str} (f : Nat) (h1 : jsonSkipWs s = 125 :: r) :
    parseMembers (f + 1) s = some ([], r) := by
  simp only [parseMembers, h1, if_true]

theorem js_parseMembers_cons {s r r1 r2 : Str} {m : Str × JVal} {ms : List (Str × JVal)} (f : Nat)
    (h1 : jsonSkipWs s = 44 :: r) (h2 : parseMember f r = some (m, r1)) (h3 : parseMembers f r1 = some (ms, r2)) :
    parseMembers (f + 1) s = some (m :: ms, r2) := by
  simp only [parseMembers, h1, h2, h3, if_true, if_false, (by decide : ¬ (44 : Nat) = 125)]

/-! ### the reader on a printed value -/

theorem js_lit_negInf : lit "-Infinity" = jsonNegInfLit := by decide

theorem js_render_head (v : JVal) (ind : Nat) : ∃ d tl, JVal.render ind v = d :: tl ∧ ValStart d := by
  cases v with
  | str s => exact ⟨34, jsonEsc s ++ [34], by simp [JVal.render, jsonStr], Or.inl rfl⟩
  | num k =>
    obtain ⟨d, tl, h, hd, _⟩ := js_float_head k []
    rw [List.append_nil] at h
    refine ⟨d, tl, by rw [JVal.render, h], ?_⟩
    rcases hd with hd | hd
    · exact Or.inr (Or.inr (Or.inr (Or.inl hd)))
    · exact Or.inr (Or.inr (Or.inr (Or.inr hd)))
  | negInf => exact ⟨45, _, by rw [JVal.render, js_lit_negInf]; rfl, Or.inr (Or.inr (Or.inr (Or.inl rfl)))⟩
  | arr xs =>
    cases xs with
    | nil => exact ⟨91, [93], by rw [JVal.render], Or.inr (Or.inl rfl)⟩
    | cons x xs => exact ⟨91, _, by rw [JVal.render]; rfl, Or.inr (Or.inl rfl)⟩
  | obj ms =>
    cases ms with
    | nil => exact ⟨123, [125], by rw [JVal.render], Or.inr (Or.inr (Or.inl rfl))⟩
    | cons m ms =>
      obtain ⟨k, v⟩ := m
      exact ⟨123, _, by rw [JVal.render]; rfl, Or.inr (Or.inr (Or.inl rfl))⟩

/-- blanks before a printed value -/
theorem js_skip_to_val (v : JVal) (ind n : Nat) (R : Str) :
    jsonSkipWs (newlineIndent n ++ (JVal.render ind v ++ R)) = JVal.render ind v ++ R := by
  obtain ⟨d, tl, h, hd⟩ := js_render_head v ind
  rw [js_skipWs_newlineIndent, h, List.cons_append, js_skipWs_cons _ (js_valStart_notWs hd)]

theorem js_val_not_close (v : JVal) (ind : Nat) (R : Str) :
    ∃ d tl, JVal.render ind v ++ R = d :: tl ∧ d ≠ 93 ∧ d ≠ 125 := by
  obtain ⟨d, tl, h, hd⟩ := js_render_head v ind
  refine ⟨d, tl ++ R, by rw [h]; rfl, ?_⟩
  rcases hd with hd | hd | hd | hd | hd <;> omega

theorem js_noDigit_items (ind n : Nat) (xs : List JVal) (t : Str) :
    NoDigitHead (renderItems ind xs ++ (newlineIndent n ++ t)) := by
  cases xs with
  | nil => show jsonDigit 10 = false; decide
  | cons x xs => rw [renderItems]; show jsonDigit 44 = false; decide

theorem js_noDigit_members (ind n : Nat) (ms : List (Str × JVal)) (t : Str) :
    NoDigitHead (renderMembers ind ms ++ (newlineIndent n ++ t)) := by
  cases ms with
  | nil => show jsonDigit 10 = false; decide
  | cons m ms => obtain ⟨k, v⟩ := m; rw [renderMembers]; show jsonDigit 44 = false; decide

theorem js_parseMember_skip {s s' : Str} (h : jsonSkipWs s = jsonSkipWs s') (fuel : Nat) :
    parseMember fuel s = parseMember fuel s' := by
  cases fuel with
  | zero => rfl
  | succ f => simp only [parseMember, h]

theorem js_fuel_succ {n fuel : Nat} (h : n < fuel) : ∃ f, fuel = f + 1 := ⟨fuel - 1, by omega⟩

mutual
theorem js_parse_val : ∀ (v : JVal) (ind : Nat) (rest : Str) (fuel : Nat), ScalarVal v → NoDigitHead rest →
    (JVal.render ind v ++ rest).length < fuel → parseVal fuel (JVal.render ind v ++ rest) = some (v, rest)
  | .str s, ind, rest, fuel, hs, _, hf => by
    obtain ⟨f, rfl⟩ := js_fuel_succ hf
    have hs' : ScalarStr s := by simpa only [ScalarVal] using hs
    have e : JVal.render ind (.str s) ++ rest = 34 :: (jsonEsc s ++ 34 :: rest) := by
      simp [JVal.render, jsonStr]
    rw [e]
    exact js_parseVal_str f (js_skipWs_cons _ (by decide)) (js_readStr s hs' rest)
  | .num k, ind, rest, fuel, _, hr, hf => by
    obtain ⟨f, rfl⟩ := js_fuel_succ hf
    obtain ⟨d, tl, h, hd, hp⟩ := js_float_head k rest
    have hn := js_readNumber k rest hr
    rw [JVal.render]
    rw [h] at hn ⊢
    refine js_parseVal_num f (js_skipWs_cons _ ?_) hd hp hn
    rcases hd with hd | hd
    · subst hd; decide
    · exact js_valStart_notWs (Or.inr (Or.inr (Or.inr (Or.inr hd))))
  | .negInf, ind, rest, fuel, _, _, hf => by
    obtain ⟨f, rfl⟩ := js_fuel_succ hf
    rw [JVal.render, js_lit_negInf]
    exact js_parseVal_negInf f (js_skipWs_cons _ (by decide))
  | .arr [], ind, rest, fuel, _, _, hf => by
    obtain ⟨f, rfl⟩ := js_fuel_succ hf
    rw [JVal.render]
    exact js_parseVal_arr_nil f (js_skipWs_cons _ (by decide)) (js_skipWs_cons _ (by decide))
  | .arr (x :: xs), ind, rest, fuel, hs, _, hf => by
    obtain ⟨f, rfl⟩ := js_fuel_succ hf
    have hs' : ScalarVal x ∧ ScalarItems xs := by simpa only [ScalarVal, ScalarItems] using hs
    have e : JVal.render ind (.arr (x :: xs)) ++ rest =
        91 :: (newlineIndent (ind + 4) ++ (JVal.render (ind + 4) x ++
          (renderItems (ind + 4) xs ++ (newlineIndent ind ++ 93 :: rest)))) := by
      simp [JVal.render]
    rw [e] at hf ⊢
    simp only [List.length_cons, List.length_append] at hf
    obtain ⟨d, tl, hd, h93, _⟩ := js_val_not_close x (ind + 4)
      (renderItems (ind + 4) xs ++ (newlineIndent ind ++ 93 :: rest))
    have h2 := js_skip_to_val x (ind + 4) (ind + 4) (renderItems (ind + 4) xs ++ (newlineIndent ind ++ 93 :: rest))
    have h3 := js_parse_val x (ind + 4) (renderItems (ind + 4) xs ++ (newlineIndent ind ++ 93 :: rest)) f hs'.1
      (js_noDigit_items _ _ _ _) (by simp only [List.length_cons, List.length_append]; omega)
    have h4 := js_parse_items xs (ind + 4) ind rest f hs'.2
      (by simp only [List.length_cons, List.length_append]; omega)
    rw [hd] at h3
    exact js_parseVal_arr_cons f (js_skipWs_cons _ (by decide)) (h2.trans hd) h93 h3 h4
  | .obj [], ind, rest, fuel, _, _, hf => by
    obtain ⟨f, rfl⟩ := js_fuel_succ hf
    rw [JVal.render]
    exact js_parseVal_obj_nil f (js_skipWs_cons _ (by decide)) (js_skipWs_cons _ (by decide))
  | .obj ((k, v) :: ms), ind, rest, fuel, hs, _, hf => by
    obtain ⟨f, rfl⟩ := js_fuel_succ hf
    have hs' : ScalarStr k ∧ ScalarVal v ∧ ScalarMembers ms := by simpa only [ScalarVal, ScalarMembers] using hs
    have e : JVal.render ind (.obj ((k, v) :: ms)) ++ rest =
        123 :: (newlineIndent (ind + 4) ++ (34 :: (jsonEsc k ++ 34 :: 58 :: 32 :: (JVal.render (ind + 4) v ++
          (renderMembers (ind + 4) ms ++ (newlineIndent ind ++ 125 :: rest)))))) := by
      simp [JVal.render, jsonStr]
    rw [e] at hf ⊢
    simp only [List.length_cons, List.length_append] at hf
    have h2 : ∀ t : Str, jsonSkipWs (newlineIndent (ind + 4) ++ 34 :: t) = 34 :: t := fun t => by
      rw [js_skipWs_newlineIndent, js_skipWs_cons _ (by decide)]
    have h3 := js_parse_member k v (ind + 4) (renderMembers (ind + 4) ms ++ (newlineIndent ind ++ 125 :: rest)) f
      hs'.1 hs'.2.1 (js_noDigit_members _ _ _ _) (by simp only [List.length_cons, List.length_append]; omega)
    have h4 := js_parse_members ms (ind + 4) ind rest f hs'.2.2
      (by simp only [List.length_cons, List.length_append]; omega)
    exact js_parseVal_obj_cons (d := 34) f (js_skipWs_cons _ (by decide)) (h2 _) (by decide) h3 h4

theorem js_parse_member : ∀ (k : Str) (v : JVal) (ind : Nat) (R : Str) (fuel : Nat), ScalarStr k → ScalarVal v →
    NoDigitHead R → (JVal.render ind v ++ R).length + 1 < fuel →
    parseMember fuel (34 :: (jsonEsc k ++ 34 :: 58 :: 32 :: (JVal.render ind v ++ R))) = some ((k, v), R)
  | k, v, ind, R, fuel, hk, hv, hR, hf => by
    obtain ⟨f, rfl⟩ := js_fuel_succ hf
    have h4 := js_parse_val v ind R f hv hR (by omega)
    rw [← js_parseVal_skip (js_skipWs_space _)] at h4
    exact js_parseMember_ok f (js_skipWs_cons _ (by decide)) (js_readStr k hk _) (js_skipWs_cons _ (by decide)) h4

theorem js_parse_items : ∀ (xs : List JVal) (ind n : Nat) (rest : Str) (fuel : Nat), ScalarItems xs →
    (renderItems ind xs ++ (newlineIndent n ++ 93 :: rest)).length < fuel →
    parseItems fuel (renderItems ind xs ++ (newlineIndent n ++ 93 :: rest)) = some (xs, rest)
  | [], ind, n, rest, fuel, _, hf => by
    obtain ⟨f, rfl⟩ := js_fuel_succ hf
    rw [renderItems, List.nil_append]
    exact js_parseItems_nil f (by rw [js_skipWs_newlineIndent, js_skipWs_cons _ (by decide)])
  | x :: xs, ind, n, rest, fuel, hs, hf => by
    obtain ⟨f, rfl⟩ := js_fuel_succ hf
    have hs' : ScalarVal x ∧ ScalarItems xs := by simpa only [ScalarItems] using hs
    have e : renderItems ind (x :: xs) ++ (newlineIndent n ++ 93 :: rest) =
        44 :: (newlineIndent ind ++ (JVal.render ind x ++ (renderItems ind xs ++ (newlineIndent n ++ 93 :: rest)))) := by
      simp [renderItems]
    rw [e] at hf ⊢
    simp only [List.length_cons, List.length_append] at hf
    have h2 := js_parse_val x ind (renderItems ind xs ++ (newlineIndent n ++ 93 :: rest)) f hs'.1
      (js_noDigit_items _ _ _ _) (by simp only [List.length_cons, List.length_append]; omega)
    rw [← js_parseVal_skip (js_skipWs_newlineIndent ind _)] at h2
    have h3 := js_parse_items xs ind n rest f hs'.2 (by simp only [List.length_cons, List.length_append]; omega)
    exact js_parseItems_cons f (js_skipWs_cons _ (by decide)) h2 h3

theorem js_parse_members : ∀ (ms : List (Str × JVal)) (ind n : Nat) (rest : Str) (fuel : Nat), ScalarMembers ms →
    (renderMembers ind ms ++ (newlineIndent n ++ 125 :: rest)).length < fuel →
    parseMembers fuel (renderMembers ind ms ++ (newlineIndent n ++ 125 :: rest)) = some (ms, rest)
  | [], ind, n, rest, fuel, _, hf => by
    obtain ⟨f, rfl⟩ := js_fuel_succ hf
    rw [renderMembers, List.nil_append]
    exact js_parseMembers_nil f (by rw [js_skipWs_newlineIndent, js_skipWs_cons _ (by decide)])
  | (k, v) :: ms, ind, n, rest, fuel, hs, hf => by
    obtain ⟨f, rfl⟩ := js_fuel_succ hf
    have hs' : ScalarStr k ∧ ScalarVal v ∧ ScalarMembers ms := by simpa only [ScalarMembers] using hs
    have e : renderMembers ind ((k, v) :: ms) ++ (newlineIndent n ++ 125 :: rest) =
        44 :: (newlineIndent ind ++ (34 :: (jsonEsc k ++ 34 :: 58 :: 32 :: (JVal.render ind v ++
          (renderMembers ind ms ++ (newlineIndent n ++ 125 :: rest)))))) := by
      simp [renderMembers, jsonStr]
    rw [e] at hf ⊢
    simp only [List.length_cons, List.length_append] at hf
    have h2 := js_parse_member k v ind (renderMembers ind ms ++ (newlineIndent n ++ 125 :: rest)) f
      hs'.1 hs'.2.1 (js_noDigit_members _ _ _ _) (by simp only [List.length_cons, List.length_append]; omega)
    have h3 := js_parse_members ms ind n rest f hs'.2.2 (by simp only [List.length_cons, List.length_append]; omega)
    rw [← js_parseMember_skip (js_skipWs_newlineIndent ind _)] at h2
    exact js_parseMembers_cons f (js_skipWs_cons _ (by decide)) h2 h3
end

theorem js_roundtrip (v : JVal) (ind : Nat) (h : ScalarVal v) : parseJson (v.render ind) = some v := by
  have := js_parse_val v ind [] ((v.render ind).length + 1) h trivial (by simp)
  rw [List.append_nil] at this
  simp [parseJson, this, jsonSkipWs]

/-! ### the output is ASCII -/

def Ascii (s : Str) : Prop := ∀ c ∈ s, c = 10 ∨ (32 ≤ c ∧ c ≤ 126)

instance (s : Str) : Decidable (Ascii s) := by unfold Ascii; infer_instance

theorem ascii_nil : Ascii [] := fun _ h => by cases h

theorem ascii_append {a b : Str} (ha : Ascii a) (hb : Ascii b) : Ascii (a ++ b) :=
  fun c hc => (List.mem_append.1 hc).elim (ha c) (hb c)

theorem ascii_cons {x : Nat} {b : Str} (hx : x = 10 ∨ (32 ≤ x ∧ x ≤ 126)) (hb : Ascii b) : Ascii (x :: b) :=
  fun c hc => (List.mem_cons.1 hc).elim (fun e => e ▸ hx) (hb c)

theorem ascii_of_print {s : Str} (h : ∀ c ∈ s, 32 ≤ c ∧ c ≤ 126) : Ascii s := fun c hc => Or.inr (h c hc)

theorem ascii_newlineIndent (n : Nat) : Ascii (newlineIndent n) := by
  intro c hc
  simp only [newlineIndent, List.mem_cons, List.mem_replicate] at hc
  rcases hc with rfl | ⟨_, rfl⟩
  · exact Or.inl rfl
  · exact Or.inr (by decide)

theorem ascii_escChar (c : Nat) : Ascii (jsonEscChar c) := by
  unfold jsonEscChar
  split; · decide
  split; · decide
  split; · decide
  split; · decide
  split; · decide
  split; · decide
  split; · decide
  split
  · next h => exact ascii_cons (Or.inr h) ascii_nil
  split
  · exact ascii_append (by decide) (ascii_of_print (js_hex4_ascii c))
  · exact ascii_append (ascii_append (ascii_append (by decide) (ascii_of_print (js_hex4_ascii _))) (by decide))
      (ascii_of_print (js_hex4_ascii _))

theorem ascii_esc : ∀ s : Str, Ascii (jsonEsc s)
  | [] => ascii_nil
  | c :: cs => ascii_append (ascii_escChar c) (ascii_esc cs)

theorem ascii_jsonStr (s : Str) : Ascii (jsonStr s) :=
  ascii_append (ascii_append (by decide) (ascii_esc s)) (by decide)

theorem ascii_ofNat (n : Nat) : Ascii (Str.ofNat n) :=
  ascii_of_print fun c hc => by have := C15.ofNat_digits n c hc; omega

theorem js_stripZeros_mem {s : Str} {c : Nat} (h : c ∈ stripZeros s) : c ∈ s := by
  unfold stripZeros at h
  rw [List.mem_reverse] at h
  exact List.mem_reverse.1 ((List.dropWhile_sublist _).subset h)

theorem ascii_fracStr (r : Nat) : Ascii (fracStr r) := by
  unfold fracStr
  simp only
  split
  · decide
  · intro c hc
    have := js_stripZeros_mem hc
    rcases List.mem_append.1 this with h | h
    · rw [List.mem_replicate] at h
      exact Or.inr (by omega)
    · exact ascii_ofNat _ c h

theorem ascii_float (k : Int) : Ascii (jsonFloat k) := by
  rw [js_float_eq]
  refine ascii_append ?_ (ascii_append (ascii_ofNat _) (ascii_cons (by decide) (ascii_fracStr _)))
  split <;> decide

mutual
theorem ascii_render : ∀ (v : JVal) (ind : Nat), Ascii (v.render ind)
  | .str s, ind => by rw [JVal.render]; exact ascii_jsonStr s
  | .num k, ind => by rw [JVal.render]; exact ascii_float k
  | .negInf, ind => by rw [JVal.render]; decide
  | .arr [], ind => by rw [JVal.render]; decide
  | .arr (x :: xs), ind => by
    rw [JVal.render]
    exact ascii_append (ascii_append (ascii_append (ascii_append (ascii_append (by decide) (ascii_newlineIndent _))
      (ascii_render x _)) (ascii_renderItems xs _)) (ascii_newlineIndent _)) (by decide)
  | .obj [], ind => by rw [JVal.render]; decide
  | .obj ((k, v) :: ms), ind => by
    rw [JVal.render]
    exact ascii_append (ascii_append (ascii_append (ascii_append (ascii_append (ascii_append (ascii_append (by decide)
      (ascii_newlineIndent _)) (ascii_jsonStr k)) (by decide)) (ascii_render v _)) (ascii_renderMembers ms _))
      (ascii_newlineIndent _)) (by decide)
theorem ascii_renderItems : ∀ (xs : List JVal) (ind : Nat), Ascii (renderItems ind xs)
  | [], ind => by rw [renderItems]; exact ascii_nil
  | x :: xs, ind => by
    rw [renderItems]
    exact ascii_append (ascii_append (ascii_append (by decide) (ascii_newlineIndent _)) (ascii_render x _))
      (ascii_renderItems xs _)
theorem ascii_renderMembers : ∀ (ms : List (Str × JVal)) (ind : Nat), Ascii (renderMembers ind ms)
  | [], ind => by rw [renderMembers]; exact ascii_nil
  | (k, v) :: ms, ind => by
    rw [renderMembers]
    exact ascii_append (ascii_append (ascii_append (ascii_append (ascii_append (by decide) (ascii_newlineIndent _))
      (ascii_jsonStr k)) (by decide)) (ascii_render v _)) (ascii_renderMembers ms _)
end

/-! ### the value the printer builds -/

instance (s : Str) : Decidable (ScalarStr s) := by unfold ScalarStr; infer_instance

/-- a token's items as json members -/
def strMembers (fs : List (Str × Str)) : List (Str × JVal) := fs.map fun (k, v) => (k, JVal.str v)

theorem js_setMember_str : ∀ (fs : List (Str × Str)) (k v : Str),
    setMember (strMembers fs) k (.str v) = strMembers (Dict.set fs k v)
  | [], k, v => rfl
  | (k', v') :: rest, k, v => by
    have ih := js_setMember_str rest k v
    simp only [strMembers, List.map_cons, setMember, Dict.set] at ih ⊢
    split
    · rfl
    · rw [ih]; rfl

theorem js_jsonMembers_leaf (c : Cat) (tok : Token) (a b : Str) :
    jsonMembers (.leaf c tok a b) = strMembers (Dict.set tok (lit "cat") c.str) := by
  rw [jsonMembers]
  exact js_setMember_str tok (lit "cat") c.str

theorem js_get_strMembers : ∀ (fs : List (Str × Str)) (k : Str),
    jsonGet (strMembers fs) k = (Dict.get? fs k).map JVal.str
  | [], k => rfl
  | (k', v') :: rest, k => by
    have ih := js_get_strMembers rest k
    simp only [strMembers, List.map_cons, jsonGet, Dict.get?] at ih ⊢
    split
    · rfl
    · exact ih

theorem js_get_setMember : ∀ (ms : List (Str × JVal)) (k : Str) (v : JVal), jsonGet ms k = none →
    jsonGet (setMember ms k v) k = some v ∧ jsonErase (setMember ms k v) k = ms
  | [], k, v, _ => by simp [setMember, jsonGet, jsonErase]
  | (k', v') :: rest, k, v, h => by
    simp only [jsonGet] at h
    split at h
    · cases h
    · next hk =>
      have ih := js_get_setMember rest k v h
      simp only [jsonErase] at ih
      simp only [setMember, hk, if_false, jsonGet, ih.1, jsonErase, List.filter_cons, bne_iff_ne, ne_eq,
        not_false_eq_true, if_true, ih.2, and_self]

/-! ### scalar text -/

theorem scalar_ofNat (n : Nat) : ScalarStr (Str.ofNat n) := by
  intro c hc
  have := C15.ofNat_digits n c hc
  omega

theorem scalar_setMember : ∀ (ms : List (Str × JVal)) (k : Str) (v : JVal), ScalarMembers ms → ScalarStr k →
    ScalarVal v → ScalarMembers (setMember ms k v)
  | [], k, v, _, hk, hv => by simp only [setMember, ScalarMembers]; exact ⟨hk, hv, trivial⟩
  | (k', v') :: rest, k, v, h, hk, hv => by
    simp only [ScalarMembers] at h
    simp only [setMember]
    split
    · simp only [ScalarMembers]; exact ⟨hk, hv, h.2.2⟩
    · simp only [ScalarMembers]; exact ⟨h.1, h.2.1, scalar_setMember rest k v h.2.2 hk hv⟩

theorem scalar_strMembers : ∀ (fs : List (Str × Str)), (∀ p ∈ fs, ScalarStr p.1 ∧ ScalarStr p.2) →
    ScalarMembers (strMembers fs)
  | [], _ => by simp only [strMembers, List.map_nil, ScalarMembers]
  | (k, v) :: rest, h => by
    have h1 := h (k, v) (List.mem_cons_self ..)
    have ih := scalar_strMembers rest (fun p hp => h p (List.mem_cons_of_mem _ hp))
    simp only [strMembers, List.map_cons, ScalarMembers, ScalarVal] at ih ⊢
    exact ⟨h1.1, h1.2, ih⟩

theorem scalar_jsonMembers : ∀ (t : Tree), TreeOK t → ScalarMembers (jsonMembers t)
  | .leaf c tok _ _, h => by
    simp only [TreeOK] at h
    rw [jsonMembers]
    exact scalar_setMember _ _ _ (scalar_strMembers tok h.2.1) (by decide) (by simpa only [ScalarVal] using h.1)
  | .un c s _ ch, h => by
    simp only [TreeOK] at h
    have ih := scalar_jsonMembers ch h.2.2
    simp only [jsonMembers, ScalarMembers, ScalarVal, ScalarItems]
    exact ⟨by decide, h.2.1, by decide, h.1, by decide, ⟨ih, trivial⟩, trivial⟩
  | .bin c s _ _ l r, h => by
    simp only [TreeOK] at h
    have ihl := scalar_jsonMembers l h.2.2.1
    have ihr := scalar_jsonMembers r h.2.2.2
    simp only [jsonMembers, ScalarMembers, ScalarVal, ScalarItems]
    exact ⟨by decide, h.2.1, by decide, h.1, by decide, ⟨ihl, ihr, trivial⟩, trivial⟩

theorem scalar_scoreVal (sc : Option Int) : ScalarVal (scoreVal sc) := by
  cases sc <;> simp only [scoreVal, ScalarVal]

theorem scalar_entries : ∀ (ts : List (Tree × Option Int)), (∀ p ∈ ts, TreeOK p.1) →
    ScalarItems (ts.map jsonEntry)
  | [], _ => by simp only [List.map_nil, ScalarItems]
  | p :: ts, h => by
    simp only [List.map_cons, ScalarItems, jsonEntry, ScalarVal]
    exact ⟨scalar_setMember _ _ _ (scalar_jsonMembers p.1 (h p (List.mem_cons_self ..))) (by decide)
      (scalar_scoreVal p.2), scalar_entries ts (fun q hq => h q (List.mem_cons_of_mem _ hq))⟩

theorem scalar_sentences : ∀ (nbest : List (List (Tree × Option Int))) (i : Nat), BatchOK nbest →
    ScalarMembers (jsonSentences i nbest)
  | [], i, _ => by simp only [jsonSentences, ScalarMembers]
  | ts :: rest, i, h => by
    simp only [jsonSentences, ScalarMembers, ScalarVal]
    exact ⟨scalar_ofNat i, scalar_entries ts (h ts (List.mem_cons_self ..)),
      scalar_sentences rest (i + 1) (fun q hq => h q (List.mem_cons_of_mem _ hq))⟩

theorem scalar_jsonValue (nbest : List (List (Tree × Option Int))) (h : BatchOK nbest) :
    ScalarVal (jsonValue nbest) := by
  simp only [jsonValue, ScalarVal]
  exact scalar_sentences nbest 1 h

/-! ### from the value back to the trees -/

theorem js_treeMembers_str : ∀ (fs : List (Str × Str)), Dict.get? fs (lit "children") = none →
    jsonTreeMembers (strMembers fs) = some (fs, none)
  | [], _ => by simp only [strMembers, List.map_nil, jsonTreeMembers]
  | (k, v) :: rest, h => by
    simp only [Dict.get?] at h
    split at h
    · cases h
    · next hk =>
      have ih := js_treeMembers_str rest h
      simp only [strMembers, List.map_cons] at ih ⊢
      simp only [jsonTreeMembers, ih, hk, if_false, jsonAddField]

theorem js_no_logprob : ∀ (t : Tree), TreeOK t → jsonGet (jsonMembers t) (lit "log_prob") = none
  | .leaf c tok a b, h => by
    simp only [TreeOK] at h
    rw [js_jsonMembers_leaf, js_get_strMembers, C06.get?_set_ne _ _ (by decide), h.2.2.2]
    rfl
  | .un c s _ ch, _ => by
    simp only [jsonMembers, jsonGet, (by decide : ¬ lit "type" = lit "log_prob"),
      (by decide : ¬ lit "cat" = lit "log_prob"), (by decide : ¬ lit "children" = lit "log_prob"), if_false]
  | .bin c s _ _ l r, _ => by
    simp only [jsonMembers, jsonGet, (by decide : ¬ lit "type" = lit "log_prob"),
      (by decide : ¬ lit "cat" = lit "log_prob"), (by decide : ¬ lit "children" = lit "log_prob"), if_false]

theorem js_treeOf : ∀ (t : Tree), TreeOK t → jsonTreeOf (.obj (jsonMembers t)) = some (jsonOf t)
  | .leaf c tok a b, h => by
    simp only [TreeOK] at h
    have hc : Dict.get? (Dict.set tok (lit "cat") c.str) (lit "children") = none := by
      rw [C06.get?_set_ne _ _ (by decide), h.2.2.1]
    rw [js_jsonMembers_leaf, jsonTreeOf, js_treeMembers_str _ hc]
    rfl
  | .un c s y ch, h => by
    simp only [TreeOK] at h
    have ih := js_treeOf ch h.2.2
    rw [jsonTreeOf]
    simp only [jsonMembers, jsonTreeMembers, jsonTreeItems, ih, if_true, if_false,
      (by decide : ¬ lit "type" = lit "children"), (by decide : ¬ lit "cat" = lit "children"),
      Dict.get?, (by decide : ¬ lit "type" = lit "cat"), jsonOf, jsonAddField, jsonAddKids]
  | .bin c s y hd l r, h => by
    simp only [TreeOK] at h
    have ihl := js_treeOf l h.2.2.1
    have ihr := js_treeOf r h.2.2.2
    rw [jsonTreeOf]
    simp only [jsonMembers, jsonTreeMembers, jsonTreeItems, ihl, ihr, if_true, if_false,
      (by decide : ¬ lit "type" = lit "children"), (by decide : ¬ lit "cat" = lit "children"),
      Dict.get?, (by decide : ¬ lit "type" = lit "cat"), jsonOf, jsonAddField, jsonAddKids]

theorem js_readEntry (p : Tree × Option Int) (h : TreeOK p.1) :
    jsonReadEntry (jsonEntry p) = some (jsonOf p.1, p.2) := by
  obtain ⟨t, sc⟩ := p
  obtain ⟨g, e⟩ := js_get_setMember (jsonMembers t) (lit "log_prob") (scoreVal sc) (js_no_logprob t h)
  cases sc with
  | none =>
    simp only [scoreVal] at g e
    simp only [jsonEntry, jsonReadEntry, scoreVal, g, e, js_treeOf t h, Option.map_some]
  | some k =>
    simp only [scoreVal] at g e
    simp only [jsonEntry, jsonReadEntry, scoreVal, g, e, js_treeOf t h, Option.map_some]

theorem js_readEntries : ∀ (ts : List (Tree × Option Int)), (∀ p ∈ ts, TreeOK p.1) →
    jsonReadEntries (ts.map jsonEntry) = some (ts.map fun p => (jsonOf p.1, p.2))
  | [], _ => rfl
  | p :: ts, h => by
    simp only [List.map_cons, jsonReadEntries, js_readEntry p (h p (List.mem_cons_self ..)),
      js_readEntries ts (fun q hq => h q (List.mem_cons_of_mem _ hq))]

theorem js_readSentences : ∀ (nbest : List (List (Tree × Option Int))) (i : Nat), BatchOK nbest →
    jsonReadSentences (jsonSentences i nbest) = some (expected i nbest)
  | [], i, _ => rfl
  | ts :: rest, i, h => by
    simp only [jsonSentences, jsonReadSentences, C07.cn_conllNat_ofNat,
      js_readEntries ts (h ts (List.mem_cons_self ..)),
      js_readSentences rest (i + 1) (fun q hq => h q (List.mem_cons_of_mem _ hq)), expected]

theorem js_text_decode (nbest : List (List (Tree × Option Int))) (h : BatchOK nbest) :
    readJsonOutput (jsonText nbest) = some (expected 1 nbest) := by
  have hp := js_roundtrip (jsonValue nbest) 0 (scalar_jsonValue nbest h)
  unfold readJsonOutput jsonText
  rw [hp]
  exact js_readSentences nbest 1 h

/-! ### the hypotheses are decidable (for concrete batches) -/

instance (tok : Token) : Decidable (ScalarTok tok) := by unfold ScalarTok; infer_instance

def treeOKDec : (t : Tree) → Decidable (TreeOK t)
  | .leaf .. => by unfold TreeOK; infer_instance
  | .un _ _ _ ch => by
    unfold TreeOK
    have := treeOKDec ch
    infer_instance
  | .bin _ _ _ _ l r => by
    unfold TreeOK
    have := treeOKDec l
    have := treeOKDec r
    infer_instance

instance (t : Tree) : Decidable (TreeOK t) := treeOKDec t
instance (b : List (List (Tree × Option Int))) : Decidable (BatchOK b) := by unfold BatchOK; infer_instance

end Depccg.C07Json
