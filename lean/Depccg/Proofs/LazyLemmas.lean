/-
  Helper lemmas for `Depccg/Props/Lazy.lean`: the lazily filled cache (`Depccg.Lazy`) against the
  search over a total grammar (`Depccg.Search`).

  * `Reach` / `Grows`: the lazy functions touch table and cache only through callbacks; rows are
    written once and persist, the table only grows.
  * `Sub`: the id-level view of a later cache extends the view of an earlier one wherever the
    earlier one is non-empty.
  * `lz_expandL_eq` / `lz_expandL_mem`: what one expansion pushes, against `expand` over the view of
    any later cache (equality when all ids are known, inclusion always).
-/
import Depccg.Props.LazyDefs
import Depccg.Props.GlueRun
import Depccg.Proofs.SearchLemmas
import Depccg.Proofs.SearchLocalLemmas
import Depccg.Props.EndToEnd

namespace Depccg.LazyProps
open Depccg Search SearchProps GlueTree GlueRun Lazy GlueRunProps

/-! ### reachability by callbacks -/

/-- `b` is obtained from `a` by callbacks -/
def Reach (G : GlueRun.CatGrammar) (a b : GSt) : Prop :=
  ∃ calls : List Call, b = calls.foldl (GlueRun.step G) a

theorem lz_reach_refl (G : GlueRun.CatGrammar) (a : GSt) : Reach G a a := ⟨[], rfl⟩

theorem lz_reach_trans {G : GlueRun.CatGrammar} {a b c : GSt} (h1 : Reach G a b) (h2 : Reach G b c) :
    Reach G a c := by
  obtain ⟨c1, rfl⟩ := h1
  obtain ⟨c2, rfl⟩ := h2
  exact ⟨c1 ++ c2, by rw [List.foldl_append]⟩

theorem lz_reach_un (G : GlueRun.CatGrammar) (a : GSt) (x : Nat) : Reach G a (unCall G a x) :=
  ⟨[.un x], rfl⟩

theorem lz_reach_bin (G : GlueRun.CatGrammar) (a : GSt) (x y : Nat) : Reach G a (binCall G a x y) :=
  ⟨[.bin x y], rfl⟩

/-! ### rows persist, the table grows -/

def Grows (a b : GSt) : Prop :=
  a.cats <+: b.cats ∧
  (∀ x y row, binRow a x y = some row → binRow b x y = some row) ∧
  (∀ x row, unRow a x = some row → unRow b x = some row)

theorem lz_grows_refl (a : GSt) : Grows a a :=
  ⟨List.prefix_refl _, fun _ _ _ h => h, fun _ _ h => h⟩

theorem lz_grows_trans {a b c : GSt} (h1 : Grows a b) (h2 : Grows b c) : Grows a c :=
  ⟨List.IsPrefix.trans h1.1 h2.1, fun x y row h => h2.2.1 x y row (h1.2.1 x y row h),
    fun x row h => h2.2.2 x row (h1.2.2 x row h)⟩

theorem lz_grows_len {a b : GSt} (h : Grows a b) : a.cats.length ≤ b.cats.length :=
  h.1.length_le

theorem lz_binCall_grows (G : GlueRun.CatGrammar) (st : GSt) (x y : Nat) :
    Grows st (binCall G st x y) := by
  cases hrow : binRow st x y with
  | some row =>
    rw [gr_binCall_some G _ x y row hrow]
    exact lz_grows_refl _
  | none =>
    cases hx : st.cats[x]? with
    | none =>
      rw [gr_binCall_unknown G _ x y (Or.inl hx)]
      exact lz_grows_refl _
    | some cx =>
      cases hy : st.cats[y]? with
      | none =>
        rw [gr_binCall_unknown G _ x y (Or.inr hy)]
        exact lz_grows_refl _
      | some cy =>
        rw [gr_binCall_fresh G _ x y cx cy hrow hx hy]
        refine ⟨gr_addAll_prefix _ _, ?_, fun a row hr => hr⟩
        intro a b row hr
        rw [gr_binRow_cons]
        by_cases hab : x = a ∧ y = b
        · obtain ⟨rfl, rfl⟩ := hab
          rw [hrow] at hr
          cases hr
        · rw [if_neg hab]
          exact hr

theorem lz_unCall_grows (G : GlueRun.CatGrammar) (st : GSt) (x : Nat) :
    Grows st (unCall G st x) := by
  cases hrow : unRow st x with
  | some row =>
    rw [gr_unCall_some G _ x row hrow]
    exact lz_grows_refl _
  | none =>
    cases hx : st.cats[x]? with
    | none =>
      rw [gr_unCall_unknown G _ x hx]
      exact lz_grows_refl _
    | some cx =>
      rw [gr_unCall_fresh G _ x cx hrow hx]
      refine ⟨gr_addAll_prefix _ _, fun a b row hr => hr, ?_⟩
      intro a row hr
      rw [gr_unRow_cons]
      by_cases hab : x = a
      · subst hab
        rw [hrow] at hr
        cases hr
      · rw [if_neg hab]
        exact hr

theorem lz_step_grows (G : GlueRun.CatGrammar) (st : GSt) (c : Call) : Grows st (GlueRun.step G st c) := by
  cases c with
  | bin x y => exact lz_binCall_grows G st x y
  | un x => exact lz_unCall_grows G st x

theorem lz_foldl_grows (G : GlueRun.CatGrammar) (calls : List Call) :
    ∀ st : GSt, Grows st (calls.foldl (GlueRun.step G) st) := by
  induction calls with
  | nil => intro st; exact lz_grows_refl st
  | cons c cs ih =>
    intro st
    exact lz_grows_trans (lz_step_grows G st c) (ih _)

theorem lz_reach_grows {G : GlueRun.CatGrammar} {a b : GSt} (h : Reach G a b) : Grows a b := by
  obtain ⟨calls, rfl⟩ := h
  exact lz_foldl_grows G calls a

theorem lz_reach_inv {G : GlueRun.CatGrammar} {a b : GSt} (h : Reach G a b) (hi : Inv' G a) : Inv' G b := by
  obtain ⟨calls, rfl⟩ := h
  exact (gr_run_inv' G calls a hi).1

/-! ### after a call with known ids the row is there -/

theorem lz_lt_get {st : GSt} {x : Nat} (hx : x < st.cats.length) : st.cats[x]? = some st.cats[x] :=
  List.getElem?_eq_getElem hx

theorem lz_binCall_has (G : GlueRun.CatGrammar) (st : GSt) (x y : Nat) (hx : x < st.cats.length)
    (hy : y < st.cats.length) : ∃ row, binRow (binCall G st x y) x y = some row := by
  cases hrow : binRow st x y with
  | some row =>
    rw [gr_binCall_some G _ x y row hrow]
    exact ⟨row, hrow⟩
  | none =>
    rw [gr_binCall_fresh G _ x y _ _ hrow (lz_lt_get hx) (lz_lt_get hy)]
    rw [gr_binRow_cons, if_pos ⟨rfl, rfl⟩]
    exact ⟨_, rfl⟩

theorem lz_unCall_has (G : GlueRun.CatGrammar) (st : GSt) (x : Nat) (hx : x < st.cats.length) :
    ∃ row, unRow (unCall G st x) x = some row := by
  cases hrow : unRow st x with
  | some row =>
    rw [gr_unCall_some G _ x row hrow]
    exact ⟨row, hrow⟩
  | none =>
    rw [gr_unCall_fresh G _ x _ hrow (lz_lt_get hx)]
    rw [gr_unRow_cons, if_pos rfl]
    exact ⟨_, rfl⟩

/-! ### the id-level view -/

theorem lz_view_un (gst : GSt) (x : Nat) :
    (view gst).un x = ((unRow gst x).getD []).map (·.catId) := rfl

theorem lz_view_bin (gst : GSt) (x y : Nat) :
    (view gst).bin x y = ((binRow gst x y).getD []).map (fun e => ⟨e.catId, e.headLeft⟩) := rfl

theorem lz_view_un_eq {a b : GSt} (h : Grows a b) {x : Nat} {row : List CacheEntry}
    (hr : unRow a x = some row) : (view b).un x = (view a).un x := by
  rw [lz_view_un, lz_view_un, hr, h.2.2 x row hr]

theorem lz_view_bin_eq {a b : GSt} (h : Grows a b) {x y : Nat} {row : List CacheEntry}
    (hr : binRow a x y = some row) : (view b).bin x y = (view a).bin x y := by
  rw [lz_view_bin, lz_view_bin, hr, h.2.1 x y row hr]

/-- `g'` extends `g`: it agrees with `g` wherever `g` has results -/
def Sub (g g' : Grammar) : Prop :=
  (∀ x, g.un x ≠ [] → g'.un x = g.un x) ∧ (∀ x y, g.bin x y ≠ [] → g'.bin x y = g.bin x y)

theorem lz_sub_refl (g : Grammar) : Sub g g := ⟨fun _ _ => rfl, fun _ _ _ => rfl⟩

theorem lz_sub_of_grows {a b : GSt} (h : Grows a b) : Sub (view a) (view b) := by
  constructor
  · intro x hne
    cases hr : unRow a x with
    | none =>
      rw [lz_view_un, hr] at hne
      exact absurd rfl hne
    | some row => exact lz_view_un_eq h hr
  · intro x y hne
    cases hr : binRow a x y with
    | none =>
      rw [lz_view_bin, hr] at hne
      exact absurd rfl hne
    | some row => exact lz_view_bin_eq h hr

theorem lz_unaryItems_sub {g g' : Grammar} (h : Sub g g') {cfg : Cfg} {it x : Item}
    (hx : x ∈ unaryItems g cfg it) : x ∈ unaryItems g' cfg it := by
  have hne : g.un it.cat ≠ [] := by
    intro e
    simp [unaryItems, e] at hx
  rw [loc_unaryItems_congr (h.1 _ hne)]
  exact hx

theorem lz_binaryItems_sub {g g' : Grammar} (h : Sub g g') {s : Sent} {l r x : Item}
    (hx : x ∈ binaryItems g s l r) : x ∈ binaryItems g' s l r := by
  have hne : g.bin l.cat r.cat ≠ [] := by
    intro e
    simp [binaryItems, e] at hx
  rw [loc_binaryItems_congr (h.2 _ _ hne)]
  exact hx

/-! ### `unaryL`, `binL` -/

theorem lz_binL_nil (G : GlueRun.CatGrammar) (s : Sent) (it : Item) (left : Bool) (gst : GSt) :
    binL G s it left gst [] = ([], gst) := rfl

theorem lz_binL_cons (G : GlueRun.CatGrammar) (s : Sent) (it : Item) (left : Bool) (gst : GSt)
    (o : Item) (os : List Item) :
    binL G s it left gst (o :: os) =
      (binaryItems (view (binCall G gst (if left then it else o).cat (if left then o else it).cat)) s
          (if left then it else o) (if left then o else it)
        ++ (binL G s it left (binCall G gst (if left then it else o).cat (if left then o else it).cat) os).1,
       (binL G s it left (binCall G gst (if left then it else o).cat (if left then o else it).cat) os).2) := rfl

theorem lz_binL_reach (G : GlueRun.CatGrammar) (s : Sent) (it : Item) (left : Bool) :
    ∀ (os : List Item) (gst : GSt), Reach G gst (binL G s it left gst os).2 := by
  intro os
  induction os with
  | nil => intro gst; exact lz_reach_refl G gst
  | cons o os ih =>
    intro gst
    rw [lz_binL_cons]
    exact lz_reach_trans (lz_reach_bin G gst _ _) (ih _)

/-- with all ids known, the loop over the neighbours yields what the view of any later cache yields -/
theorem lz_binL_eq (G : GlueRun.CatGrammar) (s : Sent) (it : Item) (left : Bool) :
    ∀ (os : List Item) (gst gF : GSt), it.cat < gst.cats.length →
      (∀ o ∈ os, o.cat < gst.cats.length) → Grows (binL G s it left gst os).2 gF →
      (binL G s it left gst os).1 =
        os.flatMap (fun o => binaryItems (view gF) s (if left then it else o) (if left then o else it)) := by
  intro os
  induction os with
  | nil => intro gst gF _ _ _; rfl
  | cons o os ih =>
    intro gst gF hit hos hg
    rw [lz_binL_cons] at hg ⊢
    have ho : o.cat < gst.cats.length := hos o List.mem_cons_self
    have hl : (if left then it else o).cat < gst.cats.length := by cases left <;> simpa
    have hr : (if left then o else it).cat < gst.cats.length := by cases left <;> simpa
    obtain ⟨row, hrow⟩ := lz_binCall_has G gst _ _ hl hr
    have hg1 := lz_binCall_grows G gst (if left then it else o).cat (if left then o else it).cat
    have hlen := lz_grows_len hg1
    have hg2 := lz_grows_trans (lz_reach_grows (lz_binL_reach G s it left os _)) hg
    rw [List.flatMap_cons, ← loc_binaryItems_congr (lz_view_bin_eq hg2 hrow)]
    rw [ih _ gF (by omega) (fun o' ho' => by have := hos o' (List.mem_cons_of_mem _ ho'); omega) hg]

/-- in general what it yields is among what the view of any later cache yields -/
theorem lz_binL_mem (G : GlueRun.CatGrammar) (s : Sent) (it : Item) (left : Bool) :
    ∀ (os : List Item) (gst gF : GSt) (x : Item), Grows (binL G s it left gst os).2 gF →
      x ∈ (binL G s it left gst os).1 →
      ∃ o ∈ os, x ∈ binaryItems (view gF) s (if left then it else o) (if left then o else it) := by
  intro os
  induction os with
  | nil => intro gst gF x _ hx; cases hx
  | cons o os ih =>
    intro gst gF x hg hx
    rw [lz_binL_cons] at hg hx
    rcases List.mem_append.1 hx with hx | hx
    · have hg2 := lz_grows_trans (lz_reach_grows (lz_binL_reach G s it left os _)) hg
      exact ⟨o, List.mem_cons_self, lz_binaryItems_sub (lz_sub_of_grows hg2) hx⟩
    · obtain ⟨o', ho', h⟩ := ih _ gF x hg hx
      exact ⟨o', List.mem_cons_of_mem _ ho', h⟩

theorem lz_unaryL_eq (G : GlueRun.CatGrammar) (cfg : Cfg) (gst gF : GSt) (it : Item)
    (hit : it.cat < gst.cats.length) (hg : Grows (unaryL G cfg gst it).2 gF) :
    (unaryL G cfg gst it).1 = unaryItems (view gF) cfg it := by
  obtain ⟨row, hrow⟩ := lz_unCall_has G gst it.cat hit
  exact (loc_unaryItems_congr (lz_view_un_eq hg hrow)).symm

theorem lz_unaryL_mem (G : GlueRun.CatGrammar) (cfg : Cfg) (gst gF : GSt) (it x : Item)
    (hg : Grows (unaryL G cfg gst it).2 gF) (hx : x ∈ (unaryL G cfg gst it).1) :
    x ∈ unaryItems (view gF) cfg it :=
  lz_unaryItems_sub (lz_sub_of_grows hg) hx

/-! ### `expandL` -/

/-- the unary part of `expandL` -/
def exU (G : GlueRun.CatGrammar) (s : Sent) (cfg : Cfg) (it : Item) (gst : GSt) : List Item × GSt :=
  if s.n = 1 ∨ it.len ≠ s.n then unaryL G cfg gst it else ([], gst)

def exR (G : GlueRun.CatGrammar) (s : Sent) (cfg : Cfg) (chart : List Item) (it : Item) (gst : GSt) :
    List Item × GSt :=
  binL G s it true (exU G s cfg it gst).2 (neighbours chart fun o => o.start == it.stop)

def exL (G : GlueRun.CatGrammar) (s : Sent) (cfg : Cfg) (chart : List Item) (it : Item) (gst : GSt) :
    List Item × GSt :=
  binL G s it false (exR G s cfg chart it gst).2 (neighbours chart fun o => o.stop == it.start)

theorem lz_expandL_def (G : GlueRun.CatGrammar) (s : Sent) (cfg : Cfg) (chart : List Item) (it : Item)
    (gst : GSt) :
    expandL G s cfg chart it gst =
      ((if it.len = s.n ∧ s.roots.elem it.cat then [finItem s it] else []) ++ (exU G s cfg it gst).1
          ++ (exR G s cfg chart it gst).1 ++ (exL G s cfg chart it gst).1,
       (exL G s cfg chart it gst).2) := rfl

theorem lz_exU_reach (G : GlueRun.CatGrammar) (s : Sent) (cfg : Cfg) (it : Item) (gst : GSt) :
    Reach G gst (exU G s cfg it gst).2 := by
  unfold exU
  split
  · exact lz_reach_un G gst it.cat
  · exact lz_reach_refl G gst

theorem lz_exR_reach (G : GlueRun.CatGrammar) (s : Sent) (cfg : Cfg) (chart : List Item) (it : Item)
    (gst : GSt) : Reach G (exU G s cfg it gst).2 (exR G s cfg chart it gst).2 :=
  lz_binL_reach G s it true _ _

theorem lz_exL_reach (G : GlueRun.CatGrammar) (s : Sent) (cfg : Cfg) (chart : List Item) (it : Item)
    (gst : GSt) : Reach G (exR G s cfg chart it gst).2 (exL G s cfg chart it gst).2 :=
  lz_binL_reach G s it false _ _

theorem lz_expandL_reach (G : GlueRun.CatGrammar) (s : Sent) (cfg : Cfg) (chart : List Item) (it : Item)
    (gst : GSt) : Reach G gst (expandL G s cfg chart it gst).2 := by
  rw [lz_expandL_def]
  exact lz_reach_trans (lz_exU_reach G s cfg it gst)
    (lz_reach_trans (lz_exR_reach G s cfg chart it gst) (lz_exL_reach G s cfg chart it gst))

theorem lz_expandL_eq (G : GlueRun.CatGrammar) (s : Sent) (cfg : Cfg) (chart : List Item) (it : Item)
    (gst gF : GSt) (hit : it.cat < gst.cats.length) (hc : ∀ o ∈ chart, o.cat < gst.cats.length)
    (hg : Grows (expandL G s cfg chart it gst).2 gF) :
    (expandL G s cfg chart it gst).1 = expand (view gF) s cfg chart it := by
  rw [lz_expandL_def] at hg ⊢
  have gL := lz_reach_grows (lz_exL_reach G s cfg chart it gst)
  have gR := lz_reach_grows (lz_exR_reach G s cfg chart it gst)
  have gU := lz_reach_grows (lz_exU_reach G s cfg it gst)
  have lU := lz_grows_len gU
  have lR := lz_grows_len gR
  have h1 : (exU G s cfg it gst).1 = (if s.n = 1 ∨ it.len ≠ s.n then unaryItems (view gF) cfg it else []) := by
    unfold exU at gR ⊢
    split
    · rename_i hcnd
      rw [if_pos hcnd] at gR
      exact lz_unaryL_eq G cfg gst gF it hit (lz_grows_trans gR (lz_grows_trans gL hg))
    · rfl
  have h2 : (exR G s cfg chart it gst).1 =
      (neighbours chart fun o => o.start == it.stop).flatMap (fun o => binaryItems (view gF) s it o) := by
    have := lz_binL_eq G s it true (neighbours chart fun o => o.start == it.stop) (exU G s cfg it gst).2 gF
      (by omega) (fun o ho => by have := hc o (mem_neighbours.1 ho).1; omega) (lz_grows_trans gL hg)
    simp only [if_true] at this
    exact this
  have h3 : (exL G s cfg chart it gst).1 =
      (neighbours chart fun o => o.stop == it.start).flatMap (fun o => binaryItems (view gF) s o it) := by
    have := lz_binL_eq G s it false (neighbours chart fun o => o.stop == it.start) (exR G s cfg chart it gst).2 gF
      (by omega) (fun o ho => by have := hc o (mem_neighbours.1 ho).1; omega) hg
    simp only [Bool.false_eq_true, if_false] at this
    exact this
  show _ ++ (exU G s cfg it gst).1 ++ (exR G s cfg chart it gst).1 ++ (exL G s cfg chart it gst).1 = _
  rw [h1, h2, h3]
  rfl

theorem lz_expandL_mem (G : GlueRun.CatGrammar) (s : Sent) (cfg : Cfg) (chart : List Item) (it x : Item)
    (gst gF : GSt) (hg : Grows (expandL G s cfg chart it gst).2 gF)
    (hx : x ∈ (expandL G s cfg chart it gst).1) : x ∈ expand (view gF) s cfg chart it := by
  rw [lz_expandL_def] at hg hx
  have gL := lz_reach_grows (lz_exL_reach G s cfg chart it gst)
  have gR := lz_reach_grows (lz_exR_reach G s cfg chart it gst)
  simp only [expand, List.mem_append, List.mem_flatMap] at hx ⊢
  rcases hx with ((hx | hx) | hx) | hx
  · exact Or.inl (Or.inl (Or.inl hx))
  · refine Or.inl (Or.inl (Or.inr ?_))
    unfold exU at hx gR
    split at hx
    · rename_i hcnd
      rw [if_pos hcnd] at gR
      rw [if_pos hcnd]
      exact lz_unaryL_mem G cfg gst gF it x (lz_grows_trans gR (lz_grows_trans gL hg)) hx
    · cases hx
  · obtain ⟨o, ho, h⟩ := lz_binL_mem G s it true _ _ gF x (lz_grows_trans gL hg) hx
    exact Or.inl (Or.inr ⟨o, ho, by simpa using h⟩)
  · obtain ⟨o, ho, h⟩ := lz_binL_mem G s it false _ _ gF x hg hx
    exact Or.inr ⟨o, ho, by simpa using h⟩

/-! ### `stepL` -/

theorem lz_stepL_cases {pick : Pick} {G : GlueRun.CatGrammar} {s : Sent} {cfg : Cfg} {ls ls' : LSt}
    (h : stepL pick G s cfg ls = some ls') :
    ls.st.goal.length < cfg.nbest ∧ ∃ it rest, pick.pop ls.st.agenda = some (it, rest) ∧
      ( (it.fin = true ∧ (cfg.nbest ≤ 1 ∧ inGoal ls.st.goal it = true) ∧
          ls' = ⟨popSt ls.st it rest, ls.gst⟩)
      ∨ (it.fin = true ∧ ¬ (cfg.nbest ≤ 1 ∧ inGoal ls.st.goal it = true) ∧
          ls' = ⟨{ popSt ls.st it rest with goal := it :: ls.st.goal }, ls.gst⟩)
      ∨ (it.fin = false ∧ (cfg.nbest ≤ 1 ∧ inChart ls.st.chart it = true) ∧
          ls' = ⟨popSt ls.st it rest, ls.gst⟩)
      ∨ (it.fin = false ∧ ¬ (cfg.nbest ≤ 1 ∧ inChart ls.st.chart it = true) ∧
          ls' = ⟨{ popSt ls.st it rest with
                    chart := it :: ls.st.chart,
                    agenda := pick.push (expandL G s cfg ls.st.chart it ls.gst).1 rest },
                 (expandL G s cfg ls.st.chart it ls.gst).2⟩) ) := by
  unfold stepL at h
  dsimp only at h
  split at h
  · cases h
  · rename_i hlen
    split at h
    · cases h
    · rename_i it rest hpick
      refine ⟨by omega, it, rest, hpick, ?_⟩
      cases hf : it.fin
      · simp only [hf, Bool.false_eq_true, if_false] at h
        split at h
        · rename_i hc
          exact Or.inr (Or.inr (Or.inl ⟨rfl, hc, (Option.some.inj h).symm⟩))
        · rename_i hc
          exact Or.inr (Or.inr (Or.inr ⟨rfl, hc, (Option.some.inj h).symm⟩))
      · simp only [hf, if_true] at h
        split at h
        · rename_i hc
          exact Or.inl ⟨rfl, hc, (Option.some.inj h).symm⟩
        · rename_i hc
          exact Or.inr (Or.inl ⟨rfl, hc, (Option.some.inj h).symm⟩)

theorem lz_stepL_none_iff {pick : Pick} {G : GlueRun.CatGrammar} {s : Sent} {cfg : Cfg} {ls : LSt} :
    stepL pick G s cfg ls = none ↔ cfg.nbest ≤ ls.st.goal.length ∨ pick.pop ls.st.agenda = none := by
  unfold stepL
  dsimp only
  split
  · simp [*]
  · rename_i hlen
    split
    · simp [*]
    · rename_i it rest hpick
      simp only [hlen, hpick, false_or, reduceCtorEq, iff_false]
      split <;> split <;> simp

theorem lz_stepL_map {pick : Pick} {G : GlueRun.CatGrammar} {s : Sent} {cfg : Cfg} {g : Grammar} {ls : LSt}
    (hexp : ∀ it rest, pick.pop ls.st.agenda = some (it, rest) → it.fin = false →
      ¬ (cfg.nbest ≤ 1 ∧ inChart ls.st.chart it = true) →
      (expandL G s cfg ls.st.chart it ls.gst).1 = expand g s cfg ls.st.chart it) :
    (stepL pick G s cfg ls).map (·.st) = stepWith pick g s cfg ls.st := by
  unfold stepL stepWith
  by_cases hlen : cfg.nbest ≤ ls.st.goal.length
  · simp only [if_pos hlen, Option.map_none]
  · simp only [if_neg hlen]
    cases hpop : pick.pop ls.st.agenda with
    | none => rfl
    | some p =>
      obtain ⟨it, rest⟩ := p
      dsimp only
      cases hf : it.fin
      · simp only [Bool.false_eq_true, if_false]
        by_cases hc : cfg.nbest ≤ 1 ∧ inChart ls.st.chart it = true
        · simp only [if_pos hc, Option.map_some]
        · simp only [if_neg hc, Option.map_some]
          rw [← hexp it rest hpop hf hc]
      · simp only [if_true]
        split <;> rfl

theorem lz_stepL_gst_reach {pick : Pick} {G : GlueRun.CatGrammar} {s : Sent} {cfg : Cfg} {ls ls' : LSt}
    (h : stepL pick G s cfg ls = some ls') : Reach G ls.gst ls'.gst := by
  unfold stepL at h
  dsimp only at h
  split at h
  · cases h
  · split at h
    · cases h
    · rename_i it rest hpop
      split at h
      · split at h <;> (cases h; exact lz_reach_refl _ _)
      · split at h
        · cases h; exact lz_reach_refl _ _
        · cases h
          exact lz_expandL_reach G s cfg _ it ls.gst

/-! ### `loopL` -/

theorem lz_loopL_zero (pick : Pick) (G : GlueRun.CatGrammar) (s : Sent) (cfg : Cfg) (ls : LSt) :
    loopL pick G s cfg 0 ls = ls := rfl

theorem lz_loopL_succ (pick : Pick) (G : GlueRun.CatGrammar) (s : Sent) (cfg : Cfg) (fuel : Nat) (ls : LSt) :
    loopL pick G s cfg (fuel + 1) ls =
      match stepL pick G s cfg ls with
      | none => ls
      | some ls' => loopL pick G s cfg fuel ls' := rfl

theorem lz_loopL_reach (pick : Pick) (G : GlueRun.CatGrammar) (s : Sent) (cfg : Cfg) :
    ∀ (fuel : Nat) (ls : LSt), Reach G ls.gst (loopL pick G s cfg fuel ls).gst := by
  intro fuel
  induction fuel with
  | zero => intro ls; exact lz_reach_refl G _
  | succ fuel ih =>
    intro ls
    rw [lz_loopL_succ]
    cases hs : stepL pick G s cfg ls with
    | none => exact lz_reach_refl G _
    | some ls' => exact lz_reach_trans (lz_stepL_gst_reach hs) (ih ls')

/-- invariants of `loopL` are the properties preserved by every successful step -/
theorem lz_loopL_inv {pick : Pick} {G : GlueRun.CatGrammar} {s : Sent} {cfg : Cfg} (P : LSt → Prop)
    (hstep : ∀ ls ls', P ls → stepL pick G s cfg ls = some ls' → P ls') :
    ∀ (fuel : Nat) (ls : LSt), P ls → P (loopL pick G s cfg fuel ls) := by
  intro fuel
  induction fuel with
  | zero => intro ls h; exact h
  | succ fuel ih =>
    intro ls h
    rw [lz_loopL_succ]
    cases hs : stepL pick G s cfg ls with
    | none => exact h
    | some ls' => exact ih ls' (hstep ls ls' h hs)

/-! ### every category id in the search state is an id of the table -/

theorem lz_get_lt {l : List Cat} {i : Nat} {c : Cat} (h : l[i]? = some c) : i < l.length := by
  apply Nat.lt_of_not_le
  intro hle
  rw [List.getElem?_eq_none hle] at h
  cases h

theorem lz_inv_un_valid {G : GlueRun.CatGrammar} {gst : GSt} (h : Inv' G gst) {x c : Nat}
    (hx : x < gst.cats.length) (hc : c ∈ (view gst).un x) : c < gst.cats.length := by
  obtain ⟨⟨_, ⟨_, hru⟩, _⟩, _⟩ := h
  have hc' : c ∈ ((tablesOf gst).un x).map (·.catId) := hc
  obtain ⟨e, he, rfl⟩ := List.mem_map.1 hc'
  obtain ⟨rid, hrid⟩ := List.getElem?_of_mem he
  obtain ⟨r, _, h2, _⟩ := hru x gst.cats[x] (lz_lt_get hx) rid e hrid
  exact lz_get_lt h2

theorem lz_inv_bin_valid {G : GlueRun.CatGrammar} {gst : GSt} (h : Inv' G gst) {x y : Nat} {r : Search.Rule}
    (hx : x < gst.cats.length) (hy : y < gst.cats.length) (hc : r ∈ (view gst).bin x y) :
    r.cat < gst.cats.length := by
  obtain ⟨⟨_, ⟨hrb, _⟩, _⟩, _⟩ := h
  have hc' : r ∈ ((tablesOf gst).bin x y).map (fun e => (⟨e.catId, e.headLeft⟩ : Search.Rule)) := hc
  obtain ⟨e, he, rfl⟩ := List.mem_map.1 hc'
  obtain ⟨rid, hrid⟩ := List.getElem?_of_mem he
  obtain ⟨r, _, h2, _⟩ := hrb x y gst.cats[x] gst.cats[y] (lz_lt_get hx) (lz_lt_get hy) rid e hrid
  exact lz_get_lt h2

theorem lz_expand_valid {G : GlueRun.CatGrammar} {gst : GSt} (h : Inv' G gst) {s : Sent} {cfg : Cfg}
    {chart : List Item} {it x : Item} (hit : it.cat < gst.cats.length)
    (hc : ∀ o ∈ chart, o.cat < gst.cats.length) (hx : x ∈ expand (view gst) s cfg chart it) :
    x.cat < gst.cats.length := by
  simp only [expand, List.mem_append, List.mem_flatMap, mem_neighbours] at hx
  rcases hx with ((hx | hx) | ⟨o, ⟨ho, _⟩, hx⟩) | ⟨o, ⟨ho, _⟩, hx⟩
  · split at hx
    · rw [List.mem_singleton] at hx; subst hx
      exact hit
    · cases hx
  · split at hx
    · obtain ⟨c, rid, hr, rfl⟩ := mem_unaryItems hx
      exact lz_inv_un_valid h hit (List.mem_of_getElem? hr)
    · cases hx
  · obtain ⟨rule, rid, hr, rfl⟩ := mem_binaryItems hx
    exact lz_inv_bin_valid h hit (hc o ho) (List.mem_of_getElem? hr)
  · obtain ⟨rule, rid, hr, rfl⟩ := mem_binaryItems hx
    exact lz_inv_bin_valid h (hc o ho) hit (List.mem_of_getElem? hr)

/-- the glue invariant, and every agenda / chart item carries an id of the table -/
def LValid (G : GlueRun.CatGrammar) (ls : LSt) : Prop :=
  Inv' G ls.gst ∧ (∀ it ∈ ls.st.agenda, it.cat < ls.gst.cats.length) ∧
    (∀ it ∈ ls.st.chart, it.cat < ls.gst.cats.length)

theorem lz_step_valid {pick : Pick} {G : GlueRun.CatGrammar} {s : Sent} {cfg : Cfg} {ls ls' : LSt}
    (hp : PickOK pick) (h : LValid G ls) (hs : stepL pick G s cfg ls = some ls') : LValid G ls' := by
  obtain ⟨hinv, hag, hch⟩ := h
  obtain ⟨-, it, rest, hpick, hcases⟩ := lz_stepL_cases hs
  obtain ⟨hperm, -⟩ := hp.spec hpick
  have hit : it.cat < ls.gst.cats.length := hag it (hperm.mem_iff.1 List.mem_cons_self)
  have hrest : ∀ x ∈ rest, x.cat < ls.gst.cats.length :=
    fun x hx => hag x (hperm.mem_iff.1 (List.mem_cons_of_mem _ hx))
  rcases hcases with ⟨_, _, rfl⟩ | ⟨_, _, rfl⟩ | ⟨_, _, rfl⟩ | ⟨_, _, rfl⟩
  · exact ⟨hinv, hrest, hch⟩
  · exact ⟨hinv, hrest, hch⟩
  · exact ⟨hinv, hrest, hch⟩
  · have hre := lz_expandL_reach G s cfg ls.st.chart it ls.gst
    have hinv' := lz_reach_inv hre hinv
    have hlen := lz_grows_len (lz_reach_grows hre)
    have hit' : it.cat < (expandL G s cfg ls.st.chart it ls.gst).2.cats.length := by omega
    have hch' : ∀ o ∈ ls.st.chart, o.cat < (expandL G s cfg ls.st.chart it ls.gst).2.cats.length :=
      fun o ho => by have := hch o ho; omega
    refine ⟨hinv', ?_, ?_⟩
    · intro x hx
      rcases hp.mem_push.1 hx with hx | hx
      · exact lz_expand_valid hinv' hit' hch'
          (lz_expandL_mem G s cfg ls.st.chart it x ls.gst _ (lz_grows_refl _) hx)
      · have := hrest x hx
        show x.cat < (expandL G s cfg ls.st.chart it ls.gst).2.cats.length
        omega
    · intro x hx
      rcases List.mem_cons.1 hx with rfl | hx
      · exact hit'
      · exact hch' x hx

theorem lz_stepL_expand_gst {pick : Pick} {G : GlueRun.CatGrammar} {s : Sent} {cfg : Cfg} {ls ls' : LSt}
    (hs : stepL pick G s cfg ls = some ls') {it : Item} {rest : List Item}
    (hpop : pick.pop ls.st.agenda = some (it, rest)) (hf : it.fin = false)
    (hc : ¬ (cfg.nbest ≤ 1 ∧ inChart ls.st.chart it = true)) :
    ls'.gst = (expandL G s cfg ls.st.chart it ls.gst).2 := by
  obtain ⟨-, it', rest', hpick, hcases⟩ := lz_stepL_cases hs
  rw [hpop] at hpick
  cases hpick
  rcases hcases with ⟨hf', _, _⟩ | ⟨hf', _, _⟩ | ⟨_, hc', _⟩ | ⟨_, _, rfl⟩
  · rw [hf] at hf'; cases hf'
  · rw [hf] at hf'; cases hf'
  · exact absurd hc' hc
  · rfl

/-- with all ids known, one lazy step is one step of the search over the view of any later cache -/
theorem lz_stepL_stepWith {pick : Pick} {G : GlueRun.CatGrammar} {s : Sent} {cfg : Cfg} {ls ls' : LSt}
    (hp : PickOK pick) (h : LValid G ls) (hs : stepL pick G s cfg ls = some ls') {gF : GSt}
    (hg : Grows ls'.gst gF) : stepWith pick (view gF) s cfg ls.st = some ls'.st := by
  have := lz_stepL_map (pick := pick) (G := G) (s := s) (cfg := cfg) (g := view gF) (ls := ls) ?_
  · rw [← this, hs]; rfl
  · intro it rest hpop hf hc
    obtain ⟨hperm, -⟩ := hp.spec hpop
    refine lz_expandL_eq G s cfg _ it ls.gst gF (h.2.1 it (hperm.mem_iff.1 List.mem_cons_self)) h.2.2 ?_
    rw [← lz_stepL_expand_gst hs hpop hf hc]
    exact hg

theorem lz_stepL_none_stepWith {pick : Pick} {G : GlueRun.CatGrammar} {s : Sent} {cfg : Cfg} {ls : LSt}
    (hs : stepL pick G s cfg ls = none) (g : Grammar) : stepWith pick g s cfg ls.st = none :=
  stepWith_none_iff.2 (lz_stepL_none_iff.1 hs)

theorem lz_loopL_eq {pick : Pick} {G : GlueRun.CatGrammar} {s : Sent} {cfg : Cfg} (hp : PickOK pick) :
    ∀ (fuel : Nat) (ls : LSt) (gF : GSt), LValid G ls → Grows (loopL pick G s cfg fuel ls).gst gF →
      loop pick (view gF) s cfg fuel ls.st = (loopL pick G s cfg fuel ls).st := by
  intro fuel
  induction fuel with
  | zero => intro ls gF _ _; rfl
  | succ fuel ih =>
    intro ls gF hv hg
    rw [lz_loopL_succ] at hg ⊢
    show (match stepWith pick (view gF) s cfg ls.st with
      | none => ls.st
      | some st' => loop pick (view gF) s cfg fuel st') = _
    cases hs : stepL pick G s cfg ls with
    | none =>
      rw [lz_stepL_none_stepWith hs]
    | some ls' =>
      rw [hs] at hg
      have hg' : Grows ls'.gst gF :=
        lz_grows_trans (lz_reach_grows (lz_loopL_reach pick G s cfg fuel ls')) hg
      rw [lz_stepL_stepWith hp hv hs hg']
      exact ih ls' gF (lz_step_valid hp hv hs) hg

/-! ### a whole run -/

theorem lz_runLWith_snd (pick : Pick) (G : GlueRun.CatGrammar) (gst : GSt) (s : Sent) (cfg : Cfg) :
    (runLWith pick G gst s cfg).2 = (loopL pick G s cfg cfg.maxStep ⟨init pick s cfg, gst⟩).gst := rfl

theorem lz_runLWith_fst (pick : Pick) (G : GlueRun.CatGrammar) (gst : GSt) (s : Sent) (cfg : Cfg) :
    (runLWith pick G gst s cfg).1 =
      { results := sortDesc (loopL pick G s cfg cfg.maxStep ⟨init pick s cfg, gst⟩).st.goal,
        popped := (loopL pick G s cfg cfg.maxStep ⟨init pick s cfg, gst⟩).st.popped.reverse,
        steps := (loopL pick G s cfg cfg.maxStep ⟨init pick s cfg, gst⟩).st.steps,
        tie := (loopL pick G s cfg cfg.maxStep ⟨init pick s cfg, gst⟩).st.tie } := rfl

theorem lz_run_reach (pick : Pick) (G : GlueRun.CatGrammar) (gst : GSt) (s : Sent) (cfg : Cfg) :
    Reach G gst (runLWith pick G gst s cfg).2 :=
  lz_loopL_reach pick G s cfg cfg.maxStep ⟨init pick s cfg, gst⟩

theorem lz_getD_len {l : List (List Int)} {n : Nat} (h : ∀ row ∈ l, row.length ≤ n) (i : Nat) :
    (l.getD i []).length ≤ n := by
  rw [List.getD_eq_getElem?_getD]
  cases hr : l[i]? with
  | none => exact Nat.zero_le _
  | some row => exact h row (List.mem_of_getElem? hr)

theorem lz_init_valid {pick : Pick} {G : GlueRun.CatGrammar} {gst : GSt} {s : Sent} (cfg : Cfg)
    (hp : PickOK pick) (hinv : Inv' G gst) (htags : ∀ row ∈ s.tags, row.length ≤ gst.cats.length) :
    LValid G ⟨init pick s cfg, gst⟩ := by
  refine ⟨hinv, ?_, fun it h => by cases h⟩
  intro it hit
  obtain ⟨tok, c, _, hc, rfl⟩ := mem_leafItems (hp.mem_push_nil.1 hit)
  have h1 := (mem_admitted hc).1
  have h2 := lz_getD_len htags tok
  show c.2 < gst.cats.length
  omega

/-- with the tag columns inside the table, the lazy loop is the loop over the view of any later cache -/
theorem lz_run_loop_eq {pick : Pick} {G : GlueRun.CatGrammar} {gst : GSt} {s : Sent} {cfg : Cfg}
    (hp : PickOK pick) (hinv : Inv' G gst) (htags : ∀ row ∈ s.tags, row.length ≤ gst.cats.length)
    {gF : GSt} (hg : Grows (runLWith pick G gst s cfg).2 gF) :
    loop pick (view gF) s cfg cfg.maxStep (init pick s cfg) =
      (loopL pick G s cfg cfg.maxStep ⟨init pick s cfg, gst⟩).st :=
  lz_loopL_eq hp cfg.maxStep ⟨init pick s cfg, gst⟩ gF (lz_init_valid cfg hp hinv htags) hg

theorem lz_run_eq {pick : Pick} {G : GlueRun.CatGrammar} {gst : GSt} {s : Sent} {cfg : Cfg}
    (hp : PickOK pick) (hinv : Inv' G gst) (htags : ∀ row ∈ s.tags, row.length ≤ gst.cats.length)
    {gF : GSt} (hg : Grows (runLWith pick G gst s cfg).2 gF) :
    SameOutcome (runLWith pick G gst s cfg).1 (runWith pick (view gF) s cfg) := by
  rw [lz_runLWith_fst]
  unfold runWith
  rw [lz_run_loop_eq hp hinv htags hg]
  exact ⟨rfl, rfl, rfl, rfl⟩

/-! ### the item invariant of the search, along the lazy run -/

theorem lz_licensed_sub {g g' : Grammar} (h : Sub g g') {s : Sent} {cfg : Cfg} {d : Deriv}
    (hl : Licensed g s cfg d) : Licensed g' s cfg d := by
  induction hl with
  | leaf t c sc ht hadm => exact Licensed.leaf t c sc ht hadm
  | un c rid d _ hrule hspan ih =>
    refine Licensed.un c rid d ih ?_ hspan
    rw [h.1 _ (List.ne_nil_of_mem (List.mem_of_getElem? hrule))]
    exact hrule
  | bin c rid hl l r _ _ hadj hrule ihl ihr =>
    refine Licensed.bin c rid hl l r ihl ihr hadj ?_
    rw [h.2 _ _ (List.ne_nil_of_mem (List.mem_of_getElem? hrule))]
    exact hrule

theorem lz_nonFinOK_sub {g g' : Grammar} (h : Sub g g') {s : Sent} {cfg : Cfg} {it : Item}
    (hi : NonFinOK g s cfg it) : NonFinOK g' s cfg it :=
  ⟨lz_licensed_sub h hi.lic, hi.cat, hi.inS, hi.start, hi.len, hi.head, hi.outS, hi.stop_le, hi.head_ge,
    hi.head_lt⟩

theorem lz_finOK_sub {g g' : Grammar} (h : Sub g g') {s : Sent} {cfg : Cfg} {it : Item}
    (hi : FinOK g s cfg it) : FinOK g' s cfg it :=
  ⟨⟨lz_licensed_sub h hi.lic.1, hi.lic.2⟩, hi.cat, hi.inS, hi.outS, hi.start, hi.len, hi.head⟩

theorem lz_itemOK_sub {g g' : Grammar} (h : Sub g g') {s : Sent} {cfg : Cfg} {it : Item}
    (hi : ItemOK g s cfg it) : ItemOK g' s cfg it :=
  ⟨fun hf => lz_nonFinOK_sub h (hi.1 hf), fun hf => lz_finOK_sub h (hi.2 hf)⟩

theorem lz_stOK_sub {g g' : Grammar} (h : Sub g g') {s : Sent} {cfg : Cfg} {st : St}
    (hs : StOK g s cfg st) : StOK g' s cfg st :=
  ⟨fun it hi => lz_itemOK_sub h (hs.agenda it hi),
   fun it hi => ⟨(hs.chart it hi).1, lz_nonFinOK_sub h (hs.chart it hi).2⟩,
   fun it hi => ⟨(hs.goal it hi).1, lz_finOK_sub h (hs.goal it hi).2⟩,
   fun it hi => lz_itemOK_sub h (hs.popped it hi),
   hs.chart_sub, hs.goal_sub, hs.goal_le, hs.steps_eq⟩

theorem lz_stOK_step {pick : Pick} {G : GlueRun.CatGrammar} {s : Sent} {cfg : Cfg} {ls ls' : LSt}
    (hp : PickOK pick) (h0 : StOK (view ls.gst) s cfg ls.st) (hs : stepL pick G s cfg ls = some ls') :
    StOK (view ls'.gst) s cfg ls'.st := by
  have h : StOK (view ls'.gst) s cfg ls.st :=
    lz_stOK_sub (lz_sub_of_grows (lz_reach_grows (lz_stepL_gst_reach hs))) h0
  obtain ⟨hlen, it, rest, hpick, hcases⟩ := lz_stepL_cases hs
  obtain ⟨hperm, -⟩ := hp.spec hpick
  have hit : ItemOK (view ls'.gst) s cfg it := h.agenda it (hperm.mem_iff.1 (List.mem_cons_self ..))
  have hrest : ∀ x ∈ rest, ItemOK (view ls'.gst) s cfg x :=
    fun x hx => h.agenda x (hperm.mem_iff.1 (List.mem_cons_of_mem _ hx))
  have hpop : ∀ x ∈ it :: ls.st.popped, ItemOK (view ls'.gst) s cfg x := by
    intro x hx
    rcases List.mem_cons.1 hx with rfl | hx
    · exact hit
    · exact h.popped x hx
  have hsteps : ls.st.steps + 1 = (it :: ls.st.popped).length := by rw [h.steps_eq]; rfl
  rcases hcases with ⟨_, _, rfl⟩ | ⟨hf, _, rfl⟩ | ⟨_, _, rfl⟩ | ⟨hf, _, rfl⟩
  · exact ⟨hrest, h.chart, h.goal, hpop, fun x hx => List.mem_cons_of_mem _ (h.chart_sub x hx),
      fun x hx => List.mem_cons_of_mem _ (h.goal_sub x hx), h.goal_le, hsteps⟩
  · refine ⟨hrest, h.chart, ?_, hpop, fun x hx => List.mem_cons_of_mem _ (h.chart_sub x hx), ?_, ?_,
      hsteps⟩
    · intro x hx
      rcases List.mem_cons.1 hx with rfl | hx
      · exact ⟨hf, hit.2 hf⟩
      · exact h.goal x hx
    · intro x hx
      rcases List.mem_cons.1 hx with rfl | hx
      · exact List.mem_cons_self ..
      · exact List.mem_cons_of_mem _ (h.goal_sub x hx)
    · exact hlen
  · exact ⟨hrest, h.chart, h.goal, hpop, fun x hx => List.mem_cons_of_mem _ (h.chart_sub x hx),
      fun x hx => List.mem_cons_of_mem _ (h.goal_sub x hx), h.goal_le, hsteps⟩
  · refine ⟨?_, ?_, h.goal, hpop, ?_, fun x hx => List.mem_cons_of_mem _ (h.goal_sub x hx),
      h.goal_le, hsteps⟩
    · intro x hx
      rcases hp.mem_push.1 hx with hx | hx
      · exact expand_ok (hit.1 hf) hf (fun o ho => (h.chart o ho).2)
          (lz_expandL_mem G s cfg ls.st.chart it x ls.gst _ (lz_grows_refl _) hx)
      · exact hrest x hx
    · intro x hx
      rcases List.mem_cons.1 hx with rfl | hx
      · exact ⟨hf, hit.1 hf⟩
      · exact h.chart x hx
    · intro x hx
      rcases List.mem_cons.1 hx with rfl | hx
      · exact List.mem_cons_self ..
      · exact List.mem_cons_of_mem _ (h.chart_sub x hx)

theorem lz_stOK_final {pick : Pick} (hp : PickOK pick) (G : GlueRun.CatGrammar) (gst : GSt) (s : Sent)
    (cfg : Cfg) :
    StOK (view (runLWith pick G gst s cfg).2) s cfg
      (loopL pick G s cfg cfg.maxStep ⟨init pick s cfg, gst⟩).st :=
  lz_loopL_inv (fun ls => StOK (view ls.gst) s cfg ls.st) (fun _ _ h hs => lz_stOK_step hp h hs)
    cfg.maxStep ⟨init pick s cfg, gst⟩ (StOK.init hp (view gst) s cfg)

/-- C02 for the lazy run: every returned item carries a complete parse licensed by the view of the
    final cache (no hypothesis on the ids) -/
theorem lz_results_valid {pick : Pick} (hp : PickOK pick) (G : GlueRun.CatGrammar) (gst : GSt) (s : Sent)
    (cfg : Cfg) : ∀ r ∈ (runLWith pick G gst s cfg).1.results,
      LicensedRoot (view (runLWith pick G gst s cfg).2) s cfg r.d ∧ leafToks r.d = List.range s.n ∧
        r.cat = dcat r.d ∧ r.fin = true := by
  intro r hr
  rw [lz_runLWith_fst] at hr
  have hr' := (sortDesc_perm _).mem_iff.1 hr
  obtain ⟨hf, hok⟩ := (lz_stOK_final hp G gst s cfg).goal r hr'
  refine ⟨hok.lic, ?_, hok.cat, hf⟩
  obtain ⟨hl, h0, hn, _⟩ := hok.lic
  rw [hl.leafToks_eq, h0, hn, List.range_eq_range']

/-! ### `retrieve_tree` succeeds on licensed derivations over known ids -/

theorem lz_retrieve_total {G : GlueRun.CatGrammar} {gF : GSt} {s : Sent} {cfg : Cfg} {tokens : List Token}
    (hinv : Inv' G gF) (hlen : tokens.length = s.n)
    (htags : ∀ row ∈ s.tags, row.length ≤ gF.cats.length) {d : Deriv}
    (hl : Licensed (view gF) s cfg d) :
    dcat d < gF.cats.length ∧ ∃ t, retrieve (tablesOf gF) tokens d = .ok t := by
  induction hl with
  | leaf t c sc ht hadm =>
    have h1 := (mem_admitted hadm).1
    have h2 := lz_getD_len htags t
    have hc : c < gF.cats.length := by
      simp only at h1
      omega
    have e1 : (tablesOf gF).cats c = some gF.cats[c] := lz_lt_get hc
    have e2 : tokens[t]? = some tokens[t] := List.getElem?_eq_getElem (by omega)
    refine ⟨hc, ?_⟩
    simp only [retrieve, e1, e2]
    exact ⟨_, rfl⟩
  | un c rid d _ hrule hspan ih =>
    obtain ⟨hdv, t, ht⟩ := ih
    have hc : c < gF.cats.length := lz_inv_un_valid hinv hdv (List.mem_of_getElem? hrule)
    have e1 : (tablesOf gF).cats c = some gF.cats[c] := lz_lt_get hc
    have hrule' : (((tablesOf gF).un (dcat d)).map (·.catId))[rid]? = some c := hrule
    rw [List.getElem?_map] at hrule'
    obtain ⟨e, he, _⟩ := Option.map_eq_some_iff.1 hrule'
    refine ⟨hc, ?_⟩
    simp only [retrieve, ht, e1, EndToEnd.e2e_dcatId_eq, he]
    exact ⟨_, rfl⟩
  | bin c rid hl l r _ _ hadj hrule ihl ihr =>
    obtain ⟨hlv, tl, htl⟩ := ihl
    obtain ⟨hrv, tr, htr⟩ := ihr
    have hc : c < gF.cats.length :=
      lz_inv_bin_valid (r := ⟨c, hl⟩) hinv hlv hrv (List.mem_of_getElem? hrule)
    have e1 : (tablesOf gF).cats c = some gF.cats[c] := lz_lt_get hc
    have hrule' : (((tablesOf gF).bin (dcat l) (dcat r)).map
        (fun e => (⟨e.catId, e.headLeft⟩ : Search.Rule)))[rid]? = some ⟨c, hl⟩ := hrule
    rw [List.getElem?_map] at hrule'
    obtain ⟨e, he, _⟩ := Option.map_eq_some_iff.1 hrule'
    refine ⟨hc, ?_⟩
    simp only [retrieve, htl, htr, e1, EndToEnd.e2e_dcatId_eq, he]
    exact ⟨_, rfl⟩


/-- the finaliser loop succeeds when every retrieval does -/
theorem lz_treesOf_total (gst : GSt) (tokens : List Token) :
    ∀ rs : List Item, (∀ r ∈ rs, ∃ t, retrieve (tablesOf gst) tokens r.d = .ok t) →
      ∃ ts, treesOf gst tokens rs = .ok ts := by
  intro rs
  induction rs with
  | nil => intro _; exact ⟨[], rfl⟩
  | cons r rs ih =>
    intro h
    obtain ⟨t, ht⟩ := h r List.mem_cons_self
    obtain ⟨ts, hts⟩ := ih (fun r' hr' => h r' (List.mem_cons_of_mem _ hr'))
    simp only [treesOf, ht, hts]
    exact ⟨_, rfl⟩

end Depccg.LazyProps
