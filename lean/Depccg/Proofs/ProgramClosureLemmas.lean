/-
  Lemmas for Props/Program.lean, part 2: the English grammar preserves `ReadWF` (what the reader
  returns) just as it preserves `C05.WF` — the proofs of Proofs/ClosureLemmas.lean read with
  `ReadWF` for `WF` — so every category of a tree licensed by the English rule functions over read
  lexical categories and a read unary table is `ReadWF`.
-/
import Depccg.Proofs.ProgramParseLemmas
import Depccg.Proofs.ClosureLemmas

namespace Depccg.ProgramProps
open Depccg Cat Str Unify C05 C06 Closure

/-- the targets of the unary table are read values -/
def TableReadWF (table : List (Cat × List Cat)) : Prop := ∀ p ∈ table, ∀ c ∈ p.2, ReadWF c

/-- a grammar all of whose results are read values on read values -/
def GrammarClosedR (G : EndToEnd.CatGrammar) : Prop :=
  (∀ x y, ReadWF x → ReadWF y → ∀ r ∈ G.bin x y, ReadWF r.cat) ∧
  (∀ x, ReadWF x → ∀ r ∈ G.un x, ReadWF r.cat)

/-! ### structure of `ReadWF` -/

theorem pc_wf_fn {l r : Cat} {s : Nat} :
    ReadWF (.fn l s r) ↔ ReadWF l ∧ Cat.isSlashCode s = true ∧ ReadWF r := Iff.rfl

theorem pc_wf_mk_fn {l r : Cat} {s : Nat} (hl : ReadWF l) (hs : Cat.isSlashCode s = true) (hr : ReadWF r) :
    ReadWF (.fn l s r) := ⟨hl, hs, hr⟩

theorem pc_wf_fwd {l r : Cat} (hl : ReadWF l) (hr : ReadWF r) : ReadWF (.fn l cSlash r) := ⟨hl, by decide, hr⟩

theorem pc_wf_bwd {l r : Cat} (hl : ReadWF l) (hr : ReadWF r) : ReadWF (.fn l cBSlash r) := ⟨hl, by decide, hr⟩

/-- erasing the feature of an atom is fine on every atom, punctuation or not -/
theorem pc_wf_atom_none {b : Str} {f : Feat} (h : ReadWF (.atom b f)) : ReadWF (.atom b (.un none)) :=
  ⟨h.1, trivial, fun _ => rfl⟩

/-- `clear_features` (as the function `erase`, C14) preserves well-formedness -/
theorem pc_wf_erase (p : Feat → Bool) {c : Cat} (h : ReadWF c) : ReadWF (C14.erase p c) := by
  induction c with
  | atom b f =>
    simp only [C14.erase]
    split
    · exact pc_wf_atom_none h
    · exact h
  | fn l s r ihl ihr => exact ⟨ihl h.1, h.2.1, ihr h.2.2⟩

/-- `clear_features(*args)` with any argument list preserves well-formedness -/
theorem pc_wf_clear (args : List Str) {c c' : Cat} (h : ReadWF c) (hc : Cat.clear args c = .ok c') :
    ReadWF c' := by
  induction c generalizing c' with
  | atom b f =>
    simp only [Cat.clear] at hc
    split at hc
    · cases hc; exact pc_wf_atom_none h
    · cases hc; exact h
    · cases hc
  | fn l s r ihl ihr =>
    simp only [Cat.clear] at hc
    split at hc
    · cases hc
    · rename_i l' hl
      split at hc
      · cases hc
      · rename_i r' hr
        cases hc
        exact ⟨ihl h.1 hl, h.2.1, ihr h.2.2 hr⟩

/-- the features of a well-formed category are well-formed -/
theorem pc_feats_wf {t : Cat} (ht : ReadWF t) : ∀ f ∈ feats t, ReadFeat f := by
  induction t with
  | atom b g =>
    intro f hf
    simp only [feats, List.mem_singleton] at hf
    subst hf
    exact ht.2.1
  | fn l s r ihl ihr =>
    intro f hf
    simp only [feats, List.mem_append] at hf
    rcases hf with hf | hf
    · exact ihl ht.1 f hf
    · exact ihr ht.2.2 f hf

/-- the sub-categories the pattern variables stand for are well-formed -/
theorem pc_wf_matched {p t : Cat} {v : Str} {c : Cat} (h : (v, c) ∈ matched p t) (ht : ReadWF t) :
    ReadWF c := by
  induction p generalizing t with
  | atom w g =>
    simp only [matched, List.mem_singleton, Prod.mk.injEq] at h
    rw [h.2]; exact ht
  | fn pl ps pr ihl ihr =>
    cases t with
    | atom b g => simp [matched] at h
    | fn tl ts tr =>
      simp only [matched, List.mem_append] at h
      rcases h with h | h
      · exact ihl h ht.1
      · exact ihr h ht.2.2

/-! ### substitution of variable features -/

/-- a variable feature is a feature: never the absent one -/
theorem pc_var_ne_none {f : Feat} (h : f.isVariable = true) : f ≠ .un none := by
  rintro rfl
  revert h
  decide

/-- replacing variable features by well-formed features keeps a category well-formed: a variable
    feature sits on an atom that has a feature, hence not on a punctuation atom -/
theorem pc_wf_instance {pool : List Feat} (hp : ∀ f ∈ pool, ReadFeat f) {b c : Cat}
    (h : InstanceOf pool b c) (hc : ReadWF c) : ReadWF b := by
  induction b generalizing c with
  | atom n f =>
    cases c with
    | atom n' f' =>
      obtain ⟨rfl, h2⟩ := h
      rcases h2 with rfl | ⟨hv, hf⟩
      · exact hc
      · exact ⟨hc.1, hp f hf, fun hb => absurd (hc.2.2 hb) (pc_var_ne_none hv)⟩
    | fn l' s' r' => exact h.elim
  | fn l s r ihl ihr =>
    cases c with
    | atom n' f' => exact h.elim
    | fn l' s' r' =>
      obtain ⟨h1, rfl, h3⟩ := h
      exact ⟨ihl h1 hc.1, hc.2.1, ihr h3 hc.2.2⟩

/-- every binding of a successful match of well-formed categories is well-formed (any patterns) -/
theorem pc_wf_binding {px py x y : Cat} {σ : Bindings} (hx : ReadWF x) (hy : ReadWF y)
    (h : unify px py x y = .ok (some σ)) {k : Str} {b : Cat} (hg : σ.get k = .ok b) : ReadWF b := by
  obtain ⟨cats1, xf, cats2, yf, m, h1, h2, ha, rfl⟩ := unify_some_iff.1 h
  obtain ⟨_, rfl, rfl⟩ := scan_ok h1
  obtain ⟨_, rfl, rfl⟩ := scan_ok h2
  have hm : MapOK (feats x ++ feats y) m :=
    agree_mapOK (fun k f hf => List.mem_append_left _ (writes_values hf))
      (fun k f hf => List.mem_append_right _ (writes_values hf)) (MapOK.nil _) ha
  have hpool : ∀ f ∈ feats x ++ feats y, ReadFeat f := by
    intro f hf
    rcases List.mem_append.1 hf with hf | hf
    · exact pc_feats_wf hx f hf
    · exact pc_feats_wf hy f hf
  simp only [Bindings.get] at hg
  cases hc : Dict.get? (setAll (setAll ([] : Dict Str Cat) (matched px x)) (matched py y)) k with
  | none => rw [hc] at hg; cases hg
  | some c =>
    rw [hc] at hg
    cases hg
    have hwc : ReadWF c := by
      rcases get?_setAll_sub _ _ hc with h' | h'
      · exact pc_wf_matched h' hy
      · rcases get?_setAll_sub _ _ h' with h'' | h''
        · exact pc_wf_matched h'' hx
        · simp [Dict.get?] at h''
    exact pc_wf_instance hpool (instanceOf_subst hm c) hwc

/-! ### the English combinators -/

/-- `y.functor(l, r)`: the slash is the slash of the well-formed functor `y` -/
theorem pc_wf_functorOf {y l r c : Cat} (hy : ReadWF y) (hl : ReadWF l) (hr : ReadWF r)
    (h : En.functorOf y l r = .ok c) : ReadWF c := by
  cases y with
  | atom b f => cases h
  | fn yl s yr =>
    simp only [En.functorOf, Except.ok.injEq] at h
    subst h
    exact ⟨hl, hy.2.1, hr⟩

theorem pc_wf_leftOf {x l : Cat} (hx : ReadWF x) (h : Ja.leftOf x = .ok l) : ReadWF l := by
  cases x with
  | atom b f => cases h
  | fn xl s xr =>
    simp only [Ja.leftOf, Except.ok.injEq] at h
    subst h
    exact hx.1

theorem pc_wf_sNP_bwd : ReadWF (.fn En.sNP cBSlash En.sNP) := pp_wf_readWF Closure.cl_wf_sNP_bwd
theorem pc_wf_sNP_fwd : ReadWF (.fn En.sNP cSlash En.sNP) := pp_wf_readWF Closure.cl_wf_sNP_fwd

section En
set_option linter.unusedSectionVars false
variable {x y : Cat} {r : RuleRes} (hx : ReadWF x) (hy : ReadWF y)
include hx hy

theorem pc_en_fa (h : En.forwardApplication x y = .ok (some r)) : ReadWF r.cat := by
  unfold En.forwardApplication at h
  split at h
  · cases h
  · cases h
  · rename_i σ hu
    split at h
    · rw [C03.mk_inv h]; exact hy
    · split at h
      · rename_i a ha
        rw [C03.mk_inv h]; exact pc_wf_binding hx hy hu ha
      · cases h

theorem pc_en_ba (h : En.backwardApplication x y = .ok (some r)) : ReadWF r.cat := by
  unfold En.backwardApplication at h
  split at h
  · rw [C03.mk_inv h]; exact hx
  · split at h
    · cases h
    · cases h
    · rename_i σ hu
      split at h
      · rw [C03.mk_inv h]; exact hx
      · split at h
        · rename_i a ha
          rw [C03.mk_inv h]; exact pc_wf_binding hx hy hu ha
        · cases h

theorem pc_en_fc (h : En.forwardComposition x y = .ok (some r)) : ReadWF r.cat := by
  unfold En.forwardComposition at h
  split at h
  · cases h
  · cases h
  · rename_i σ hu
    split at h
    · rw [C03.mk_inv h]; exact hy
    · split at h
      · rename_i a c ha hc
        rw [C03.mk_inv h]
        exact pc_wf_fwd (pc_wf_binding hx hy hu ha) (pc_wf_binding hx hy hu hc)
      · cases h
      · cases h

theorem pc_en_bx (h : En.backwardComposition x y = .ok (some r)) : ReadWF r.cat := by
  unfold En.backwardComposition at h
  split at h
  · cases h
  · cases h
  · rename_i σ hu
    split at h
    · cases h
    · split at h
      · cases h
      · split at h
        · rw [C03.mk_inv h]; exact hx
        · split at h
          · rename_i a c ha hc
            rw [C03.mk_inv h]
            exact pc_wf_fwd (pc_wf_binding hx hy hu ha) (pc_wf_binding hx hy hu hc)
          · cases h
          · cases h

theorem pc_en_gfc (h : En.generalizedForwardComposition x y = .ok (some r)) : ReadWF r.cat := by
  unfold En.generalizedForwardComposition at h
  split at h
  · cases h
  · cases h
  · rename_i σ hu
    split at h
    · rw [C03.mk_inv h]; exact hy
    · split at h
      · rename_i a c d ha hc hd
        split at h
        · rename_i q hq
          rw [C03.mk_inv h]
          exact pc_wf_functorOf hy
            (pc_wf_fwd (pc_wf_binding hx hy hu ha) (pc_wf_binding hx hy hu hc))
            (pc_wf_binding hx hy hu hd) hq
        · cases h
      · cases h
      · cases h
      · cases h

theorem pc_en_gbx (h : En.generalizedBackwardComposition x y = .ok (some r)) : ReadWF r.cat := by
  unfold En.generalizedBackwardComposition at h
  split at h
  · cases h
  · cases h
  · rename_i σ hu
    split at h
    · cases h
    · split at h
      · cases h
      · split at h
        · rw [C03.mk_inv h]; exact hx
        · split at h
          · rename_i a c d ha hc hd
            split at h
            · rename_i q hq
              rw [C03.mk_inv h]
              exact pc_wf_functorOf hx
                (pc_wf_fwd (pc_wf_binding hx hy hu ha) (pc_wf_binding hx hy hu hc))
                (pc_wf_binding hx hy hu hd) hq
            · cases h
          · cases h
          · cases h
          · cases h

theorem pc_en_conj (h : En.conjunction x y = .ok (some r)) : ReadWF r.cat := by
  unfold En.conjunction at h
  split at h
  · cases h
  · split at h
    · rw [C03.mk_inv h]; exact pc_wf_bwd hy hy
    · cases h

theorem pc_en_conj2 (h : En.conjunction2 x y = .ok (some r)) : ReadWF r.cat := by
  unfold En.conjunction2 at h
  split at h
  · rw [C03.mk_inv h]; exact hy
  · cases h

theorem pc_en_rp1 (h : En.removePunctuation1 x y = .ok (some r)) : ReadWF r.cat := by
  unfold En.removePunctuation1 at h
  split at h
  · cases h
  · rw [C03.mk_inv h]; exact hy
  · cases h

theorem pc_en_rp2 (h : En.removePunctuation2 x y = .ok (some r)) : ReadWF r.cat := by
  unfold En.removePunctuation2 at h
  split at h
  · cases h
  · rw [C03.mk_inv h]; exact hx
  · cases h

theorem pc_en_rpl (h : En.removePunctuationLeft x y = .ok (some r)) : ReadWF r.cat := by
  unfold En.removePunctuationLeft at h
  split at h
  · rw [C03.mk_inv h]; exact pc_wf_bwd hy hy
  · cases h

theorem pc_en_comma (h : En.commaVpToAdv x y = .ok (some r)) : ReadWF r.cat := by
  unfold En.commaVpToAdv at h
  split at h
  · rw [C03.mk_inv h]; exact pc_wf_sNP_bwd
  · cases h

theorem pc_en_pds (h : En.parentheticalDirectSpeech x y = .ok (some r)) : ReadWF r.cat := by
  unfold En.parentheticalDirectSpeech at h
  split at h
  · rw [C03.mk_inv h]; exact pc_wf_sNP_fwd
  · cases h

/-- every English combinator returns a well-formed category on well-formed inputs -/
theorem pc_en_comb {c : En.Comb} (hc : c ∈ En.combinators) (h : c x y = .ok (some r)) :
    ReadWF r.cat := by
  rcases C03.mem_combinators hc with
    rfl | rfl | rfl | rfl | rfl | rfl | rfl | rfl | rfl | rfl | rfl | rfl | rfl
  · exact pc_en_fa hx hy h
  · exact pc_en_ba hx hy h
  · exact pc_en_fc hx hy h
  · exact pc_en_bx hx hy h
  · exact pc_en_gfc hx hy h
  · exact pc_en_gbx hx hy h
  · exact pc_en_conj hx hy h
  · exact pc_en_conj2 hx hy h
  · exact pc_en_rp1 hx hy h
  · exact pc_en_rp2 hx hy h
  · exact pc_en_rpl hx hy h
  · exact pc_en_comma hx hy h
  · exact pc_en_pds hx hy h

end En

/-- the English binary rule function: the seen gate and the rule list only select among
    combinator results on the inputs with `nb` erased -/
theorem pc_en_applyBinary {seen : Option (List (Cat × Cat))} {x y : Cat} {rs : List RuleRes}
    (hx : ReadWF x) (hy : ReadWF y) (h : En.applyBinary seen x y = .ok rs) : ∀ r ∈ rs, ReadWF r.cat := by
  intro r hr
  obtain ⟨c, hc, hcr⟩ := C03.applyBinary_mem (C14.clear_nb_eq x) (C14.clear_nb_eq y) h hr
  exact pc_en_comb (pc_wf_erase _ hx) (pc_wf_erase _ hy) hc hcr

/-- the English unary rule function returns targets of the table -/
theorem pc_en_applyUnary {table : List (Cat × List Cat)} {x : Cat} {r : RuleRes}
    (hr : r ∈ En.applyUnary table x) : ∃ p ∈ table, r.cat ∈ p.2 := by
  unfold En.applyUnary at hr
  split at hr
  · cases hr
  · rename_i a targets hf
    obtain ⟨t, ht, rfl⟩ := List.mem_map.1 hr
    exact ⟨_, List.mem_of_find?_eq_some hf, ht⟩

/-! ### trees -/

theorem pc_allCats_root {p : Cat → Prop} {t : Tree} (h : TextProps.AllCats p t) : p t.cat := by
  cases t with
  | leaf c tok s y => exact h
  | un c s y ch => exact h.1
  | bin c s y hl l r => exact h.1

theorem pc_licensed_wf {G : EndToEnd.CatGrammar} (hG : GrammarClosedR G) {t : Tree}
    (ht : EndToEnd.TreeLicensed G t) (hl : ∀ c ∈ leafCats t, ReadWF c) : TextProps.AllCats ReadWF t := by
  induction ht with
  | leaf c tok => exact hl c (by simp [Tree.mkTerminal, leafCats])
  | un c opS opY ch r _ hr hc _ _ ih =>
    have hch := ih hl
    refine ⟨?_, hch⟩
    rw [← hc]
    exact hG.2 _ (pc_allCats_root hch) r hr
  | bin c opS opY hd l r res _ _ hres hc _ _ _ ihl ihr =>
    have hL := ihl (fun c hc => hl c (by simp only [leafCats, List.mem_append]; exact Or.inl hc))
    have hR := ihr (fun c hc => hl c (by simp only [leafCats, List.mem_append]; exact Or.inr hc))
    refine ⟨?_, hL, hR⟩
    rw [← hc]
    exact hG.1 _ _ (pc_allCats_root hL) (pc_allCats_root hR) res hres

/-- the English grammar of the program, any seen-rule set, a read unary table -/
theorem pc_en_closed (seen : Option (List (Cat × Cat))) (table : List (Cat × List Cat))
    (ht : TableReadWF table) : GrammarClosedR (EndToEnd.enGrammar seen table) := by
  refine ⟨?_, ?_⟩
  · intro x y hx hy r hr
    simp only [EndToEnd.enGrammar] at hr
    split at hr
    · rename_i rs h
      exact pc_en_applyBinary hx hy h r hr
    · cases hr
  · intro x _ r hr
    obtain ⟨p, hp, hc⟩ := pc_en_applyUnary hr
    exact ht p hp _ hc

end Depccg.ProgramProps
