/-
  Lemmas for the statements about `Cli.fmt5e` (`Props/NumFmt.lean`); statements in
  `Props/NumFmtDefs.lean`.
-/
import Depccg.Props.NumFmtDefs
import Mathlib.Tactic.Ring

namespace Depccg.NumProps
open Depccg Str Cli

/-! ### `Str.ofNat`: the recursion, the length, reading back -/

theorem nf_natDigitsAux_acc : ∀ (n fuel : Nat) (acc : Str), n < fuel →
    natDigitsAux fuel n acc = Str.ofNat n ++ acc := by
  intro n
  induction n using Nat.strongRecOn with
  | _ n ih =>
    intro fuel acc h
    cases fuel with
    | zero => omega
    | succ f =>
      unfold Str.ofNat
      by_cases hlt : n < 10
      · simp [natDigitsAux, hlt]
      · have h1 : n / 10 < n := by omega
        rw [natDigitsAux, if_neg hlt, natDigitsAux, if_neg hlt]
        rw [ih (n / 10) h1 f _ (by omega), ih (n / 10) h1 n _ h1]
        simp

theorem nf_ofNat_lt {n : Nat} (h : n < 10) : Str.ofNat n = [48 + n] := by
  simp [Str.ofNat, natDigitsAux, h]

theorem nf_ofNat_ge {n : Nat} (h : ¬ n < 10) : Str.ofNat n = Str.ofNat (n / 10) ++ [48 + n % 10] := by
  have h1 : n / 10 < n := by omega
  conv => lhs; unfold Str.ofNat
  rw [natDigitsAux, if_neg h, nf_natDigitsAux_acc (n / 10) n _ h1]

theorem nf_ofNat_length_pos (n : Nat) : 1 ≤ (Str.ofNat n).length := by
  by_cases h : n < 10
  · simp [nf_ofNat_lt h]
  · simp [nf_ofNat_ge h]

/-- `len(str(n)) = L` pins `n` between `10^(L-1)` and `10^L` -/
theorem nf_ofNat_bounds : ∀ n : Nat, 0 < n →
    10 ^ ((Str.ofNat n).length - 1) ≤ n ∧ n < 10 ^ (Str.ofNat n).length := by
  intro n
  induction n using Nat.strongRecOn with
  | _ n ih =>
    intro hn
    by_cases h : n < 10
    · simp [nf_ofNat_lt h]; omega
    · have h1 : n / 10 < n := by omega
      have ⟨a, b⟩ := ih (n / 10) h1 (by omega)
      have hp := nf_ofNat_length_pos (n / 10)
      rw [nf_ofNat_ge h]
      simp only [List.length_append, List.length_singleton, Nat.add_sub_cancel]
      generalize (Str.ofNat (n / 10)).length = l at *
      obtain ⟨l', rfl⟩ : ∃ l', l = l' + 1 := ⟨l - 1, by omega⟩
      simp only [Nat.add_sub_cancel] at a
      rw [Nat.pow_succ] at b ⊢
      rw [Nat.pow_succ]
      omega

theorem nf_ofNat_length_le {a b : Nat} (ha : 0 < a) (hab : a ≤ b) :
    (Str.ofNat a).length ≤ (Str.ofNat b).length := by
  have ⟨a1, _⟩ := nf_ofNat_bounds a ha
  have ⟨_, b2⟩ := nf_ofNat_bounds b (by omega)
  rcases Nat.lt_or_ge (Str.ofNat b).length (Str.ofNat a).length with h | h
  · have : 10 ^ (Str.ofNat b).length ≤ 10 ^ ((Str.ofNat a).length - 1) :=
      Nat.pow_le_pow_right (by omega) (by omega)
    omega
  · exact h

theorem nf_ofNat_length_eq {n L : Nat} (h1 : 10 ^ L ≤ n) (h2 : n < 10 ^ (L + 1)) :
    (Str.ofNat n).length = L + 1 := by
  have hn : 0 < n := Nat.lt_of_lt_of_le (Nat.pow_pos (by omega)) h1
  have ⟨a, b⟩ := nf_ofNat_bounds n hn
  have hp := nf_ofNat_length_pos n
  rcases Nat.lt_trichotomy (Str.ofNat n).length (L + 1) with h | h | h
  · have : 10 ^ (Str.ofNat n).length ≤ 10 ^ L := Nat.pow_le_pow_right (by omega) (by omega)
    omega
  · exact h
  · have : 10 ^ (L + 1) ≤ 10 ^ ((Str.ofNat n).length - 1) := Nat.pow_le_pow_right (by omega) (by omega)
    omega

theorem nf_ofNat_digits : ∀ (n : Nat), ∀ c ∈ Str.ofNat n, 48 ≤ c ∧ c ≤ 57 := by
  intro n
  induction n using Nat.strongRecOn with
  | _ n ih =>
    intro c hc
    by_cases h : n < 10
    · rw [nf_ofNat_lt h] at hc
      simp at hc; omega
    · rw [nf_ofNat_ge h] at hc
      rcases List.mem_append.1 hc with hc | hc
      · exact ih (n / 10) (by omega) c hc
      · simp at hc; omega

/-- the step of `natOfDigits` -/
def dstep (acc : Option Nat) (c : Nat) : Option Nat :=
  match acc, digitVal c with
  | some a, some d => some (10 * a + d)
  | _, _ => none

theorem nf_natOfDigits_eq {s : Str} (h : s ≠ []) : natOfDigits s = s.foldl dstep (some 0) := by
  cases s with
  | nil => exact absurd rfl h
  | cons c cs => rfl

theorem nf_dstep_digit (a d : Nat) (h : d < 10) : dstep (some a) (48 + d) = some (10 * a + d) := by
  have : digitVal (48 + d) = some d := by
    unfold digitVal
    rw [if_pos (by omega)]
    congr 1; omega
  simp [dstep, this]

theorem nf_foldl_ofNat : ∀ n : Nat, (Str.ofNat n).foldl dstep (some 0) = some n := by
  intro n
  induction n using Nat.strongRecOn with
  | _ n ih =>
    by_cases h : n < 10
    · rw [nf_ofNat_lt h]
      simp only [List.foldl_cons, List.foldl_nil]
      rw [nf_dstep_digit 0 n h]; simp
    · rw [nf_ofNat_ge h, List.foldl_append, ih (n / 10) (by omega)]
      simp only [List.foldl_cons, List.foldl_nil]
      rw [nf_dstep_digit _ _ (by omega)]
      congr 1; omega

theorem nf_ofNat_ne_nil (n : Nat) : Str.ofNat n ≠ [] := by
  intro h
  have := nf_ofNat_length_pos n
  rw [h] at this
  simp at this

theorem nf_natOfDigits_ofNat (n : Nat) : natOfDigits (Str.ofNat n) = some n := by
  rw [nf_natOfDigits_eq (nf_ofNat_ne_nil n), nf_foldl_ofNat]

theorem nf_natOfDigits_pad (n : Nat) : natOfDigits (48 :: Str.ofNat n) = some n := by
  rw [nf_natOfDigits_eq (by simp), List.foldl_cons]
  have : dstep (some 0) 48 = some 0 := nf_dstep_digit 0 0 (by omega)
  rw [this, nf_foldl_ofNat]

/-! ### the digits and the exponent `fmt5e` prints -/

/-- the six digits after rounding, before the carry is folded into the exponent -/
def q1Of (n : Nat) : Nat :=
  let len := (Str.ofNat n).length
  let q0 := if len ≤ 6 then n * 10 ^ (6 - len) else n / 10 ^ (len - 6)
  let r := if len ≤ 6 then 0 else n % 10 ^ (len - 6)
  let p := 10 ^ (len - 6)
  let up := len > 6 ∧ (2 * r > p ∨ (2 * r = p ∧ q0 % 2 = 1))
  if up then q0 + 1 else q0

def qOf (n : Nat) : Nat := if q1Of n = 1000000 then 100000 else q1Of n

def eOf (n : Nat) : Int := ((Str.ofNat n).length : Int) - 7 + (if q1Of n = 1000000 then 1 else 0)

theorem nf_fmt5e_eq (k : Int) (hk : k ≠ 0) :
    fmt5e k = (if k < 0 then [45] else []) ++ (Str.ofNat (qOf (k.natAbs * 15625))).take 1 ++ [46]
      ++ (Str.ofNat (qOf (k.natAbs * 15625))).drop 1 ++ [101]
      ++ (if eOf (k.natAbs * 15625) < 0 then [45] else [43])
      ++ (if (Str.ofNat (eOf (k.natAbs * 15625)).natAbs).length < 2 then [48] else [])
      ++ Str.ofNat (eOf (k.natAbs * 15625)).natAbs := by
  have hn : ¬ k.natAbs * 15625 = 0 := by omega
  unfold fmt5e
  simp only [if_neg hn]
  rfl

/-- what `q1Of` is, in terms of the quotient and remainder by `p = 10^(len-6)` -/
theorem nf_q1Of_spec (n : Nat) (hn : 0 < n) :
    ((Str.ofNat n).length ≤ 6 ∧ q1Of n = n * 10 ^ (6 - (Str.ofNat n).length)) ∨
    (6 < (Str.ofNat n).length ∧ ∃ p q0 r : Nat, p = 10 ^ ((Str.ofNat n).length - 6) ∧
      q0 = n / p ∧ n = p * q0 + r ∧ r < p ∧ 100000 ≤ q0 ∧ q0 < 1000000 ∧
      ((q1Of n = q0 + 1 ∧ (2 * r > p ∨ (2 * r = p ∧ q0 % 2 = 1))) ∨
       (q1Of n = q0 ∧ ¬ (2 * r > p ∨ (2 * r = p ∧ q0 % 2 = 1))))) := by
  have ⟨b1, b2⟩ := nf_ofNat_bounds n hn
  by_cases hlen : (Str.ofNat n).length ≤ 6
  · left
    refine ⟨hlen, ?_⟩
    unfold q1Of
    simp only [if_pos hlen]
    rw [if_neg (by omega)]
  · right
    refine ⟨by omega, 10 ^ ((Str.ofNat n).length - 6), n / 10 ^ ((Str.ofNat n).length - 6),
      n % 10 ^ ((Str.ofNat n).length - 6), rfl, rfl, (Nat.div_add_mod _ _).symm,
      Nat.mod_lt _ (Nat.pow_pos (by omega)), ?_, ?_, ?_⟩
    · rw [Nat.le_div_iff_mul_le (Nat.pow_pos (by omega))]
      have : 100000 * 10 ^ ((Str.ofNat n).length - 6) = 10 ^ ((Str.ofNat n).length - 1) := by
        rw [show 100000 = 10 ^ 5 by norm_num, ← Nat.pow_add]
        congr 1; omega
      omega
    · rw [Nat.div_lt_iff_lt_mul (Nat.pow_pos (by omega))]
      have : 1000000 * 10 ^ ((Str.ofNat n).length - 6) = 10 ^ ((Str.ofNat n).length) := by
        rw [show 1000000 = 10 ^ 6 by norm_num, ← Nat.pow_add]
        congr 1; omega
      omega
    · unfold q1Of
      simp only [if_neg hlen]
      by_cases hup : (2 * (n % 10 ^ ((Str.ofNat n).length - 6)) > 10 ^ ((Str.ofNat n).length - 6) ∨
          (2 * (n % 10 ^ ((Str.ofNat n).length - 6)) = 10 ^ ((Str.ofNat n).length - 6) ∧
            n / 10 ^ ((Str.ofNat n).length - 6) % 2 = 1))
      · left
        refine ⟨?_, hup⟩
        rw [if_pos ⟨by omega, hup⟩]
      · right
        refine ⟨?_, hup⟩
        rw [if_neg (fun h => hup h.2)]

theorem nf_q1Of_bounds (n : Nat) (hn : 0 < n) : 100000 ≤ q1Of n ∧ q1Of n ≤ 1000000 := by
  rcases nf_q1Of_spec n hn with ⟨hlen, hq⟩ | ⟨hlen, p, q0, r, _, _, _, _, h1, h2, h | h⟩
  · have ⟨b1, b2⟩ := nf_ofNat_bounds n hn
    have hp := nf_ofNat_length_pos n
    rw [hq]
    have e1 : 10 ^ ((Str.ofNat n).length - 1) * 10 ^ (6 - (Str.ofNat n).length) = 100000 := by
      rw [← Nat.pow_add, show (Str.ofNat n).length - 1 + (6 - (Str.ofNat n).length) = 5 by omega]
    have e2 : 10 ^ ((Str.ofNat n).length) * 10 ^ (6 - (Str.ofNat n).length) = 1000000 := by
      rw [← Nat.pow_add, show (Str.ofNat n).length + (6 - (Str.ofNat n).length) = 6 by omega]
    have m1 := Nat.mul_le_mul_right (10 ^ (6 - (Str.ofNat n).length)) b1
    have m2 := Nat.mul_le_mul_right (10 ^ (6 - (Str.ofNat n).length)) (Nat.le_of_lt b2)
    omega
  · omega
  · omega

theorem nf_qOf_bounds (n : Nat) (hn : 0 < n) : 100000 ≤ qOf n ∧ qOf n < 1000000 := by
  have := nf_q1Of_bounds n hn
  unfold qOf
  split <;> omega

/-! ### reading the text back -/

theorem nf_six_digits {q : Nat} (h1 : 100000 ≤ q) (h2 : q < 1000000) :
    ∃ d0 d1 d2 d3 d4 d5, Str.ofNat q = [d0, d1, d2, d3, d4, d5] ∧ 48 ≤ d0 := by
  have hl : (Str.ofNat q).length = 5 + 1 := nf_ofNat_length_eq (by norm_num; exact h1) (by norm_num; exact h2)
  have hd := nf_ofNat_digits q
  match hs : Str.ofNat q, hl with
  | [d0, d1, d2, d3, d4, d5], _ =>
    refine ⟨d0, d1, d2, d3, d4, d5, rfl, ?_⟩
    exact (hd d0 (by rw [hs]; simp)).1

theorem nf_dec5e_build (neg : Bool) (d0 d1 d2 d3 d4 d5 sg : Nat) (es : Str) (q e : Nat)
    (hd0 : 48 ≤ d0) (hq : natOfDigits [d0, d1, d2, d3, d4, d5] = some q)
    (he : natOfDigits es = some e) (hlen : 2 ≤ es.length) :
    dec5e ((if neg then [45] else []) ++ d0 :: 46 :: d1 :: d2 :: d3 :: d4 :: d5 :: 101 :: sg :: es)
      = if sg = 43 then some (neg, q, (e : Int)) else if sg = 45 then some (neg, q, -(e : Int)) else none := by
  have hlen' : ¬ es.length < 2 := by omega
  cases neg with
  | true =>
    simp only [dec5e, if_true, List.cons_append, List.nil_append, List.head?_cons, beq_self_eq_true,
      List.drop_succ_cons, List.drop_zero, hq, he, if_neg hlen']
  | false =>
    have hne : ¬ d0 = 45 := by omega
    have hb : (d0 == 45) = false := by simp [hne]
    simp [dec5e, hq, he, hlen', hb]

/-- the text reads back as the sign, `qOf` and `eOf` -/
theorem nf_dec5e_fmt5e (k : Int) (hk : k ≠ 0) :
    dec5e (fmt5e k) = some (decide (k < 0), qOf (k.natAbs * 15625), eOf (k.natAbs * 15625)) := by
  have hn : 0 < k.natAbs * 15625 := by omega
  generalize hN : k.natAbs * 15625 = n at hn
  have ⟨q1, q2⟩ := nf_qOf_bounds n hn
  obtain ⟨d0, d1, d2, d3, d4, d5, hds, hd0⟩ := nf_six_digits q1 q2
  have hqv : natOfDigits [d0, d1, d2, d3, d4, d5] = some (qOf n) := by
    rw [← hds]; exact nf_natOfDigits_ofNat _
  rw [nf_fmt5e_eq k hk, hN, hds]
  have hsign : (if k < 0 then [45] else []) = (if decide (k < 0) then ([45] : Str) else []) := by
    by_cases h : k < 0 <;> simp [h]
  rw [hsign]
  simp only [List.take_succ_cons, List.take_zero, List.drop_succ_cons, List.drop_zero,
    List.append_assoc, List.cons_append, List.nil_append]
  by_cases hpad : (Str.ofNat (eOf n).natAbs).length < 2
  · rw [if_pos hpad]
    by_cases hneg : eOf n < 0
    · rw [if_pos hneg]
      simp only [List.cons_append, List.nil_append]
      rw [nf_dec5e_build _ d0 d1 d2 d3 d4 d5 45 _ (qOf n) (eOf n).natAbs hd0 hqv
        (nf_natOfDigits_pad _) (by have := nf_ofNat_length_pos (eOf n).natAbs; simp; omega)]
      simp only [show ¬ (45 = 43) by omega, if_false, if_true]
      congr 3; omega
    · rw [if_neg hneg]
      simp only [List.cons_append, List.nil_append]
      rw [nf_dec5e_build _ d0 d1 d2 d3 d4 d5 43 _ (qOf n) (eOf n).natAbs hd0 hqv
        (nf_natOfDigits_pad _) (by have := nf_ofNat_length_pos (eOf n).natAbs; simp; omega)]
      simp only [if_true]
      congr 3; omega
  · rw [if_neg hpad]
    by_cases hneg : eOf n < 0
    · rw [if_pos hneg]
      simp only [List.cons_append, List.nil_append]
      rw [nf_dec5e_build _ d0 d1 d2 d3 d4 d5 45 _ (qOf n) (eOf n).natAbs hd0 hqv
        (nf_natOfDigits_ofNat _) (by omega)]
      simp only [show ¬ (45 = 43) by omega, if_false, if_true]
      congr 3; omega
    · rw [if_neg hneg]
      simp only [List.cons_append, List.nil_append]
      rw [nf_dec5e_build _ d0 d1 d2 d3 d4 d5 43 _ (qOf n) (eOf n).natAbs hd0 hqv
        (nf_natOfDigits_ofNat _) (by omega)]
      simp only [if_true]
      congr 3; omega

/-! ### the arithmetic of the rounding -/

theorem nf_core_noCarry (p q0 r n q : Nat) (hnr : n = p * q0 + r) (hr : r < p)
    (h : (q = q0 + 1 ∧ (2 * r > p ∨ (2 * r = p ∧ q0 % 2 = 1))) ∨
         (q = q0 ∧ ¬ (2 * r > p ∨ (2 * r = p ∧ q0 % 2 = 1)))) :
    2 * ((q : Int) * (10 * (p : Int)) - 10 * (n : Int)).natAbs ≤ 10 * p ∧
    (2 * ((q : Int) * (10 * (p : Int)) - 10 * (n : Int)).natAbs = 10 * p → q % 2 = 0) := by
  rcases h with ⟨hq, hup⟩ | ⟨hq, hup⟩
  · have : ((q : Int) * (10 * (p : Int)) - 10 * (n : Int)) = 10 * ((p : Int) - r) := by
      rw [hq, hnr]; push_cast; ring
    rw [this]
    omega
  · have : ((q : Int) * (10 * (p : Int)) - 10 * (n : Int)) = - (10 * (r : Int)) := by
      rw [hq, hnr]; push_cast; ring
    rw [this]
    omega

theorem nf_core_carry (p r n : Nat) (hnr : n = p * 999999 + r) (hr : r < p) (hup : p ≤ 2 * r) :
    2 * (((100000 : Nat) : Int) * (100 * (p : Int)) - 10 * (n : Int)).natAbs < 100 * p := by
  subst hnr
  push_cast
  omega

theorem nf_len_ge5 {n : Nat} (hn : 15625 ≤ n) : 5 ≤ (Str.ofNat n).length := by
  have ⟨_, b2⟩ := nf_ofNat_bounds n (by omega)
  rcases Nat.lt_or_ge (Str.ofNat n).length 5 with h | h
  · have : 10 ^ (Str.ofNat n).length ≤ 10 ^ 4 := Nat.pow_le_pow_right (by omega) (by omega)
    omega
  · exact h

/-- the printed digits and exponent are the correctly rounded ones -/
theorem nf_err_spec (k : Int) (hk : k ≠ 0) :
    -2 ≤ eOf (k.natAbs * 15625) ∧
    2 * (err7 k (qOf (k.natAbs * 15625)) (eOf (k.natAbs * 15625))).natAbs
      ≤ 10 ^ (eOf (k.natAbs * 15625) + 2).toNat ∧
    (2 * (err7 k (qOf (k.natAbs * 15625)) (eOf (k.natAbs * 15625))).natAbs
      = 10 ^ (eOf (k.natAbs * 15625) + 2).toNat → qOf (k.natAbs * 15625) % 2 = 0) ∧
    ((Str.ofNat (k.natAbs * 15625)).length ≤ 6 →
      err7 k (qOf (k.natAbs * 15625)) (eOf (k.natAbs * 15625)) = 0) := by
  have hn : 15625 ≤ k.natAbs * 15625 := by omega
  have herr : ∀ q e, err7 k q e = (q : Int) * 10 ^ (e + 2).toNat - 10 * ((k.natAbs * 15625 : Nat) : Int) := by
    intro q e; rfl
  simp only [herr]
  generalize k.natAbs * 15625 = n at hn
  have ⟨b1, b2⟩ := nf_ofNat_bounds n (by omega)
  have hL5 := nf_len_ge5 hn
  unfold qOf eOf
  rcases nf_q1Of_spec n (by omega) with ⟨hlen, hq⟩ | ⟨hlen, p, q0, r, hp, _, hnr, hr, h1, h2, h⟩
  · generalize (Str.ofNat n).length = L at *
    have hL : L = 5 ∨ L = 6 := by omega
    rcases hL with rfl | rfl
    · norm_num at hq b2
      have hc : ¬ q1Of n = 1000000 := by omega
      simp only [if_neg hc]
      rw [hq]
      have : ((n * 10 : Nat) : Int) * 10 ^ (((5 : Nat) : Int) - 7 + 0 + 2).toNat - 10 * (n : Int) = 0 := by
        norm_num; ring
      rw [this]
      norm_num
    · norm_num at hq b2
      have hc : ¬ q1Of n = 1000000 := by omega
      simp only [if_neg hc]
      rw [hq]
      have : ((n : Nat) : Int) * 10 ^ (((6 : Nat) : Int) - 7 + 0 + 2).toNat - 10 * (n : Int) = 0 := by
        norm_num; ring
      rw [this]
      norm_num
  · generalize (Str.ofNat n).length = L at *
    have hpowN : 10 ^ (L - 5) = 10 * p := by
      rw [hp, show L - 5 = (L - 6) + 1 by omega, Nat.pow_succ, Nat.mul_comm]
    have hpowN2 : 10 ^ (L - 4) = 100 * p := by
      rw [hp, show L - 4 = (L - 6) + 2 by omega, Nat.pow_add, Nat.mul_comm]
    have hpow : (10 : Int) ^ (L - 5) = 10 * (p : Int) := by exact_mod_cast hpowN
    have hpow2 : (10 : Int) ^ (L - 4) = 100 * (p : Int) := by exact_mod_cast hpowN2
    by_cases hc : q1Of n = 1000000
    · simp only [if_pos hc]
      have he : (((L : Int) - 7 + 1) + 2).toNat = L - 4 := by omega
      rw [he, hpow2, hpowN2]
      have hq0 : q0 = 999999 := by omega
      subst hq0
      have hup : p ≤ 2 * r := by omega
      have := nf_core_carry p r n hnr hr hup
      refine ⟨by omega, by omega, ?_, by omega⟩
      intro _; trivial
    · simp only [if_neg hc]
      have he : (((L : Int) - 7 + 0) + 2).toNat = L - 5 := by omega
      rw [he, hpow, hpowN]
      have ⟨c1, c2⟩ := nf_core_noCarry p q0 r n (q1Of n) hnr hr h
      refine ⟨by omega, by omega, ?_, by omega⟩
      intro hh; apply c2; omega

/-! ### monotonicity -/

theorem nf_q1Of_mono {a b : Nat} (ha : 0 < a) (hab : a ≤ b)
    (hlen : (Str.ofNat a).length = (Str.ofNat b).length) : q1Of a ≤ q1Of b := by
  have hb : 0 < b := by omega
  rcases nf_q1Of_spec a ha with ⟨la, qa⟩ | ⟨la, pa, q0a, ra, hpa, hda, hna, hra, _, _, hqa⟩
  · rcases nf_q1Of_spec b hb with ⟨lb, qb⟩ | ⟨lb, _⟩
    · rw [qa, qb, hlen]
      exact Nat.mul_le_mul_right _ hab
    · omega
  · rcases nf_q1Of_spec b hb with ⟨lb, qb⟩ | ⟨lb, pb, q0b, rb, hpb, hdb, hnb, hrb, _, _, hqb⟩
    · omega
    · rw [← hlen, ← hpa] at hpb
      subst hpb
      have hq : q0a ≤ q0b := by
        rw [hda, hdb]; exact Nat.div_le_div_right hab
      rcases Nat.lt_or_ge q0a q0b with hlt | hge
      · omega
      · have : q0a = q0b := by omega
        subst this
        generalize pb * q0a = m at *
        omega

theorem nf_mono {a b : Nat} (ha : 15625 ≤ a) (hab : a ≤ b) :
    eOf a < eOf b ∨ (eOf a = eOf b ∧ qOf a ≤ qOf b) := by
  have hl := nf_ofNat_length_le (by omega) hab
  have ⟨a1, a2⟩ := nf_q1Of_bounds a (by omega)
  have ⟨b1, b2⟩ := nf_q1Of_bounds b (by omega)
  rcases Nat.lt_or_ge (Str.ofNat a).length (Str.ofNat b).length with hlt | hge
  · unfold eOf qOf
    split <;> split <;> omega
  · have heq : (Str.ofNat a).length = (Str.ofNat b).length := by omega
    have hm := nf_q1Of_mono (by omega) hab heq
    unfold eOf qOf
    rw [heq]
    split <;> split <;> omega

end Depccg.NumProps
