/-
  Lemmas about the category table (`addGet`, `addAll`, `addRoots`) and the cache rows of
  `Depccg.GlueRun`, used by `Depccg.Props.GlueRun`.
-/
import Depccg.GlueRun
import Depccg.Props.GlueRunDefs

namespace Depccg.GlueRunProps
open Depccg GlueTree GlueRun

/-! ### prefixes -/

theorem gr_prefix_get {α : Type} {l l' : List α} (h : l <+: l') {i : Nat} {c : α}
    (hi : l[i]? = some c) : l'[i]? = some c := by
  obtain ⟨t, rfl⟩ := h
  have hlt : i < l.length := by
    apply Nat.lt_of_not_le
    intro hle
    rw [List.getElem?_eq_none hle] at hi
    cases hi
  rw [List.getElem?_append_left hlt]
  exact hi

theorem gr_prefix_isSome {α : Type} {l l' : List α} (h : l <+: l') {i : Nat}
    (hi : (l[i]?).isSome) : l'[i]? = l[i]? := by
  cases hc : l[i]? with
  | none => rw [hc] at hi; cases hi
  | some c => exact gr_prefix_get h hc

/-! ### `addGet` -/

theorem gr_addGet_prefix (l : List Cat) (c : Cat) : l <+: (addGet l c).1 := by
  unfold addGet
  split
  · exact List.prefix_refl l
  · exact List.prefix_append l [c]

theorem gr_addGet_nodup (l : List Cat) (c : Cat) (h : l.Nodup) : (addGet l c).1.Nodup := by
  unfold addGet
  split
  · exact h
  · rename_i hc
    rw [List.nodup_append]
    refine ⟨h, by simp, ?_⟩
    intro a ha b hb
    rw [List.mem_singleton] at hb
    subst hb
    intro hab
    subst hab
    exact hc ha

theorem gr_addGet_get (l : List Cat) (c : Cat) : (addGet l c).1[(addGet l c).2]? = some c := by
  unfold addGet
  split
  · rename_i hc
    have hlt : l.idxOf c < l.length := List.idxOf_lt_length_iff.mpr hc
    show l[l.idxOf c]? = some c
    rw [List.getElem?_eq_getElem hlt]
    exact congrArg some (List.getElem_idxOf hlt)
  · show (l ++ [c])[l.length]? = some c
    simp

/-! ### `addAll` -/

theorem gr_addAll_cons (l : List Cat) (r : RuleRes) (rs : List RuleRes) :
    addAll l (r :: rs) =
      ((addAll (addGet l r.cat).1 rs).1,
        ⟨(addGet l r.cat).2, r.headLeft, r.opString, r.opSymbol⟩ :: (addAll (addGet l r.cat).1 rs).2) := rfl

theorem gr_addAll_prefix (rs : List RuleRes) : ∀ l : List Cat, l <+: (addAll l rs).1 := by
  induction rs with
  | nil => intro l; exact List.prefix_refl l
  | cons r rs ih =>
    intro l
    rw [gr_addAll_cons]
    exact List.IsPrefix.trans (gr_addGet_prefix l r.cat) (ih _)

theorem gr_addAll_nodup (rs : List RuleRes) : ∀ l : List Cat, l.Nodup → (addAll l rs).1.Nodup := by
  induction rs with
  | nil => intro l h; exact h
  | cons r rs ih =>
    intro l h
    rw [gr_addAll_cons]
    exact ih _ (gr_addGet_nodup l r.cat h)

theorem gr_addAll_length (rs : List RuleRes) : ∀ l : List Cat, (addAll l rs).2.length = rs.length := by
  induction rs with
  | nil => intro l; rfl
  | cons r rs ih =>
    intro l
    rw [gr_addAll_cons]
    simp [ih]

/-- one entry per result, in order, each pointing at its result's category in the FINAL list -/
theorem gr_addAll_entries (rs : List RuleRes) : ∀ (l : List Cat) (rid : Nat) (r : RuleRes),
    rs[rid]? = some r →
    ∃ e : CacheEntry, (addAll l rs).2[rid]? = some e ∧ (addAll l rs).1[e.catId]? = some r.cat ∧
      e.headLeft = r.headLeft ∧ e.opString = r.opString ∧ e.opSymbol = r.opSymbol := by
  induction rs with
  | nil => intro l rid r h; simp at h
  | cons r0 rs ih =>
    intro l rid r h
    rw [gr_addAll_cons]
    cases rid with
    | zero =>
      simp at h
      subst h
      refine ⟨_, rfl, ?_, rfl, rfl, rfl⟩
      exact gr_prefix_get (gr_addAll_prefix rs _) (gr_addGet_get l r0.cat)
    | succ k =>
      simp at h
      obtain ⟨e, he, hc, h1, h2, h3⟩ := ih (addGet l r0.cat).1 k r h
      exact ⟨e, by simpa using he, hc, h1, h2, h3⟩

/-- conversely every entry of the row comes from the result at the same position -/
theorem gr_addAll_entries_rev (rs : List RuleRes) (l : List Cat) (rid : Nat) (e : CacheEntry)
    (h : (addAll l rs).2[rid]? = some e) :
    ∃ r : RuleRes, rs[rid]? = some r ∧ (addAll l rs).1[e.catId]? = some r.cat ∧
      e.headLeft = r.headLeft ∧ e.opString = r.opString ∧ e.opSymbol = r.opSymbol := by
  have hlt : rid < rs.length := by
    rw [← gr_addAll_length rs l]
    apply Nat.lt_of_not_le
    intro hle
    rw [List.getElem?_eq_none hle] at h
    cases h
  obtain ⟨e', he', hc, h1, h2, h3⟩ := gr_addAll_entries rs l rid rs[rid] (List.getElem?_eq_getElem hlt)
  rw [h] at he'
  cases he'
  exact ⟨rs[rid], List.getElem?_eq_getElem hlt, hc, h1, h2, h3⟩

/-! ### `addRoots` -/

theorem gr_addRoots_cons (l : List Cat) (r : Cat) (rs : List Cat) :
    addRoots l (r :: rs) =
      ((addRoots (addGet l r).1 rs).1, (addGet l r).2 :: (addRoots (addGet l r).1 rs).2) := rfl

theorem gr_addRoots_prefix (rs : List Cat) : ∀ l : List Cat, l <+: (addRoots l rs).1 := by
  induction rs with
  | nil => intro l; exact List.prefix_refl l
  | cons r rs ih =>
    intro l
    rw [gr_addRoots_cons]
    exact List.IsPrefix.trans (gr_addGet_prefix l r) (ih _)

theorem gr_addRoots_nodup (rs : List Cat) : ∀ l : List Cat, l.Nodup → (addRoots l rs).1.Nodup := by
  induction rs with
  | nil => intro l h; exact h
  | cons r rs ih =>
    intro l h
    rw [gr_addRoots_cons]
    exact ih _ (gr_addGet_nodup l r h)

theorem gr_addRoots_length (rs : List Cat) : ∀ l : List Cat, (addRoots l rs).2.length = rs.length := by
  induction rs with
  | nil => intro l; rfl
  | cons r rs ih =>
    intro l
    rw [gr_addRoots_cons]
    simp [ih]

theorem gr_addRoots_ids (rs : List Cat) : ∀ (l : List Cat) (i : Nat) (r : Cat), rs[i]? = some r →
    ∃ k : Nat, (addRoots l rs).2[i]? = some k ∧ (addRoots l rs).1[k]? = some r := by
  induction rs with
  | nil => intro l i r h; simp at h
  | cons r0 rs ih =>
    intro l i r h
    rw [gr_addRoots_cons]
    cases i with
    | zero =>
      simp at h
      subst h
      exact ⟨_, rfl, gr_prefix_get (gr_addRoots_prefix rs _) (gr_addGet_get l r0)⟩
    | succ k =>
      simp at h
      obtain ⟨j, hj, hc⟩ := ih (addGet l r0).1 k r h
      exact ⟨j, by simpa using hj, hc⟩

/-! ### cache rows -/

theorem gr_binRow_cons (cats : List Cat) (bin : List ((Nat × Nat) × List CacheEntry))
    (un : List (Nat × List CacheEntry)) (x y : Nat) (es : List CacheEntry) (a b : Nat) :
    binRow ⟨cats, ((x, y), es) :: bin, un⟩ a b =
      if x = a ∧ y = b then some es else binRow ⟨cats, bin, un⟩ a b := by
  simp only [binRow, List.find?_cons]
  by_cases h : x = a ∧ y = b
  · obtain ⟨rfl, rfl⟩ := h
    simp
  · rw [if_neg h]
    have : (x == a && y == b) = false := by
      cases hx : x == a <;> cases hy : y == b <;> simp_all
    simp [this]

theorem gr_unRow_cons (cats : List Cat) (bin : List ((Nat × Nat) × List CacheEntry))
    (un : List (Nat × List CacheEntry)) (x : Nat) (es : List CacheEntry) (a : Nat) :
    unRow ⟨cats, bin, (x, es) :: un⟩ a =
      if x = a then some es else unRow ⟨cats, bin, un⟩ a := by
  simp only [unRow, List.find?_cons]
  by_cases h : x = a
  · subst h
    simp
  · rw [if_neg h]
    have : (x == a) = false := by simpa using h
    simp [this]

theorem gr_binRow_cats (cats cats' : List Cat) (bin : List ((Nat × Nat) × List CacheEntry))
    (un un' : List (Nat × List CacheEntry)) (a b : Nat) :
    binRow ⟨cats, bin, un⟩ a b = binRow ⟨cats', bin, un'⟩ a b := rfl

theorem gr_unRow_cats (cats cats' : List Cat) (bin bin' : List ((Nat × Nat) × List CacheEntry))
    (un : List (Nat × List CacheEntry)) (a : Nat) :
    unRow ⟨cats, bin, un⟩ a = unRow ⟨cats', bin', un⟩ a := rfl

theorem gr_getD_get {row : Option (List CacheEntry)} {rid : Nat} {e : CacheEntry}
    (h : (row.getD [])[rid]? = some e) : ∃ r, row = some r ∧ r[rid]? = some e := by
  cases row with
  | none => simp at h
  | some r => exact ⟨r, rfl, h⟩

theorem gr_getD_ne_nil {row : Option (List CacheEntry)} (h : row.getD [] ≠ []) :
    ∃ r, row = some r := by
  cases row with
  | none => exact absurd rfl h
  | some r => exact ⟨r, rfl⟩

/-! ### the calls -/

theorem gr_binCall_some (G : GlueRun.CatGrammar) (st : GSt) (x y : Nat) (row : List CacheEntry)
    (h : binRow st x y = some row) : binCall G st x y = st := by
  unfold binCall
  rw [h]

theorem gr_binCall_fresh (G : GlueRun.CatGrammar) (st : GSt) (x y : Nat) (cx cy : Cat)
    (h : binRow st x y = none) (hx : st.cats[x]? = some cx) (hy : st.cats[y]? = some cy) :
    binCall G st x y =
      ⟨(addAll st.cats (G.bin cx cy)).1, ((x, y), (addAll st.cats (G.bin cx cy)).2) :: st.bin, st.un⟩ := by
  unfold binCall
  rw [h, hx, hy]

theorem gr_binCall_unknown (G : GlueRun.CatGrammar) (st : GSt) (x y : Nat)
    (h : st.cats[x]? = none ∨ st.cats[y]? = none) : binCall G st x y = st := by
  unfold binCall
  cases hr : binRow st x y with
  | some row => rfl
  | none =>
    cases hx : st.cats[x]? with
    | none => rfl
    | some cx =>
      cases hy : st.cats[y]? with
      | none => rfl
      | some cy =>
        rcases h with h | h
        · rw [hx] at h; cases h
        · rw [hy] at h; cases h

theorem gr_unCall_some (G : GlueRun.CatGrammar) (st : GSt) (x : Nat) (row : List CacheEntry)
    (h : unRow st x = some row) : unCall G st x = st := by
  unfold unCall
  rw [h]

theorem gr_unCall_fresh (G : GlueRun.CatGrammar) (st : GSt) (x : Nat) (cx : Cat)
    (h : unRow st x = none) (hx : st.cats[x]? = some cx) :
    unCall G st x =
      ⟨(addAll st.cats (G.un cx)).1, st.bin, (x, (addAll st.cats (G.un cx)).2) :: st.un⟩ := by
  unfold unCall
  rw [h, hx]

theorem gr_unCall_unknown (G : GlueRun.CatGrammar) (st : GSt) (x : Nat)
    (h : st.cats[x]? = none) : unCall G st x = st := by
  unfold unCall
  cases hr : unRow st x with
  | some row => rfl
  | none => rw [h]

end Depccg.GlueRunProps
